"""C17 bounded stand-in / replay search: a known automaton is rendered in many textual layouts and must parse to exactly
that automaton (documented defaults); single-fault corruptions must be rejected with an error; whatever a parser returns
must satisfy the class invariant."""
import itertools
from .. import ref, enum as E
from ..objs import desc, build

QUICK_S, THOROUGH_S = 40, 360


def render(kind, X, rnd, opts):
    """text for automaton X; opts: states/symbols/eps (declare?), shuffle, comments, split (one label per line)"""
    lines = []
    trs = []       # (p, q, label)
    eps = getattr(X, 'epsilon', None)
    if kind == 'DFA': trs = [(p, q, a) for (p, a), q in X.delta.items()]
    elif kind == 'NFA': trs = [(p, q, a) for (p, a), T in X.delta.items() for q in T]
    elif kind == 'PDA': trs = [(p, q, '%s,%s%s' % (a, u, v)) for (p, a, u), T in X.delta.items() for (q, v) in T]
    elif kind == 'TM': trs = [(p, q, '%s%s,%s' % (a, b, d)) for (p, a), (q, b, d) in X.delta.items()]
    if opts['states']: lines.append('states ' + ' '.join(rnd.sample(sorted(X.Q), len(X.Q))))
    lines.append('initial ' + X.q0)
    if kind != 'TM': lines.append('final ' + ' '.join(sorted(X.F)))
    else: lines += ['accept ' + X.q_accept, 'reject ' + X.q_reject]
    if opts['symbols']: lines.append('input_symbols ' + ' '.join(sorted(X.Sigma)))
    if kind == 'PDA' and opts['symbols']: lines.append('stack_symbols ' + ' '.join(sorted(X.Gamma)))
    if kind == 'TM' and opts['symbols']: lines.append('tape_symbols ' + ' '.join(sorted(X.Gamma)))
    if kind in ('NFA', 'PDA') and opts['eps']: lines.append('epsilon ' + eps)
    if kind == 'TM' and opts['eps']: lines.append('blank ' + X.blank)
    groups = {}
    for (p, q, l) in trs: groups.setdefault((p, q), []).append(l)
    for (p, q), ls in groups.items():
        if opts['split']:
            for l in ls: lines.append('%s %s %s' % (p, q, l))
        else: lines.append('%s  %s   %s' % (p, q, ' '.join(rnd.sample(ls, len(ls)))))
    if opts['shuffle']: rnd.shuffle(lines)
    if opts['comments']:
        lines.insert(rnd.randint(0, len(lines)), '% a comment'); lines.insert(rnd.randint(0, len(lines)), ''); lines.insert(0, '   % another comment line ')
    return '\n'.join(lines)


def expected(kind, X, opts):
    """the automaton the text describes, with the documented defaults for omitted declarations"""
    d = desc(X)
    used = {X.q0} | set(getattr(X, 'F', set()))
    if kind == 'DFA':
        for (p, a), q in X.delta.items(): used |= {p, q}
        syms = {a for (p, a) in X.delta}
    elif kind == 'NFA':
        for (p, a), T in X.delta.items():
            if T: used |= {p} | set(T)
        syms = {a for (p, a), T in X.delta.items() if T and a != X.epsilon}
    elif kind == 'PDA':
        for (p, a, u), T in X.delta.items():
            if T: used |= {p} | {q for (q, v) in T}
        syms = {a for (p, a, u), T in X.delta.items() if T and a != X.epsilon}
    else:
        for (p, a), (q, b, dd) in X.delta.items(): used |= {p, q}
        used |= {X.q_accept, X.q_reject}
    out = {'Q': set(X.Q) if opts['states'] else used, 'q0': X.q0}
    return out


def parser(kind):
    import gambatools.dfa_algorithms as DA, gambatools.nfa_algorithms as NA, gambatools.pda_algorithms as PA, gambatools.tm_algorithms as TA
    return {'DFA': DA.parse_dfa, 'NFA': NA.parse_nfa, 'PDA': PA.parse_pda, 'TM': TA.parse_tm}[kind]


def valid(kind, Y):
    return {'DFA': ref.dfa_wf, 'NFA': ref.nfa_wf, 'PDA': ref.pda_wf, 'TM': ref.tm_wf}[kind](Y)


def chk_good(kind, d, text, full):
    from .C16 import fields
    X = build(d)
    Y = parser(kind)(text)
    if not valid(kind, Y): return False, 'object satisfying the class invariant', desc(Y)
    if full: return fields(Y) == fields(X), 'exactly the described automaton', {'text': text, 'parsed': str(fields(Y))[:500]}
    # omitted declarations: defaults derived from the transitions
    fy, fx = fields(Y), fields(X)
    ok = fy[0] <= fx[0] and Y.q0 == X.q0 and (kind == 'TM' or set(Y.F) == set(X.F))
    trY = fy[2] if kind in ('DFA', 'NFA') else fy[3]; trX = fx[2] if kind in ('DFA', 'NFA') else fx[3]
    return ok and trY == trX, 'described automaton with defaults for the omitted declarations', {'text': text, 'parsed': str(fy)[:500]}


def chk_bad(kind, text, why):
    try:
        Y = parser(kind)(text)
    except Exception as e:
        return True, None, None
    return False, 'rejected with an error (%s)' % why, {'text': text, 'parsed': str(desc(Y))[:400]}


CHECKS = {'well_formed': lambda c: chk_good(c['kind'], c['X'], c['text'], c['full']), 'malformed': lambda c: chk_bad(c['kind'], c['text'], c['why'])}
def replay(case): return CHECKS[case['check']](case['case'])


def corruptions(kind, X, rnd):
    base = render(kind, X, rnd, {'states': True, 'symbols': True, 'eps': True, 'shuffle': False, 'comments': False, 'split': True})
    lines = base.split('\n')
    trl = [l for l in lines if l.split()[0] not in ('states', 'initial', 'final', 'input_symbols', 'stack_symbols', 'tape_symbols', 'epsilon', 'blank', 'accept', 'reject')]
    yield 'no initial state', '\n'.join(l for l in lines if not l.startswith('initial'))
    if len(X.Q) > 1: yield 'two initial states', '\n'.join(('initial ' + ' '.join(sorted(X.Q)[:2])) if l.startswith('initial') else l for l in lines)
    yield 'repeated declaration', base + '\n' + next(l for l in lines if l.startswith('states'))
    # a declaration with nothing after the keyword is legal (no accepting states); writing it twice, or empty and then non-empty, is a repetition
    nofinal = '\n'.join('final' if l.startswith('final') else l for l in lines)
    if kind in ('DFA', 'NFA', 'PDA') and any(l.startswith('final') for l in lines):
        yield 'repeated empty declaration', nofinal + '\nfinal'
        yield 'empty declaration repeated with content', nofinal + '\nfinal %s' % sorted(X.Q)[0]
    yield 'undeclared state', base.replace('states ', 'states zz ', 1).replace(' zz', '', 1) + '\n' + ('%s undeclared_state a' % X.q0 if kind in ('DFA', 'NFA') else '%s undeclared_state %s' % (X.q0, trl[0].split()[2] if trl else 'a'))
    if trl:
        yield 'incomplete transition', base + '\n' + ' '.join(trl[0].split()[:2])
        if kind in ('DFA', 'NFA'): yield 'undeclared symbol', base + '\n%s %s z' % tuple(trl[0].split()[:2])
    if kind == 'DFA' and trl:
        p, q, a = trl[0].split()[:3]
        other = next((s for s in sorted(X.Q) if s != q), None)
        if other: yield 'non-deterministic', base + '\n%s %s %s' % (p, other, a)
        yield 'not total', '\n'.join(l for l in lines if l != trl[0])
    yield 'duplicate state in the states list', base.replace('states ', 'states %s ' % sorted(X.Q)[0], 1)


def run(R):
    rnd = R.rnd
    def good(kind, X, tag):
        for k in range(4 if R.tier == 'quick' else 10):
            full = k % 2 == 0
            opts = {'states': full or rnd.random() < 0.5, 'symbols': full or rnd.random() < 0.5, 'eps': full or rnd.random() < 0.5, 'shuffle': rnd.random() < 0.7, 'comments': rnd.random() < 0.5, 'split': rnd.random() < 0.4}
            is_full = opts['states'] and opts['symbols'] and opts['eps']
            if kind in ('NFA', 'PDA') and not opts['eps'] and X.epsilon not in ('_', 'ε'): continue
            if kind in ('NFA', 'PDA') and not opts['eps'] and X.epsilon == '_' and any('ε' in str(k_) for k_ in X.delta): continue
            if kind in ('NFA', 'PDA') and not opts['eps'] and X.epsilon == 'ε' and not any(T and (k_[1] == 'ε' or (kind == 'PDA' and ('ε' in k_[1:] or any(v == 'ε' for _, v in T)))) for k_, T in X.delta.items()): continue
            if kind == 'TM' and not opts['eps'] and X.blank != '_' and not (X.blank == '□' and any(a == '□' or b == '□' for (p, a), (q, b, d) in X.delta.items())): continue
            if kind == 'TM' and not opts['eps'] and X.blank == '_' and any(a == '□' or b == '□' for (p, a), (q, b, d) in X.delta.items()): continue
            if kind == 'TM' and not opts['symbols']: continue
            text = render(kind, X, rnd, opts)
            c = {'kind': kind, 'X': desc(X), 'text': text, 'full': is_full}
            R.guard('well_formed', 'parse-' + kind, lambda: c, lambda: chk_good(kind, c['X'], text, is_full) + ((tag, k),), 'parse_' + kind.lower())
    def bad(kind, X, tag):
        for why, text in corruptions(kind, X, rnd):
            c = {'kind': kind, 'text': text, 'why': why}
            R.guard('malformed', 'reject-' + kind, lambda: c, lambda: chk_bad(kind, text, why) + ((tag, why),), 'parse_' + kind.lower())
    i = 0
    while not R.out_of_time() and i < (150 if R.tier == 'quick' else 2500):
        i += 1
        D = E.random_dfa(rnd, rnd.randint(1, 4), rnd.choice(['ab', 'a', 'abc'])); good('DFA', D, 'd%d' % i); bad('DFA', D, 'd%d' % i)
        N = E.random_nfa(rnd, rnd.randint(1, 4), 'ab', eps=rnd.choice(['_', 'ε', 'e']), kind='plain'); good('NFA', N, 'n%d' % i); bad('NFA', N, 'n%d' % i)
        P = E.random_pda(rnd, nq=3, nt=5, eps=rnd.choice(['_', 'ε']), Gamma=rnd.choice([('x', 'y'), ('$', 'x'), ('%', 'x')])); good('PDA', P, 'p%d' % i); bad('PDA', P, 'p%d' % i)
        T = E.random_tm(rnd, extra=rnd.choice([('x',), ('%',)]), blank=rnd.choice(['_', '□']), halting_q0=0); good('TM', T, 't%d' % i); bad('TM', T, 't%d' % i)
    # epsilon used only in stack positions, declaration omitted (default epsilon = ε when it occurs in a label)
    from gambatools.pda_algorithms import parse_pda
    t = 'initial p\nfinal q\np q a,εX\nq q b,Xε'
    R.guard('well_formed', 'parse-PDA', lambda: {'kind': 'PDA', 'text': t}, lambda: ((lambda Y: (Y.epsilon == 'ε' and Y.Gamma == {'X'} and Y.Sigma == {'a', 'b'}, 'epsilon = ε, Gamma = {X}', desc(Y)))(parse_pda(t))) + (('eps-in-stack',),), 'parse_pda')
    R.bounds['parse'] = 'seeded random DFAs / NFAs / PDAs / TMs (1-4 states; stack / tape symbols incl. $ and %; epsilon in _, ε, e; blank _ or □) each rendered in 4 (thorough: 10) layouts: declarations present or omitted, shuffled line order, comment and blank lines, one label per line or several; nine single-fault corruptions of the fully declared text per automaton'
