import copy
from .. import ref
from ..objs import desc, build


def snap(o):
    """observable content of an argument (abstract view: empty transition entries are not observable)"""
    d = desc(o)
    if isinstance(d, dict) and d.get('type') in ('NFA',):
        d = dict(d); d['delta'] = [x for x in d['delta'] if x[2]]; d.pop('dict', None)
    if isinstance(d, dict) and d.get('type') == 'PDA':
        d = dict(d); d['delta'] = [x for x in d['delta'] if x[3]]
    return d


def unchanged(before, o):
    return before == snap(o)
