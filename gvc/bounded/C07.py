"""C07 bounded stand-in / replay search: CYK membership for arbitrary grammars and every cell of the CYK table for CNF
grammars, against an independent derivability procedure (least fixpoint over spans, no normal form needed)."""
import itertools
from .. import ref, enum as E
from ..objs import desc, build

QUICK_S, THOROUGH_S = 45, 420


def chk_acc(G, w):
    from gambatools.cfg_algorithms import cfg_accepts_word
    b = desc(G)
    got = cfg_accepts_word(G, w); exp = ref.cfg_derives(G, w)
    if desc(G) != b: return False, 'argument unchanged', 'grammar modified'
    return got is exp, exp, got


def chk_table(G, w):
    from gambatools.cfg_algorithms import cfg_cyk_matrix
    X = cfg_cyk_matrix(G, w); n = len(w)
    for i in range(n):
        for j in range(i, n):
            exp = {A for A in G.V if ref.cfg_derives_span(G, A, w, i, j)}
            got = set(X[i, j])
            if got != exp: return False, 'X[%d,%d] = %s' % (i, j, sorted(exp)), sorted(got)
    return True, None, None


CHECKS = {'cfg_accepts_word': lambda c: chk_acc(build(c['G']), c['w']), 'cfg_cyk_matrix': lambda c: chk_table(build(c['G']), c['w'])}
def replay(case): return CHECKS[case['check']](case['case'])


def random_cnf(rnd, names):
    V = names[:rnd.randint(2, len(names))]; rules = []
    for v in V:
        for _ in range(rnd.randint(1, 3)):
            rhs = [rnd.choice('ab')] if rnd.random() < 0.45 else [rnd.choice(V[1:]), rnd.choice(V[1:])]
            if (v, rhs) not in rules: rules.append((v, rhs))
    if rnd.random() < 0.3: rules.append((V[0], []))
    return E.mk_cfg(rules, S=V[0], V=V, Sigma='ab')


def run(R):
    rnd = R.rnd
    W = sorted(ref.words_upto('ab', 4), key=lambda w: (len(w), w))
    def acc(G, tag, words):
        d = desc(G)
        for w in words: R.guard('cfg_accepts_word', 'cyk-membership', lambda: {'G': d, 'w': w}, lambda: chk_acc(G, w) + ((tag, w),), 'cfg_accepts_word', timeout=20)
    def tab(G, tag, words):
        d = desc(G)
        for w in words:
            if w: R.guard('cfg_cyk_matrix', 'cyk-table', lambda: {'G': d, 'w': w}, lambda: chk_table(G, w) + ((tag, w),), 'cfg_cyk_matrix', timeout=20)
    n = 0
    for G in E.all_cfgs(2, 'a', 2, 2):
        n += 1
        if R.tier == 'quick' and n % 3: continue
        acc(G, 'ex%d' % n, ['', 'a', 'aa', 'aaa'])
    R.bounds['cfg'] = 'all grammars with variables S,A over {a}, exactly 2 rules, rhs <=2 (every third one in quick); seeded random grammars (<=3 variables, epsilon / unit / cyclic rules, rhs <=3) x words <=4; seeded random CNF grammars with single-character and multi-character variable names (NP, PP, A0 ...) x every cell of the table for words <=4'
    i = 0
    while not R.out_of_time() and i < (200 if R.tier == 'quick' else 3000):
        i += 1
        acc(E.random_cfg(rnd, nv=3, max_rules=3, max_rhs=3), 'r%d' % i, rnd.sample(W, 8))
        names = rnd.choice([['S', 'A', 'B', 'C'], ['S', 'N', 'NP', 'P', 'PP'], ['S0', 'A', 'A0', 'AA'], ['S', 'X', 'XY', 'Y']])
        G = random_cnf(rnd, names)
        ws = rnd.sample(W, 6)
        tab(G, 'cnf%d' % i, ws); acc(G, 'cnf%d' % i, ws)
    W3 = sorted(ref.words_upto('abd', 3), key=lambda w: (len(w), w)); i = 0
    while not R.out_of_time() and i < (120 if R.tier == 'quick' else 1500):       # unit-rule-rich grammars (unit cycles through the start variable)
        i += 1
        acc(E.random_unit_cfg(rnd), 'u%d' % i, rnd.sample(W3, 10))
    R.bounds['cfg-unit'] = 'seeded random grammars (2-4 variables) in which every variable has 1-3 unit alternatives in random order next to terminal / binary alternatives x 10 words of length <= 3 over {a,b,d}'
