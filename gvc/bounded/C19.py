"""C19 bounded stand-in / replay search: arguments intact, repeated calls agree, results independent of call history,
string-hash seed (fresh interpreter processes) and the logging switch."""
import itertools, json, os, subprocess, sys, io, contextlib
from .. import ref, enum as E
from ..objs import desc, build
from .common import snap

QUICK_S, THOROUGH_S = 60, 420


def canon(x, n=4):
    """observable value of a result: languages for automata / grammars / expressions, the value itself otherwise"""
    c = type(x).__name__
    if c == 'DFA': return ['L', sorted(ref.dfa_lang(x, min(9, max(n, len(x.Q)))))]      # long enough to tell the residues of a counter apart
    if c == 'NFA': return ['L', sorted(ref.nfa_lang(x, n))]
    if c == 'PDA': return ['L', sorted(ref.pda_lang(x, min(n, 3)))]
    if c == 'CFG': return ['L', sorted(ref.cfg_lang(x, min(n, 3) if len(x.R) <= 40 else (2 if len(x.R) <= 400 else 1)))]
    if c in ('Zero', 'One', 'Symbol', 'Iteration', 'Sum', 'Concat'): return ['L', sorted(ref.rx_lang(x, n))]
    if isinstance(x, (set, frozenset)): return ['S', sorted(map(str, x))]
    if isinstance(x, dict): return ['D', sorted((str(k), sorted(map(str, v)) if isinstance(v, (set, frozenset)) else str(v)) for k, v in x.items())]
    if isinstance(x, (list, tuple)): return ['T', [canon(y, n) for y in x]]
    if isinstance(x, str) and '\n' in x:      # printed automaton: label order within a line follows dict insertion order and is not observable content
        return ['P', sorted(' '.join(l.split()[:2] + sorted(l.split()[2:])) for l in x.strip().split('\n'))]
    return ['V', str(x)]


def api():
    from gambatools.global_settings import GambaTools
    GambaTools.pda_epsilon_closure_max_iterations = 40          # keeps PDA runs short; the same setting in every process
    import gambatools.dfa_algorithms as DA, gambatools.nfa_algorithms as NA, gambatools.pda_algorithms as PA, gambatools.cfg_algorithms as CA
    import gambatools.regexp_algorithms as RA, gambatools.tm_algorithms as TA, gambatools.language_generator as LG
    return {
        'DFA': [('dfa_minimize', DA.dfa_minimize), ('dfa_quotient', DA.dfa_quotient), ('dfa_hopfcroft', DA.dfa_hopfcroft), ('dfa_complement', DA.dfa_complement),
                ('dfa_reverse', DA.dfa_reverse), ('dfa_no_prefix', DA.dfa_no_prefix), ('dfa_no_extend', DA.dfa_no_extend), ('dfa_remove_unreachable_states', DA.dfa_remove_unreachable_states),
                ('dfa_to_regexp', RA.dfa_to_regexp), ('dfa_words_up_to_n', lambda D: DA.dfa_words_up_to_n(D, 3)), ('print_dfa', DA.print_dfa), ('dfa_accepts_word', lambda D: DA.dfa_accepts_word(D, 'ab' if 'b' in D.Sigma else 'aa')),
                ('dfa_simulate_word', lambda D: DA.dfa_simulate_word(D, 'aa')), ('generate_language', lambda D: LG.generate_language(D, 3))],
        'DFA2': [('dfa_union', DA.dfa_union), ('dfa_intersection', DA.dfa_intersection), ('dfa_symmetric_difference', DA.dfa_symmetric_difference),
                 ('dfa_isomorphic1', DA.dfa_isomorphic1), ('dfa_isomorphic', DA.dfa_isomorphic)],
        'NFA': [('nfa_to_dfa', NA.nfa_to_dfa), ('nfa_words_up_to_n', lambda N: NA.nfa_words_up_to_n(N, 3)), ('nfa_accepts_word', lambda N: NA.nfa_accepts_word(N, 'aa')),
                ('nfa_simulate_word', lambda N: NA.nfa_simulate_word(N, 'a') is not None), ('print_nfa', NA.print_nfa), ('nfa_repetition', NA.nfa_repetition), ('epsilon_closure', lambda N: NA.epsilon_closure(N, set(N.Q)))],
        'NFA2': [('nfa_union', NA.nfa_union), ('nfa_concatenation', NA.nfa_concatenation)],
        'PDA': [('pda_to_cfg', PA.pda_to_cfg), ('pda_to_push_pop', PA.pda_to_push_pop), ('pda_to_accept_on_empty_stack', PA.pda_to_accept_on_empty_stack), ('pda_words_up_to_n', lambda P: PA.pda_words_up_to_n(P, 2)),
                ('pda_accepts_word', lambda P: PA.pda_accepts_word(P, 'ab')), ('pda_simulate_word', lambda P: PA.pda_simulate_word(P, 'a') is not None), ('print_pda', PA.print_pda)],
        'CFG': [('cfg_to_chomsky', CA.cfg_to_chomsky), ('cfg_remove_epsilon_rules', CA.cfg_remove_epsilon_rules), ('cfg_eliminate_unit_rules', CA.cfg_eliminate_unit_rules),
                ('cfg_add_new_start_variable', CA.cfg_add_new_start_variable), ('cfg_make_rules_of_length_two', CA.cfg_make_rules_of_length_two), ('cfg_eliminate_terminals', CA.cfg_eliminate_terminals),
                ('cfg_words_up_to_n', lambda G: CA.cfg_words_up_to_n(G, 3)), ('cfg_accepts_word', lambda G: CA.cfg_accepts_word(G, 'ab')), ('cfg_nullable_variables', CA.cfg_nullable_variables)],
        'RX': [('regexp_to_nfa', RA.regexp_to_nfa), ('regexp_simplify', RA.regexp_simplify), ('regexp_words_up_to_n', lambda r: RA.regexp_words_up_to_n(r, 3)), ('regexp_accepts_word', lambda r: RA.regexp_accepts_word(r, 'ab'))],
        'TM': [('tm_accepts_word', lambda T: TA.tm_accepts_word(T, 'ab', 30)), ('tm_simulate_word', lambda T: TA.tm_simulate_word(T, 'a', 10)), ('tm_words_up_to_n', lambda T: TA.tm_words_up_to_n(T, 2, 30)), ('print_tm', TA.print_tm)],
    }


def inputs(seed, count):
    import random
    rnd = random.Random(seed); out = []
    for i in range(count):
        out.append(('DFA', [E.random_dfa(rnd, rnd.randint(2, 4), 'ab')]))
        out.append(('DFA2', [E.random_dfa(rnd, rnd.randint(2, 3), 'ab'), E.random_dfa(rnd, rnd.randint(2, 3), 'ab', names=['s0', 's1', 's2'])]))
        out.append(('NFA', [E.random_nfa(rnd, rnd.randint(2, 4), 'ab', eps=rnd.choice(['', '_']))]))
        out.append(('NFA2', [E.random_nfa(rnd, 2, 'ab', eps='_', names=['u0', 'u1']), E.random_nfa(rnd, 2, 'ab', eps='_', names=['v0', 'v1'])]))
        out.append(('PDA', [E.random_pda(rnd, nq=2, nt=3)]))
        out.append(('CFG', [E.random_cfg(rnd, nv=3, max_rules=2, max_rhs=3)]))
        out.append(('RX', [E.random_regexp(rnd, rnd.randint(2, 5), 'ab')]))
        out.append(('TM', [E.random_tm(rnd)]))
        # deeper state spaces: counters modulo k (states distinguishable only after several steps) and larger random automata;
        # iteration order of a set of k strings differs between hash seeds in many more ways than for 2-4 states
        k = (4, 6, 8, 5, 7, 9)[i % 6]
        names = ['s%d' % j for j in range(k)]
        fin = {names[0], names[k // 2]} if k % 2 == 0 else {names[0]}
        out.append(('DFA', [build({'type': 'DFA', 'Q': names, 'Sigma': ['a', 'b'], 'q0': names[rnd.randrange(k)], 'F': sorted(fin),
                                   'delta': [[names[j], 'a', names[(j + 1) % k]] for j in range(k)] + [[names[j], 'b', names[j]] for j in range(k)]})]))
        out.append(('DFA', [E.random_dfa(rnd, rnd.randint(5, 7), 'ab')]))
    return out


def twin(kind, args):
    """an object of the same kind that differs from args[0] in one component only (reveals state keyed on incomplete content)"""
    d = [dict(desc(a)) for a in args]
    a0 = d[0]
    if kind in ('DFA', 'DFA2', 'NFA', 'NFA2', 'PDA'): a0['F'] = sorted(set(a0['Q']) - set(a0['F']))
    elif kind == 'CFG':
        others = [v for v in a0['V'] if v != a0['S'] and any(r[0] == v for r in a0['R'])]
        if not others: return None
        a0['S'] = others[0]
    elif kind == 'TM': a0['q_accept'], a0['q_reject'] = a0['q_reject'], a0['q_accept']
    else: return None
    return [build(x) for x in d]


def one(fname, f, args):
    """(ok, expected, observed): arguments intact; second call and a call on rebuilt equal arguments give the same observable value"""
    before = [snap(a) for a in args]
    buf = io.StringIO()
    with contextlib.redirect_stdout(buf):
        r1 = canon(f(*args))
        if [snap(a) for a in args] != before: return False, 'arguments unchanged', 'argument modified by %s' % fname, None
        r2 = canon(f(*args))
        r3 = canon(f(*[build(d) for d in before])) if all(isinstance(d, dict) for d in before) else r1
        if [snap(a) for a in args] != before: return False, 'arguments unchanged', 'argument modified by the second call of %s' % fname, None
    if not (r1 == r2 == r3): return False, r1, [r2, r3], None
    # the owner of the first argument edits it in place (same object, new content): the answer must be the one for the new content,
    # i.e. equal to the answer on an object freshly built from the edited description (nothing may be remembered on or about the object)
    if edit_in_place(args[0]):
        after = [snap(a) for a in args]
        try:
            with contextlib.redirect_stdout(buf):
                r4 = canon(f(*args))
                r5 = canon(f(*[build(d) for d in after])) if all(isinstance(d, dict) for d in after) else r4
        except AssertionError:
            return True, None, None, r1          # the edit made the object invalid for this function's own checks: not a history question
        if r4 != r5: return False, 'after an in-place edit of the first argument: %r' % (r5,), r4, None
    return True, None, None, r1


def edit_in_place(a):
    """a small content change made on the object itself (deterministic); False when the kind has no such edit"""
    F = getattr(a, 'F', None); Q = getattr(a, 'Q', None)
    if isinstance(F, set) and isinstance(Q, set) and Q:
        q = sorted(Q)[-1]
        if q in F: F.discard(q)
        else: F.add(q)
        d = getattr(a, 'delta', None); kind = type(a).__name__
        if isinstance(d, dict) and d:
            if kind == 'NFA' and all(isinstance(v, set) for v in d.values()):
                for k in sorted(d)[:2]: d[k].update(Q)           # existing target sets gain states (same dict, same keys, same number of entries)
            elif kind == 'DFA':
                k = sorted(d)[0]; d[k] = sorted(Q)[-1] if d[k] != sorted(Q)[-1] else sorted(Q)[0]      # one transition redirected (still total)
            elif kind == 'PDA' and all(isinstance(v, set) for v in d.values()):
                k = sorted(d)[0]; d[k].add((sorted(Q)[-1], a.epsilon))                                  # an existing target set gains a move
        return True
    return False


def child(seed, count, reverse=False):
    """executed in a fresh interpreter with its own PYTHONHASHSEED: prints the canonical results of every API function"""
    from gambatools.global_settings import GambaTools
    res = {}
    A = api()
    for logging in (False, True):
        GambaTools.enable_logging = logging
        seq = []
        for i, (kind, args) in enumerate(inputs(seed, count)):
            seq.append((str(i), kind, args))
            t = twin(kind, args)
            if t is not None: seq.append(('%dtwin' % i, kind, t))
        if reverse: seq.reverse()
        for i, kind, args in seq:
            for fname, f in A[kind]:
                buf = io.StringIO()
                import signal
                def _al(*_): raise TimeoutError()
                signal.signal(signal.SIGALRM, _al); signal.alarm(10)
                try:
                    with contextlib.redirect_stdout(buf): v = canon(f(*args))
                except TimeoutError: v = ['SLOW']
                except Exception as e: v = ['EXC', type(e).__name__]
                finally: signal.alarm(0)
                res['%s/%s/%s/log=%s' % (i, kind, fname, logging)] = v
    print('@@CHILD@@' + json.dumps(res, ensure_ascii=False, default=str))


def replay(case):
    c = case['case']; A = api()
    f = dict(A[c['kind']])[c['fn']]
    ok, exp, obs, _ = one(c['fn'], f, [build(a) for a in c['args']])
    return ok, exp, obs


def run(R):
    A = api()
    count = 6 if R.tier == 'quick' else 40
    ins = inputs(R.seed, count)
    for i, (kind, args) in enumerate(ins):
        for fname, f in A[kind]:
            c = {'kind': kind, 'fn': fname, 'args': [desc(a) for a in args]}
            R.guard('api_call', 'args-intact-' + fname, lambda: c, lambda: one(fname, f, args)[:3] + ((i, fname),), fname, timeout=10, timeout_ok=True)
    # fresh processes with different string-hash seeds, logging on and off
    outs = {}
    root = os.path.dirname(os.path.dirname(os.path.dirname(os.path.abspath(__file__))))
    for hs in ([0, 1, 7] if R.tier == 'quick' else [0, 1, 2, 3, 7, 11]):
        env = dict(os.environ, PYTHONHASHSEED=str(hs))
        r = subprocess.run([sys.executable, '-c', 'import gvc.bounded.C19 as m; m.child(%d, %d, %s)' % (R.seed, count, hs % 2 == 1)], capture_output=True, text=True, env=env, cwd=root, timeout=1200)
        line = [l for l in r.stdout.split('\n') if l.startswith('@@CHILD@@')]
        if not line:
            R.fail('hash_seed', 'process-crash', {'hashseed': hs}, 'child process completes', (r.stderr or r.stdout)[-500:]); continue
        outs[hs] = json.loads(line[0][len('@@CHILD@@'):])
    seeds = sorted(outs)
    for k in (outs[seeds[0]] if seeds else {}):
        vals = [outs[s][k] for s in seeds]
        base = k.rsplit('/log=', 1)[0]
        other = [outs[s].get(base + '/log=' + ('False' if k.endswith('True') else 'True')) for s in seeds]
        if any(v == ['SLOW'] for v in vals + other): continue
        same = all(v == vals[0] for v in vals) and all(o == vals[0] for o in other)
        idx = int(k.split('/')[0].replace('twin', '')); kind = k.split('/')[1]; fn = k.split('/')[2]
        if same: R.ok('hash_seed_and_logging', k)
        else: R.fail('hash_seed_and_logging', 'hashseed-' + fn, {'kind': kind, 'fn': fn, 'args': [desc(a) for a in ins[idx][1]], 'seeds': seeds}, vals[0], [v for v in vals + other if v != vals[0]][:2], fn)
    R.notes.append('nfa_simulate_word / pda_simulate_word: only whether a run is returned is compared (which witness run is returned may legitimately depend on iteration order; witness validity is C15)')
    R.bounds['api'] = '%d seeded random inputs per kind (DFA, DFA pair, NFA, NFA pair, PDA, CFG, regexp, TM) x every non-in_place API function of that kind: argument snapshot before/after, second call, call on rebuilt equal arguments; the same calls in fresh interpreters with PYTHONHASHSEED in %s (odd seeds run the call sequence in reverse order, and every input is followed by a twin differing in one component: different call histories) and with logging on/off, compared by observable value (languages up to length 3-4, exact values for enumerators / acceptance tests / printers)' % (count, seeds)
