"""C12 bounded stand-in / replay search: every exercise checker is fed correct, nearly correct and ill-formed answers;
the verdict OK must imply the exercise's criterion, evaluated by independent oracles; reported counterexample words must
be genuine, of the right polarity and (for the language comparison) of minimal length.
C13 reuses the answer generators of this module."""
import io, contextlib, itertools, re
from .. import ref, enum as E
from ..objs import desc, build

QUICK_S, THOROUGH_S = 60, 480


def out_of(f, *a, **k):
    buf = io.StringIO()
    with contextlib.redirect_stdout(buf):
        f(*a, **k)
    return buf.getvalue().strip()


def is_ok(out): return out.split('\n')[0].strip() == 'OK'


# ---------------------------------------------------------------------------------------------- answers as the notebook generator produces them
def texts():
    import gambatools.dfa_algorithms as DA, gambatools.nfa_algorithms as NA, gambatools.cfg_algorithms as CA, gambatools.regexp_algorithms as RA
    from gambatools.regexp import print_regexp_simple
    from gambatools.notebook_chomsky import cfg_apply_chomsky
    return DA, NA, CA, RA, print_regexp_simple, cfg_apply_chomsky


def word_feedback_ok(out, LA, LR):
    """`Error: word 'w' should [not] be accepted`: w must be a genuine difference with that polarity and of minimal length"""
    m = re.match(r"Error: word '(.*)' should (not )?be accepted", out.split('\n')[-1] if "word '" in out.split('\n')[-1] else out.split('\n')[0])
    if not m: return True, None
    w = '' if m.group(1) == 'ε' else m.group(1)
    extra, missing = LA - LR, LR - LA
    if m.group(2):
        if w not in extra: return False, 'reported word %r is not accepted-by-answer-only' % w
        if len(w) != min(map(len, extra)): return False, 'reported word %r is not of minimal length' % w
    else:
        if extra: return False, 'missing word reported although extra words exist'
        if w not in missing: return False, 'reported word %r is not missing' % w
        if len(w) != min(map(len, missing)): return False, 'reported word %r is not of minimal length' % w
    return True, None


def judge(out, criterion, detail, LA=None, LR=None):
    """(ok, expected, observed) for one checker run"""
    if is_ok(out) and not criterion: return False, 'not OK: ' + detail, out[:200]
    if LA is not None and not is_ok(out):
        g, why = word_feedback_ok(out, LA, LR)
        if not g: return False, 'genuine minimal counterexample word', '%s (%s)' % (out[:120], why)
    return True, None, None


# ---------------------------------------------------------------------------------------------- the individual exercises
def ex_product(D1, D2, kind, answer_text, length):
    import gambatools.notebook_dfa as ND
    DA, NA, CA, RA, prs, chom = texts()
    f = {'union': ND.check_dfa_union, 'intersection': ND.check_dfa_intersection, 'symmetric_difference': ND.check_dfa_symmetric_difference}[kind]
    out = out_of(f, answer_text, DA.print_dfa(D1), DA.print_dfa(D2), length)
    crit, LA, LR = False, None, None
    try:
        from gambatools.automaton_algorithms import state_product_regex
        A = DA.parse_dfa(answer_text, state_regex=state_product_regex())
        L1, L2 = ref.dfa_lang(D1, length), ref.dfa_lang(D2, length)
        LR = {'union': L1 | L2, 'intersection': L1 & L2, 'symmetric_difference': L1 ^ L2}[kind]; LA = ref.dfa_lang(A, length)
        pair = lambda p, q: '(%s,%s)' % (p, q)
        expF = {pair(p, q) for p in D1.Q for q in D2.Q if {'union': p in D1.F or q in D2.F, 'intersection': p in D1.F and q in D2.F, 'symmetric_difference': (p in D1.F) != (q in D2.F)}[kind]}
        struct = A.q0 == pair(D1.q0, D2.q0) and set(A.F) == expF and A.Sigma == D1.Sigma and \
            all(re.fullmatch(r'\((\w+),(\w+)\)', q) and q[1:-1].split(',')[0] in D1.Q and q[1:-1].split(',')[1] in D2.Q for q in A.Q) and \
            all(t == pair(D1.delta[q[1:-1].split(',')[0], a], D2.delta[q[1:-1].split(',')[1], a]) for (q, a), t in A.delta.items())
        crit = LA == LR and struct
    except Exception:
        crit = False
    return judge(out, crit, 'language up to %d = %s of the operands and product structure' % (length, kind), LA, LR)


def ex_complement(D, answer_text):
    import gambatools.notebook_dfa as ND
    DA = texts()[0]
    out = out_of(ND.check_dfa_complement, answer_text, DA.print_dfa(D))
    try:
        A = DA.parse_dfa(answer_text)
        crit = A.Sigma == D.Sigma and A.Q == D.Q and A.q0 == D.q0 and A.delta == D.delta and set(A.F) == set(D.Q) - set(D.F)
    except Exception: crit = False
    return judge(out, crit, 'same Q, Sigma, delta, q0 and F = Q - F')


def ex_reverse(D, answer_text, length):
    import gambatools.notebook_dfa as ND
    DA, NA = texts()[:2]
    out = out_of(ND.check_dfa_reverse, DA.print_dfa(D), answer_text, length)
    LA = LR = None
    try:
        A = NA.parse_nfa(answer_text); LA = ref.nfa_lang(A, length); LR = {w[::-1] for w in ref.dfa_lang(D, length)}
        crit = LA == LR and A.Sigma == D.Sigma
    except Exception: crit = False
    return judge(out, crit, 'language up to %d is the mirror image' % length, LA, LR)


def ex_minimal(D, answer_text, length):
    import gambatools.notebook_dfa as ND
    DA = texts()[0]
    from gambatools.automaton_algorithms import state_word_or_set_regex
    out = out_of(ND.check_dfa_minimal, DA.print_dfa(D), answer_text, length)
    LA = LR = None
    try:
        A = DA.parse_dfa(answer_text, state_regex=state_word_or_set_regex()); LA, LR = ref.dfa_lang(A, length), ref.dfa_lang(D, length)
        crit = LA == LR and len(A.Q) == ref.nerode_classes(D, D.Q) and A.Sigma == D.Sigma
    except Exception: crit = False
    return judge(out, crit, 'same language up to %d and as many states as Myhill-Nerode classes' % length, LA, LR)


def ex_nfa2dfa(N, answer_text):
    import gambatools.notebook_nfa2dfa as NN
    NA = texts()[1]
    from gambatools.automaton_algorithms import state_set_regex
    out = out_of(NN.check_nfa2dfa, NA.print_nfa(N), answer_text)
    try:
        A = NA.parse_nfa(answer_text, state_regex=state_set_regex())
        det = all(len(A.delta.get((q, a), ())) == 1 for q in A.Q for a in A.Sigma)
        crit = det and A.Sigma == N.Sigma and ref.nfa_equiv_nfa(N, A, N.Sigma) is None
    except Exception: crit = False
    return judge(out, crit, 'deterministic, total and exactly the language of the NFA')


def ex_dfa2regexp(D, answer_text, length):
    import gambatools.notebook as NB
    DA = texts()[0]
    from gambatools.regexp_simple_parser import parse_simple_regexp
    out = out_of(NB.check_dfa2regexp, DA.print_dfa(D), answer_text, length)
    LA = LR = None
    try:
        r = parse_simple_regexp(answer_text); LA, LR = ref.rx_lang(r, length), ref.dfa_lang(D, length); crit = LA == LR
    except Exception: crit = False
    return judge(out, crit, 'same language up to %d' % length, LA, LR)


def ex_words(kind, text, word_list, length, max_states):
    import gambatools.notebook as NB
    f = {'dfa': NB.check_dfa_language_from_words, 'nfa': NB.check_nfa_language_from_words, 'regexp': NB.check_regexp_language_from_words, 'cfg': NB.check_cfg_language_from_words}[kind]
    out = out_of(f, text, word_list, length, max_states) if kind in ('dfa', 'nfa') else out_of(f, text, word_list, length)
    LA = LR = None
    try:
        DA, NA, CA = texts()[:3]
        from gambatools.regexp_simple_parser import parse_simple_regexp
        LR = {('' if w in ('ε', '_') else w) for w in word_list.split()}
        if kind == 'dfa': A = DA.parse_dfa(text); LA = ref.dfa_lang(A, length)
        elif kind == 'nfa': A = NA.parse_nfa(text); LA = ref.nfa_lang(A, length)
        elif kind == 'regexp': A = parse_simple_regexp(text); LA = ref.rx_lang(A, length)
        else: A = CA.parse_simple_cfg(text); LA = ref.cfg_lang(A, length)
        crit = LA == LR and (kind not in ('dfa', 'nfa') or max_states <= 0 or len(A.Q) <= max_states)
    except Exception: crit = False
    return judge(out, crit, 'language up to %d equals the word list (and the state limit holds)' % length, LA, LR)


def ex_accepts_rejects(D, acc, rej):
    import gambatools.notebook as NB
    DA = texts()[0]
    out = out_of(NB.check_dfa_accepts_rejects, DA.print_dfa(D), ' '.join(w or 'ε' for w in acc), ' '.join(w or 'ε' for w in rej))
    crit = all(ref.dfa_accepts(D, w) for w in acc) and not any(ref.dfa_accepts(D, w) for w in rej)
    if not is_ok(out):
        m = re.match(r"Error: word '(.*)' should (not )?be accepted", out)
        if m:
            w = '' if m.group(1) == 'ε' else m.group(1)
            good = (w in rej and ref.dfa_accepts(D, w)) if m.group(2) else (w in acc and not ref.dfa_accepts(D, w))
            if not good: return False, 'genuine counterexample word', out
    return judge(out, crit, 'every listed word has the required verdict')


def ex_chomsky(G, answer_text, phase, start_variable, length):
    import gambatools.notebook_chomsky as NC
    CA = texts()[2]
    from .C08 import post_no_eps, post_no_unit, post_len2
    out = out_of(NC.cfg_check_chomsky, CA.cfg_print_simple(G), answer_text, phase, start_variable, length)
    LA = LR = None
    try:
        A = CA.parse_simple_cfg(answer_text); LA, LR = ref.cfg_lang(A, length), ref.cfg_lang(G, length)
        crit = LA == LR and (phase < 1 or A.S == start_variable) and (phase < 2 or post_no_eps(A)) and (phase < 3 or post_no_unit(A)) and (phase < 4 or post_len2(A)) and \
            (phase < 5 or all(len(r.alternative.symbols) == 0 or (len(r.alternative.symbols) == 1 and r.alternative.symbols[0] in A.Sigma) or (len(r.alternative.symbols) == 2 and all(x in A.V for x in r.alternative.symbols)) for r in A.R))
    except Exception: crit = False
    return judge(out, crit, 'same language up to %d and the postconditions of phases 1..%d' % (length, phase), LA, LR)


def ex_cyk(G, word, answer_text):
    import gambatools.notebook_cfg as NG
    NG.display = lambda *_: None
    CA = texts()[2]
    out = out_of(NG.check_cyk_matrix, CA.cfg_print_simple(G), word, answer_text)
    try:
        n = len(word); rows = [l.split() for l in answer_text.strip().split('\n')]
        crit = len(rows) == n and all(len(rows[i]) == i + 1 for i in range(n))
        if crit:
            for i, row in enumerate(reversed(rows)):       # bottom row = spans of length 1
                for j, cell in enumerate(row):
                    got = set(re.sub(r'[{},]', '', cell)); exp = {A for A in G.V if ref.cfg_derives_span(G, A, word, j, i + j)}
                    if got != exp: crit = False
    except Exception: crit = False
    return judge(out, crit, 'every cell of the full triangle equals the set of variables deriving that span')


def ex_derivation(G, derivation, word, kind):
    import gambatools.notebook_cfg as NG
    CA = texts()[2]
    out = out_of(NG.check_cfg_derivation, CA.cfg_print_simple(G), derivation, word, kind)
    try:
        els = [list(x.strip()) for x in derivation.strip().split('=>')]
        crit = bool(els) and els[0] == [str(G.S)] and els[-1] == list(word) and all(ref.cfg_step_ok(G, x, y, kind) for x, y in zip(els, els[1:])) and \
            all((c in G.V) or (c in G.Sigma) for e in els for c in e)
    except Exception: crit = False
    return judge(out, crit, 'a %s derivation of the word from the start variable' % kind)


def ex_compare(A1, A2):
    from gambatools.language_generator import compare_languages
    fb = compare_languages(set(A1), set(A2))
    if not fb: return (set(A1) == set(A2)), 'no feedback only for equal languages', fb
    if len(fb) != 1: return False, 'exactly one message', fb
    g, why = word_feedback_ok(fb[0], set(A1), set(A2))
    return g and set(A1) != set(A2), 'genuine minimal counterexample', '%s %s' % (fb, why)


CHECKS = {
    'product': lambda c: ex_product(build(c['D1']), build(c['D2']), c['kind'], c['answer'], c['length']),
    'complement': lambda c: ex_complement(build(c['D']), c['answer']),
    'reverse': lambda c: ex_reverse(build(c['D']), c['answer'], c['length']),
    'minimal': lambda c: ex_minimal(build(c['D']), c['answer'], c['length']),
    'nfa2dfa': lambda c: ex_nfa2dfa(build(c['N']), c['answer']),
    'dfa2regexp': lambda c: ex_dfa2regexp(build(c['D']), c['answer'], c['length']),
    'words': lambda c: ex_words(c['kind'], c['text'], c['word_list'], c['length'], c['max_states']),
    'accepts_rejects': lambda c: ex_accepts_rejects(build(c['D']), c['acc'], c['rej']),
    'chomsky': lambda c: ex_chomsky(build(c['G']), c['answer'], c['phase'], c['start'], c['length']),
    'cyk': lambda c: ex_cyk(build(c['G']), c['word'], c['answer']),
    'derivation': lambda c: ex_derivation(build(c['G']), c['derivation'], c['word'], c['kind']),
    'compare_languages': lambda c: ex_compare(c['A1'], c['A2']),
}
def replay(case): return CHECKS[case['check']](case['case'])


# ---------------------------------------------------------------------------------------------- answer mutation
def mutate_automaton_text(rnd, text):
    """a nearly correct answer: one edit of the printed automaton"""
    lines = text.strip().split('\n')
    kind = rnd.choice(['final', 'transition', 'drop', 'label', 'initial'])
    idx_tr = [i for i, l in enumerate(lines) if l.split() and l.split()[0] not in ('states', 'final', 'initial', 'input_symbols', 'epsilon')]
    states = next((l.split()[1:] for l in lines if l.startswith('states')), [])
    if kind == 'final' and states:
        i = next(i for i, l in enumerate(lines) if l.startswith('final')); fs = lines[i].split()[1:]; q = rnd.choice(states)
        fs = [x for x in fs if x != q] if q in fs else fs + [q]; lines[i] = 'final ' + ' '.join(fs)
    elif kind == 'transition' and idx_tr and states:
        i = rnd.choice(idx_tr); w = lines[i].split(); w[1] = rnd.choice(states); lines[i] = ' '.join(w)
    elif kind == 'drop' and idx_tr:
        del lines[rnd.choice(idx_tr)]
    elif kind == 'label' and idx_tr:
        i = rnd.choice(idx_tr); w = lines[i].split()
        if len(w) > 3: w = w[:-1]
        else: w[2] = rnd.choice('ab')
        lines[i] = ' '.join(w)
    elif kind == 'initial' and states:
        i = next(i for i, l in enumerate(lines) if l.startswith('initial')); lines[i] = 'initial ' + rnd.choice(states)
    return '\n'.join(lines)


def simple_cfg(rnd, productive=True, nullable=False):
    while True:
        V = ['S', 'A', 'B'][:rnd.randint(1, 3)]; rules = []
        for v in V:
            for _ in range(rnd.randint(1, 3)):
                rhs = [rnd.choice(V + ['a', 'b', 'a', 'b']) for _ in range(rnd.randint(0 if not productive else 1, 3))]
                if (v, rhs) not in rules: rules.append((v, rhs))
        if nullable: rules.append((rnd.choice(V), []))       # an epsilon rule (the variable keeps its other, productive rules)
        G = E.mk_cfg(rules, S='S', V=V, Sigma=sorted({x for _, r in rules for x in r if x not in V}) or ['a'], eps='ε')
        if not productive: return G
        # non-degenerate: every variable derives a non-empty word
        if all(any(ref.cfg_derives(G, w, start=v) for w in ref.words('ab', 3) if w) for v in V): return G


def run(R):
    rnd = R.rnd
    DA, NA, CA, RA, prs, chom = texts()
    g = lambda grp, case, th, key, fn: R.guard(grp, 'checker-' + grp, lambda: case, th, fn, timeout=30, timeout_ok=True)
    i = 0
    L = 5
    def body(i):
        D1 = E.random_dfa(rnd, rnd.randint(1, 3), 'ab'); D2 = E.random_dfa(rnd, rnd.randint(1, 3), 'ab', names=['s0', 's1', 's2'])
        D = E.random_dfa(rnd, rnd.randint(2, 4), 'ab')
        for kind, f in (('union', DA.dfa_union), ('intersection', DA.dfa_intersection), ('symmetric_difference', DA.dfa_symmetric_difference)):
            good = DA.print_dfa(f(D1, D2))
            for ans in (good, mutate_automaton_text(rnd, good), mutate_automaton_text(rnd, good), DA.print_dfa(D1)):
                c = {'D1': desc(D1), 'D2': desc(D2), 'kind': kind, 'answer': ans, 'length': L}
                g('product', c, lambda: ex_product(D1, D2, kind, ans, L) + ((i, kind, ans),), None, 'check_dfa_' + kind)
        good = DA.print_dfa(DA.dfa_complement(D))
        for ans in (good, DA.print_dfa(D), mutate_automaton_text(rnd, good), mutate_automaton_text(rnd, good)):
            g('complement', {'D': desc(D), 'answer': ans}, lambda: ex_complement(D, ans) + ((i, ans),), None, 'check_dfa_complement')
        good = NA.print_nfa(DA.dfa_reverse(D))
        for ans in (good, mutate_automaton_text(rnd, good), mutate_automaton_text(rnd, good)):
            g('reverse', {'D': desc(D), 'answer': ans, 'length': L}, lambda: ex_reverse(D, ans, L) + ((i, ans),), None, 'check_dfa_reverse')
        good = DA.print_dfa(DA.dfa_quotient(D))
        for ans in (good, DA.print_dfa(D), DA.print_dfa(DA.dfa_hopfcroft(D)), mutate_automaton_text(rnd, good)):
            g('minimal', {'D': desc(D), 'answer': ans, 'length': L}, lambda: ex_minimal(D, ans, L) + ((i, ans),), None, 'check_dfa_minimal')
        N = E.random_nfa(rnd, rnd.randint(2, 3), 'ab', eps=rnd.choice(['_', 'ε']), kind='default')
        good = DA.print_dfa(NA.nfa_to_dfa(N))
        for ans in (good, mutate_automaton_text(rnd, good), mutate_automaton_text(rnd, good)):
            g('nfa2dfa', {'N': desc(N), 'answer': ans}, lambda: ex_nfa2dfa(N, ans) + ((i, ans),), None, 'check_nfa2dfa')
        good = prs(RA.dfa_to_regexp(D))
        for ans in (good, prs(E.random_regexp(rnd, 3, 'ab')), good + 'a', '(' + good + ')*'):
            g('dfa2regexp', {'D': desc(D), 'answer': ans, 'length': L}, lambda: ex_dfa2regexp(D, ans, L) + ((i, ans),), None, 'check_dfa2regexp')
        words = sorted(ref.dfa_lang(D, 4)); wl = ' '.join(w or 'ε' for w in words)
        for (txt, wlist, ms) in ((DA.print_dfa(D), wl, 0), (DA.print_dfa(D), wl, len(D.Q) - 1), (DA.print_dfa(D), ' '.join((wl.split() or ['a'])[:-1]), 0), (mutate_automaton_text(rnd, DA.print_dfa(D)), wl, 0), (DA.print_dfa(D), wl + ' abab', 0)):
            g('words', {'kind': 'dfa', 'text': txt, 'word_list': wlist, 'length': 4, 'max_states': ms}, lambda: ex_words('dfa', txt, wlist, 4, ms) + ((i, txt, wlist, ms),), None, 'check_dfa_language_from_words')
        r = E.random_regexp(rnd, rnd.randint(2, 5), 'ab'); wl2 = ' '.join(w or 'ε' for w in sorted(ref.rx_lang(r, 3)))
        for (txt, wlist) in ((prs(r), wl2), (prs(r), wl2 + ' bab'), (prs(E.random_regexp(rnd, 3, 'ab')), wl2)):
            g('words', {'kind': 'regexp', 'text': txt, 'word_list': wlist, 'length': 3, 'max_states': 0}, lambda: ex_words('regexp', txt, wlist, 3, 0) + ((i, txt, wlist),), None, 'check_regexp_language_from_words')
        acc = rnd.sample(sorted(ref.words_upto('ab', 3)), 4); rej = rnd.sample(sorted(ref.words_upto('ab', 3)), 4)
        g('accepts_rejects', {'D': desc(D), 'acc': acc, 'rej': rej}, lambda: ex_accepts_rejects(D, acc, rej) + ((i, tuple(acc), tuple(rej)),), None, 'check_dfa_accepts_rejects')
        A1 = rnd.sample(sorted(ref.words_upto('ab', 3)), rnd.randint(0, 6)); A2 = rnd.choice([A1, rnd.sample(sorted(ref.words_upto('ab', 3)), rnd.randint(0, 6)), A1[:-1], A1 + ['abba']])
        g('compare_languages', {'A1': A1, 'A2': A2}, lambda: ex_compare(A1, A2) + ((tuple(A1), tuple(A2)),), None, 'compare_languages')
        # grammar exercises
        G = simple_cfg(rnd)
        start = 'T'
        for phase in range(1, 6):
            good = CA.cfg_print_simple(chom(G, phase, start))
            other = CA.cfg_print_simple(chom(G, max(1, phase - 1), start))
            G2 = simple_cfg(rnd)
            for ans in (good, other, CA.cfg_print_simple(G2)):
                g('chomsky', {'G': desc(G), 'answer': ans, 'phase': phase, 'start': start, 'length': 4}, lambda: ex_chomsky(G, ans, phase, start, 4) + ((i, phase, ans),), None, 'cfg_check_chomsky')
        C = CA.cfg_to_chomsky(G)
        try: simple = CA.cfg_is_simple(C)
        except Exception: simple = False
        if simple:
            ws = [w for w in ref.words('ab', 3) if w and ref.cfg_derives(C, w)][:3] + ['ab']
            for w in ws:
                good = CA.cfg_print_cyk_matrix(CA.cfg_cyk_matrix(C, w), len(w))
                rows = good.split('\n')
                variants = [good, '\n'.join(rows[1:]) if len(rows) > 1 else good, good.replace('{}', '{S}', 1), rows[-1]]
                for ans in variants:
                    g('cyk', {'G': desc(C), 'word': w, 'answer': ans}, lambda: ex_cyk(C, w, ans) + ((i, w, ans),), None, 'check_cyk_matrix')
                if ref.cfg_derives(C, w):
                    for kind in ('leftmost', 'rightmost'):
                        d = CA.cfg_derive_word(C, w, kind); good = ' => '.join(''.join(e) for e in d)
                        other = ' => '.join(''.join(e) for e in CA.cfg_derive_word(C, w, 'rightmost' if kind == 'leftmost' else 'leftmost'))
                        for ans in (good, other, ' => '.join(good.split(' => ')[:-1]), good.replace('=>', '=> ' + str(C.S) + ' =>', 1)):
                            g('derivation', {'G': desc(C), 'derivation': ans, 'word': w, 'kind': kind}, lambda: ex_derivation(C, ans, w, kind) + ((i, w, kind, ans),), None, 'check_cfg_derivation')
        # CYK tables for dense CNF grammars and longer words (splits with an empty half before a productive one)
        from .C07 import random_cnf
        Gc = random_cnf(rnd, ['S', 'A', 'B', 'C'])
        for w in rnd.sample(sorted(ref.words_of_len('ab', 3)) + sorted(ref.words_of_len('ab', 4)), 4):
            good = CA.cfg_print_cyk_matrix(CA.cfg_cyk_matrix(Gc, w), len(w))
            rows_ = good.split('\n')
            prefix_table = CA.cfg_print_cyk_matrix(CA.cfg_cyk_matrix(Gc, w[:-1]), len(w) - 1)      # a correct but too small triangle (the table of a prefix)
            for ans in (good, good.replace('{}', '{A}', 1), '\n'.join(rows_[1:]), rows_[-1], prefix_table):
                g('cyk', {'G': desc(Gc), 'word': w, 'answer': ans}, lambda: ex_cyk(Gc, w, ans) + ((i, 'cnf', w, ans),), None, 'check_cyk_matrix')
    def protect(i):
        try: body(i)
        except Exception as e:
            import traceback
            R.fail('answer_generation', 'library-raised-while-computing-an-answer', {'iteration': i, 'seed': R.seed}, 'the library computes its own answer without an exception',
                   '%s: %s @ %s' % (type(e).__name__, e, traceback.format_exc().strip().split('\n')[-3].strip()), 'answer generation')
    while not R.out_of_time() and i < (60 if R.tier == 'quick' else 1200):
        i += 1
        protect(i)
    R.bounds['checkers'] = 'seeded random reference objects (DFAs 1-4 states over {a,b}, NFAs 2-3 states, regexps, simple grammars with <=3 variables) x for each exercise the library-computed answer, 2-3 single-edit mutations of it (final state flipped, transition redirected, line dropped, label changed, initial state changed) and unrelated / structurally wrong answers (previous phase, other derivation order, table with missing rows); checker length bounds 3-5'
