"""entry point (under /venv/bin/python):  python -m gvc.bounded.run C01 --tier quick --seed 0 [--replay file]"""
import sys, json, argparse, importlib, os


def main():
    ap = argparse.ArgumentParser()
    ap.add_argument('pid'); ap.add_argument('--tier', default='quick'); ap.add_argument('--seed', type=int, default=0)
    ap.add_argument('--budget', type=float, default=None); ap.add_argument('--replay', default=None)
    a = ap.parse_args()
    mod = importlib.import_module('gvc.bounded.%s' % a.pid)
    from . import Run
    budget = a.budget if a.budget is not None else (getattr(mod, 'QUICK_S', 40) if a.tier == 'quick' else getattr(mod, 'THOROUGH_S', 400))
    R = Run(a.pid, a.tier, a.seed, budget)
    if a.replay:
        case = json.load(open(a.replay))
        ok, exp, obs = mod.replay(case)
        print(json.dumps({'replay_ok': ok, 'expected': exp, 'observed': obs}, ensure_ascii=False, default=str))
        sys.exit(0 if ok else 1)
    # silence the library's prints
    real_stdout = sys.stdout
    try:
        mod.run(R)
    finally:
        sys.stdout = real_stdout
    print('@@RESULT@@' + json.dumps(R.result(), ensure_ascii=False, default=str))


if __name__ == '__main__':
    main()
