"""C20 bounded stand-in / replay search: both isomorphism tests against a reference decision procedure; termination by time limit."""
import itertools
from .. import ref, enum as E
from ..objs import desc, build
from .common import snap

QUICK_S, THOROUGH_S = 30, 300


def chk(D1, D2, which):
    import gambatools.dfa_algorithms as A
    f = {'dfa_isomorphic1': A.dfa_isomorphic1, 'dfa_isomorphic': A.dfa_isomorphic}[which]
    b = (snap(D1), snap(D2))
    got = f(D1, D2); got_sym = f(D2, D1)
    exp = ref.dfa_isomorphic_ref(D1, D2)
    if (snap(D1), snap(D2)) != b: return False, 'arguments unchanged', 'modified'
    return got is exp and got_sym is exp, exp, (got, got_sym)


CHECKS = {w: (lambda w: lambda c: chk(build(c['D1']), build(c['D2']), w))(w) for w in ('dfa_isomorphic1', 'dfa_isomorphic')}
def replay(case): return CHECKS[case['check']](case['case'])


def renamed(rnd, D, prefix='r'):
    from gambatools.dfa import DFA
    qs = sorted(D.Q); perm = qs[:]; rnd.shuffle(perm)
    h = {q: prefix + p for q, p in zip(qs, perm)}
    return DFA({h[q] for q in D.Q}, set(D.Sigma), {(h[q], a): h[t] for (q, a), t in D.delta.items()}, h[D.q0], {h[q] for q in D.F})


def run(R):
    rnd = R.rnd
    def case(D1, D2, tag):
        for w in ('dfa_isomorphic1', 'dfa_isomorphic'):
            R.guard(w, 'dfa-isomorphism', lambda: {'D1': desc(D1), 'D2': desc(D2)}, lambda: chk(D1, D2, w) + ((tag, w),), w, timeout=5)
    small = list(itertools.chain(E.all_dfas(1, 'a'), E.all_dfas(2, 'a'), E.all_dfas(3, 'a')))
    small2 = list(E.all_dfas(2, 'ab'))
    for i, (A_, B_) in enumerate(itertools.product(small, small)):
        if R.tier == 'quick' and i % 3: continue
        case(A_, renamed(rnd, B_, 's'), 'u%d' % i)
    for i, (A_, B_) in enumerate(itertools.product(small2[::3], small2[::2])):
        case(A_, renamed(rnd, B_, 's'), 'b%d' % i)
    i = 0
    while not R.out_of_time() and i < (400 if R.tier == 'quick' else 6000):
        i += 1
        D = E.random_dfa(rnd, rnd.randint(2, 5), 'ab'[:rnd.randint(1, 2)])
        case(D, renamed(rnd, D), 'iso%d' % i)                                 # isomorphic by construction
        D2 = renamed(rnd, D)
        if rnd.random() < 0.5 and D2.Q:                                      # flip acceptance of one state (possibly the initial one)
            q = rnd.choice(sorted(D2.Q)); D2.F ^= {q}
        else:                                                                # redirect one transition
            k = rnd.choice(sorted(D2.delta)); D2.delta[k] = rnd.choice(sorted(D2.Q))
        case(D, D2, 'near%d' % i)
        # equivalent but not isomorphic: duplicate a state
        from gambatools.dfa import DFA
        q = rnd.choice(sorted(D.Q)); dup = q + 'x'
        delta = dict(D.delta)
        for a in D.Sigma: delta[dup, a] = D.delta[q, a]
        k = rnd.choice(sorted(D.delta))
        if D.delta[k] == q: delta[k] = dup
        D3 = DFA(set(D.Q) | {dup}, set(D.Sigma), delta, D.q0, set(D.F) | ({dup} if q in D.F else set()))
        case(D, D3, 'split%d' % i)
    R.bounds['iso'] = 'all pairs of DFAs with <=3 states over {a} (every third pair in quick) and a grid of 2-state DFAs over {a,b}; seeded random: renamed copies, single-fault variants (acceptance flip incl. the initial state, redirected transition), state-splitting (equivalent, not isomorphic), 2-5 states; each call limited to 5 s (termination)'
