"""C09 bounded stand-in / replay search: PDA acceptance, sound always and complete below the closure limit, against an
exact reference (CFL-reachability over (state, position) nodes: unbounded stacks and epsilon cycles handled exactly)."""
from .. import ref, enum as E
from ..objs import desc, build
from .common import snap

QUICK_S, THOROUGH_S = 40, 400


def chk(P, w, limit):
    from gambatools.pda_algorithms import pda_accepts_word
    from gambatools.global_settings import GambaTools
    old = GambaTools.pda_epsilon_closure_max_iterations; GambaTools.pda_epsilon_closure_max_iterations = limit
    b = snap(P)
    try: got = pda_accepts_word(P, w)
    finally: GambaTools.pda_epsilon_closure_max_iterations = old
    if snap(P) != b: return False, 'argument unchanged', 'modified'
    exp = ref.pda_accepts(P, w)
    if got and not exp: return False, 'False (no accepting computation exists)', got
    if exp and not got and ref.pda_closure_sizes_ok(P, w, limit): return False, 'True (accepting computation exists, every closure has at most %d configurations)' % limit, got
    return isinstance(got, bool), 'bool', got


CHECKS = {'pda_accepts_word': lambda c: chk(build(c['P']), c['w'], c['limit'])}
def replay(case): return CHECKS[case['check']](case['case'])


def hand():
    from gambatools.pda import PDA
    from collections import defaultdict
    def mk(Q, Sg, Gm, trs, q0, F, eps=''):
        d = defaultdict(set)
        for (p, a, u, q, v) in trs: d[p, a, u].add((q, v))
        return PDA(set(Q), set(Sg), set(Gm), d, q0, set(F), eps)
    yield mk('pq', 'ac', ['a', 'b', 'ab'], [('p', 'a', '', 'p', 'ab'), ('p', 'a', '', 'p', 'a'), ('p', 'c', 'ab', 'q', ''), ('p', 'c', 'b', 'q', 'a')], 'p', 'q')   # multi-character stack symbols
    yield mk('spf', 'ab', 'x', [('s', '', '', 'p', 'x'), ('p', 'a', '', 'p', 'x'), ('p', 'b', 'x', 'p', ''), ('p', '', 'x', 'f', '')], 's', 'f')
    yield mk('spmrf', 'xy', ['a', 'b', 'ab'], [('s', '', '', 'm', 'ab'), ('s', '', '', 'p', 'a'), ('p', '', '', 'm', 'b'), ('m', 'x', 'ab', 'f', ''), ('m', 'y', 'b', 'r', ''), ('r', '', 'a', 'f', '')], 's', 'f')   # stacks [ab] and [a,b] in one closure
    yield mk('spmrf', 'xy', ['a', 'b', 'ab'], [('s', '', '', 'p', 'a'), ('p', '', '', 'm', 'b'), ('s', '', '', 'm', 'ab'), ('m', 'y', 'b', 'r', ''), ('r', '', 'a', 'f', ''), ('m', 'x', 'ab', 'f', '')], 's', 'f')
    yield mk('s', 'a', 'x', [('s', '', '', 's', 'x'), ('s', 'a', 'x', 's', '')], 's', 's')          # epsilon cycle that grows the stack
    yield mk('st', 'a', 'xy', [('s', '', '', 't', ''), ('t', '', '', 's', ''), ('s', 'a', '', 't', 'x'), ('t', 'a', 'x', 's', 'y')], 's', 't')   # epsilon cycle, replace move


def run(R):
    rnd = R.rnd
    def case(P, tag, limits):
        d = desc(P)
        for w in ref.words(P.Sigma, 3):
            for lim in limits:
                R.guard('pda_accepts_word', 'pda-acceptance', lambda: {'P': d, 'w': w, 'limit': lim}, lambda: chk(P, w, lim) + ((tag, w, lim),), 'pda_accepts_word', timeout=15, timeout_ok=True)
    for i, P in enumerate(hand()): case(P, 'hand%d' % i, [1000, 50, 6])
    # a closure larger than the default limit, with the limit raised afterwards (the setting must be read at call time)
    from gambatools.pda_algorithms import parse_pda
    big = parse_pda('states s p q f\ninitial s\nfinal f\ninput_symbols a c\nstack_symbols A $\ns p _,_$\np p a,_A\np q c,__\nq q _,A_\nq f _,$_')
    wbig = 'a' * 1100 + 'c'
    R.guard('pda_accepts_word', 'pda-acceptance', lambda: {'P': desc(big), 'w': wbig, 'limit': 2500}, lambda: chk(big, wbig, 2500) + (('big', 2500),), 'pda_accepts_word', timeout=60, timeout_ok=True)
    R.guard('pda_accepts_word', 'pda-acceptance', lambda: {'P': desc(big), 'w': wbig, 'limit': 500}, lambda: chk(big, wbig, 500) + (('big', 500),), 'pda_accepts_word', timeout=60, timeout_ok=True)
    n = 0
    for P in E.all_pdas(1, 'a', 'x', 2):
        n += 1; case(P, 'ex1-%d' % n, [1000, 8])
    for P in E.all_pdas(2, 'a', 'x', 1):
        n += 1; case(P, 'ex2-%d' % n, [1000])
    i = 0
    while not R.out_of_time() and i < (250 if R.tier == 'quick' else 4000):
        i += 1
        P = E.random_pda(rnd, nq=3, nt=6, default=rnd.random() < 0.8)
        case(P, 'r%d' % i, [rnd.choice([1000, 1000, 200]), rnd.choice([30, 9, 3])])
        P = E.random_pda(rnd, nq=4, Sigma=('x', 'y'), Gamma=('a', 'b', 'ab'), nt=8)      # stack symbols whose concatenations collide
        case(P, 'm%d' % i, [200])
    R.bounds['pda'] = 'hand-written PDAs (multi-character stack symbols, epsilon cycles growing the stack, replace moves); all PDAs with 1 state / 2 transitions and 2 states / 1 transition over {a}, stack {x}; seeded random PDAs (<=3 states, <=6 transitions, |Sigma|,|Gamma| <= 2); words <=3; closure limits 1000, 200, 50, 30, 9, 8, 6, 3. Soundness checked always, completeness whenever every closure along the word has at most `limit` configurations (computed by explicit exploration with cut-off)'
