"""C04 bounded stand-in / replay search: the three minimisers against exact references (equivalence by product search,
pairwise distinguishability and Myhill-Nerode class counts by an independent table-filling procedure)."""
import itertools, os, subprocess, sys, json
from .. import ref, enum as E
from ..objs import desc, build
from .common import snap

QUICK_S, THOROUGH_S = 40, 400
ALGS = ('dfa_minimize', 'dfa_quotient', 'dfa_hopfcroft')


def chk(D, alg):
    import gambatools.dfa_algorithms as A
    b = snap(D)
    M = getattr(A, alg)(D)
    if snap(D) != b: return False, 'argument unchanged', 'modified'
    if not ref.dfa_wf(M) or M.Sigma != D.Sigma: return False, 'valid DFA over the same alphabet', desc(M)
    w = ref.product_search([ref.m_dfa(D), ref.m_dfa(M)], lambda t: t[0] == t[1], D.Sigma)
    if w is not None: return False, 'same language', 'differs on %r' % w
    dist = ref.dfa_distinguishable(M)
    eqv = [(p, q) for p, q in itertools.combinations(sorted(M.Q), 2) if frozenset((p, q)) not in dist]
    if eqv: return False, 'states pairwise distinguishable', 'equivalent states %s in %s' % (eqv[:2], sorted(M.Q))
    lo, hi = ref.nerode_classes(D, ref.dfa_reach(D)), ref.nerode_classes(D, D.Q)
    if not (lo <= len(M.Q) <= hi): return False, 'between %d and %d states' % (lo, hi), len(M.Q)
    return True, None, None


CHECKS = {a: (lambda a: lambda c: chk(build(c['D']), a))(a) for a in ALGS}
def replay(case): return CHECKS[case['check']](case['case'])


def child(seed, count):
    """run the three minimisers on seeded inputs in this interpreter (its own PYTHONHASHSEED = another pop / iteration order)"""
    import random
    rnd = random.Random(seed); bad = []
    for i in range(count):
        D = E.random_dfa(rnd, rnd.randint(2, 6), 'ab'[:rnd.randint(1, 2)])
        for a in ALGS:
            try: ok, exp, obs = chk(D, a)
            except Exception as e: ok, exp, obs = False, 'no exception', '%s: %s' % (type(e).__name__, e)
            if not ok: bad.append({'check': a, 'case': {'D': desc(D)}, 'expected': exp, 'observed': str(obs)})
    print('@@CHILD@@' + json.dumps({'n': count * 3, 'bad': bad[:5]}))


def run(R):
    rnd = R.rnd
    def case(D, tag):
        d = desc(D)
        for a in ALGS: R.guard(a, 'minimise-' + a, lambda: {'D': d}, lambda: chk(D, a) + ((tag, a),), a)
    for i, D in enumerate(itertools.chain(E.all_dfas(1, 'ab'), E.all_dfas(2, 'ab'), E.all_dfas(3, 'a'))): case(D, 'ex%d' % i)
    if R.tier != 'quick':
        for i, D in enumerate(E.all_dfas(3, 'ab')):
            if i % 7 == 0: case(D, 'ex3ab%d' % i)
    i = 0
    while not R.out_of_time() and i < (300 if R.tier == 'quick' else 4000):
        i += 1
        case(E.random_dfa(rnd, rnd.randint(3, 7), 'ab'[:rnd.randint(1, 2)], names=rnd.choice([None, ['s', 't', 'u', 'v', 'w', 'x', 'y']])), 'r%d' % i)
    # many classes: every ordered pair of successor classes occurs (k anchors + k*k pair states); more than ten classes when k > 10
    for k in ([4, 12] if R.tier == 'quick' else [3, 4, 7, 10, 11, 12, 13, 16]):
        case(E.successor_pairs_dfa(k), 'pairs%d' % k)
    for m in ([12] if R.tier == 'quick' else [3, 9, 10, 11, 12, 13, 16]):
        case(E.burst_pairs_dfa(m), 'burst%d' % m)
    R.bounds['dfa-many-classes'] = 'successor-pair DFAs: k anchor states (counter modulo k) and one state per ordered pair of anchors as successors, k = 4, 12 (thorough: 3..16), i.e. up to 16 + 256 states and more than ten equivalence classes; burst DFAs: m accepting states separated in one refinement round + one state per ordered pair of them + a reachability chain (2m^2+m+3 states, all reachable and pairwise inequivalent), m = 12 (thorough: 3..16)'
    # other iteration / pop orders: fresh interpreters with different string-hash seeds
    root = os.path.dirname(os.path.dirname(os.path.dirname(os.path.abspath(__file__))))
    for hs in ([3, 11] if R.tier == 'quick' else [1, 2, 3, 5, 8, 11, 13, 21]):
        r = subprocess.run([sys.executable, '-c', 'import gvc.bounded.C04 as m; m.child(%d, %d)' % (R.seed + hs, 150 if R.tier == 'quick' else 800)], capture_output=True, text=True,
                           env=dict(os.environ, PYTHONHASHSEED=str(hs)), cwd=root, timeout=900)
        line = [l for l in r.stdout.split('\n') if l.startswith('@@CHILD@@')]
        if not line: R.fail('hash_seed', 'process-crash', {'hashseed': hs}, 'child completes', (r.stderr or r.stdout)[-400:]); continue
        res = json.loads(line[0][9:]); R.evaluations += res['n']; R.groups.setdefault('other_hash_seeds', {'n': 0})['n'] += res['n']
        for b in res['bad']: R.fail(b['check'], 'minimise-' + b['check'], b['case'], b['expected'], b['observed'], b['check'])
    R.bounds['dfa'] = 'all DFAs <=2 states over {a,b} and 3 states over {a} (plus a seventh of the 3-state DFAs over {a,b} in thorough); seeded random 3-7 states incl. unreachable states; further seeded inputs in fresh interpreters with other PYTHONHASHSEED values (different splitter / set-iteration orders)'
