"""C16 bounded stand-in / replay search: print -> parse round trips for the four automaton kinds (field by field), the two
regexp syntaxes (same language, same printed form) and simple-format grammars (equal grammar)."""
import itertools
from .. import ref, enum as E
from ..objs import desc, build

QUICK_S, THOROUGH_S = 40, 360
KEYWORDS = ['states', 'final', 'initial', 'input_symbols', 'epsilon', 'stack_symbols', 'tape_symbols', 'blank', 'accept', 'reject']


def fields(x):
    c = type(x).__name__
    if c == 'DFA': return (set(x.Q), set(x.Sigma), dict(x.delta), x.q0, set(x.F))
    if c == 'NFA': return (set(x.Q), set(x.Sigma), {k: set(v) for k, v in x.delta.items() if v}, x.q0, set(x.F), x.epsilon)
    if c == 'PDA': return (set(x.Q), set(x.Sigma), set(x.Gamma), {k: set(v) for k, v in x.delta.items() if v}, x.q0, set(x.F), x.epsilon)
    if c == 'TM': return (set(x.Q), set(x.Sigma), set(x.Gamma), {k: tuple(v) for k, v in x.delta.items()}, x.q0, x.q_accept, x.q_reject, x.blank)


def chk_auto(X):
    import gambatools.dfa_algorithms as DA, gambatools.nfa_algorithms as NA, gambatools.pda_algorithms as PA, gambatools.tm_algorithms as TA
    pr, ps = {'DFA': (DA.print_dfa, DA.parse_dfa), 'NFA': (NA.print_nfa, NA.parse_nfa), 'PDA': (PA.print_pda, PA.parse_pda), 'TM': (TA.print_tm, TA.parse_tm)}[type(X).__name__]
    b = desc(X)
    text = pr(X)
    if desc(X) != b: return False, 'argument unchanged', 'modified by the printer'
    Y = ps(text)
    return fields(Y) == fields(X), 'identical fields after parse(print(x))', {'text': text, 'reparsed': str(fields(Y))[:400]}


def chk_rx(r):
    from gambatools.regexp import print_regexp, print_regexp_simple
    from gambatools.regexp_parser import parse_regexp
    from gambatools.regexp_simple_parser import parse_simple_regexp
    for pr, ps, name in ((print_regexp, parse_regexp, 'full'), (print_regexp_simple, parse_simple_regexp, 'simple'), (str, parse_regexp, 'str')):
        t = pr(r); r2 = ps(t)
        if pr(r2) != t: return False, 'same printed form (%s syntax): %s' % (name, t), pr(r2)
        w = ref.rx_equiv_rx(r, r2)
        if w is not None: return False, 'same language (%s syntax)' % name, '%s re-parses to %s, differs on %r' % (t, r2, w)
    return True, None, None


def chk_cfg(G):
    from gambatools.cfg_algorithms import cfg_print_simple, parse_simple_cfg
    t = cfg_print_simple(G); G2 = parse_simple_cfg(t)
    # an equal grammar: same variables, terminals and start variable, the same rules (as a multiset: the order of the rules in G.R is not part of
    # the grammar, and the library's own CFG.__eq__ ignores it too; the printed order puts the start variable first)
    key = lambda H: sorted((str(r.variable), tuple(map(str, r.alternative.symbols))) for r in H.R)
    same = (set(G2.V) == set(G.V) and set(G2.Sigma) == set(G.Sigma) and G2.S == G.S and key(G2) == key(G))
    return (G2 == G) and same, 'equal grammar after parse(print(G))', {'text': t, 'reparsed': str(G2)}


def sorted_by_head(G):
    out = []
    for X in G.ordered_variables(): out += [r for r in G.R if r.variable == X]
    return out


CHECKS = {'automaton': lambda c: chk_auto(build(c['X'])), 'regexp': lambda c: chk_rx(build(c['r'])), 'grammar': lambda c: chk_cfg(build(c['G']))}
def replay(case): return CHECKS[case['check']](case['case'])


def simple_grammar(rnd):
    V = ['S', 'A', 'B'][:rnd.randint(1, 3)]; rules = []
    for v in V:
        for _ in range(rnd.randint(1, 3)):
            rhs = [rnd.choice(V + ['a', 'b']) for _ in range(rnd.randint(0, 3))]
            if (v, rhs) not in rules: rules.append((v, rhs))
    Sg = sorted({x for _, r in rules for x in r if x not in V})
    if rnd.random() < 0.5: rnd.shuffle(rules)        # the rules of one variable need not be adjacent in G.R
    return E.mk_cfg(rules, S='S', V=V, Sigma=Sg, eps='ε')


def run(R):
    rnd = R.rnd
    from gambatools.dfa import DFA
    from gambatools.nfa import NFA
    def auto(X, tag, kind='roundtrip'):
        R.guard('automaton', kind, lambda: {'X': desc(X)}, lambda: chk_auto(X) + ((tag,),), 'print/parse ' + type(X).__name__)
    for D in itertools.chain(E.all_dfas(1, 'ab'), E.all_dfas(2, 'a')): auto(D, str(desc(D)))
    auto(DFA({'p'}, set(), {}, 'p', set()), 'empty-alphabet')
    auto(DFA({'q0', 'q1'}, {'a', 'b', 'c'}, {('q0', 'a'): 'q0', ('q0', 'b'): 'q1', ('q0', 'c'): 'q0', ('q1', 'a'): 'q1', ('q1', 'b'): 'q1', ('q1', 'c'): 'q0'}, 'q0', {'q1'}), 'interrupted-multi-label')
    auto(NFA({'p', 'q'}, {'a'}, {('p', 'a'): {'p', 'q'}}, 'p', set(), '_'), 'state-without-transitions')
    # known finding F17: a state named like a keyword of the text format
    auto(DFA({'final', 'q'}, {'a'}, {('final', 'a'): 'q', ('q', 'a'): 'final'}, 'q', {'q'}), 'keyword-state', kind='roundtrip-state-named-like-keyword')
    for size in range(4):
        for r in E.all_regexps(size, 'ab'):
            R.guard('regexp', 'regexp-roundtrip', lambda: {'r': desc(r)}, lambda: chk_rx(r) + ((str(desc(r)),),), 'print/parse regexp')
    i = 0
    while not R.out_of_time() and i < (300 if R.tier == 'quick' else 4000):
        i += 1
        auto(E.random_dfa(rnd, rnd.randint(2, 5), rnd.choice(['ab', 'abc', 'a', '01'])), 'd%d' % i)
        auto(E.random_nfa(rnd, rnd.randint(2, 4), rnd.choice(['ab', 'abc']), eps=rnd.choice(['_', 'ε', 'e'])), 'n%d' % i)
        P = E.random_pda(rnd, nq=3, nt=6, eps=rnd.choice(['_', 'ε']), Gamma=rnd.choice([('x', 'y'), ('$', 'x'), ('%', 'x'), ('#', '@')]))
        auto(P, 'p%d' % i)
        T = E.random_tm(rnd, extra=rnd.choice([('x',), ('%',), ('$', '#')]), blank=rnd.choice(['_', '□']))
        auto(T, 't%d' % i)
        r = E.random_regexp(rnd, rnd.randint(4, 8), 'ab')
        R.guard('regexp', 'regexp-roundtrip', lambda: {'r': desc(r)}, lambda: chk_rx(r) + (('r%d' % i,),), 'print/parse regexp')
        G = simple_grammar(rnd)
        R.guard('grammar', 'grammar-roundtrip', lambda: {'G': desc(G)}, lambda: chk_cfg(G) + (('g%d' % i,),), 'cfg_print_simple/parse_simple_cfg')
    R.bounds['roundtrip'] = 'grammars with the rules of a variable adjacent or interleaved; all DFAs with 1 state over {a,b} / 2 states over {a}, hand-written corner cases (empty alphabet, empty accepting set, states without transitions, multi-label edges interrupted in symbol order); seeded random DFAs, NFAs (epsilon in _, ε, e), PDAs (stack symbols incl. $ % # @), TMs (tape symbols incl. % $ #, blank _ or □); all regexps of size <=3 over {a,b} and random trees of size 4-8 in three printed forms; random simple-format grammars (<=3 variables, every variable has rules)'
