"""C01 bounded stand-in / replay search: DFA and NFA acceptance, epsilon closure against the reference semantics."""
import itertools
from .. import ref, enum as E
from ..objs import desc, build
from .common import snap

QUICK_S, THOROUGH_S = 25, 240


def chk_dfa(D, w):
    got = __import__('gambatools.dfa_algorithms', fromlist=['x']).dfa_accepts_word(D, w)
    exp = ref.dfa_accepts(D, w)
    return got is exp or got == exp and isinstance(got, bool), exp, got


def chk_nfa(N, w):
    from gambatools.nfa_algorithms import nfa_accepts_word
    before = snap(N)
    got = nfa_accepts_word(N, w)
    exp = ref.nfa_accepts_by_path(N, w)
    if snap(N) != before: return False, 'argument unchanged', 'NFA modified: %s' % snap(N)
    return got == exp and isinstance(got, bool), exp, got


def chk_eclo(N, seed):
    from gambatools.nfa_algorithms import epsilon_closure
    before = snap(N)
    arg = set(seed) if isinstance(seed, (set, list, frozenset)) else seed
    keep = set(arg) if isinstance(arg, set) else None
    got = epsilon_closure(N, arg)
    exp = ref.Eclo(N, set(seed) if isinstance(seed, (set, list, frozenset)) else {seed})
    if snap(N) != before: return False, 'argument N unchanged', 'NFA modified'
    if keep is not None and arg != keep: return False, 'argument set unchanged %s' % sorted(keep), sorted(arg)
    got2 = N.E(set(seed) if keep is not None else seed)
    return got == exp and got2 == exp, sorted(exp), sorted(got)


def chk_seq(N, ws):
    """acceptance answers are the same before and after closure queries on sets owned by the automaton (history)"""
    from gambatools.nfa_algorithms import nfa_accepts_word
    exp = [ref.nfa_accepts_by_path(N, w) for w in ws]
    N.E(N.F); N.E(N.Q); N.E(N.q0)
    got = [nfa_accepts_word(N, w) for w in ws]
    return got == exp, exp, got


def chk_edit(N, ws, edits):
    """acceptance is a function of the CURRENT content of the automaton: query, let the owner edit the transition map in place, query again"""
    from gambatools.nfa_algorithms import nfa_accepts_word
    from .C03 import edit_in_place
    for w in ws: nfa_accepts_word(N, w)
    N.E(N.q0)
    edit_in_place(N, edits)
    if not ref.nfa_wf(N): return True, None, None
    exp = [ref.nfa_accepts_by_path(N, w) for w in ws]
    got = [nfa_accepts_word(N, w) for w in ws]
    return got == exp, 'after in-place edits %s: %s' % (edits, exp), got


CHECKS = {'dfa_accepts_word': lambda c: chk_dfa(build(c['D']), c['w']), 'nfa_accepts_word': lambda c: chk_nfa(build(c['N']), c['w']),
          'epsilon_closure': lambda c: chk_eclo(build(c['N']), c['seed']), 'closure_then_accept': lambda c: chk_seq(build(c['N']), c['ws']),
          'accept_edit_accept': lambda c: chk_edit(build(c['N']), c['ws'], [tuple(e) for e in c['edits']])}


def replay(case):
    return CHECKS[case['check']](case['case'])


def run(R):
    rnd = R.rnd
    def dfa_case(D, w):
        R.guard('dfa_accepts_word', 'dfa-acceptance', lambda: {'D': desc(D), 'w': w}, lambda: chk_dfa(D, w) + ((len(D.Q), w),), 'dfa_accepts_word')
    def nfa_cases(N, n, key):
        d = desc(N)
        for w in ref.words(N.Sigma, n):
            R.guard('nfa_accepts_word', 'nfa-acceptance', lambda: {'N': d, 'w': w}, lambda: chk_nfa(N, w) + ((key, w),), 'nfa_accepts_word')
        for q in sorted(N.Q):
            R.guard('epsilon_closure', 'epsilon-closure', lambda: {'N': d, 'seed': q}, lambda: chk_eclo(N, q) + ((key, q),), 'epsilon_closure')
        for S in ([set(N.Q), set(N.F), set()] + [set(rnd.sample(sorted(N.Q), min(2, len(N.Q))))]):
            R.guard('epsilon_closure', 'epsilon-closure', lambda: {'N': d, 'seed': sorted(S)}, lambda: chk_eclo(N, S) + ((key, tuple(sorted(S))),), 'epsilon_closure')
        ws = list(ref.words(N.Sigma, min(n, 3)))
        R.guard('closure_then_accept', 'nfa-acceptance-history', lambda: {'N': d, 'ws': ws}, lambda: chk_seq(build(d), ws) + ((key, 'seq'),), 'epsilon_closure')
    # exhaustive small scopes
    for D in itertools.chain(E.all_dfas(1, 'ab'), E.all_dfas(2, 'ab'), E.all_dfas(3, 'a')):
        for w in ref.words(D.Sigma, 3): dfa_case(D, w)
    R.bounds['dfa'] = 'all DFAs with <=2 states over {a,b} and 3 states over {a}, words <=3; seeded random 4-6 states, words <=5'
    cnt = 0
    for N in E.all_nfas(2, 'a', eps='e'):
        cnt += 1
        if R.tier == 'quick' and cnt % 3: continue
        nfa_cases(N, 3, 'ex%d' % cnt)
    R.bounds['nfa'] = 'all epsilon-NFAs with 2 states over {a} (every third one in the quick tier), words <=3; seeded random 3-5 states over {a,b}, plain/total/defaultdict transition maps, epsilon in {"", "e", "_"}'
    i = 0
    while not R.out_of_time() and i < (150 if R.tier == 'quick' else 3000):
        i += 1
        D = E.random_dfa(rnd, rnd.randint(4, 6), 'ab')
        for w in rnd.sample(sorted(ref.words_upto('ab', 5)), 12): dfa_case(D, w)
        N = E.random_nfa(rnd, rnd.randint(3, 5), 'ab', eps=rnd.choice(['', 'e', '_']))
        nfa_cases(N, 3, 'r%d' % i)
        # the same NFA object queried again after its owner edited the transition map in place (a stale cache on the object would show)
        N2 = E.random_nfa(rnd, rnd.randint(3, 4), 'ab', eps=rnd.choice(['', 'e', '_']))
        Qs = sorted(N2.Q); syms = sorted(N2.Sigma) + [N2.epsilon]
        edits = [(rnd.choice(['add', 'add', 'del']), rnd.choice(Qs), rnd.choice(syms), rnd.choice(Qs)) for _ in range(rnd.randint(1, 2))]
        d2 = desc(N2); ws2 = list(ref.words(N2.Sigma, 3))
        R.guard('accept_edit_accept', 'nfa-acceptance-after-edit', lambda: {'N': d2, 'ws': ws2, 'edits': [list(e) for e in edits]}, lambda: chk_edit(build(d2), ws2, edits) + (('edit%d' % i,),), 'nfa_accepts_word')
