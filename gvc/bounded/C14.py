"""C14 bounded stand-in / replay search: DFA closure constructions and finite-language helpers, compared exactly with
reference automata (product search over all reachable state tuples = all words)."""
import itertools
from .. import ref, enum as E
from ..objs import desc, build
from .common import snap

QUICK_S, THOROUGH_S = 40, 400


def _valid_dfa(D): return ref.dfa_wf(D)


def chk_product(D1, D2, kind):
    import gambatools.dfa_algorithms as A
    f = {'union': A.dfa_union, 'intersection': A.dfa_intersection, 'symmetric_difference': A.dfa_symmetric_difference}[kind]
    b1, b2 = snap(D1), snap(D2)
    P = f(D1, D2)
    if (snap(D1), snap(D2)) != (b1, b2): return False, 'arguments unchanged', 'modified'
    if not _valid_dfa(P) or P.Sigma != D1.Sigma: return False, 'valid DFA over the same alphabet', str(P)
    pred = {'union': lambda t: t[2] == (t[0] or t[1]), 'intersection': lambda t: t[2] == (t[0] and t[1]), 'symmetric_difference': lambda t: t[2] == (t[0] != t[1])}[kind]
    w = ref.product_search([ref.m_dfa(D1), ref.m_dfa(D2), ref.m_dfa(P)], pred, D1.Sigma)
    return w is None, 'L(result) = L1 %s L2' % kind, 'differs on %r' % w


def chk_unary(D, op):
    import gambatools.dfa_algorithms as A
    b = snap(D)
    if op == 'complement':
        R = A.dfa_complement(D); ok_valid = _valid_dfa(R) and R.Sigma == D.Sigma
        w = ref.product_search([ref.m_dfa(D), ref.m_dfa(R)], lambda t: t[0] != t[1], D.Sigma)
    elif op == 'reverse':
        R = A.dfa_reverse(D); ok_valid = ref.nfa_wf(R) and R.Sigma == D.Sigma
        w = ref.product_search([ref.m_reverse_of_dfa(D), ref.m_nfa(R)], lambda t: t[0] == t[1], D.Sigma)
    elif op == 'no_prefix':
        R = A.dfa_no_prefix(D); ok_valid = ref.nfa_wf(R) and R.Sigma == D.Sigma
        w = ref.product_search([ref.m_prefix_free_of_dfa(D), ref.m_nfa(R)], lambda t: t[0] == t[1], D.Sigma)
    elif op == 'no_extend':
        R = A.dfa_no_extend(D); ok_valid = _valid_dfa(R) and R.Sigma == D.Sigma
        w = ref.product_search([ref.m_non_extendable_of_dfa(D), ref.m_dfa(R)], lambda t: t[0] == t[1], D.Sigma)
    elif op == 'remove_unreachable':
        R = A.dfa_remove_unreachable_states(D); ok_valid = _valid_dfa(R) and R.Sigma == D.Sigma and R.Q == ref.dfa_reach(D) and ref.dfa_reach(R) == R.Q
        w = ref.product_search([ref.m_dfa(D), ref.m_dfa(R)], lambda t: t[0] == t[1], D.Sigma)
    elif op == 'reachable_states':
        for q in sorted(D.Q):
            got = A.dfa_reachable_states(D, q); exp = ref.dfa_reach(D, q)
            exp1 = set()
            for a in D.Sigma: exp1 |= ref.dfa_reach(D, D.delta[q, a])
            got1 = A.dfa_reachable_states(D, q, 1)
            if got != exp or got1 != exp1: return False, (sorted(exp), sorted(exp1)), (sorted(got), sorted(got1))
        ok_valid, w = True, None
    if snap(D) != b: return False, 'argument unchanged', 'modified'
    if not ok_valid: return False, 'valid automaton over the same alphabet', 'invalid result'
    return w is None, 'language of the result as specified', 'differs on %r' % w


def chk_make_total(D):
    import gambatools.dfa_algorithms as A
    b = snap(D)
    R = A.dfa_make_total(D)
    if snap(D) != b: return False, 'argument unchanged', 'modified'
    if not _valid_dfa(R) or R.Sigma != D.Sigma: return False, 'valid total DFA', 'invalid'
    w = ref.product_search([ref.m_partial_dfa(D), ref.m_dfa(R)], lambda t: t[0] == t[1], D.Sigma)
    D2 = build(dict(desc(D), check=False)); A.dfa_make_total_in_place(D2)
    w2 = ref.product_search([ref.m_partial_dfa(D), ref.m_dfa(D2)], lambda t: t[0] == t[1], D.Sigma) if _valid_dfa(D2) else '<invalid>'
    return w is None and w2 is None, 'same language', 'differs on %r / %r' % (w, w2)


def chk_lang(L1, L2, Sigma, n):
    import gambatools.language_algorithms as LA
    L1, L2 = set(L1), set(L2); k1, k2 = set(L1), set(L2)
    exp = {'reverse': {w[::-1] for w in L1}, 'no_prefix': {w for w in L1 if not any(w[:i] in L1 for i in range(len(w)))},
           'no_extend': {w for w in L1 if not any(v != w and v.startswith(w) for v in L1)}, 'concatenation': {x + y for x in L1 for y in L2},
           'union': L1 | L2, 'intersection': L1 & L2, 'symmetric_difference': (L1 - L2) | (L2 - L1),
           'words_of_length_n': ref.words_of_len(Sigma, n), 'words_up_to_n': ref.words_upto(Sigma, n)}
    got = {'reverse': LA.language_reverse(L1), 'no_prefix': LA.language_no_prefix(L1), 'no_extend': LA.language_no_extend(L1), 'concatenation': LA.concatenation(L1, L2),
           'union': LA.union(L1, L2), 'intersection': LA.intersection(L1, L2), 'symmetric_difference': LA.symmetric_difference(L1, L2),
           'words_of_length_n': LA.words_of_length_n(set(Sigma), n), 'words_up_to_n': LA.words_up_to_n(set(Sigma), n)}
    if (L1, L2) != (k1, k2): return False, 'arguments unchanged', 'modified'
    bad = {k: (sorted(exp[k]), sorted(got[k])) for k in exp if exp[k] != got[k]}
    return not bad, 'set operations as documented', bad


CHECKS = {'dfa_product': lambda c: chk_product(build(c['D1']), build(c['D2']), c['kind']), 'dfa_unary': lambda c: chk_unary(build(c['D']), c['op']),
          'dfa_make_total': lambda c: chk_make_total(build(dict(c['D'], check=False))), 'language_helpers': lambda c: chk_lang(c['L1'], c['L2'], c['Sigma'], c['n'])}
def replay(case): return CHECKS[case['check']](case['case'])
OPS = ['complement', 'reverse', 'no_prefix', 'no_extend', 'remove_unreachable', 'reachable_states']


def partial_of(rnd, D):
    from gambatools.dfa import DFA
    delta = {k: v for k, v in D.delta.items() if rnd.random() < 0.7}
    return DFA(set(D.Q), set(D.Sigma), delta, D.q0, set(D.F), check_validity=False)


def run(R):
    rnd = R.rnd
    def unary(D, tag):
        d = desc(D)
        for op in OPS: R.guard('dfa_unary', 'dfa-' + op, lambda: {'D': d, 'op': op}, lambda: chk_unary(D, op) + ((tag, op),), 'dfa_' + op)
        P = partial_of(rnd, D)
        R.guard('dfa_make_total', 'dfa-make-total', lambda: {'D': desc(P)}, lambda: chk_make_total(P) + ((tag,),), 'dfa_make_total')
    small = list(itertools.chain(E.all_dfas(1, 'ab'), E.all_dfas(2, 'ab')))
    for i, D in enumerate(small): unary(D, 'ex%d' % i)
    for i, D in enumerate(E.all_dfas(3, 'a')): unary(D, 'ex3a%d' % i)
    pairs = list(itertools.product(small[::3], small[::5]))
    for i, (D1, D2) in enumerate(pairs[:: (4 if R.tier == 'quick' else 1)]):
        D2 = build(dict(desc(D2), Q=['r%s' % q for q in sorted(D2.Q)], q0='r' + D2.q0, F=['r%s' % q for q in sorted(D2.F)], delta=[['r' + q, a, 'r' + t] for (q, a), t in sorted(D2.delta.items())]))
        for kind in ('union', 'intersection', 'symmetric_difference'):
            R.guard('dfa_product', 'dfa-product', lambda: {'D1': desc(D1), 'D2': desc(D2), 'kind': kind}, lambda: chk_product(D1, D2, kind) + ((i, kind),), 'dfa_product')
    from gambatools.dfa import DFA
    weird = DFA({'p', 'q'}, {'ε', 'a'}, {('p', 'ε'): 'q', ('p', 'a'): 'p', ('q', 'ε'): 'q', ('q', 'a'): 'p'}, 'p', {'q'})   # epsilon-looking input symbol
    unary(weird, 'weird-eps')
    W = sorted(ref.words_upto('ab', 3))
    i = 0
    while not R.out_of_time() and i < (400 if R.tier == 'quick' else 5000):
        i += 1
        D = E.random_dfa(rnd, rnd.randint(3, 6), 'ab'[:rnd.randint(1, 2)]); unary(D, 'r%d' % i)
        D1 = E.random_dfa(rnd, rnd.randint(2, 4), 'ab'); D2 = E.random_dfa(rnd, rnd.randint(2, 4), 'ab', names=['s%d' % j for j in range(4)][:rnd.randint(2, 4)])
        kind = rnd.choice(['union', 'intersection', 'symmetric_difference'])
        R.guard('dfa_product', 'dfa-product', lambda: {'D1': desc(D1), 'D2': desc(D2), 'kind': kind}, lambda: chk_product(D1, D2, kind) + (('r%d' % i, kind),), 'dfa_product')
        L1 = rnd.sample(W, rnd.randint(0, 6)); L2 = rnd.sample(W, rnd.randint(0, 4)); n = rnd.randint(0, 3); Sg = 'ab'[:rnd.randint(0, 2)]
        R.guard('language_helpers', 'language-helpers', lambda: {'L1': L1, 'L2': L2, 'Sigma': list(Sg), 'n': n}, lambda: chk_lang(L1, L2, Sg, n) + ((tuple(L1), tuple(L2), Sg, n),), 'language_algorithms')
    R.bounds['dfa'] = 'all DFAs <=2 states over {a,b} and 3 states over {a} for the unary constructions; a grid of pairs of those + seeded random pairs (2-4 states) for the products; random partial DFAs for totalisation; random finite languages over {a,b} (words <=3) for the helpers. Equivalence is decided exactly (product search), not on sampled words.'
