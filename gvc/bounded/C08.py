"""C08 bounded stand-in / replay search: the five Chomsky phases and the full conversion: language preserved (independent
derivability oracle, all words up to a bound), phase postconditions, fresh variables, input untouched."""
import itertools
from .. import ref, enum as E
from ..objs import desc, build

QUICK_S, THOROUGH_S = 50, 450
N = 4


def post_new_start(G): return all(G.S not in r.alternative.symbols for r in G.R)
def post_no_eps(G): return all(len(r.alternative.symbols) > 0 or r.variable == G.S for r in G.R)
def post_no_unit(G): return not any(len(r.alternative.symbols) == 1 and r.alternative.symbols[0] in G.V for r in G.R)
def post_len2(G): return all(len(r.alternative.symbols) <= 2 for r in G.R)
def post_terminals(G): return all(len(r.alternative.symbols) < 2 or all(x in G.V for x in r.alternative.symbols) for r in G.R)
PHASES = [('cfg_add_new_start_variable', post_new_start), ('cfg_remove_epsilon_rules', post_no_eps), ('cfg_eliminate_unit_rules', post_no_unit),
          ('cfg_make_rules_of_length_two', post_len2), ('cfg_eliminate_terminals', post_terminals)]


def chk_phase(G, k, pipeline):
    """apply phases 0..k in pipeline order (pipeline=True) or phase k alone"""
    import gambatools.cfg_algorithms as A
    L0 = ref.cfg_lang(G, N); cur = G; seq = range(k + 1) if pipeline else [k]
    for j in seq:
        name, post = PHASES[j]
        b = desc(cur)
        nxt = getattr(A, name)(cur)
        if desc(cur) != b: return False, 'argument of %s unchanged' % name, 'modified'
        if not ref.cfg_valid(nxt): return False, '%s returns a valid grammar' % name, desc(nxt)
        if not set(cur.V) <= set(nxt.V): return False, 'variables kept', sorted(nxt.V)
        if not post(nxt): return False, 'postcondition of %s' % name, [str(r) for r in nxt.R]
        L1 = ref.cfg_lang(nxt, N)
        if L1 != L0: return False, 'language preserved by %s: %s' % (name, sorted(L0)), sorted(L1)
        if pipeline:       # postconditions established earlier must survive
            for jj in range(j):
                if not PHASES[jj][1](nxt): return False, 'postcondition of %s still holds after %s' % (PHASES[jj][0], name), [str(r) for r in nxt.R]
        cur = nxt
    return True, None, None


def chk_chomsky(G):
    import gambatools.cfg_algorithms as A
    b = desc(G)
    C = A.cfg_to_chomsky(G)
    if desc(G) != b: return False, 'argument unchanged', 'modified'
    if not ref.cfg_valid(C): return False, 'valid grammar', desc(C)
    if not ref.cfg_is_cnf(C) or not C.is_chomsky(): return False, 'Chomsky normal form', [str(r) for r in C.R]
    if G.is_chomsky() != ref.cfg_is_cnf(G): return False, 'is_chomsky() = %s' % ref.cfg_is_cnf(G), G.is_chomsky()
    L0, L1 = ref.cfg_lang(G, N), ref.cfg_lang(C, N)
    return L0 == L1, sorted(L0), sorted(L1)


CHECKS = {'phase': lambda c: chk_phase(build(c['G']), c['k'], c['pipeline']), 'cfg_to_chomsky': lambda c: chk_chomsky(build(c['G']))}
def replay(case): return CHECKS[case['check']](case['case'])


def many_variables(rnd):
    """a grammar with more than 26 variables (fresh-name exhaustion)"""
    import string
    V = ['S'] + [c for c in string.ascii_uppercase if c != 'S'] + ['A0', 'B1']
    rules = [('S', ['A', 'b', 'B'])] + [(v, [rnd.choice('ab')]) for v in V[1:]] + [('A', ['a', 'A', 'a', 'C'])]
    return E.mk_cfg(rules, S='S', V=V, Sigma='ab')


def run(R):
    rnd = R.rnd
    def case(G, tag):
        d = desc(G)
        R.guard('cfg_to_chomsky', 'chomsky', lambda: {'G': d}, lambda: chk_chomsky(G) + ((tag,),), 'cfg_to_chomsky', timeout=30)
        R.guard('phase', 'chomsky-phase', lambda: {'G': d, 'k': 4, 'pipeline': True}, lambda: chk_phase(G, 4, True) + ((tag, 'pipe'),), 'cfg_to_chomsky_in_place', timeout=30)
        for k in range(5):
            R.guard('phase', 'chomsky-phase', lambda: {'G': d, 'k': k, 'pipeline': False}, lambda: chk_phase(G, k, False) + ((tag, k),), PHASES[k][0], timeout=30)
    n = 0
    for G in E.all_cfgs(2, 'a', 2, 2):
        n += 1
        if n % (5 if R.tier == 'quick' else 1): continue
        case(G, 'ex%d' % n)
    case(many_variables(rnd), 'many-variables')
    case(E.mk_cfg([('S', ['A', 'B']), ('A', ['B']), ('B', ['C']), ('C', ['A']), ('A', ['a']), ('B', ['b']), ('C', ['c']), ('S', [])], S='S', Sigma='abc'), 'unit-cycle')
    case(E.mk_cfg([('S', ['x', 'A']), ('S', ['y', 'B']), ('S', ['z', 'C']), ('A', ['B']), ('A', ['a']), ('B', ['C']), ('B', ['b']), ('C', ['A']), ('C', ['c'])], S='S', Sigma='abcxyz'), 'unit-cycle-3')
    case(E.mk_cfg([('S', ['a']), ('T', ['a', 'T', 'b']), ('T', ['a', 'b'])], S='S', V=['S', 'T'], Sigma='ab'), 'unreachable-long-rule')
    case(E.mk_cfg([('S', ['a', 'S']), ('S', ['D']), ('D', ['a']), ('D', ['b'])], S='S', Sigma='ab'), 'character-class')
    i = 0
    while not R.out_of_time() and i < (150 if R.tier == 'quick' else 2500):
        i += 1
        case(E.random_cfg(rnd, nv=rnd.randint(1, 4), max_rules=3, max_rhs=rnd.choice([2, 3, 4])), 'r%d' % i)
    i = 0
    while not R.out_of_time() and i < (60 if R.tier == 'quick' else 1000):       # unit-rule-rich grammars (unit cycles through the start variable, several unit alternatives)
        i += 1
        case(E.random_unit_cfg(rnd), 'u%d' % i)
    R.bounds['cfg-unit'] = 'seeded random grammars (2-4 variables) in which every variable has 1-3 unit alternatives in random order next to terminal / binary alternatives'
    R.bounds['cfg'] = 'a fifth of (thorough: all) grammars with variables S,A over {a}, 2 rules, rhs <=2; hand-written grammars (unit cycles of length 3, > 26 variables, unreachable long rules, character-class variables); seeded random grammars (<=4 variables, <=3 rules each, rhs <=4, nullable / unit / cyclic rules). Languages compared on all words of length <= %d with an independent derivability procedure; each phase alone and the pipeline cumulatively' % N
