"""C18 bounded stand-in / replay search: NFA union / concatenation / star on arbitrary operands, call histories and generators."""
import itertools
from .. import ref, enum as E
from ..objs import desc, build
from .common import snap

QUICK_S, THOROUGH_S = 35, 320


def lang_machine(kind, N1, N2):
    """reference acceptor for the operation, as a machine for ref.product_search: sets of (tag, state) simulated directly"""
    m1, m2 = ref.m_nfa(N1), (ref.m_nfa(N2) if N2 is not None else None)
    if kind == 'union':
        return ((m1[0], m2[0]), lambda s, a: (m1[1](s[0], a), m2[1](s[1], a)), lambda s: m1[2](s[0]) or m2[2](s[1]))
    if kind == 'concatenation':
        # state: (S1, frozenset of S2-configurations started so far)
        def start():
            S1 = m1[0]; T = frozenset([m2[0]]) if m1[2](S1) else frozenset()
            return (S1, T)
        def step(s, a):
            S1 = m1[1](s[0], a); T = set(m2[1](t, a) for t in s[1])
            if m1[2](S1): T.add(m2[0])
            return (S1, frozenset(T))
        return (start(), step, lambda s: any(m2[2](t) for t in s[1]))
    if kind == 'repetition':
        # state: frozenset of N1-configurations; whenever one is accepting a fresh copy of the start is added; flag = empty word
        def norm(T):
            T = set(T)
            if any(m1[2](t) for t in T): T.add(m1[0])
            return frozenset(T)
        return ((norm([m1[0]]), True), lambda s, a: (norm(m1[1](t, a) for t in s[0]), False), lambda s: s[1] or any(m1[2](t) for t in s[0]))


def chk(kind, N1, N2, gen_index, history):
    import gambatools.nfa_algorithms as A
    from gambatools.identifier_generator import IdentifierGenerator
    f = {'union': A.nfa_union, 'concatenation': A.nfa_concatenation, 'repetition': A.nfa_repetition}[kind]
    for _ in range(history):        # earlier calls of the constructions in the same process (shared default generator in the original code)
        A.nfa_repetition(build(desc(N1)))
    b1, b2 = snap(N1), (snap(N2) if N2 is not None else None)
    args = [N1] + ([N2] if kind != 'repetition' else [])
    if gen_index is not None and kind != 'concatenation': args.append(IdentifierGenerator(gen_index))
    R = f(*args)
    if snap(N1) != b1 or (N2 is not None and kind != 'repetition' and snap(N2) != b2): return False, 'operands unchanged', 'operand modified'
    if not ref.nfa_wf(R): return False, 'valid NFA', 'invalid: %s' % desc(R)
    ops = N1.Q | (N2.Q if (N2 is not None and kind != 'repetition') else set())
    if kind != 'concatenation' and R.q0 in ops: return False, 'introduced state distinct from operand states', R.q0
    Sg = N1.Sigma | (N2.Sigma if (N2 is not None and kind != 'repetition') else set())
    w = ref.product_search([lang_machine(kind, N1, N2 if kind != 'repetition' else None), ref.m_nfa(R)], lambda t: t[0] == t[1], Sg)
    # second use of the same operands must give the same language (operands intact)
    R2 = f(*([N1] + ([N2] if kind != 'repetition' else [])))
    w2 = ref.product_search([ref.m_nfa(R), ref.m_nfa(R2)], lambda t: t[0] == t[1], Sg)
    return w is None and w2 is None, 'L(result) = %s of the operand languages' % kind, 'differs on %r / repeated call differs on %r' % (w, w2)


CHECKS = {'nfa_op': lambda c: chk(c['kind'], build(c['N1']), build(c['N2']) if c.get('N2') else None, c.get('gen'), c.get('history', 0))}
def replay(case): return CHECKS[case['check']](case['case'])


def run(R):
    rnd = R.rnd
    def case(kind, N1, N2, gen, hist, tag):
        c = {'kind': kind, 'N1': desc(N1), 'N2': desc(N2) if N2 is not None else None, 'gen': gen, 'history': hist}
        R.guard('nfa_op', 'nfa-' + kind, lambda: c, lambda: chk(kind, N1, N2, gen, hist) + ((tag, kind, gen, hist),), 'nfa_' + kind)
    i = 0
    styles = [['q0', 'q1', 'q2', 'q3'], ['s', 't', 'u', 'v'], ['q1', 'q3', 'q5', 'q0']]
    styles2 = [['p0', 'p1', 'p2'], ['q4', 'q5', 'q6'], ['q2', 'x', 'y']]
    while not R.out_of_time() and i < (400 if R.tier == 'quick' else 6000):
        i += 1
        eps = rnd.choice(['', '_', 'ε', 'e'])
        n1, n2 = rnd.randint(1, 3), rnd.randint(1, 3)
        a = rnd.choice(styles)[:n1]; b = [x for x in rnd.choice(styles2) if x not in a][:n2]
        if not b: continue
        kind1 = rnd.choice(['plain', 'total', 'default'])
        N1 = E.random_nfa(rnd, len(a), 'ab', eps=eps, names=a, kind=kind1)
        N2 = E.random_nfa(rnd, len(b), rnd.choice(['ab', 'b', 'bc']), eps=eps if rnd.random() < 0.7 else rnd.choice(['', '_', 'e']), names=b)
        if N1.epsilon in N2.Sigma or N2.epsilon in N1.Sigma: continue
        gen = rnd.choice([None, None, 0, 1, 4]); hist = rnd.choice([0, 0, 1, 3])
        for kind in ('union', 'concatenation', 'repetition'): case(kind, N1, N2, gen, hist, 'r%d' % i)
    R.bounds['nfa'] = 'seeded random operand pairs (1-3 states each, disjoint, names in styles that collide with generated names q0,q1,..; epsilon in {"", _, ε, e}, possibly different for the two operands; plain / total / defaultdict maps), explicit generators starting at 0/1/4 or the default, 0-3 earlier calls; languages compared exactly (product search) with reference acceptors built from the operand semantics; every construction is applied twice to the same operands'
