"""C03 bounded stand-in / replay search: subset construction compared exactly (all words) with an independent determinisation."""
import itertools
from .. import ref, enum as E
from ..objs import desc, build
from .common import snap

QUICK_S, THOROUGH_S = 30, 300


def chk(N):
    from gambatools.nfa_algorithms import nfa_to_dfa
    from gambatools.dfa import print_state_set
    b = snap(N)
    D = nfa_to_dfa(N)
    if snap(N) != b: return False, 'argument unchanged', 'NFA modified'
    if not ref.dfa_wf(D): return False, 'valid total DFA', 'invalid: %s' % desc(D)
    if D.Sigma != N.Sigma: return False, 'same alphabet', sorted(D.Sigma)
    if D.q0 != print_state_set(ref.Eclo(N, {N.q0})): return False, 'initial state = closure of q0', D.q0
    if ref.dfa_reach(D) != D.Q: return False, 'every state reachable', sorted(D.Q - ref.dfa_reach(D))
    w = ref.nfa_equiv_dfa(N, D)
    return w is None, 'same language', 'differs on %r' % w


def edit_in_place(N, edits):
    """apply in-place edits to the transition map of N (the caller owns N and may change it between calls): each edit is
    ('add', q, a, t) or ('del', q, a, t); a is a letter or the epsilon symbol of N"""
    for op, q, a, t in edits:
        if op == 'add':
            if (q, a) in N.delta: N.delta[q, a].add(t)
            else: N.delta[q, a] = {t}
        elif (q, a) in N.delta: N.delta[q, a].discard(t)


def chk_history(N, edits):
    """the subset construction is a function of the CURRENT content of its argument: run it, let the owner edit the NFA in place, run it again"""
    r = chk(N)
    if not r[0]: return r
    edit_in_place(N, edits)
    if not ref.nfa_wf(N): return True, None, None
    r = chk(N)
    return (r[0], 'after in-place edits %s: %s' % (edits, r[1]), r[2])


CHECKS = {'nfa_to_dfa': lambda c: chk(build(c['N'])), 'nfa_to_dfa_history': lambda c: chk_history(build(c['N']), [tuple(e) for e in c['edits']])}
def replay(case): return CHECKS[case['check']](case['case'])


def naming_ok(N):
    """N1: print_state_set is injective on the subsets of N.Q that can occur (checked on all subsets for small Q)"""
    from gambatools.dfa import print_state_set
    seen = {}
    for S in E.subsets(sorted(N.Q)):
        k = print_state_set(S)
        if k in seen and seen[k] != S: return False
        seen[k] = S
    return True


def run(R):
    rnd = R.rnd
    def case(N, tag):
        if len(N.Q) <= 6 and not naming_ok(N):
            R.notes.append('skipped %s: state names make print_state_set ambiguous (assumption N1)' % tag); return
        R.guard('nfa_to_dfa', 'subset-construction', lambda: {'N': desc(N)}, lambda: chk(N) + ((tag,),), 'nfa_to_dfa')
    cnt = 0
    for N in E.all_nfas(2, 'a', eps='e'):
        cnt += 1
        if R.tier == 'quick' and cnt % 2: continue
        case(N, 'ex%d' % cnt)
    from gambatools.nfa import NFA
    case(NFA({'q'}, set(), {}, 'q', {'q'}, ''), 'empty-alphabet')
    case(NFA({'q', 'r'}, {'a'}, {}, 'q', set(), ''), 'no-transitions')
    i = 0
    styles = [None, ['(p,q)', '(p,r)', '(q,q)', '(r,p)', '(q,r)'], ['{q0}', '{q0,q1}', '{}', '{q1}', '{q1,q2}'], ['s', 't', 'trap', 'P1', 'q_0']]
    while not R.out_of_time() and i < (500 if R.tier == 'quick' else 8000):
        i += 1
        n = rnd.randint(2, 5); names = rnd.choice(styles)
        N = E.random_nfa(rnd, n, 'ab'[:rnd.randint(1, 2)], eps=rnd.choice(['', 'e', '_']), names=names[:n] if names else None)
        case(N, 'r%d' % i)
        if i % 3 == 0 and (len(N.Q) > 6 or naming_ok(N)):       # the same NFA object again after its owner edited it in place (stale caches would show)
            Qs = sorted(N.Q); syms = sorted(N.Sigma) + [N.epsilon]
            edits = [(rnd.choice(['add', 'add', 'del']), rnd.choice(Qs), rnd.choice(syms), rnd.choice(Qs)) for _ in range(rnd.randint(1, 2))]
            N2 = E.random_nfa(rnd, n, 'ab'[:rnd.randint(1, 2)], eps=rnd.choice(['', 'e', '_']))
            Qs = sorted(N2.Q); syms = sorted(N2.Sigma) + [N2.epsilon]
            edits = [(rnd.choice(['add', 'add', 'del']), rnd.choice(Qs), rnd.choice(syms), rnd.choice(Qs)) for _ in range(rnd.randint(1, 2))]
            d2 = desc(N2)
            R.guard('nfa_to_dfa_history', 'subset-construction-after-edit', lambda: {'N': d2, 'edits': [list(e) for e in edits]}, lambda: chk_history(N2, edits) + (('h%d' % i,),), 'nfa_to_dfa')
    R.bounds['nfa'] = 'all epsilon-NFAs with 2 states over {a} (every second one in quick); seeded random NFAs with 2-5 states over {a}/{a,b}, plain/total/defaultdict maps, three epsilon symbols, state names in four styles (plain, product-style "(p,q)", set-style "{q0,q1}", mixed); equivalence decided exactly by product search with an independent subset construction'
