"""C03 bounded stand-in / replay search: subset construction compared exactly (all words) with an independent determinisation."""
import itertools
from .. import ref, enum as E
from ..objs import desc, build
from .common import snap

QUICK_S, THOROUGH_S = 30, 300


def chk(N):
    from gambatools.nfa_algorithms import nfa_to_dfa
    from gambatools.dfa import print_state_set
    b = snap(N)
    D = nfa_to_dfa(N)
    if snap(N) != b: return False, 'argument unchanged', 'NFA modified'
    if not ref.dfa_wf(D): return False, 'valid total DFA', 'invalid: %s' % desc(D)
    if D.Sigma != N.Sigma: return False, 'same alphabet', sorted(D.Sigma)
    if D.q0 != print_state_set(ref.Eclo(N, {N.q0})): return False, 'initial state = closure of q0', D.q0
    if ref.dfa_reach(D) != D.Q: return False, 'every state reachable', sorted(D.Q - ref.dfa_reach(D))
    w = ref.nfa_equiv_dfa(N, D)
    return w is None, 'same language', 'differs on %r' % w


CHECKS = {'nfa_to_dfa': lambda c: chk(build(c['N']))}
def replay(case): return CHECKS[case['check']](case['case'])


def naming_ok(N):
    """N1: print_state_set is injective on the subsets of N.Q that can occur (checked on all subsets for small Q)"""
    from gambatools.dfa import print_state_set
    seen = {}
    for S in E.subsets(sorted(N.Q)):
        k = print_state_set(S)
        if k in seen and seen[k] != S: return False
        seen[k] = S
    return True


def run(R):
    rnd = R.rnd
    def case(N, tag):
        if len(N.Q) <= 6 and not naming_ok(N):
            R.notes.append('skipped %s: state names make print_state_set ambiguous (assumption N1)' % tag); return
        R.guard('nfa_to_dfa', 'subset-construction', lambda: {'N': desc(N)}, lambda: chk(N) + ((tag,),), 'nfa_to_dfa')
    cnt = 0
    for N in E.all_nfas(2, 'a', eps='e'):
        cnt += 1
        if R.tier == 'quick' and cnt % 2: continue
        case(N, 'ex%d' % cnt)
    from gambatools.nfa import NFA
    case(NFA({'q'}, set(), {}, 'q', {'q'}, ''), 'empty-alphabet')
    case(NFA({'q', 'r'}, {'a'}, {}, 'q', set(), ''), 'no-transitions')
    i = 0
    styles = [None, ['(p,q)', '(p,r)', '(q,q)', '(r,p)', '(q,r)'], ['{q0}', '{q0,q1}', '{}', '{q1}', '{q1,q2}'], ['s', 't', 'trap', 'P1', 'q_0']]
    while not R.out_of_time() and i < (500 if R.tier == 'quick' else 8000):
        i += 1
        n = rnd.randint(2, 5); names = rnd.choice(styles)
        N = E.random_nfa(rnd, n, 'ab'[:rnd.randint(1, 2)], eps=rnd.choice(['', 'e', '_']), names=names[:n] if names else None)
        case(N, 'r%d' % i)
    R.bounds['nfa'] = 'all epsilon-NFAs with 2 states over {a} (every second one in quick); seeded random NFAs with 2-5 states over {a}/{a,b}, plain/total/defaultdict maps, three epsilon symbols, state names in four styles (plain, product-style "(p,q)", set-style "{q0,q1}", mixed); equivalence decided exactly by product search with an independent subset construction'
