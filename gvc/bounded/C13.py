"""C13 bounded stand-in / replay search: for every exercise type the answer computed by the notebook generator
(notebooks/make_notebook.py:apply_command, called unmodified on temporary reference files) must be accepted with OK by the
corresponding checker.  Reference objects: the shipped examples and seeded random DFAs, NFAs, PDAs, TMs, regexps and
non-degenerate simple grammars."""
import os, sys, tempfile, shutil, glob, io, contextlib, importlib.util
from .. import ref, enum as E
from ..objs import desc, build
from .C12 import out_of, is_ok, simple_cfg

QUICK_S, THOROUGH_S = 60, 480


_MN = []
def make_notebook():
    if _MN: return _MN[0]
    path = os.path.join(os.environ.get('GVC_REPO_ROOT', '/repo'), 'notebooks', 'make_notebook.py')
    import warnings; warnings.simplefilter("ignore")
    spec = importlib.util.spec_from_file_location('gvc_make_notebook', path)
    m = importlib.util.module_from_spec(spec); spec.loader.exec_module(m)
    _MN.append(m); return m


def exercise(MN, kind, files, extra):
    """returns (checker output, answer) for one exercise instance; files: reference file names"""
    import gambatools.notebook as NB, gambatools.notebook_dfa as ND, gambatools.notebook_nfa2dfa as NN, gambatools.notebook_cfg as NG, gambatools.notebook_chomsky as NC
    NG.display = lambda *_: None
    ap = MN.apply_command; load = lambda f: ap('load', [f])
    if kind in ('dfa_union', 'dfa_intersection', 'dfa_symmetric_difference'):
        ans = ap(kind, files); chk = getattr(ND, 'check_' + kind)
        return out_of(chk, ans, load(files[0]), load(files[1])), ans
    if kind == 'dfa_complement': ans = ap(kind, files); return out_of(ND.check_dfa_complement, ans, load(files[0])), ans
    if kind == 'dfa_reverse': ans = ap(kind, files); return out_of(ND.check_dfa_reverse, load(files[0]), ans, extra.get('length', 8)), ans
    if kind in ('dfa_minimize', 'dfa_hopfcroft'): ans = ap(kind, files); return out_of(ND.check_dfa_minimal, load(files[0]), ans), ans
    if kind == 'dfa2regexp': ans = ap(kind, files); return out_of(NB.check_dfa2regexp, load(files[0]), ans), ans
    if kind == 'nfa2dfa': ans = ap(kind, files); return out_of(NN.check_nfa2dfa, load(files[0]), ans), ans
    if kind == 'cfg_cyk_matrix': ans = ap(kind, [files[0], extra['word']]); return out_of(NG.check_cyk_matrix, load(files[0]), extra['word'], ans), ans
    if kind in ('cfg_leftmost_derivation', 'cfg_rightmost_derivation'):
        ans = ap(kind, [files[0], extra['word']]); return out_of(NG.check_cfg_derivation, load(files[0]), ans, extra['word'], kind.split('_')[1]), ans
    if kind.startswith('chomsky'):
        ans = ap(kind, [files[0], extra['start']]); return out_of(NC.cfg_check_chomsky, load(files[0]), ans, int(kind[-1]), extra['start'], extra.get('length', 4)), ans
    if kind == 'generate':
        n = extra['length']; ans = ap('generate', [files[0], str(n)]); ext = files[0].rsplit('.', 1)[1]
        chk = {'dfa': NB.check_dfa_language_from_words, 'nfa': NB.check_nfa_language_from_words, 'pda': NB.check_pda_language_from_words, 'tm': NB.check_tm_language_from_words,
               'cfg': NB.check_cfg_language_from_words, 'regexp': NB.check_regexp_language_from_words}[ext]
        return (out_of(chk, load(files[0]), ans, n, 0) if ext in ('dfa', 'nfa', 'pda', 'tm') else out_of(chk, load(files[0]), ans, n)), ans
    raise KeyError(kind)


def chk(kind, texts, extra):
    MN = make_notebook()
    d = tempfile.mkdtemp(prefix='gvc-c13-')
    try:
        files = []
        for i, (ext, t) in enumerate(texts):
            f = os.path.join(d, 'ref%d.%s' % (i, ext)); open(f, 'w', encoding='utf-8').write(t); files.append(f)
        out, ans = exercise(MN, kind, files, extra)
    finally:
        shutil.rmtree(d, ignore_errors=True)
    return is_ok(out), 'OK for the library\'s own answer', {'checker_output': out[:300], 'answer': ans[:400]}


CHECKS = {'own_answer': lambda c: chk(c['kind'], [tuple(x) for x in c['texts']], c['extra'])}
def replay(case): return CHECKS[case['check']](case['case'])


def run(R):
    rnd = R.rnd
    import gambatools.dfa_algorithms as DA, gambatools.nfa_algorithms as NA, gambatools.pda_algorithms as PA, gambatools.tm_algorithms as TA, gambatools.cfg_algorithms as CA
    from gambatools.regexp import print_regexp_simple
    def case(kind, texts, extra, tag):
        c = {'kind': kind, 'texts': [list(x) for x in texts], 'extra': extra}
        if kind == 'dfa2regexp' and set(DA.parse_dfa(texts[0][1]).Sigma) & {'0', '1'}: kind = 'dfa2regexp-digit-symbols'; c['kind'] = 'dfa2regexp'      # known finding F22
        R.guard('own_answer', 'own-answer-' + kind, lambda: c, lambda: chk(c['kind'], texts, extra) + ((tag, kind, str(extra)),), kind, timeout=10 if texts[0][0] == 'pda' else 60, timeout_ok=True)      # PDAs that push on epsilon loops run into the closure limit: slow, not wrong
    # shipped examples, as in notebooks.batch
    ex = os.path.join(os.environ.get('GVC_REPO_ROOT', '/repo'), 'examples')
    rd = lambda n: open(os.path.join(ex, n), encoding='utf-8').read()
    for f in sorted(glob.glob(os.path.join(ex, '*.dfa'))):
        t = rd(os.path.basename(f))
        try: D = DA.parse_dfa(t)
        except Exception: continue
        for kind in ('dfa_complement', 'dfa_reverse', 'dfa_minimize', 'dfa_hopfcroft', 'dfa2regexp'): case(kind, [('dfa', t)], {}, os.path.basename(f))
        case('generate', [('dfa', t)], {'length': 5}, os.path.basename(f))
    for a, b in (('union1.dfa', 'union2.dfa'), ('intersection1.dfa', 'intersection2.dfa'), ('symmetric_difference1.dfa', 'symmetric_difference2.dfa')):
        for kind in ('dfa_union', 'dfa_intersection', 'dfa_symmetric_difference'): case(kind, [('dfa', rd(a)), ('dfa', rd(b))], {}, a)
    for f in ('nfa1.nfa', 'nfa2.nfa'): case('nfa2dfa', [('nfa', rd(f))], {}, f); case('generate', [('nfa', rd(f))], {'length': 5}, f)
    for f in ('pda1.pda', 'pda2.pda', 'pda3.pda', 'pda4.pda', 'pda-simple.pda'): case('generate', [('pda', rd(f))], {'length': 4}, f)
    case('generate', [('tm', rd('tm1.tm'))], {'length': 4}, 'tm1.tm'); case('generate', [('regexp', rd('regexp1.regexp'))], {'length': 5}, 'regexp1'); case('generate', [('cfg', rd('cfg1.cfg'))], {'length': 4}, 'cfg1')
    for f in ('chomsky1.cfg', 'cfg1.cfg', 'cfg2.cfg', 'test1.cfg'):
        Gx = CA.parse_simple_cfg(rd(f)); st = next(v for v in 'TZXYWQ' if v not in Gx.V)      # exercise parameter: a variable that is new for the grammar
        for ph in range(1, 6): case('chomsky%d' % ph, [('cfg', rd(f))], {'start': st, 'length': 4}, f)
    i = 0
    while not R.out_of_time() and i < (40 if R.tier == 'quick' else 800):
        i += 1
        D = E.random_dfa(rnd, rnd.randint(1, 4), rnd.choice(['ab', 'a', 'abc'])); t = DA.print_dfa(D)
        for kind in ('dfa_complement', 'dfa_reverse', 'dfa_minimize', 'dfa_hopfcroft', 'dfa2regexp'): case(kind, [('dfa', t)], {}, 'r%d' % i)
        case('generate', [('dfa', t)], {'length': rnd.randint(0, 5)}, 'r%d' % i)
        D1 = E.random_dfa(rnd, rnd.randint(1, 3), 'ab'); D2 = E.random_dfa(rnd, rnd.randint(1, 3), 'ab', names=['s0', 's1', 's2'])
        for kind in ('dfa_union', 'dfa_intersection', 'dfa_symmetric_difference'): case(kind, [('dfa', DA.print_dfa(D1)), ('dfa', DA.print_dfa(D2))], {}, 'r%d' % i)
        N = E.random_nfa(rnd, rnd.randint(1, 4), 'ab', eps=rnd.choice(['_', 'ε']), kind='default'); tn = NA.print_nfa(N)
        case('nfa2dfa', [('nfa', tn)], {}, 'r%d' % i); case('generate', [('nfa', tn)], {'length': rnd.randint(0, 4)}, 'r%d' % i)
        r = E.random_regexp(rnd, rnd.randint(1, 5), 'ab'); case('generate', [('regexp', print_regexp_simple(r))], {'length': rnd.randint(0, 4)}, 'r%d' % i)
        P = E.random_pda(rnd, nq=2, nt=3, eps='_'); case('generate', [('pda', PA.print_pda(P))], {'length': 2}, 'r%d' % i)
        T = E.random_tm(rnd, halting_q0=0); case('generate', [('tm', TA.print_tm(T))], {'length': 2}, 'r%d' % i)
        G = simple_cfg(rnd); tg = CA.cfg_print_simple(G)
        for ph in range(1, 6): case('chomsky%d' % ph, [('cfg', tg)], {'start': rnd.choice([v for v in 'TZX' if v not in G.V]), 'length': 4}, 'r%d' % i)
        if i % 2 == 0:       # the same reference written with a declared epsilon symbol of its own (simple format: a line `epsilon = e`)
            Ge = simple_cfg(rnd, productive=True, nullable=True) if 'nullable' in simple_cfg.__code__.co_varnames else G
            te = 'epsilon = e\n' + CA.cfg_print_simple(Ge).replace('ε', 'e')
            for ph in range(1, 6): case('chomsky%d' % ph, [('cfg', te)], {'start': rnd.choice([v for v in 'TZX' if v not in Ge.V]), 'length': 4}, 'eps-e%d' % i)
            case('generate', [('cfg', te)], {'length': 3}, 'eps-e%d' % i)
        case('generate', [('cfg', tg)], {'length': 3}, 'r%d' % i)
        C = CA.cfg_to_chomsky(G)
        if CA.cfg_is_simple(C):
            tc = CA.cfg_print_simple(C)
            for w in [w for w in ref.words('ab', 4) if w and ref.cfg_derives(C, w)][:4]:
                case('cfg_cyk_matrix', [('cfg', tc)], {'word': w}, 'r%d' % i)
                case('cfg_leftmost_derivation', [('cfg', tc)], {'word': w}, 'r%d' % i); case('cfg_rightmost_derivation', [('cfg', tc)], {'word': w}, 'r%d' % i)
            case('cfg_cyk_matrix', [('cfg', tc)], {'word': 'abab'}, 'r%d' % i)
    R.bounds['own_answers'] = 'all shipped example files of /repo/examples in the roles of notebooks.batch, and seeded random references (DFAs 1-4 states, DFA pairs, NFAs 1-4 states with epsilon _ or ε, regexps, PDAs, TMs, non-degenerate simple grammars and their Chomsky forms) x every exercise type of the notebook generator (complement, reverse, minimal, Hopcroft, DFA-to-regexp, three products, NFA-to-DFA, CYK table, leftmost / rightmost derivation, Chomsky phases 1-5, language-from-words for all six formalisms)'
