"""C02 bounded stand-in / replay search: bounded language enumeration of all six formalisms against the reference semantics."""
import itertools
from .. import ref, enum as E
from ..objs import desc, build

QUICK_S, THOROUGH_S = 45, 420


def _gen(obj, n):
    from gambatools.language_generator import generate_language
    return generate_language(obj, n)


def chk_dfa(D, n):
    from gambatools.dfa_algorithms import dfa_words_up_to_n
    got = dfa_words_up_to_n(D, n); exp = ref.dfa_lang(D, n)
    return got == exp and _gen(D, n) == exp, sorted(exp), sorted(got)


def chk_nfa(N, n):
    from gambatools.nfa_algorithms import nfa_words_up_to_n
    got = nfa_words_up_to_n(N, n); exp = {w for w in ref.words(N.Sigma, n) if ref.nfa_accepts_by_path(N, w)}
    return got == exp and _gen(N, n) == exp, sorted(exp), sorted(got)


def chk_rx(r, n):
    from gambatools.regexp_algorithms import regexp_words_up_to_n
    got = regexp_words_up_to_n(r, n); exp = ref.rx_lang(r, n)
    return got == exp and _gen(r, n) == exp, sorted(exp), sorted(got)


def chk_tm(T, n, k):
    from gambatools.tm_algorithms import tm_words_up_to_n
    got = tm_words_up_to_n(T, n, k); exp = {w for w in ref.words(T.Sigma, n) if ref.tm_verdict(T, w, k) is True}
    ok = got == exp
    if k == 1000: ok = ok and _gen(T, n) == exp
    return ok, sorted(exp), sorted(got)


def chk_pda(P, n, limit):
    from gambatools.pda_algorithms import pda_words_up_to_n
    from gambatools.global_settings import GambaTools
    old = GambaTools.pda_epsilon_closure_max_iterations
    GambaTools.pda_epsilon_closure_max_iterations = limit
    try:
        got = pda_words_up_to_n(P, n); got2 = _gen(P, n)
    finally:
        GambaTools.pda_epsilon_closure_max_iterations = old
    exp = ref.pda_lang(P, n)
    if not got <= exp: return False, 'only accepted words: subset of %s' % sorted(exp), sorted(got)
    if any(len(w) > n for w in got): return False, 'no word longer than %d' % n, sorted(got)
    if all(ref.pda_closure_sizes_ok(P, w, limit - 1) for w in ref.words(P.Sigma, n)):
        return got == exp and got2 == exp, sorted(exp), sorted(got)
    return True, None, None


def chk_cfg(G, n):
    from gambatools.cfg_algorithms import cfg_words_up_to_n
    before = desc(G)
    got = cfg_words_up_to_n(G, n); exp = ref.cfg_lang(G, n)
    if desc(G) != before: return False, 'argument unchanged', 'grammar modified'
    return got == exp and _gen(G, n) == exp, sorted(exp), sorted(got)


CHECKS = {'dfa_words_up_to_n': lambda c: chk_dfa(build(c['D']), c['n']), 'nfa_words_up_to_n': lambda c: chk_nfa(build(c['N']), c['n']),
          'regexp_words_up_to_n': lambda c: chk_rx(build(c['r']), c['n']), 'tm_words_up_to_n': lambda c: chk_tm(build(c['T']), c['n'], c['k']),
          'pda_words_up_to_n': lambda c: chk_pda(build(c['P']), c['n'], c['limit']), 'cfg_words_up_to_n': lambda c: chk_cfg(build(c['G']), c['n'])}
def replay(case): return CHECKS[case['check']](case['case'])


def hand_pdas():
    from gambatools.pda_algorithms import parse_pda
    yield parse_pda('states p q r\ninitial p\nfinal r\ninput_symbols a b\nstack_symbols x\np q a,_x\np q b,_x\nq r a,x_\nq r b,x_')   # two symbols, same configuration reached twice
    yield parse_pda('states s t f\ninitial s\nfinal f\ninput_symbols a b\nstack_symbols x y\ns s a,_x\ns t _,__\nt t b,x_\nt f _,__')
    yield parse_pda('states s\ninitial s\nfinal s\ninput_symbols a\nstack_symbols x\ns s _,_x')        # epsilon cycle that grows the stack


def run(R):
    rnd = R.rnd
    NS = [0, 1, 2, 3, 4]
    g = lambda grp, kind, case, th, key: R.guard(grp, kind, lambda: case, th, grp, timeout=6 if grp == 'pda_words_up_to_n' else 20, timeout_ok=(grp == 'pda_words_up_to_n'))
    for D in itertools.chain(E.all_dfas(1, 'ab'), E.all_dfas(2, 'ab')):
        for n in NS: g('dfa_words_up_to_n', 'enum-dfa', {'D': desc(D), 'n': n}, lambda: chk_dfa(D, n) + ((str(desc(D)), n),), None)
    cnt = 0
    for N in E.all_nfas(2, 'a', eps='e', plain=True):
        cnt += 1
        if cnt % (5 if R.tier == 'quick' else 1): continue
        for n in (0, 1, 3): g('nfa_words_up_to_n', 'enum-nfa', {'N': desc(N), 'n': n}, lambda: chk_nfa(N, n) + ((cnt, n),), None)
    for size in range(4):
        for r in E.all_regexps(size, 'ab'):
            for n in (0, 1, 2, 4): g('regexp_words_up_to_n', 'enum-regexp', {'r': desc(r), 'n': n}, lambda: chk_rx(r, n) + ((str(r), n),), None)
    for i, P in enumerate(hand_pdas()):
        for n in (0, 1, 2, 3):
            for lim in (25, 8): g('pda_words_up_to_n', 'enum-pda', {'P': desc(P), 'n': n, 'limit': lim}, lambda: chk_pda(P, n, lim) + (('hand%d' % i, n, lim),), None)
    for size in range(3):
        for r in E.all_regexps(size, '01'):       # symbols that print like the constants 0 and 1
            for n in (0, 1, 2, 3): g('regexp_words_up_to_n', 'enum-regexp', {'r': desc(r), 'n': n}, lambda: chk_rx(r, n) + ((str(desc(r)), n),), None)
    i = 0
    while not R.out_of_time() and i < (500 if R.tier == 'quick' else 6000):
        i += 1
        D = E.random_dfa(rnd, rnd.randint(3, 5), 'ab'); n = rnd.choice(NS)
        g('dfa_words_up_to_n', 'enum-dfa', {'D': desc(D), 'n': n}, lambda: chk_dfa(D, n) + (('r%d' % i, n),), None)
        N = E.random_nfa(rnd, rnd.randint(2, 4), 'ab', eps=rnd.choice(['', '_'])); n = rnd.choice(NS)
        g('nfa_words_up_to_n', 'enum-nfa', {'N': desc(N), 'n': n}, lambda: chk_nfa(N, n) + (('r%d' % i, n),), None)
        r = E.random_regexp(rnd, rnd.randint(4, 7), 'ab'); n = rnd.choice(NS)
        g('regexp_words_up_to_n', 'enum-regexp', {'r': desc(r), 'n': n}, lambda: chk_rx(r, n) + (('r%d' % i, n),), None)
        T = E.random_tm(rnd); n = rnd.choice([0, 1, 2, 3]); k = rnd.choice([0, 1, 3, 10, 1000])
        g('tm_words_up_to_n', 'enum-tm', {'T': desc(T), 'n': n, 'k': k}, lambda: chk_tm(T, n, k) + (('r%d' % i, n, k),), None)
        P = E.random_pda(rnd, nq=3, nt=5); n = rnd.choice([0, 1, 2, 3]); lim = rnd.choice([1000, 30, 12, 5])
        if lim == 1000 and not all(ref.pda_closure_sizes_ok(P, w, 60) for w in ref.words(P.Sigma, n)): lim = 20
        g('pda_words_up_to_n', 'enum-pda', {'P': desc(P), 'n': n, 'limit': lim}, lambda: chk_pda(P, n, lim) + (('r%d' % i, n, lim),), None)
        Np = E.random_nfa(rnd, rnd.randint(3, 4), 'ab', eps='', kind='plain'); P2 = E.nfa_as_pda(Np); n = rnd.choice([2, 3])
        g('pda_words_up_to_n', 'enum-pda', {'P': desc(P2), 'n': n, 'limit': 1000}, lambda: chk_pda(P2, n, 1000) + (('nfa%d' % i, n),), None)
        r = E.random_regexp(rnd, rnd.randint(3, 6), '01'); n = rnd.choice(NS)
        g('regexp_words_up_to_n', 'enum-regexp', {'r': desc(r), 'n': n}, lambda: chk_rx(r, n) + (('r01-%d' % i, n),), None)
        G = E.random_cfg(rnd, nv=3, max_rules=3, max_rhs=3, cnf=rnd.random() < 0.3); n = rnd.choice(NS)
        g('cfg_words_up_to_n', 'enum-cfg', {'G': desc(G), 'n': n}, lambda: chk_cfg(G, n) + (('r%d' % i, n),), None)
        G2 = E.random_cnf_colliding_names(rnd); n = rnd.choice([2, 3, 4])
        g('cfg_words_up_to_n', 'enum-cfg', {'G': desc(G2), 'n': n}, lambda: chk_cfg(G2, n) + (('names%d' % i, n),), None)
    R.bounds['enum'] = ('all DFAs <=2 states over {a,b}; epsilon-NFAs with 2 states over {a} (every 5th in quick); all regexps of size <=3; hand-written and seeded random PDAs '
                        '(<=3 states, <=5 transitions, closure limit in {1000,40,30,5}); seeded random TMs (budgets 0..1000), CFGs (<=3 variables, epsilon/unit rules, 30% CNF; CNF grammars over variable names that concatenate ambiguously: A, B, AB, BB, AA); bounds n in 0..4')
