"""C15 bounded stand-in / replay search: simulation traces and derivations are re-checked step by step against the
transition relation / rule set; rejected words give no trace; every call runs under a time limit (termination)."""
import itertools
from .. import ref, enum as E
from ..objs import desc, build
from .common import snap

QUICK_S, THOROUGH_S = 45, 420


def chk_dfa(D, w):
    from gambatools.dfa_algorithms import dfa_simulate_word
    run = dfa_simulate_word(D, w)
    exp = [(ref.dhat(D, D.q0, w[:k]), w[k:]) for k in range(len(w) + 1)]
    return [tuple(r) for r in run] == exp, exp, run


def valid_nfa_run(N, w, run):
    if not run or tuple(run[0]) != (N.q0, w): return 'does not start in (q0, w)'
    if run[-1][1] != '' or run[-1][0] not in N.F: return 'does not end in an accepting state with nothing unread'
    for (p, u), (q, v) in zip(run, run[1:]):
        if u == v and q in ref.step(N, p, N.epsilon): continue
        if u and v == u[1:] and q in ref.step(N, p, u[0]): continue
        return 'step (%s,%r) -> (%s,%r) is not a transition' % (p, u, q, v)
    return None


def chk_nfa(N, w):
    from gambatools.nfa_algorithms import nfa_simulate_word
    b = snap(N)
    run = nfa_simulate_word(N, w)
    if snap(N) != b: return False, 'argument unchanged', 'modified'
    acc = ref.nfa_accepts_by_path(N, w)
    if not acc: return run is None, None, run
    if run is None: return False, 'a run (word is accepted)', None
    err = valid_nfa_run(N, w, run)
    return err is None, 'valid accepting run', '%s: %s' % (err, run)


def chk_pda(P, w):
    from gambatools.pda_algorithms import pda_simulate_word
    b = snap(P)
    run = pda_simulate_word(P, w)
    if snap(P) != b: return False, 'argument unchanged', 'modified'
    acc = ref.pda_accepts(P, w)
    if not acc: return run is None, None, run
    if run is None:
        if ref.pda_closure_sizes_ok(P, w, 999): return False, 'a run (word is accepted, closures below the limit)', None
        return True, None, None
    if not run or (run[0][0], run[0][1], list(run[0][2])) != (P.q0, w, []): return False, 'starts in (q0, w, [])', run[:1]
    if run[-1][1] != '' or run[-1][0] not in P.F: return False, 'ends in an accepting state with nothing unread', run[-1:]
    for (p, u, s), (q, v, t) in zip(run, run[1:]):
        if u == v and ref.pda_step_ok(P, (p, s), P.epsilon, (q, t)): continue
        if u and v == u[1:] and ref.pda_step_ok(P, (p, s), u[0], (q, t)): continue
        return False, 'every step is a transition', 'step (%s,%r,%s) -> (%s,%r,%s)' % (p, u, s, q, v, t)
    return True, None, None


def chk_cfg(G, w, kind):
    from gambatools.cfg_algorithms import cfg_derive_word
    if not w or not ref.cfg_derives(G, w): return True, None, None
    b = desc(G)
    d = cfg_derive_word(G, w, kind)
    if desc(G) != b: return False, 'argument unchanged', 'modified'
    if not d or [str(x) for x in d[0]] != [str(G.S)]: return False, 'starts with the start variable', d[:1]
    if [str(x) for x in d[-1]] != list(w): return False, 'ends with the word', d[-1:]
    k = 'leftmost' if kind in ('any', 'leftmost') else 'rightmost'
    for x, y in zip(d, d[1:]):
        if not ref.cfg_step_ok(G, x, y, k): return False, 'every step rewrites the %s variable by a rule' % k, '%s => %s' % (x, y)
    return True, None, None


CHECKS = {'dfa_simulate_word': lambda c: chk_dfa(build(c['D']), c['w']), 'nfa_simulate_word': lambda c: chk_nfa(build(c['N']), c['w']),
          'pda_simulate_word': lambda c: chk_pda(build(c['P']), c['w']), 'cfg_derive_word': lambda c: chk_cfg(build(c['G']), c['w'], c['kind'])}
def replay(case): return CHECKS[case['check']](case['case'])


def child(seed, count):
    """NFA / PDA simulations in this interpreter (its own PYTHONHASHSEED = other set-iteration orders), each call under a time limit"""
    import random, json, signal
    rnd = random.Random(seed); bad = []; n = 0
    W3 = sorted(ref.words_upto('ab', 3))
    def al(*_): raise TimeoutError()
    for i in range(count):
        N = E.random_nfa(rnd, rnd.randint(2, 5), 'ab', eps=rnd.choice(['', '_'])); P = E.random_pda(rnd, nq=3, nt=6)
        for (name, f, X, key) in (('nfa_simulate_word', chk_nfa, N, 'N'), ('pda_simulate_word', chk_pda, P, 'P')):
            for w in rnd.sample(W3, 4):
                n += 1
                signal.signal(signal.SIGALRM, al); signal.alarm(5)
                try: ok, exp, obs = f(X, w)
                except TimeoutError: ok, exp, obs = (name == 'pda_simulate_word'), 'terminates', 'no result after 5 s'
                except Exception as e: ok, exp, obs = False, 'no exception', '%s: %s' % (type(e).__name__, e)
                finally: signal.alarm(0)
                if not ok and len(bad) < 5: bad.append({'check': name, 'case': {key: desc(X), 'w': w}, 'expected': str(exp), 'observed': str(obs)})
    print('@@CHILD@@' + json.dumps({'n': n, 'bad': bad}))


def run(R):
    rnd = R.rnd
    from .C07 import random_cnf
    from .C09 import hand as pda_hand
    from .C10 import hand as pda_hand2
    W3 = sorted(ref.words_upto('ab', 3))
    for D in itertools.chain(E.all_dfas(1, 'ab'), E.all_dfas(2, 'ab')):
        for w in W3[:9]: R.guard('dfa_simulate_word', 'dfa-trace', lambda: {'D': desc(D), 'w': w}, lambda: chk_dfa(D, w) + ((str(desc(D)), w),), 'dfa_simulate_word')
    n = 0
    for N in E.all_nfas(2, 'a', eps='e'):
        n += 1
        if n % (4 if R.tier == 'quick' else 1): continue
        for w in ('', 'a', 'aa'): R.guard('nfa_simulate_word', 'nfa-trace', lambda: {'N': desc(N), 'w': w}, lambda: chk_nfa(N, w) + ((n, w),), 'nfa_simulate_word', timeout=5)
    for i, P in enumerate(itertools.chain(pda_hand(), pda_hand2())):
        for w in ref.words(P.Sigma, 3): R.guard('pda_simulate_word', 'pda-trace', lambda: {'P': desc(P), 'w': w}, lambda: chk_pda(P, w) + (('hand%d' % i, w),), 'pda_simulate_word', timeout=10, timeout_ok=True)
    i = 0
    while not R.out_of_time() and i < (200 if R.tier == 'quick' else 3000):
        i += 1
        N = E.random_nfa(rnd, rnd.randint(2, 5), 'ab', eps=rnd.choice(['', '_']))
        for w in rnd.sample(W3, 6): R.guard('nfa_simulate_word', 'nfa-trace', lambda: {'N': desc(N), 'w': w}, lambda: chk_nfa(N, w) + (('r%d' % i, w),), 'nfa_simulate_word', timeout=5)
        P = E.random_pda(rnd, nq=3, nt=6)
        for w in rnd.sample(W3, 4): R.guard('pda_simulate_word', 'pda-trace', lambda: {'P': desc(P), 'w': w}, lambda: chk_pda(P, w) + (('r%d' % i, w),), 'pda_simulate_word', timeout=10, timeout_ok=True)
        G = random_cnf(rnd, rnd.choice([['S', 'A', 'B', 'C'], ['S', 'A', 'B']]))
        for w in rnd.sample(W3, 5):
            for kind in ('leftmost', 'rightmost', 'any'):
                R.guard('cfg_derive_word', 'cfg-derivation', lambda: {'G': desc(G), 'w': w, 'kind': kind}, lambda: chk_cfg(G, w, kind) + (('r%d' % i, w, kind),), 'cfg_derive_word', timeout=10)
        D = E.random_dfa(rnd, rnd.randint(3, 5), 'ab')
        for w in rnd.sample(W3, 4): R.guard('dfa_simulate_word', 'dfa-trace', lambda: {'D': desc(D), 'w': w}, lambda: chk_dfa(D, w) + (('r%d' % i, w),), 'dfa_simulate_word')
    import os, subprocess, sys, json
    root = os.path.dirname(os.path.dirname(os.path.dirname(os.path.abspath(__file__))))
    for hs in ([1, 2, 3] if R.tier == 'quick' else [1, 2, 3, 4, 5, 6, 7, 8]):
        r = subprocess.run([sys.executable, '-c', 'import gvc.bounded.C15 as m; m.child(%d, %d)' % (R.seed + hs, 120 if R.tier == 'quick' else 600)], capture_output=True, text=True,
                           env=dict(os.environ, PYTHONHASHSEED=str(hs)), cwd=root, timeout=1200)
        line = [l for l in r.stdout.split('\n') if l.startswith('@@CHILD@@')]
        if not line: R.fail('hash_seed', 'process-crash', {'hashseed': hs}, 'child completes', (r.stderr or r.stdout)[-400:]); continue
        res = json.loads(line[0][9:]); R.evaluations += res['n']; R.groups.setdefault('other_hash_seeds', {'n': 0})['n'] += res['n']
        for b in res['bad']: R.fail(b['check'], 'trace-' + b['check'], b['case'], b['expected'], b['observed'], b['check'])
    R.bounds['traces'] = 'all DFAs <=2 states over {a,b}; a quarter of (thorough: all) epsilon-NFAs with 2 states over {a} (epsilon self-loops and cycles included); hand-written and seeded random PDAs; seeded random NFAs (2-5 states), CNF grammars (3-4 variables, several binary alternatives per variable) with leftmost / rightmost / any derivations; words <=3; every call under a 5-10 s limit; NFA / PDA simulations repeated in fresh interpreters with PYTHONHASHSEED 1..3 (thorough 1..8): other set-iteration orders'
