"""C05 bounded stand-in / replay search: regexp matcher and simplifier against the denotational semantics."""
from .. import ref, enum as E
from ..objs import desc, build

QUICK_S, THOROUGH_S = 30, 300


def chk_match(r, w):
    from gambatools.regexp_algorithms import regexp_accepts_word
    got = regexp_accepts_word(r, w); exp = ref.mem(w, r)
    return got is exp, exp, got


def chk_simplify(r):
    from gambatools.regexp_algorithms import regexp_simplify, regexp_size
    before = desc(r)
    s = regexp_simplify(r)
    if desc(r) != before: return False, 'argument unchanged', 'argument modified'
    wit = ref.rx_equiv_rx(r, s)
    if wit is not None: return False, 'same language', 'simplify(%s) = %s differs on word %r' % (r, s, wit)
    if ref.rx_size(s) > ref.rx_size(r) or ref.rx_nodes(s) > ref.rx_nodes(r): return False, 'not larger than argument', 'size %d -> %d' % (ref.rx_size(r), ref.rx_size(s))
    if regexp_size(r) != ref.rx_size(r): return False, ref.rx_size(r), regexp_size(r)
    return True, None, None


CHECKS = {'regexp_accepts_word': lambda c: chk_match(build(c['r']), c['w']), 'regexp_simplify': lambda c: chk_simplify(build(c['r']))}
def replay(case): return CHECKS[case['check']](case['case'])


def run(R):
    rnd = R.rnd
    W = sorted(ref.words_upto('ab', 4), key=lambda w: (len(w), w))
    def cases(r, tag, words):
        d = desc(r)
        for w in words:
            R.guard('regexp_accepts_word', 'regexp-match', lambda: {'r': d, 'w': w}, lambda: chk_match(r, w) + ((tag, w),), 'regexp_accepts_word')
        R.guard('regexp_simplify', 'regexp-simplify', lambda: {'r': d}, lambda: chk_simplify(r) + ((tag,),), 'regexp_simplify')
    n = 0
    maxsize = 3 if R.tier == 'quick' else 4
    for size in range(maxsize + 1):
        for r in E.all_regexps(size, 'ab'):
            n += 1; cases(r, 'ex%d' % n, W if size <= 2 else W[:15])
    R.bounds['regexp'] = 'all regular expression trees of size <= %d over {a,b} (size as regexp_size) x all words of length <= 4 (<= 3 for the largest size); seeded random trees of size 5-9, 12 random words <= 6' % maxsize
    i = 0
    W6 = sorted(ref.words_upto('ab', 6))
    while not R.out_of_time() and i < (300 if R.tier == 'quick' else 5000):
        i += 1
        r = E.random_regexp(rnd, rnd.randint(5, 9), 'ab')
        cases(r, 'r%d' % i, rnd.sample(W6, 12))
        # sums of look-alike operands (same shape and leaves, one + / . switched; identical operands) and expressions built from a pool of small pieces
        import gambatools.regexp as rx_
        base = E.random_regexp(rnd, rnd.randint(2, 5), 'ab'); tw = E.regexp_twin(rnd, base)
        if tw is not None:
            cases(rx_.Sum(base, tw), 'twin%d' % i, rnd.sample(W6, 8)); cases(rx_.Concat(rx_.Sum(tw, base), base), 'twinc%d' % i, rnd.sample(W6, 6))
        cases(rx_.Sum(base, base), 'same%d' % i, rnd.sample(W6, 6))
        cases(E.regexp_pool_combo(rnd), 'pool%d' % i, rnd.sample(W6, 8))
