"""C11 bounded stand-in / replay search: TM step, bounded run, three-valued verdict against the reference semantics."""
from .. import ref, enum as E
from ..objs import desc, build

QUICK_S, THOROUGH_S = 25, 240
BUDGETS = [0, 1, 2, 3, 4, 6, 10, 40]


def chk_verdict(T, w, k):
    from gambatools.tm_algorithms import tm_accepts_word
    got = tm_accepts_word(T, w, k); exp = ref.tm_verdict(T, w, k)
    return got is exp, exp, got


def chk_trace(T, w, k):
    from gambatools.tm_algorithms import tm_simulate_word, tm_accepts_word
    got = tm_simulate_word(T, w, k)
    exp = [(q, list(t), h) for (q, t, h) in ref.tm_run(T, w, k)]
    got_n = [(q, list(t), h) for (q, t, h) in got]
    if got_n != exp: return False, exp, got_n
    v = tm_accepts_word(T, w, k); last = got[-1][0]
    agree = (v is True and last == T.q_accept) or (v is False and last == T.q_reject) or (v is None and last not in (T.q_accept, T.q_reject))
    return agree, 'trace agrees with verdict', 'verdict %s, last state %s' % (v, last)


def chk_mono(T, w):
    from gambatools.tm_algorithms import tm_accepts_word
    vs = [tm_accepts_word(T, w, k) for k in BUDGETS]
    for i, v in enumerate(vs):
        if v is not None and any(u is not v for u in vs[i:]): return False, 'decided verdict never changes with a larger budget', list(zip(BUDGETS, vs))
    return True, None, None


CHECKS = {'tm_accepts_word': lambda c: chk_verdict(build(c['T']), c['w'], c['k']), 'tm_simulate_word': lambda c: chk_trace(build(c['T']), c['w'], c['k']),
          'budget_monotone': lambda c: chk_mono(build(c['T']), c['w'])}
def replay(case): return CHECKS[case['check']](case['case'])


def hand_machines():
    from gambatools.tm import TM
    # left move at the left end that writes; missing transitions; initial halting states; blank writes
    yield TM({'s', 't', 'acc', 'rej'}, {'a', 'b'}, {'a', 'b', 'x', '_'}, {('s', 'a'): ('t', 'b', 'L'), ('t', 'b'): ('acc', 'b', 'R'), ('s', 'b'): ('s', '_', 'R'), ('s', '_'): ('t', 'x', 'L'), ('t', 'x'): ('s', 'a', 'L')}, 's', 'acc', 'rej', '_')
    yield TM({'acc', 'rej'}, {'a'}, {'a', '_'}, {}, 'acc', 'acc', 'rej', '_')
    yield TM({'acc', 'rej'}, {'a'}, {'a', '_'}, {}, 'rej', 'acc', 'rej', '_')
    yield TM({'s', 'acc', 'rej'}, {'a'}, {'a', '_'}, {('s', 'a'): ('s', 'a', 'R'), ('s', '_'): ('s', '_', 'R')}, 's', 'acc', 'rej', '_')
    yield TM({'s', 'acc', 'rej'}, {'a'}, {'a', '_'}, {('s', 'a'): ('s', 'a', 'L')}, 's', 'acc', 'rej', '_')


def run(R):
    rnd = R.rnd
    def cases(T, tag):
        d = desc(T)
        for w in list(ref.words(T.Sigma, 2)) + ['aab', 'abab'][:1 if len(T.Sigma) < 2 else 2]:
            if not ref.over(T.Sigma, w): continue
            for k in BUDGETS:
                R.guard('tm_accepts_word', 'tm-verdict', lambda: {'T': d, 'w': w, 'k': k}, lambda: chk_verdict(T, w, k) + ((tag, w, k),), 'tm_accepts_word')
                R.guard('tm_simulate_word', 'tm-trace', lambda: {'T': d, 'w': w, 'k': k}, lambda: chk_trace(T, w, k) + ((tag, w, k),), 'tm_simulate_word')
            R.guard('budget_monotone', 'tm-budget', lambda: {'T': d, 'w': w}, lambda: chk_mono(T, w) + ((tag, w),), 'tm_accepts_word')
    for i, T in enumerate(hand_machines()): cases(T, 'hand%d' % i)
    i = 0
    while not R.out_of_time() and i < (250 if R.tier == 'quick' else 6000):
        i += 1
        cases(E.random_tm(rnd, nq=3, Sigma=('a', 'b')[:rnd.randint(1, 2)], extra=('x',)[:rnd.randint(0, 1)]), 'r%d' % i)
    R.bounds['tm'] = 'hand-written corner machines + seeded random TMs (<=3 working states, partial delta, |Gamma| <= 4, initial state sometimes halting), words <= 2 plus two longer ones, budgets %s' % BUDGETS
