"""C10 bounded stand-in / replay search: PDA normal forms and PDA -> CFG, exact references on both sides (CFL-reachability
for PDAs, span fixpoint for grammars), all words up to a bound."""
import copy
from .. import ref, enum as E
from ..objs import desc, build
from .common import snap

QUICK_S, THOROUGH_S = 60, 500


def push_pop_only(P):
    e = P.epsilon
    return all((u == e) != (v == e) for (p, a, u), T in P.delta.items() for (q, v) in T)


def chk_nf(P, which, n):
    import gambatools.pda_algorithms as A
    b = snap(P); L0 = ref.pda_lang(P, n)
    if which == 'one_accepting':
        Q = copy.deepcopy(P); A.pda_to_one_accepting_state_in_place(Q); ok_s = len(Q.F) == 1 or len(P.F) == 1
    elif which == 'push_pop':
        Q = A.pda_to_push_pop(P); ok_s = push_pop_only(Q) and A.pda_is_push_pop(Q)
    else:
        Q = A.pda_to_accept_on_empty_stack(P); ok_s = len(Q.F) == 1
    if snap(P) != b: return False, 'argument unchanged', 'modified'
    if not ref.pda_wf(Q): return False, 'valid PDA', desc(Q)
    if not ok_s: return False, 'structural requirement of ' + which, desc(Q)
    L1 = ref.pda_lang(Q, n)
    return L0 == L1, sorted(L0), sorted(L1)


def chk_cfg(P, n):
    import gambatools.pda_algorithms as A
    b = snap(P)
    G = A.pda_to_cfg(P)
    if snap(P) != b: return False, 'argument unchanged', 'modified'
    if not ref.cfg_valid(G): return False, 'valid grammar', 'invalid'
    L0 = ref.pda_lang(P, n); L1 = ref.cfg_lang(G, n)
    return L0 == L1, sorted(L0), sorted(L1)


CHECKS = {'normal_form': lambda c: chk_nf(build(c['P']), c['which'], c['n']), 'pda_to_cfg': lambda c: chk_cfg(build(c['P']), c['n'])}
def replay(case): return CHECKS[case['check']](case['case'])


def hand():
    from gambatools.pda_algorithms import parse_pda
    yield parse_pda('states q0 q1\ninitial q0\nfinal q1\ninput_symbols a\nstack_symbols x\nq0 q1 a,_x')                                  # accepts with a non-empty stack
    yield parse_pda('states p q\ninitial p\nfinal q\ninput_symbols a b c\nstack_symbols A B\np p a,_A\np q c,_B\nq q b,A_')           # accepting state with an outgoing move blocked by the stack top
    yield parse_pda('states s p q f\ninitial s\nfinal f\ninput_symbols a b c d\nstack_symbols X Y Z\ns p _,_X\np q a,XY\np q b,XZ\nq f c,Y_\nq f d,Z_')   # two replace moves between the same states
    yield parse_pda('states p q\ninitial p\nfinal p q\ninput_symbols a b\nstack_symbols $ x\np p a,_$\np q b,$x\nq q b,x_')          # several accepting states, $ already a stack symbol
    yield parse_pda('states p\ninitial p\nfinal\ninput_symbols a\nstack_symbols x\np p a,_x')                                              # no accepting state
    from gambatools.pda import PDA
    yield PDA({'p', 'q'}, {'a'}, {'∅', '$'}, {('p', 'a', ''): {('q', '')}, ('q', 'a', ''): {('q', '∅')}, ('q', '', '∅'): {('p', '$')}}, 'p', {'q'}, '')   # marker symbols in use, no-op move


def run(R):
    rnd = R.rnd
    def case(P, tag, n, with_cfg=True):
        d = desc(P)
        for which in ('one_accepting', 'push_pop', 'empty_stack'):
            R.guard('normal_form', 'pda-' + which, lambda: {'P': d, 'which': which, 'n': n}, lambda: chk_nf(P, which, n) + ((tag, which),), 'pda_to_' + which, timeout=30, timeout_ok=True)
        if with_cfg:
            R.guard('pda_to_cfg', 'pda-to-cfg', lambda: {'P': d, 'n': min(n, 3)}, lambda: chk_cfg(P, min(n, 3)) + ((tag,),), 'pda_to_cfg', timeout=60, timeout_ok=True)
    for i, P in enumerate(hand()): case(P, 'hand%d' % i, 4)
    n_ = 0
    for P in E.all_pdas(1, 'a', 'x', 2):
        n_ += 1
        if n_ % (4 if R.tier == 'quick' else 1) == 0: case(P, 'ex%d' % n_, 3, with_cfg=(n_ % 8 == 0 or R.tier != 'quick'))
    i = 0
    while not R.out_of_time() and i < (60 if R.tier == 'quick' else 1500):
        i += 1
        P = E.random_pda(rnd, nq=rnd.randint(1, 3), nt=rnd.randint(1, 5), Gamma=rnd.choice([('x', 'y'), ('x', 'y'), ('$', 'x'), ('∅', 'x')]))
        case(P, 'r%d' % i, 3, with_cfg=len(P.Q) <= 2)
    R.bounds['pda'] = 'hand-written PDAs (acceptance with a non-empty stack, accepting state with blocked outgoing move, parallel replace moves, several / no accepting states, marker symbols $ and ∅ already in the stack alphabet, no-op moves); a quarter of (thorough: all) PDAs with 1 state / 2 transitions; seeded random PDAs (<=3 states, <=5 transitions); languages compared on all words of length <= 3 (4 for the hand-written ones) with exact references on both sides; pda_to_cfg only for PDAs with <=2 states (grammar size)'
