"""Bounded stand-ins and replay search: the contracts' executable form evaluated on the real code over enumerated /
seeded-random small instances.  Labelled `bounded` everywhere and never counted as proved (DESIGN 2.7)."""
import json, time, hashlib, traceback, random, signal
from ..objs import desc


class Timeout(Exception): pass


class Run(object):
    def __init__(self, pid, tier, seed, budget_s):
        self.pid, self.tier, self.seed = pid, tier, seed
        self.rnd = random.Random(seed)
        # quick tier: the case counts of the modules are the intended bound (the same work on every machine and seed); the wall-clock budget is
        # only a safety net and therefore generous.  thorough tier: the budget is the bound
        self.t0 = time.time(); self.budget_s = budget_s * (4 if tier == 'quick' else 1)
        self.evaluations = 0; self.distinct = set(); self.samples = []; self.violations = []; self.groups = {}
        self.notes = []; self.bounds = {}

    def time_left(self): return self.budget_s - (time.time() - self.t0)
    def out_of_time(self): return self.time_left() <= 0

    def ok(self, group, key=None, sample=None):
        """one evaluated case that satisfied its contract"""
        self.evaluations += 1
        g = self.groups.setdefault(group, {'n': 0})
        g['n'] += 1
        if key is not None: self.distinct.add(hashlib.md5(('%s|%s' % (group, key)).encode()).hexdigest()[:12])
        if sample is not None and g['n'] <= 1: self.samples.append({'check': group, 'case': sample})

    def fail(self, group, kind, case, expected, observed, fn=None):
        self.evaluations += 1
        if sum(1 for v in self.violations if v['check'] == group) >= 3: return
        self.violations.append({'check': group, 'kind': kind, 'function': fn, 'case': case, 'expected': expected, 'observed': observed})

    def guard(self, group, kind, case_fn, thunk, fn=None, timeout=10, timeout_ok=False):
        """run thunk (-> (ok, expected, observed, key)) with a wall-clock limit; exceptions are violations of the
        default contract 'no exception escapes'"""
        if sum(1 for v in self.violations if v['check'] == group) >= 3:
            self.groups.setdefault(group + ':skipped-after-3-violations', {'n': 0})['n'] += 1; return False      # fail fast
        def on_alarm(*_): raise Timeout()
        old = signal.signal(signal.SIGALRM, on_alarm); signal.alarm(timeout)
        try:
            ok, expected, observed, key = thunk()
        except Timeout:
            if timeout_ok:
                self.groups.setdefault(group + ':skipped-slow', {'n': 0})['n'] += 1; return True
            ok, expected, observed, key = False, 'terminates', 'no result after %d s' % timeout, None
        except Exception as e:
            ok, expected, observed, key = False, 'no exception', '%s: %s' % (type(e).__name__, e), None
        finally:
            signal.alarm(0); signal.signal(signal.SIGALRM, old)
        if ok: self.ok(group, key, case_fn() if self.groups.get(group, {'n': 0})['n'] == 0 else None)
        else: self.fail(group, kind, case_fn(), expected, observed, fn)
        return ok

    def result(self):
        return {'property': self.pid, 'tier': self.tier, 'seed': self.seed, 'evaluations': self.evaluations, 'distinct_nontrivial': len(self.distinct),
                'groups': {k: v['n'] for k, v in self.groups.items()}, 'samples': self.samples[:12], 'violations': self.violations,
                'notes': self.notes, 'bounds': self.bounds, 'wall_s': round(time.time() - self.t0, 2)}
