"""C06 bounded stand-in / replay search: regexp -> NFA and DFA -> regexp, languages compared exactly (derivative automaton
of the expression against the automaton, product search over all reachable pairs = all words)."""
import itertools, os, subprocess, sys, json
from .. import ref, enum as E
from ..objs import desc, build
from .common import snap

QUICK_S, THOROUGH_S = 45, 420


def chk_r2n(r):
    from gambatools.regexp_algorithms import regexp_to_nfa
    b = desc(r)
    N = regexp_to_nfa(r)
    if desc(r) != b: return False, 'argument unchanged', 'modified'
    if not ref.nfa_wf(N): return False, 'valid NFA', desc(N)
    w = ref.rx_equiv_nfa(r, N)
    return w is None, 'L(NFA) = L(r)', 'differs on %r' % (w,)


def chk_d2r(D):
    from gambatools.regexp_algorithms import dfa_to_regexp
    b = snap(D)
    r = dfa_to_regexp(D)
    if snap(D) != b: return False, 'argument unchanged', 'modified'
    w = ref.rx_equiv_dfa(r, D)
    return w is None, 'L(r) = L(D)', 'r = %s differs on %r' % (r, w)


CHECKS = {'regexp_to_nfa': lambda c: chk_r2n(build(c['r'])), 'dfa_to_regexp': lambda c: chk_d2r(build(c['D']))}
def replay(case): return CHECKS[case['check']](case['case'])


def child(seed, count):
    import random
    rnd = random.Random(seed); bad = []
    for i in range(count):
        D = E.random_dfa(rnd, rnd.randint(2, 4), rnd.choice(['ab', 'a', '01']))
        try: ok, exp, obs = chk_d2r(D)
        except Exception as e: ok, exp, obs = False, 'no exception', '%s: %s' % (type(e).__name__, e)
        if not ok: bad.append({'check': 'dfa_to_regexp', 'case': {'D': desc(D)}, 'expected': exp, 'observed': str(obs)})
    print('@@CHILD@@' + json.dumps({'n': count, 'bad': bad[:5]}))


def run(R):
    rnd = R.rnd
    g1 = lambda r, tag: R.guard('regexp_to_nfa', 'regexp-to-nfa', lambda: {'r': desc(r)}, lambda: chk_r2n(r) + ((tag,),), 'regexp_to_nfa', timeout=20)
    g2 = lambda D, tag: R.guard('dfa_to_regexp', 'dfa-to-regexp', lambda: {'D': desc(D)}, lambda: chk_d2r(D) + ((tag,),), 'dfa_to_regexp', timeout=20)
    n = 0
    for size in range(4 if R.tier == 'quick' else 5):
        for r in E.all_regexps(size, 'ab'):
            n += 1; g1(r, 'ex%d' % n)
    for size in range(3):
        for r in E.all_regexps(size, '01'):
            n += 1; g1(r, 'ex01-%d' % n)
    for i, r in enumerate(E.regexp_templates()):
        if R.tier == 'quick' and i % 2: continue
        g1(r, 'tpl%d' % i)
    for i, D in enumerate(itertools.chain(E.all_dfas(1, 'ab'), E.all_dfas(2, 'ab'), E.all_dfas(2, '01'))): g2(D, 'ex%d' % i)
    for i, D in enumerate(E.all_dfas(3, 'a')): g2(D, 'ex3a%d' % i)
    from gambatools.dfa import DFA
    g2(DFA({'start', 'accept'}, {'a'}, {('start', 'a'): 'accept', ('accept', 'a'): 'start'}, 'start', {'accept'}), 'reserved-names')
    i = 0
    while not R.out_of_time() and i < (250 if R.tier == 'quick' else 4000):
        i += 1
        g1(E.random_regexp(rnd, rnd.randint(5, 9), rnd.choice(['ab', 'ab', '01', 'abc'])), 'r%d' % i)
        g1(E.regexp_pool_combo(rnd, depth=rnd.choice([2, 2, 3])), 'pool%d' % i)      # 1 + x, x*.y, (1 + x)*, ... : the shapes a special-cased construction would touch
        g2(E.random_dfa(rnd, rnd.randint(3, 5), rnd.choice(['ab', 'a', '01'])), 'r%d' % i)
    root = os.path.dirname(os.path.dirname(os.path.dirname(os.path.abspath(__file__))))
    for hs in ([5, 9] if R.tier == 'quick' else [1, 2, 3, 5, 8, 9, 13]):
        r = subprocess.run([sys.executable, '-c', 'import gvc.bounded.C06 as m; m.child(%d, %d)' % (R.seed + hs, 120 if R.tier == 'quick' else 600)], capture_output=True, text=True,
                           env=dict(os.environ, PYTHONHASHSEED=str(hs)), cwd=root, timeout=900)
        line = [l for l in r.stdout.split('\n') if l.startswith('@@CHILD@@')]
        if not line: R.fail('hash_seed', 'process-crash', {'hashseed': hs}, 'child completes', (r.stderr or r.stdout)[-400:]); continue
        res = json.loads(line[0][9:]); R.evaluations += res['n']; R.groups.setdefault('other_elimination_orders', {'n': 0})['n'] += res['n']
        for b in res['bad']: R.fail(b['check'], 'dfa-to-regexp', b['case'], b['expected'], b['observed'], 'dfa_to_regexp')
    R.bounds['c06'] = 'all regexps of size <=3 (<=4 thorough) over {a,b} and size <=2 over {0,1}; all two-level combinations of {1, a, b, a*, 1+a} under + / . / * (every second one in quick); seeded random trees of size 5-9 and trees assembled from a pool of small pieces (1, 0, letters, starred / optional letters); all DFAs <=2 states over {a,b} / {0,1}, 3 states over {a}, states named start/accept; seeded random DFAs 3-5 states, also in fresh interpreters with other PYTHONHASHSEED values (other state-elimination orders); equivalence decided exactly via the derivative automaton'
