"""Sidecar contracts: bound to functions of /repo/src/gambatools by qualified name, to loops by ordinal."""
import ast, hashlib, os
import z3
from .ty import parse_type, sort_of, NONE

def repo_src():
    return os.environ.get('GVC_REPO_SRC', '/repo/src')


REPO_SRC = repo_src()


class Contract(object):
    def __init__(self, module, qualname, params, returns=None, requires=(), ensures=(), loops=None, pure=True, modifies=(),
                 theories=('word',), decreases=(), types=None, ghost=None, defaults=None, props=(), symbol_is_regexp=False,
                 hints=None, bounded=None, note='', variant='', asserts=(), verify=True, pre_return_asserts=(), result_shares=None, type_invariants=(), raises=None, raise_witness=None):
        self.module, self.qualname = module, qualname
        self.variant = variant
        self.key = qualname + ('[%s]' % variant if variant else '')
        self.name = qualname.replace('.', '_') + (('_' + variant) if variant else '')
        self.params = dict(params)
        self.param_types = {n: parse_type(t) for n, t in self.params.items()}
        self.result_type = parse_type(returns) if returns else None
        self.requires, self.ensures = list(requires), list(ensures)
        self.loops = loops or {}
        self.pure, self.modifies = pure and not modifies, list(modifies)
        self.theories = list(theories)
        self.decreases = list(decreases)
        self.types = types or {}
        self.ghost = ghost or {}
        self.defaults = defaults or {}
        self.props = list(props)
        self.symbol_is_regexp = symbol_is_regexp
        self.hints = hints or {}
        # facts true of every Python value of the parameter types (e.g. "a set object is finite"): assumed at entry, never a proof
        # obligation of callers (they are not preconditions); listed as assumptions in the evidence
        self.type_invariants = list(type_invariants)
        # the only hints that are assumed without proof are instances of a least-fixpoint schema or of the Finset fact card_lt_card (exit_hints), and
        # finiteness of Python sets (type_invariants); anything else in these slots is a contract error
        import re as _re
        for L_ in (loops or {}).values():
            for h_ in L_.get('exit_hints', []):
                assert _re.match(r'^(\w+_least\(|all\(card_strict_subset\()', h_), 'exit hint is not a schema instance: %s' % h_
        for h_ in self.type_invariants:
            assert _re.match(r'^(fin\(|all\(fin\()', h_), 'type invariant is not a finiteness fact: %s' % h_
        # {field: place}: the result's field is (possibly) the very object held in `place` (e.g. {'Sigma': 'self.Sigma'}), a mutable set that
        # later calls of methods of the same object only ever enlarge.  Values obtained earlier are then re-read with an enlarged field.
        self.result_shares = dict(result_shares or {})
        self.asserts = list(asserts)
        # exceptional postcondition: a condition over the entry state such that the function raises an exception exactly when it holds
        # (every `raise` statement and every raising call is justified by it, every normal return refutes it); None: the function must not raise
        # a list is a disjunction; `raise_witness` {callee contract name | 'raise#k' (k-th raise statement): index} names the disjunct that
        # justifies an exceptional exit (a stronger obligation than the whole disjunction, stated to keep the queries small)
        self.raises_parts = None if raises is None else ([raises] if isinstance(raises, str) else list(raises))
        self.raises = None if raises is None else ' or '.join('(%s)' % r for r in self.raises_parts)
        self.raise_witness = dict(raise_witness or {})
        # proved (then assumed) before the return expression is evaluated; a list applies to every return statement, a dict
        # {'last': [...], n: [...]} to the last / the n-th return statement in source order
        self.pre_return_asserts = dict(pre_return_asserts) if isinstance(pre_return_asserts, dict) else list(pre_return_asserts)
        self.verify = verify      # False: contract assumed at call sites, the function itself is only checked by its bounded stand-in
        self.is_method = '.' in qualname
        self.note = note
        self._fns = {}

    def result_fn(self, key, arg_sorts):
        if key not in self._fns:
            self._fns[key] = z3.Function('res_%s_%d' % (self.name, len(self._fns)), *(arg_sorts + [sort_of(self.result_type or NONE)]))
        return self._fns[key]

    @property
    def path(self):
        return os.path.join(repo_src(), *self.module.split('.')) + '.py'

    def load(self):
        """(FunctionDef node, source segment) from the working tree"""
        src = open(self.path, encoding='utf-8').read()
        tree = ast.parse(src)
        parts = self.qualname.split('.')
        scope = tree.body
        node = None
        for i, pn in enumerate(parts):
            node = next((n for n in scope if isinstance(n, (ast.FunctionDef, ast.ClassDef)) and n.name == pn), None)
            if node is None: raise KeyError('%s not found in %s' % (self.qualname, self.path))
            scope = node.body
        seg = ast.get_source_segment(src, node)
        return node, seg, hashlib.sha256(seg.encode()).hexdigest()[:16]


class Registry(object):
    def __init__(self):
        self.by_name = {}

    def add(self, c):
        self.by_name[c.key] = c
        return c

    def variants(self, name):
        return [c for c in self.by_name.values() if c.qualname == name]

    def find(self, name, caller):
        vs = self.variants(name)
        return vs or None

    BASES = {'DFABuilder': 'AutomatonBuilder', 'NFABuilder': 'AutomatonBuilder', 'PDABuilder': 'AutomatonBuilder', 'TMBuilder': 'AutomatonBuilder'}

    def find_method(self, caller, name):
        cls = caller.qualname.split('.')[0]
        while cls is not None:            # methods inherited from the base class are bound to the base class's contract
            vs = self.variants('%s.%s' % (cls, name))
            if vs: return vs
            cls = self.BASES.get(cls)
        return None


REG = Registry()


def contract(*a, **k):
    return REG.add(Contract(*a, **k))
