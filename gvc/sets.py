"""Portable set algebra: uninterpreted functions with pointwise axioms (no z3-only array combinators, so the
same SMT-LIB text is accepted by cvc5).  Functions are generated per element sort on demand; GEN_AXIOMS is
included in every query."""
import z3
from z3 import ForAll, Implies, And, Or, Not, Select, Function, Const, BoolSort, IntSort
from .ty import *

GEN_AXIOMS = []      # (name, formula)
_fns = {}


def _fn(name, et, mk):
    key = (name, et.key)
    if key not in _fns:
        _fns[key] = mk()
    return _fns[key]


def _setop(name, et, body):
    def mk():
        S = sort_of(SET(et)); E = sort_of(et)
        f = Function('%s_%s' % (name, ''.join(c if c.isalnum() else '_' for c in et.key)), S, S, S)
        A, B = Const('A', S), Const('B', S); x = Const('x', E)
        GEN_AXIOMS.append(('%s[%s]' % (name, et.key), ForAll([A, B, x], Select(f(A, B), x) == body(Select(A, x), Select(B, x)))))
        return f
    return _fn(name, et, mk)


def union(a, b): return SV(a.t, _setop('union', a.t.args[0], lambda p, q: Or(p, q))(a.z, b.z))
def inter(a, b): return SV(a.t, _setop('inter', a.t.args[0], lambda p, q: And(p, q))(a.z, b.z))
def diff(a, b): return SV(a.t, _setop('diff', a.t.args[0], lambda p, q: And(p, Not(q)))(a.z, b.z))
def symdiff(a, b): return SV(a.t, _setop('symdiff', a.t.args[0], lambda p, q: z3.Xor(p, q))(a.z, b.z))


def subset(a, b):
    x = fresh_z('x', sort_of(a.t.args[0]))
    return ForAll([x], Implies(Select(a.z, x), Select(b.z, x)))


def disjoint(a, b):
    x = fresh_z('x', sort_of(a.t.args[0]))
    return ForAll([x], Not(And(Select(a.z, x), Select(b.z, x))))


def nonempty(a):
    x = fresh_z('x', sort_of(a.t.args[0]))
    return z3.Exists([x], Select(a.z, x))


def is_empty(a):
    x = fresh_z('x', sort_of(a.t.args[0]))
    return ForAll([x], Not(Select(a.z, x)))


def card(a):
    """cardinality of a finite set: uninterpreted, with the axioms used by termination / counting arguments"""
    et = a.t.args[0]

    def mk():
        S = sort_of(SET(et)); E = sort_of(et)
        f = Function('card_%s' % ''.join(c if c.isalnum() else '_' for c in et.key), S, IntSort())
        A = Const('A', S); x = Const('x', E)
        GEN_AXIOMS.append(('card-nonneg[%s]' % et.key, ForAll([A], f(A) >= 0)))
        GEN_AXIOMS.append(('card-empty[%s]' % et.key, f(z3.K(E, z3.BoolVal(False))) == 0))
        GEN_AXIOMS.append(('card-add[%s]' % et.key, ForAll([A, x], f(z3.Store(A, x, z3.BoolVal(True))) == z3.If(Select(A, x), f(A), f(A) + 1))))
        GEN_AXIOMS.append(('card-remove[%s]' % et.key, ForAll([A, x], f(z3.Store(A, x, z3.BoolVal(False))) == z3.If(Select(A, x), f(A) - 1, f(A)))))
        return f
    return SV(INT, _fn('card', et, mk)(a.z))


def view(m):
    """total view of a Map[K, Set[E]]: missing key -> empty set"""
    kt, vt = m.t.args[0], m.t.args[1]
    assert vt.kind == 'set'

    def mk():
        K, V = sort_of(kt), sort_of(vt)
        D = z3.ArraySort(K, BoolSort()); VA = z3.ArraySort(K, V)
        f = Function('view_%s' % ''.join(c if c.isalnum() else '_' for c in (kt.key + vt.key)), D, VA, VA)
        d, v, k = Const('d', D), Const('v', VA), Const('k', K)
        GEN_AXIOMS.append(('view[%s]' % m.t.key, ForAll([d, v, k], Select(f(d, v), k) == z3.If(Select(d, k), Select(v, k), z3.K(sort_of(vt.args[0]), z3.BoolVal(False))))))
        return f
    return _fn('view', TUP(kt, vt), mk)(map_dom(m), map_val(m))
