"""Portable set algebra: uninterpreted functions with pointwise axioms (no z3-only array combinators, so the
same SMT-LIB text is accepted by cvc5).  Functions are generated per element sort on demand; GEN_AXIOMS is
included in every query."""
import z3
from z3 import ForAll, Implies, And, Or, Not, Select, Function, Const, BoolSort, IntSort
from .ty import *

GEN_AXIOMS = []      # (name, formula)
GEN_LEMMAS = []      # names of generated axioms that are consequences of the pointwise definitions (proved on every run by gvc.induct)
_fns = {}


def _fn(name, et, mk):
    key = (name, et.key)
    if key not in _fns:
        _fns[key] = mk()
    return _fns[key]


def _setop(name, et, body):
    def mk():
        S = sort_of(SET(et)); E = sort_of(et)
        f = Function('%s_%s' % (name, ''.join(c if c.isalnum() else '_' for c in et.key)), S, S, S)
        A, B = Const('A', S), Const('B', S); x = Const('x', E)
        GEN_AXIOMS.append(('%s[%s]' % (name, et.key), ForAll([A, B, x], Select(f(A, B), x) == body(Select(A, x), Select(B, x)))))
        return f
    return _fn(name, et, mk)


def union(a, b): return SV(a.t, _setop('union', a.t.args[0], lambda p, q: Or(p, q))(a.z, b.z))
def inter(a, b): return SV(a.t, _setop('inter', a.t.args[0], lambda p, q: And(p, q))(a.z, b.z))
def diff(a, b):
    r = SV(a.t, _setop('diff', a.t.args[0], lambda p, q: And(p, Not(q)))(a.z, b.z))
    key = ('fin-diff', a.t.args[0].key)
    if key not in _fns:
        _fns[key] = True
        S_ = sort_of(a.t); A, B = Const('A', S_), Const('B', S_); f = _fin_fn(a.t.args[0]); d = _setop('diff', a.t.args[0], None)
        GEN_AXIOMS.append(('fin-diff[%s]' % a.t.args[0].key, ForAll([A, B], Implies(f(A), f(d(A, B))))))
        # two set identities (pointwise tautologies) used to move single-element updates through a difference
        x = Const('x', sort_of(a.t.args[0])); T_, F_ = z3.BoolVal(True), z3.BoolVal(False)
        GEN_LEMMAS.extend(['diff-remove-right[%s]' % a.t.args[0].key, 'diff-add-both[%s]' % a.t.args[0].key, 'diff-of-subset-empty[%s]' % a.t.args[0].key, 'diff-add-right[%s]' % a.t.args[0].key])
        GEN_AXIOMS.append(('diff-add-right[%s]' % a.t.args[0].key, ForAll([A, B, x], d(A, z3.Store(B, x, T_)) == z3.Store(d(A, B), x, F_))))
        GEN_AXIOMS.append(('diff-remove-right[%s]' % a.t.args[0].key, ForAll([A, B, x], d(A, z3.Store(B, x, F_)) == z3.Store(d(A, B), x, Select(A, x)))))
        GEN_AXIOMS.append(('diff-of-subset-empty[%s]' % a.t.args[0].key, ForAll([A, B], Implies(ForAll([x], Implies(Select(A, x), Select(B, x))), d(A, B) == z3.K(sort_of(a.t.args[0]), F_)), patterns=[d(A, B)])))
        GEN_AXIOMS.append(('diff-add-both[%s]' % a.t.args[0].key, ForAll([A, B, x], d(z3.Store(A, x, T_), z3.Store(B, x, T_)) == z3.Store(d(A, B), x, F_))))
    return r
def symdiff(a, b): return SV(a.t, _setop('symdiff', a.t.args[0], lambda p, q: z3.Xor(p, q))(a.z, b.z))


def subset(a, b):
    x = fresh_z('x', sort_of(a.t.args[0]))
    return ForAll([x], Implies(Select(a.z, x), Select(b.z, x)))


def disjoint(a, b):
    x = fresh_z('x', sort_of(a.t.args[0]))
    return ForAll([x], Not(And(Select(a.z, x), Select(b.z, x))))


def pointwise(z, et, x):
    """membership of x in the set term z, with union / intersection / difference at the top unfolded (gives the solver usable triggers)"""
    if z3.is_app(z) and z.num_args() == 2:
        for nm, mk in (('union', lambda p, q: Or(p, q)), ('inter', lambda p, q: And(p, q)), ('diff', lambda p, q: And(p, Not(q)))):
            f = _fns.get((nm, et.key))
            if f is not None and z.decl().eq(f):
                return mk(pointwise(z.arg(0), et, x), pointwise(z.arg(1), et, x))
    return Select(z, x)


def nonempty(a):
    x = fresh_z('x', sort_of(a.t.args[0]))
    return z3.Exists([x], pointwise(a.z, a.t.args[0], x))


def is_empty(a):
    x = fresh_z('x', sort_of(a.t.args[0]))
    return ForAll([x], Not(pointwise(a.z, a.t.args[0], x)))


def _fin_fn(et):
    def mk():
        S = sort_of(SET(et)); E = sort_of(et)
        f = Function('fin_%s' % ''.join(c if c.isalnum() else '_' for c in et.key), S, BoolSort())
        A, B = Const('A', S), Const('B', S); x = Const('x', E)
        GEN_AXIOMS.append(('fin-empty[%s]' % et.key, f(z3.K(E, z3.BoolVal(False)))))
        GEN_AXIOMS.append(('fin-add[%s]' % et.key, ForAll([A, x], f(z3.Store(A, x, z3.BoolVal(True))) == f(A))))
        GEN_AXIOMS.append(('fin-remove[%s]' % et.key, ForAll([A, x], f(z3.Store(A, x, z3.BoolVal(False))) == f(A))))
        return f
    return _fn('fin', et, mk)


def fin(a):
    """a is a finite set (every set built by a program is; spec sets such as closures need not be)"""
    return _fin_fn(a.t.args[0])(a.z)


def card(a):
    """cardinality of a finite set: uninterpreted, with the Finset facts used by counting arguments (each guarded by fin)"""
    et = a.t.args[0]

    def mk():
        S = sort_of(SET(et)); E = sort_of(et)
        f = Function('card_%s' % ''.join(c if c.isalnum() else '_' for c in et.key), S, IntSort())
        fn = _fin_fn(et)
        A, B = Const('A', S), Const('B', S); x = Const('x', E)
        GEN_AXIOMS.append(('card-nonneg[%s]' % et.key, ForAll([A], f(A) >= 0)))
        GEN_AXIOMS.append(('card-empty[%s]' % et.key, f(z3.K(E, z3.BoolVal(False))) == 0))
        GEN_AXIOMS.append(('card-add[%s]' % et.key, ForAll([A, x], Implies(fn(A), f(z3.Store(A, x, z3.BoolVal(True))) == z3.If(Select(A, x), f(A), f(A) + 1)))))
        GEN_AXIOMS.append(('card-remove[%s]' % et.key, ForAll([A, x], Implies(fn(A), f(z3.Store(A, x, z3.BoolVal(False))) == z3.If(Select(A, x), f(A) - 1, f(A))))))
        # consequence of card-remove and card-nonneg (proved on every run): a finite set with an element has at least one
        GEN_LEMMAS.append('card-pos[%s]' % et.key)
        GEN_AXIOMS.append(('card-pos[%s]' % et.key, ForAll([A, x], Implies(And(fn(A), Select(A, x)), f(A) >= 1), patterns=[z3.MultiPattern(f(A), Select(A, x))])))
        # set-at-a-time Finset facts (Set.ncard_diff, Set.ncard_union_le, Set.Finite.union), used by termination measures of work-list loops
        un = _setop('union', et, lambda p, q: Or(p, q)); df = _setop('diff', et, lambda p, q: And(p, Not(q)))
        GEN_AXIOMS.append(('card-diff-subset[%s]' % et.key, ForAll([A, B], Implies(And(fn(A), ForAll([x], Implies(Select(B, x), Select(A, x)))), f(df(A, B)) == f(A) - f(B)), patterns=[f(df(A, B))])))
        GEN_AXIOMS.append(('card-union-le[%s]' % et.key, ForAll([A, B], Implies(And(fn(A), fn(B)), f(un(A, B)) <= f(A) + f(B)), patterns=[f(un(A, B))])))
        GEN_AXIOMS.append(('fin-union[%s]' % et.key, ForAll([A, B], fn(un(A, B)) == And(fn(A), fn(B)))))
        GEN_AXIOMS.append(('fin-subset-diff[%s]' % et.key, ForAll([A, B], Implies(fn(A), fn(df(A, B))))))
        GEN_LEMMAS.append('diff-union-right[%s]' % et.key)
        GEN_AXIOMS.append(('diff-union-right[%s]' % et.key, ForAll([A, B, Const('C', S)], df(A, un(B, Const('C', S))) == df(df(A, B), Const('C', S)))))
        return f
    return SV(INT, _fn('card', et, mk)(a.z))


def card_strict_subset(a, b, x):
    """instance of Finset.card_lt_card: a subset of b, x in b but not in a, b finite  =>  fin a and card a < card b"""
    y = fresh_z('y', sort_of(a.t.args[0]))
    return Implies(And(fin(b), ForAll([y], Implies(Select(a.z, y), Select(b.z, y))), Select(b.z, x.z), Not(Select(a.z, x.z))), And(fin(a), card(a).z < card(b).z))


def view(m):
    """total view of a Map[K, Set[E]]: missing key -> empty set"""
    kt, vt = m.t.args[0], m.t.args[1]
    assert vt.kind == 'set'

    def mk():
        K, V = sort_of(kt), sort_of(vt)
        D = z3.ArraySort(K, BoolSort()); VA = z3.ArraySort(K, V)
        f = Function('view_%s' % ''.join(c if c.isalnum() else '_' for c in (kt.key + vt.key)), D, VA, VA)
        d, v, k = Const('d', D), Const('v', VA), Const('k', K)
        # second trigger: a lookup v[k] in the raw map is related to the view as soon as the view of that map is mentioned anywhere
        GEN_AXIOMS.append(('view[%s]' % m.t.key, ForAll([d, v, k], Select(f(d, v), k) == z3.If(Select(d, k), Select(v, k), z3.K(sort_of(vt.args[0]), z3.BoolVal(False))),
                                                         patterns=[Select(f(d, v), k), z3.MultiPattern(f(d, v), Select(v, k))])))
        # consequence of the definition (proved on every run): the view of an updated map is the updated view
        s_ = Const('s', V)
        GEN_LEMMAS.append('view-store[%s]' % m.t.key)
        GEN_AXIOMS.append(('view-store[%s]' % m.t.key, ForAll([d, v, k, s_], f(z3.Store(d, k, z3.BoolVal(True)), z3.Store(v, k, s_)) == z3.Store(f(d, v), k, s_))))
        return f
    return _fn('view', TUP(kt, vt), mk)(map_dom(m), map_val(m))
