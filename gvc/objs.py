"""Literal descriptions of gambatools objects (for evidence samples and replay files) and their reconstruction."""
from collections import defaultdict


def _cls(o): return type(o).__name__


def desc(o):
    c = _cls(o)
    if c == 'DFA': return {'type': 'DFA', 'Q': sorted(o.Q), 'Sigma': sorted(o.Sigma), 'delta': sorted([q, a, t] for (q, a), t in o.delta.items()), 'q0': o.q0, 'F': sorted(o.F)}
    if c == 'NFA': return {'type': 'NFA', 'Q': sorted(o.Q), 'Sigma': sorted(o.Sigma), 'delta': sorted([q, a, sorted(t)] for (q, a), t in o.delta.items()), 'q0': o.q0, 'F': sorted(o.F),
                           'epsilon': o.epsilon, 'dict': 'default' if isinstance(o.delta, defaultdict) else 'plain'}
    if c == 'PDA': return {'type': 'PDA', 'Q': sorted(o.Q), 'Sigma': sorted(o.Sigma), 'Gamma': sorted(o.Gamma), 'delta': sorted([p, a, u, sorted(map(list, t))] for (p, a, u), t in o.delta.items()),
                           'q0': o.q0, 'F': sorted(o.F), 'epsilon': o.epsilon}
    if c == 'TM': return {'type': 'TM', 'Q': sorted(o.Q), 'Sigma': sorted(o.Sigma), 'Gamma': sorted(o.Gamma), 'delta': sorted([p, a, list(v)] for (p, a), v in o.delta.items()), 'q0': o.q0,
                          'q_accept': o.q_accept, 'q_reject': o.q_reject, 'blank': o.blank}
    if c == 'CFG': return {'type': 'CFG', 'V': sorted(o.V), 'Sigma': sorted(o.Sigma), 'R': [[r.variable, list(r.alternative.symbols)] for r in o.R], 'S': o.S, 'epsilon': o.epsilon}
    if c in ('Zero', 'One'): return {'type': c}
    if c == 'Symbol': return {'type': 'Symbol', 'symbol': o.symbol}
    if c == 'Iteration': return {'type': c, 'operand': desc(o.operand)}
    if c in ('Sum', 'Concat'): return {'type': c, 'left': desc(o.left), 'right': desc(o.right)}
    if isinstance(o, (set, frozenset)): return sorted(desc(x) for x in o) if all(isinstance(x, str) for x in o) else [desc(x) for x in o]
    if isinstance(o, (list, tuple)): return [desc(x) for x in o]
    if isinstance(o, dict): return {str(k): desc(v) for k, v in o.items()}
    return o


def build(d):
    if isinstance(d, list): return [build(x) for x in d]
    if not isinstance(d, dict) or 'type' not in d: return d
    t = d['type']
    if t == 'DFA':
        from gambatools.dfa import DFA
        return DFA(set(d['Q']), set(d['Sigma']), {(q, a): x for q, a, x in d['delta']}, d['q0'], set(d['F']), check_validity=d.get('check', True))
    if t == 'NFA':
        from gambatools.nfa import NFA
        delta = defaultdict(set) if d.get('dict') == 'default' else {}
        for q, a, x in d['delta']: delta[q, a] = set(x)
        return NFA(set(d['Q']), set(d['Sigma']), delta, d['q0'], set(d['F']), d['epsilon'])
    if t == 'PDA':
        from gambatools.pda import PDA
        delta = defaultdict(set)
        for p, a, u, x in d['delta']: delta[p, a, u] = set(map(tuple, x))
        return PDA(set(d['Q']), set(d['Sigma']), set(d['Gamma']), delta, d['q0'], set(d['F']), d['epsilon'])
    if t == 'TM':
        from gambatools.tm import TM
        return TM(set(d['Q']), set(d['Sigma']), set(d['Gamma']), {(p, a): tuple(v) for p, a, v in d['delta']}, d['q0'], d['q_accept'], d['q_reject'], d['blank'])
    if t == 'CFG':
        from gambatools.cfg import CFG, Rule, Alternative, Variable, Terminal
        V = set(d['V'])
        R = [Rule(Variable(a), Alternative([Variable(s) if s in V else Terminal(s) for s in rhs])) for a, rhs in d['R']]
        return CFG({Variable(v) for v in V}, {Terminal(x) for x in d['Sigma']}, R, Variable(d['S']), Terminal(d['epsilon']))
    from gambatools import regexp as rx
    if t == 'Zero': return rx.Zero()
    if t == 'One': return rx.One()
    if t == 'Symbol': return rx.Symbol(d['symbol'])
    if t == 'Iteration': return rx.Iteration(build(d['operand']))
    if t == 'Sum': return rx.Sum(build(d['left']), build(d['right']))
    if t == 'Concat': return rx.Concat(build(d['left']), build(d['right']))
    raise ValueError(t)
