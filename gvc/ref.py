"""Reference semantics ("oracle"): executable twins of the spec functions of gvc.theory, written directly from the
textbook definitions and independent of the library code.  Used for replay of counterexamples, for the bounded
stand-ins, and to sanity-check SMT axioms.  Pure Python, duck-typed on the gambatools record classes."""
import itertools
from collections import deque

# ------------------------------------------------------------------------------------------------ words
def wlen(w): return len(w)
def over(Sigma, w): return all(a in Sigma for a in w)
def isprefix(u, w): return w[:len(u)] == u
def words(Sigma, n):
    """all words over Sigma of length <= n (bounded stand-in for 'all words')"""
    Sg = sorted(Sigma)
    for k in range(n + 1):
        for t in itertools.product(Sg, repeat=k):
            yield ''.join(t)
def words_of_len(Sigma, k):
    return {''.join(t) for t in itertools.product(sorted(Sigma), repeat=k)}
def words_upto(Sigma, n):
    return set(words(Sigma, n))
def implies(a, b): return (not a) or b
def iff(a, b): return bool(a) == bool(b)

# ------------------------------------------------------------------------------------------------ DFA
def dfa_wf(D):
    return (D.q0 in D.Q and D.F <= D.Q and all(q in D.Q and a in D.Sigma and D.delta[q, a] in D.Q for (q, a) in D.delta)
            and all((q, a) in D.delta for q in D.Q for a in D.Sigma))
def dhat(D, q, w):
    for a in w: q = D.delta[q, a]
    return q
def dfa_accepts(D, w): return dhat(D, D.q0, w) in D.F
def dfa_lang(D, n): return {w for w in words(D.Sigma, n) if dfa_accepts(D, w)}
def dfa_reach(D, q=None):
    seen = {D.q0 if q is None else q}; todo = list(seen)
    while todo:
        x = todo.pop()
        for a in D.Sigma:
            y = D.delta[x, a]
            if y not in seen: seen.add(y); todo.append(y)
    return seen
def dfa_equiv(D1, D2):
    """exact language equivalence of two total DFAs over the same alphabet; returns None or a shortest witness word"""
    if D1.Sigma != D2.Sigma: return '<alphabets differ>'
    start = (D1.q0, D2.q0); seen = {start: ''}; todo = deque([start])
    while todo:
        p, q = todo.popleft()
        if (p in D1.F) != (q in D2.F): return seen[p, q]
        for a in sorted(D1.Sigma):
            nx = (D1.delta[p, a], D2.delta[q, a])
            if nx not in seen: seen[nx] = seen[p, q] + a; todo.append(nx)
    return None
def dfa_distinguishable(D):
    """set of unordered pairs of distinguishable states (least fixpoint)"""
    Q = sorted(D.Q); dist = {frozenset((p, q)) for p in Q for q in Q if (p in D.F) != (q in D.F)}
    changed = True
    while changed:
        changed = False
        for p, q in itertools.combinations(Q, 2):
            k = frozenset((p, q))
            if k in dist: continue
            for a in D.Sigma:
                s, t = D.delta[p, a], D.delta[q, a]
                if s != t and frozenset((s, t)) in dist: dist.add(k); changed = True; break
    return dist
def nerode_classes(D, states):
    dist = dfa_distinguishable(D); reps = []
    for q in sorted(states):
        if all(frozenset((q, r)) in dist for r in reps): reps.append(q)
    return len(reps)
def dfa_isomorphic_ref(D1, D2):
    """bijection between reachable parts: q0 -> q0, commutes with delta, preserves F"""
    if D1.Sigma != D2.Sigma: return False
    h = {D1.q0: D2.q0}; inv = {D2.q0: D1.q0}; todo = [D1.q0]
    while todo:
        p = todo.pop(); q = h[p]
        if (p in D1.F) != (q in D2.F): return False
        for a in D1.Sigma:
            p1, q1 = D1.delta[p, a], D2.delta[q, a]
            if p1 in h:
                if h[p1] != q1: return False
            elif q1 in inv: return False
            else: h[p1] = q1; inv[q1] = p1; todo.append(p1)
    return True

# ------------------------------------------------------------------------------------------------ NFA
def nfa_wf(N):
    return (N.q0 in N.Q and N.F <= N.Q and N.epsilon not in N.Sigma and
            all(q in N.Q and (a in N.Sigma or a == N.epsilon) and set(Q1) <= N.Q for (q, a), Q1 in N.delta.items()))
def step(N, q, a):
    return set(N.delta[q, a]) if (q, a) in N.delta else set()
def Eclo(N, S):
    """states reachable from S by epsilon moves alone (reflexive transitive closure)"""
    out = set(S)
    while True:
        nxt = {y for x in out for y in step(N, x, N.epsilon)} - out
        if not nxt: return out
        out |= nxt
def move(N, S, a): return {y for x in S for y in step(N, x, a)}
def Nhat(N, w):
    cur = Eclo(N, {N.q0})
    for a in w: cur = Eclo(N, move(N, cur, a))
    return cur
def nfa_accepts(N, w): return bool(Nhat(N, w) & N.F)
def nfa_accepts_by_path(N, w):
    """existence of an accepting run, by explicit search over (state, position) configurations (independent of Nhat)"""
    seen = {(N.q0, 0)}; todo = [(N.q0, 0)]
    while todo:
        q, i = todo.pop()
        if i == len(w) and q in N.F: return True
        nxt = [(r, i) for r in step(N, q, N.epsilon)]
        if i < len(w): nxt += [(r, i + 1) for r in step(N, q, w[i])]
        for c in nxt:
            if c not in seen: seen.add(c); todo.append(c)
    return False
def nfa_lang(N, n): return {w for w in words(N.Sigma, n) if nfa_accepts(N, w)}
def lookup(m, k): return m[k] if k in m else set()
def nfa_determinize(N):
    """independent subset construction: (states as frozensets, delta, q0, F)"""
    q0 = frozenset(Eclo(N, {N.q0})); Q = {q0}; todo = [q0]; delta = {}
    while todo:
        S = todo.pop()
        for a in N.Sigma:
            T = frozenset(Eclo(N, move(N, S, a))); delta[S, a] = T
            if T not in Q: Q.add(T); todo.append(T)
    return Q, delta, q0, {S for S in Q if S & N.F}
def nfa_equiv_dfa(N, D):
    """exact: L(N) == L(D)?  None or a witness word"""
    Q, delta, q0, F = nfa_determinize(N)
    if N.Sigma != D.Sigma: return '<alphabets differ>'
    seen = {(q0, D.q0): ''}; todo = deque([(q0, D.q0)])
    while todo:
        S, q = todo.popleft()
        if (S in F) != (q in D.F): return seen[S, q]
        for a in sorted(N.Sigma):
            nx = (delta[S, a], D.delta[q, a])
            if nx not in seen: seen[nx] = seen[S, q] + a; todo.append(nx)
    return None
def nfa_equiv_nfa(N1, N2, Sigma=None):
    Sigma = Sigma if Sigma is not None else (N1.Sigma | N2.Sigma)
    a0 = frozenset(Eclo(N1, {N1.q0})); b0 = frozenset(Eclo(N2, {N2.q0}))
    seen = {(a0, b0): ''}; todo = deque([(a0, b0)])
    while todo:
        A, B = todo.popleft()
        if bool(A & N1.F) != bool(B & N2.F): return seen[A, B]
        for a in sorted(Sigma):
            nx = (frozenset(Eclo(N1, move(N1, A, a))), frozenset(Eclo(N2, move(N2, B, a))))
            if nx not in seen: seen[nx] = seen[A, B] + a; todo.append(nx)
    return None

# ------------------------------------------------------------------------------------------------ regular expressions
def _cls(r): return type(r).__name__
def rx_nullable(r):
    c = _cls(r)
    if c == 'Zero': return False
    if c == 'One': return True
    if c == 'Symbol': return False
    if c == 'Iteration': return True
    if c == 'Sum': return rx_nullable(r.left) or rx_nullable(r.right)
    if c == 'Concat': return rx_nullable(r.left) and rx_nullable(r.right)
    raise TypeError(c)
def rx_lang(r, n, memo=None):
    """denotational semantics restricted to words of length <= n (bottom-up on the tree; star by fixpoint)"""
    c = _cls(r)
    if c == 'Zero': return set()
    if c == 'One': return {''}
    if c == 'Symbol': return {r.symbol} if len(r.symbol) <= n else set()
    if c == 'Sum': return rx_lang(r.left, n) | rx_lang(r.right, n)
    if c == 'Concat':
        A, B = rx_lang(r.left, n), rx_lang(r.right, n)
        return {x + y for x in A for y in B if len(x) + len(y) <= n}
    if c == 'Iteration':
        A = rx_lang(r.operand, n) - {''}; out = {''}; frontier = {''}
        while frontier:
            frontier = {x + y for x in frontier for y in A if len(x) + len(y) <= n} - out
            out |= frontier
        return out
    raise TypeError(c)
def mem(w, r): return w in rx_lang(r, len(w))
def rx_size(r):
    c = _cls(r)
    if c in ('Zero', 'One', 'Symbol'): return 0
    if c == 'Iteration': return rx_size(r.operand) + 1
    return rx_size(r.left) + rx_size(r.right) + 2
def rx_nodes(r):
    c = _cls(r)
    if c in ('Zero', 'One', 'Symbol'): return 1
    if c == 'Iteration': return rx_nodes(r.operand) + 1
    return rx_nodes(r.left) + rx_nodes(r.right) + 1
def rx_symbols(r):
    c = _cls(r)
    if c in ('Zero', 'One'): return set()
    if c == 'Symbol': return {r.symbol}
    if c == 'Iteration': return rx_symbols(r.operand)
    return rx_symbols(r.left) | rx_symbols(r.right)
def rx_to_nfa_ref(r):
    """independent position automaton-free route: derivative DFA as (states, delta, q0, F) over rx_symbols(r)"""
    raise NotImplementedError
def rx_derivative_dfa(r, Sigma, limit=400):
    """Brzozowski derivatives on a tuple encoding with ACI-normalisation; returns (delta, q0, F) or None if > limit states"""
    def enc(r):
        c = _cls(r)
        if c == 'Zero': return ('0',)
        if c == 'One': return ('1',)
        if c == 'Symbol': return ('s', r.symbol)
        if c == 'Iteration': return star(enc(r.operand))
        if c == 'Sum': return plus(enc(r.left), enc(r.right))
        return cat(enc(r.left), enc(r.right))
    def plus(a, b):
        xs = set()
        for t in (a, b):
            if t[0] == '+': xs |= set(t[1])
            elif t != ('0',): xs.add(t)
        if not xs: return ('0',)
        if len(xs) == 1: return next(iter(xs))
        return ('+', frozenset(xs))
    def cat(a, b):
        if a == ('0',) or b == ('0',): return ('0',)
        if a == ('1',): return b
        if b == ('1',): return a
        return ('.', a, b)
    def star(a):
        if a in (('0',), ('1',)): return ('1',)
        if a[0] == '*': return a
        return ('*', a)
    def nul(t):
        k = t[0]
        if k == '0': return False
        if k == '1': return True
        if k == 's': return False
        if k == '*': return True
        if k == '+': return any(nul(x) for x in t[1])
        return nul(t[1]) and nul(t[2])
    def d(t, a):
        k = t[0]
        if k in '01': return ('0',)
        if k == 's': return ('1',) if t[1] == a else ('0',)
        if k == '*': return cat(d(t[1], a), t)
        if k == '+':
            out = ('0',)
            for x in t[1]: out = plus(out, d(x, a))
            return out
        l = cat(d(t[1], a), t[2])
        return plus(l, d(t[2], a)) if nul(t[1]) else l
    q0 = enc(r); Q = {q0}; todo = [q0]; delta = {}
    while todo:
        t = todo.pop()
        for a in Sigma:
            u = d(t, a); delta[t, a] = u
            if u not in Q:
                Q.add(u); todo.append(u)
                if len(Q) > limit: return None
    return delta, q0, {t for t in Q if nul(t)}
def rx_equiv_dfa(r, D):
    """exact L(r) == L(D) (symbols of r must be single characters); None or witness"""
    Sg = set(D.Sigma) | rx_symbols(r)
    if not rx_symbols(r) <= set(D.Sigma):
        pass
    res = rx_derivative_dfa(r, sorted(Sg))
    if res is None: return '<derivative automaton too large>'
    delta, q0, F = res
    seen = {(q0, D.q0): ''}; todo = deque([(q0, D.q0)])
    while todo:
        t, q = todo.popleft()
        if (t in F) != (q is not None and q in D.F): return seen[t, q]
        for a in sorted(Sg):
            q1 = D.delta[q, a] if (q is not None and a in D.Sigma) else None
            nx = (delta[t, a], q1)
            if nx not in seen: seen[nx] = seen[t, q] + a; todo.append(nx)
    return None
def rx_equiv_nfa(r, N):
    Sg = sorted(set(N.Sigma) | rx_symbols(r))
    res = rx_derivative_dfa(r, Sg)
    if res is None: return '<derivative automaton too large>'
    delta, q0, F = res
    s0 = frozenset(Eclo(N, {N.q0})); seen = {(q0, s0): ''}; todo = deque([(q0, s0)])
    while todo:
        t, S = todo.popleft()
        if (t in F) != bool(S & N.F): return seen[t, S]
        for a in Sg:
            nx = (delta[t, a], frozenset(Eclo(N, move(N, S, a))))
            if nx not in seen: seen[nx] = seen[t, S] + a; todo.append(nx)
    return None
def rx_equiv_rx(r1, r2):
    Sg = sorted(rx_symbols(r1) | rx_symbols(r2))
    a, b = rx_derivative_dfa(r1, Sg), rx_derivative_dfa(r2, Sg)
    if a is None or b is None: return '<derivative automaton too large>'
    seen = {(a[1], b[1]): ''}; todo = deque([(a[1], b[1])])
    while todo:
        s, t = todo.popleft()
        if (s in a[2]) != (t in b[2]): return seen[s, t]
        for c in Sg:
            nx = (a[0][s, c], b[0][t, c])
            if nx not in seen: seen[nx] = seen[s, t] + c; todo.append(nx)
    return None

# ------------------------------------------------------------------------------------------------ Turing machines
def tm_wf(T):
    return (T.q0 in T.Q and T.q_accept in T.Q and T.q_reject in T.Q and T.q_accept != T.q_reject and T.blank not in T.Sigma
            and T.blank in T.Gamma and T.Sigma <= T.Gamma and
            all(p in T.Q and a in T.Gamma and q in T.Q and b in T.Gamma and d in ('L', 'R') for (p, a), (q, b, d) in T.delta.items()))
def tm_init(T, w):
    tape = list(w) or [T.blank]
    return (T.q0, tuple(tape), 0)
def tm_halting(T, c): return c[0] in (T.q_accept, T.q_reject)
def tm_step(T, c):
    """one step of Sipser's semantics: missing transition = move to q_reject (tape and head as in the library:
    write the read symbol back, move right), left move at cell 0 stays, tape grows with blanks"""
    q, tape, head = c; tape = list(tape); a = tape[head]
    if (q, a) in T.delta: q1, b, d = T.delta[q, a]
    else: q1, b, d = T.q_reject, a, 'R'
    tape[head] = b
    head = max(head - 1, 0) if d == 'L' else head + 1
    if head == len(tape): tape.append(T.blank)
    return (q1, tuple(tape), head)
def tm_run(T, w, k):
    """configurations c_0 .. c_m, m <= k, stopping at the first halting configuration"""
    c = tm_init(T, w); out = [c]
    for _ in range(k):
        if tm_halting(T, c): break
        c = tm_step(T, c); out.append(c)
    return out
def tm_verdict(T, w, k):
    c = tm_run(T, w, k)[-1]
    return True if c[0] == T.q_accept else False if c[0] == T.q_reject else None

# ------------------------------------------------------------------------------------------------ PDA (Sipser, final state)
def pda_wf(P):
    E = P.epsilon
    return (P.q0 in P.Q and E not in P.Sigma and E not in P.Gamma and P.F <= P.Q and
            all(p in P.Q and (a in P.Sigma or a == E) and (u in P.Gamma or u == E) and all(q in P.Q and (v in P.Gamma or v == E) for (q, v) in T)
                for (p, a, u), T in P.delta.items()))
def pda_moves(P):
    """normalised move list: (p, a, kind, x, q) with kind in noop/push/pop; replace moves are split through a virtual state"""
    E = P.epsilon; out = []; k = 0
    for (p, a, u), T in P.delta.items():
        for (q, v) in T:
            if u == E and v == E: out.append((p, a, 'noop', None, q))
            elif u == E: out.append((p, a, 'push', v, q))
            elif v == E: out.append((p, a, 'pop', u, q))
            else:
                m = ('#mid', k); k += 1
                out.append((p, a, 'pop', u, m)); out.append((m, E, 'push', v, q))
    return out
def pda_accepts(P, w):
    """exact: is there an accepting computation (acceptance by final state, any stack)?  CFL-reachability over nodes
    (state, input position): B[u] = nodes reachable from u by a computation that never pops below the stack height at u
    and ends at that height (summaries, computed on demand for the start node and for push targets); a configuration is
    reachable iff it is reached through summaries and pushes that are never popped.  No bound on stack height or on the
    number of epsilon moves."""
    E = P.epsilon; mv = pda_moves(P); n = len(w)
    by_src = {}
    for m in mv: by_src.setdefault(m[0], []).append(m)
    def out(v):
        q, i = v
        for (p, a, kind, x, t) in by_src.get(q, ()):
            if a == E: yield kind, x, (t, i)
            elif i < n and w[i] == a: yield kind, x, (t, i + 1)
    B = {}; callers = {}; work = []
    def entry(u):
        if u not in B:
            B[u] = set(); add(u, u)
    def add(u, v):
        if v not in B[u]:
            B[u].add(v); work.append((u, v))
    start = (P.q0, 0); entry(start)
    while work:
        u, v = work.pop()
        # (1) extend the summary u ->* v by the moves leaving v
        for kind, x, v1 in out(v):
            if kind == 'noop': add(u, v1)
            elif kind == 'push':
                entry(v1); callers.setdefault(v1, set()).add((u, x))
                for v2 in list(B[v1]):
                    for k2, x2, v3 in out(v2):
                        if k2 == 'pop' and x2 == x: add(u, v3)
        # (2) v is a new end of the summary of entry u: resume the callers of u
        for (u0, x) in list(callers.get(u, ())):
            for k2, x2, v3 in out(v):
                if k2 == 'pop' and x2 == x: add(u0, v3)
    # reachable nodes: summaries from the start, plus pushes that are never popped (their targets are entries)
    A = set(); todo = [start]
    while todo:
        u = todo.pop()
        if u in A: continue
        A.add(u)
        for v in B.get(u, ()):
            if v not in A: todo.append(v) if v in B else A.add(v)
            for kind, x, v1 in out(v):
                if kind == 'push' and v1 not in A: todo.append(v1)
    reach = set()
    for u in A:
        reach.add(u)
        for v in B.get(u, ()): reach.add(v)
    return any((f, n) in reach for f in P.F)
def pda_lang(P, n): return {w for w in words(P.Sigma, n) if pda_accepts(P, w)}
def pda_step_ok(P, c1, a, c2):
    """is (q1, stack1) --a--> (q2, stack2) one transition of P (a may be epsilon)?  stacks are lists, top at the end"""
    (q1, s1), (q2, s2) = c1, c2; E = P.epsilon
    for (p, b, u), T in P.delta.items():
        if p != q1 or b != a: continue
        for (q, v) in T:
            if q != q2: continue
            base = list(s1)
            if u != E:
                if not base or base[-1] != u: continue
                base = base[:-1]
            if v != E: base = base + [v]
            if base == list(s2): return True
    return False
def pda_closure_sizes_ok(P, w, limit):
    """hypothesis of C09/C02: every epsilon closure the library has to compute along w has at most `limit` configurations.
    Computed by explicit exploration with a cut-off at limit+1."""
    E = P.epsilon
    def clo(R):
        out = set(R); todo = list(R)
        while todo:
            q, st = todo.pop()
            for (p, a, u), T in P.delta.items():
                if p != q or a != E: continue
                for (q2, v) in T:
                    s = list(st)
                    if u != E:
                        if not s or s[-1] != u: continue
                        s = s[:-1]
                    if v != E: s = s + [v]
                    c = (q2, tuple(s))
                    if c not in out:
                        out.add(c); todo.append(c)
                        if len(out) > limit: return None
        return out
    R = clo({(P.q0, ())})
    if R is None: return False
    for a in w:
        nxt = set()
        for (q, st) in R:
            for (p, b, u), T in P.delta.items():
                if p != q or b != a: continue
                for (q2, v) in T:
                    s = list(st)
                    if u != E:
                        if not s or s[-1] != u: continue
                        s = s[:-1]
                    if v != E: s = s + [v]
                    nxt.add((q2, tuple(s)))
        R = clo(nxt)
        if R is None: return False
    return True

# ------------------------------------------------------------------------------------------------ CFG
def _is_var(G, x): return x in G.V
def cfg_derives(G, w, start=None):
    """exact: does `start` (default G.S) derive the terminal word w?  Works for arbitrary grammars (epsilon rules, unit
    rules, cycles): least fixpoint of T[A,i,j] over spans, independent of CNF conversion and CYK."""
    n = len(w); S = G.S if start is None else start
    rules = [(r.variable, list(r.alternative.symbols)) for r in G.R]
    T = set()
    def match(rhs, i, j):
        # can rhs derive w[i:j] using current T?
        cur = {i}
        for X in rhs:
            nxt = set()
            for k in cur:
                if X in G.V:
                    for l in range(k, j + 1):
                        if (X, k, l) in T: nxt.add(l)
                else:
                    if k < j and w[k] == X: nxt.add(k + 1)
            cur = nxt
            if not cur: return False
        return j in cur
    changed = True
    while changed:
        changed = False
        for (A, rhs) in rules:
            for i in range(n + 1):
                for j in range(i, n + 1):
                    if (A, i, j) not in T and match(rhs, i, j):
                        T.add((A, i, j)); changed = True
    return (S, 0, n) in T
def cfg_derives_span(G, A, w, i, j):
    """does variable A derive w[i..j] (inclusive indices, as in the CYK table)?"""
    return cfg_derives(G, w[i:j + 1], start=A)
def cfg_lang(G, n):
    return {w for w in words(G.Sigma, n) if cfg_derives(G, w)}
def cfg_is_cnf(G):
    for r in G.R:
        s = r.alternative.symbols
        if len(s) == 0:
            if r.variable != G.S: return False
        elif len(s) == 1:
            if s[0] in G.V or s[0] not in G.Sigma: return False
        elif len(s) == 2:
            if not (s[0] in G.V and s[1] in G.V): return False
        else: return False
        if any(x == G.S for x in s): return False
    return True
def cfg_valid(G):
    return all(r.variable in G.V and all((x in G.V) or (x in G.Sigma) for x in r.alternative.symbols) for r in G.R)
def cfg_step_ok(G, x, y, kind):
    """is y obtained from sentential form x by one rule application of the given kind (leftmost/rightmost/any)?"""
    pos = [i for i, s in enumerate(x) if s in G.V]
    if not pos: return False
    cand = pos if kind == 'any' else [pos[0]] if kind == 'leftmost' else [pos[-1]]
    for i in cand:
        for r in G.R:
            if r.variable == x[i] and list(x[:i]) + list(r.alternative.symbols) + list(x[i + 1:]) == list(y): return True
    return False

# ------------------------------------------------------------------------------------------------ exact comparison helpers
def product_search(machines, pred, Sigma):
    """machines: list of (start, step(state, a) -> state, accepting(state) -> bool).  BFS over the synchronous product;
    returns None if pred(tuple of acceptance bits) holds in every reachable product state, else a shortest witness word"""
    start = tuple(m[0] for m in machines); seen = {start: ''}; todo = deque([start])
    while todo:
        st = todo.popleft()
        if not pred(tuple(m[2](s) for m, s in zip(machines, st))): return seen[st]
        for a in sorted(Sigma):
            nx = tuple(m[1](s, a) for m, s in zip(machines, st))
            if nx not in seen: seen[nx] = seen[st] + a; todo.append(nx)
    return None
def m_dfa(D): return (D.q0, lambda s, a: D.delta[s, a], lambda s: s in D.F)
def m_partial_dfa(D):
    return (D.q0, lambda s, a: D.delta.get((s, a)) if s is not None else None, lambda s: s is not None and s in D.F)
def m_nfa(N): return (frozenset(Eclo(N, {N.q0})), lambda S, a: frozenset(Eclo(N, move(N, S, a))), lambda S: bool(S & N.F))
def m_reverse_of_dfa(D):
    """reference automaton for the mirror image of L(D): subsets of D.Q, backwards"""
    return (frozenset(D.F), lambda S, a: frozenset(q for q in D.Q if D.delta[q, a] in S), lambda S: D.q0 in S)
def m_prefix_free_of_dfa(D):
    """w in L(D) and no proper prefix of w in L(D): after the first visit of an accepting state everything is rejected"""
    return ((D.q0, False), lambda s, a: (None, True) if (s[1] or s[0] in D.F) else (D.delta[s[0], a], False), lambda s: (not s[1]) and s[0] in D.F)
def m_non_extendable_of_dfa(D):
    def dead_end(q):       # no accepting state reachable from q by a non-empty path
        seen = set(); todo = [q]
        while todo:
            x = todo.pop()
            for a in D.Sigma:
                y = D.delta[x, a]
                if y in D.F: return False
                if y not in seen: seen.add(y); todo.append(y)
        return True
    return (D.q0, lambda s, a: D.delta[s, a], lambda s: s in D.F and dead_end(s))
