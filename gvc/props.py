"""Per-property metadata for the driver: claimed level when every function under contract is proved, explanation, assumptions."""

PROPS = {
 'C01': {'level': 'proof', 'ready': True,
         'explanation': 'dfa_accepts_word, epsilon_closure (both typed entry points), _nfa_cache and nfa_accepts_word are verified against the textbook semantics (dhat, least-fixpoint epsilon closure Eclo, Nhat) by VCs generated from the current source; NFA.E is a one-line wrapper of epsilon_closure. Bounded stand-in cases are an extra cross-check of the contracts against an independent path-search oracle and are not counted.',
         'claim': 'Every obligation generated from the current source of the acceptance functions is discharged for all automata and all words (no bound); a change that breaks the property fails a named obligation, and the small-scope search supplies the failing input.',
         'note': 'Trusted: the VC generator and its table of Python semantics, z3/cvc5, the induction schema of gvc/induct.py; Nhat/Eclo/dhat are the textbook definitions (def / least-fixpoint axioms), all other theory facts are proved as lemmas on every run.',
         'technique': 'contract-based deductive verification (VCs from the real Python AST, z3/cvc5) + static effect analysis for frames',
         'assumptions': ['"an accepting run exists" is identified with Nhat(w) ∩ F ≠ ∅ (standard; the bounded cross-check compares with an explicit run search)']},
}
for i in range(2, 21):
    PROPS.setdefault('C%02d' % i, {'level': 'other', 'explanation': 'see DESIGN.md', 'assumptions': [], 'claim': 'n/a', 'note': 'n/a', 'technique': 'n/a'})
