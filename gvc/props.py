"""Per-property metadata for the driver: claimed level when every function under contract is proved, explanation, assumptions."""

PROPS = {
 'C01': {'level': 'proof', 'ready': True,
         'explanation': 'dfa_accepts_word, epsilon_closure (both typed entry points), _nfa_cache and nfa_accepts_word are verified against the textbook semantics (dhat, least-fixpoint epsilon closure Eclo, Nhat) by VCs generated from the current source; NFA.E is a one-line wrapper of epsilon_closure. Bounded stand-in cases are an extra cross-check of the contracts against an independent path-search oracle and are not counted.',
         'claim': 'Every obligation generated from the current source of the acceptance functions is discharged for all automata and all words (no bound); a change that breaks the property fails a named obligation, and the small-scope search supplies the failing input.',
         'note': 'Trusted: the VC generator and its table of Python semantics, z3/cvc5, the induction schema of gvc/induct.py; Nhat/Eclo/dhat are the textbook definitions (def / least-fixpoint axioms), all other theory facts are proved as lemmas on every run.',
         'technique': 'contract-based deductive verification (VCs from the real Python AST, z3/cvc5) + static effect analysis for frames',
         'assumptions': ['"an accepting run exists" is identified with Nhat(w) ∩ F ≠ ∅ (standard; the bounded cross-check compares with an explicit run search)']},
 'C11': {'level': 'proof', 'ready': True,
         'explanation': 'tm_do_transition, tm_accepts_word and tm_simulate_word are verified against a transcription of Sipser\'s step semantics (run(T,w,i), sticky at halting configurations): the step function is exact (read, default to the rejecting state, write, clamp at the left end, extend with blank), the verdict equals tm_verdict(T,w,k) for every budget k >= 0, and the recorded trace equals run(T,w,0..m), stops at the first halting state and has length <= k+1. Monotonicity in the budget is the lemma run-sticky, proved by induction on every run. Bounded cases cross-check the spec functions themselves against an independent simulator.',
         'claim': 'All obligations generated from the current source of the three TM functions are discharged for every machine, word and step budget; the relation between trace and verdict and budget-monotonicity follow from the two postconditions and the proved lemma run-sticky.',
         'note': 'Trusted: the transcription of the TM step semantics in gvc/theory.py (reviewed against Sipser; cross-checked by the bounded stand-in against gvc/ref.py), VC generator, z3/cvc5. Termination of the bounded loop is by the range iterator.',
         'technique': 'contract-based deductive verification (VCs from the real Python AST, z3/cvc5) + static effect analysis for frames',
         'assumptions': ['words passed to the TM functions are strings of single-character symbols; max_steps >= 0']},
 'C05': {'level': 'proof', 'ready': True,
         'explanation': 'regexp_accepts_word is verified to return mem(w, L(r)) for every expression tree and word, with termination by the lexicographic measure (nodes of r, length of w) -- the star case needs the non-empty prefix k >= 1 exactly for this measure. regexp_simplify is verified to return an expression with L(result) == L(r), regexp_size(result) <= regexp_size(r) and no more nodes, by structural recursion; regexp_size equals the spec size. L is a homomorphism into an abstract Kleene algebra of languages whose facts (nine identities, take/drop unfoldings of product and star) are Mathlib theorems about Language (lean/GvcTheory/Regexp.lean).',
         'claim': 'All obligations generated from the current source of the matcher, the simplifier and regexp_size are discharged for every expression tree and word; recursion is checked with decreases clauses.',
         'note': 'Trusted: VC generator, z3/cvc5; the Kleene-algebra and membership facts about Lang are assumed on the SMT side and justified by the Lean file against Mathlib (matching of the two statements is by review, AX-SYNC); symbols are single characters.',
         'technique': 'contract-based deductive verification (VCs from the real Python AST, z3/cvc5, recursive contracts with decreases) + Lean/Mathlib justification of the language theory',
         'assumptions': ['Symbol(a).symbol is a single character (the matcher compares the whole word with it)']},
}
for i in range(2, 21):
    PROPS.setdefault('C%02d' % i, {'level': 'other', 'explanation': 'see DESIGN.md', 'assumptions': [], 'claim': 'n/a', 'note': 'n/a', 'technique': 'n/a'})
