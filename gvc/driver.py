"""check driver:  python3-vt -m gvc.driver C01 [--tier quick|thorough] [--replay file] [--update-lock]

exit 0  property held on everything explored (KNOWN-FINDING lines for listed findings)
exit 1  VIOLATION property=<id> replay=<path> [... no-failing-input-found]
exit 2  UNDECIDED (an obligation of unchanged code was not discharged within the budget: solver problem, not a violation)
exit 3  checker crash
"""
import sys, os, json, time, argparse, subprocess, importlib, hashlib, traceback, glob

ROOT = os.path.dirname(os.path.dirname(os.path.abspath(__file__)))
sys.path.insert(0, ROOT)
VENV_PY = '/venv/bin/python'
LOCK = os.path.join(ROOT, 'obligations.lock')
KNOWN = os.path.join(ROOT, 'known-findings.json')
CONTRACT_MODULES = ['dfa', 'nfa', 'regexp', 'tm', 'pda', 'cfg', 'lang', 'misc', 'parse']


def load_contracts():
    from gvc.contract import REG
    for m in CONTRACT_MODULES:
        try:
            importlib.import_module('gvc.contracts.' + m)
        except ModuleNotFoundError as e:
            if 'gvc.contracts.' + m not in str(e): raise
    return REG


def rel_name(o, first_line):
    """obligation name with line numbers relative to the function start (stable under edits elsewhere in the file)"""
    import re
    return re.sub(r'([:@])(\d+)', lambda m: '%s+%d' % (m.group(1), int(m.group(2)) - first_line), o.name)


def run_bounded(pid, tier, seed, budget=None):
    mod_path = os.path.join(ROOT, 'gvc', 'bounded', pid + '.py')
    if not os.path.exists(mod_path): return None
    env = dict(os.environ, PYTHONPATH=ROOT + os.pathsep + '/repo/src', PYTHONHASHSEED=str(seed % 4294967295), PYTHONIOENCODING='utf-8')
    cmd = [VENV_PY, '-u', '-m', 'gvc.bounded.run', pid, '--tier', tier, '--seed', str(seed)]
    if budget: cmd += ['--budget', str(budget)]
    tmo = 3600 if tier == 'thorough' else 900
    try:
        r = subprocess.run(cmd, capture_output=True, text=True, env=env, cwd=ROOT, timeout=tmo)
    except subprocess.TimeoutExpired:
        return {'crash': 'bounded stand-in timed out after %d s' % tmo}
    for line in r.stdout.split('\n'):
        if line.startswith('@@RESULT@@'): return json.loads(line[len('@@RESULT@@'):])
    return {'crash': (r.stderr or r.stdout)[-3000:]}


API_MODULES = ('dfa_algorithms', 'nfa_algorithms', 'pda_algorithms', 'tm_algorithms', 'cfg_algorithms', 'regexp_algorithms', 'language_algorithms', 'language_generator')
ALLOWED_MUTATION = {'nfa_union': {'id_generator'}, 'nfa_repetition': {'id_generator'}, 'tm_do_transition': {'tape'}, 'remove_if': {'seq'}, 'gnfa_minimize': {'G'},
                    'cfg_put_start_variable_in_front': {'G'}, '_copy_nfa_delta': {'delta'}, '_fresh_nfa_state': {'id_generator'}}


def api_frames(V):
    """frame obligations (effects back end) for every module-level function of the algorithm modules that is not *_in_place"""
    import z3
    from gvc.symexec import Obligation
    an = V.analyzer(); obls = []
    for name in sorted(an.funcs):
        mod, fd, cls = an.funcs[name]
        if mod not in API_MODULES or cls is not None or name.endswith('_in_place') or name.startswith(('random_', 'automaton_to_', 'parse_')): continue
        s = an.summary(name)
        allowed = ALLOWED_MUTATION.get(name, set())
        for prm in s.params:
            if prm in allowed: continue
            lines = sorted({l for (q, d), ls in s.mutates.items() if q == prm for l in ls})
            o = Obligation(name, 'frame/unchanged(%s)' % prm, 'frame', [], z3.BoolVal(not lines)); o.status = 'unsat' if not lines else 'unknown'; o.backend = 'effects'; o.ms = 0
            o.output = 'effects:' + ('no mutation of any object reachable from %s' % prm if not lines else 'possible mutation at line(s) %s' % lines)
            obls.append(o)
        g = sorted(s.globals)
        o = Obligation(name, 'frame/no-global-state-modified', 'frame', [], z3.BoolVal(not g)); o.status = 'unsat' if not g else 'unknown'; o.backend = 'effects'; o.ms = 0; o.output = 'effects:%s' % (g or 'none')
        obls.append(o)
    failed = [o for o in obls if o.status != 'unsat']
    return {'fn': '<frames>', 'status': 'proved' if not failed else 'failed', 'obligations': obls, 'failed': failed, 'info': {'source_hash': 'n/a', 'lines': (0, 0)}}


def known_open(pid):
    try: kf = json.load(open(KNOWN))
    except Exception: return []
    return [e for e in kf.get('open', []) if e['property'] == pid]


def main(argv=None):
    ap = argparse.ArgumentParser()
    ap.add_argument('pid'); ap.add_argument('--tier', default=os.environ.get('VERIF_TIER', 'quick'))
    ap.add_argument('--replay', default=None); ap.add_argument('--update-lock', action='store_true')
    ap.add_argument('--only', default=None, help='verify only this contract key (debugging)')
    ap.add_argument('--no-bounded', action='store_true'); ap.add_argument('-v', action='store_true')
    a = ap.parse_args(argv)
    seed = int(os.environ.get('VERIF_SEED', '0') or 0)
    pid, tier = a.pid, a.tier
    t0 = time.time()
    if a.replay: return replay(pid, a.replay)
    from gvc import verify as V, props
    from gvc.symexec import Exec
    REG = load_contracts()
    spec = props.PROPS[pid]
    keys = [c.key for c in REG.by_name.values() if pid in c.props]
    if a.only: keys = [a.only]
    try: lock = json.load(open(LOCK))
    except Exception: lock = {}
    timeout = 10 if tier == 'quick' else 60
    results = {k: None for k in keys}
    # --- theory lemmas used by these contracts are proved on every run
    from gvc import induct
    theories = sorted({th for k in keys if k in REG.by_name for th in V.theories_of(REG.by_name[k])})
    lemma_res = induct.prove_lemmas(theories, timeout=timeout)
    if tier == 'thorough':          # vacuity guard for the proof scripts: no hypothesis set may be inconsistent with the theory
        ncan, fired = induct.lemma_canaries(theories, timeout=5)
        print('  lemma-script canaries: %d, inconsistent: %s' % (ncan, fired or 'none'))
        if fired:
            print('CHECKER-ERROR inconsistent hypotheses in proof scripts: %s' % ', '.join(fired)); sys.exit(3)
    # --- deductive part
    todo_c = []
    for k in keys:
        c = REG.by_name[k]
        if not c.verify:
            results[k] = {'fn': k, 'status': 'assumed', 'obligations': [], 'reason': 'contract assumed at call sites; the function is checked by the bounded stand-in only'}
        else: todo_c.append(c)
    vr = V.verify_many(todo_c, timeout=timeout, keep_dir=os.path.join(ROOT, 'replays', 'smt'))
    for k in keys:
        if k in vr: results[k] = vr[k]
    if spec.get('frames_all_api'):
        results['<frames of all API functions>'] = api_frames(V)
        keys = keys + ['<frames of all API functions>']
    retry = [o for r in results.values() if r['status'] == 'failed' for o in r['failed'] if o.kind != 'canary' and o.backend != 'effects']
    if retry:
        # second opinion with the thorough budget and every back end before anything is reported (hypotheses already include the theory)
        from gvc.smt import discharge
        discharge(retry, [], timeout=60, backends=('z3e', 'z3', 'cvc5', 'cvc5-enum', 'z3old'), keep_dir=os.path.join(ROOT, 'replays', 'smt'))
        for r in results.values():
            if r['status'] == 'failed':
                r['failed'] = [o for o in r['obligations'] if (o.kind != 'canary' and o.status != 'unsat') or (o.kind == 'canary' and o.status == 'unsat')]
                if not r['failed']: r['status'] = 'proved'
    # --- lock bookkeeping
    newlock = dict(lock)
    for k, r in results.items():
        if r['status'] == 'proved' and k in REG.by_name:
            newlock[k] = {'source_hash': r['info']['source_hash'], 'obligations': sorted(rel_name(o, r['info']['lines'][0]) for o in r['obligations'])}
    if a.update_lock:
        json.dump(newlock, open(LOCK, 'w'), indent=1, sort_keys=True)
    # --- Lean justification of the assumed theory facts (thorough tier): re-check the files against Mathlib
    lean_res = None
    if tier == 'thorough' and spec.get('lean'):
        lean_res = []
        for f in spec['lean']:
            t1 = time.time()
            try:
                r = subprocess.run(['lean', f], cwd=os.path.join(ROOT, 'lean', 'GvcTheory'), capture_output=True, text=True, timeout=900)
                okl = r.returncode == 0 and 'error' not in (r.stdout + r.stderr) and 'sorry' not in (r.stdout + r.stderr)
                lean_res.append({'file': 'lean/GvcTheory/' + f, 'ok': okl, 'wall_s': round(time.time() - t1, 1), 'output': (r.stdout + r.stderr)[-300:]})
            except Exception as e:
                lean_res.append({'file': 'lean/GvcTheory/' + f, 'ok': False, 'wall_s': round(time.time() - t1, 1), 'output': str(e)})
    # --- bounded stand-ins / replay search
    b = None if a.no_bounded else run_bounded(pid, tier, seed)
    # --- decide
    out_lines = []; exit_code = 0; violations = []; undecided = []; downgraded = []; frame_open = []
    os.makedirs(os.path.join(ROOT, 'replays'), exist_ok=True)
    known = known_open(pid)
    bviol = []
    if b and 'crash' in b:
        print('checker crash in bounded stand-in:\n' + b['crash']); return 3
    if b:
        for v in b['violations']:
            m = next((e for e in known if e.get('match', {}).get('kind') == v['kind']), None)
            if m is not None:
                kl = 'KNOWN-FINDING: property=%s %s (%s)' % (pid, m['what'][:160], m['id'])
                if kl not in out_lines: out_lines.append(kl)
            else:
                bviol.append(v)
    for k, r in results.items():
        c = REG.by_name.get(k)
        if r['status'] == 'unbound':
            downgraded.append({'function': k, 'reason': r['reason']})
        elif r['status'] == 'failed':
            lk = lock.get(k)
            if lk is None:
                # a contract that has never been discharged on the pinned tree (work in progress) decides nothing: bounded stand-in only
                downgraded.append({'function': k, 'reason': 'contract not yet proved on the pinned tree (%d open obligations): %s' % (len(r['failed']), ', '.join(o.name for o in r['failed'][:4]))})
                r['status'] = 'unproved'
                continue
            code_changed = lk['source_hash'] != r['info']['source_hash']
            for o in r['failed']:
                rec = {'function': k, 'obligation': o.id, 'kind': o.kind, 'line': o.line, 'solver': o.output, 'source_changed': code_changed}
                if o.kind == 'frame' and not o.name.startswith('default/'):
                    # the effect analysis over-approximates: a possible mutation is reported as a violation only together with a
                    # concrete witness from the bounded stand-in; otherwise it is recorded as not proved
                    frame_open.append(rec); continue
                if o.kind == 'canary': rec['note'] = 'preconditions + theory became contradictory (vacuity guard)'
                (violations if code_changed else undecided).append(rec)
    # locked obligations must still be generated (a contract that silently produces fewer obligations is a failure)
    for k, r in results.items():
        lk = lock.get(k)
        if lk and not a.update_lock and r['status'] == 'proved' and lk['source_hash'] == r['info']['source_hash']:
            now = sorted(rel_name(o, r['info']['lines'][0]) for o in r['obligations'])
            if now != lk['obligations']:
                undecided.append({'function': k, 'obligation': k + '/lock-mismatch', 'kind': 'lock', 'solver': 'obligation set differs from obligations.lock for unchanged source'})
    for lr in (lean_res or []):
        if not lr['ok']: undecided.append({'function': 'theory', 'obligation': 'lean/' + lr['file'], 'kind': 'lean', 'solver': lr['output']})
    for name, st, log in lemma_res:
        if st != 'unsat': undecided.append({'function': 'theory', 'obligation': 'lemma/' + name, 'kind': 'lemma', 'solver': log})
    if frame_open and bviol:
        violations += frame_open[:1]
    elif frame_open:
        lockd = [f for f in frame_open if not f['source_changed']]
        for f in frame_open: downgraded.append({'function': f['function'], 'reason': 'frame not proved: ' + f['solver']})
    nrep = 0
    def write_replay(obj):
        nonlocal nrep
        nrep += 1
        path = os.path.join(ROOT, 'replays', '%s-%d.json' % (pid, nrep))
        json.dump(obj, open(path, 'w'), indent=1, ensure_ascii=False, default=str)
        return path
    used_b = set()
    for rec in violations:
        fn = rec['function'].split('[')[0]
        cand = [i for i, v in enumerate(bviol) if i not in used_b and (v.get('function') in (fn, None) or True)]
        same = [i for i in cand if bviol[i].get('function') == fn] or cand
        if same:
            i = same[0]; used_b.add(i); v = bviol[i]
            path = write_replay({'property': pid, 'obligation': rec, 'check': v['check'], 'case': v['case'], 'expected': v['expected'], 'observed': v['observed'], 'kind': v['kind']})
            out_lines.append('VIOLATION property=%s replay=%s' % (pid, path))
        else:
            path = write_replay({'property': pid, 'obligation': rec, 'note': 'obligation generated from the current source is not discharged; the small-scope search found no concrete failing input'})
            out_lines.append('VIOLATION property=%s replay=%s no-failing-input-found' % (pid, path))
        exit_code = 1
    for i, v in enumerate(bviol[:4]):
        if i in used_b: continue
        path = write_replay({'property': pid, 'check': v['check'], 'case': v['case'], 'expected': v['expected'], 'observed': v['observed'], 'kind': v['kind'], 'function': v.get('function')})
        out_lines.append('VIOLATION property=%s replay=%s' % (pid, path))
        exit_code = 1
    if exit_code == 0 and undecided:
        for u in undecided: out_lines.append('UNDECIDED obligation=%s %s' % (u['obligation'], u['solver'][:200]))
        exit_code = 2
    # --- evidence
    write_evidence(pid, tier, seed, spec, results, lemma_res, b, violations, bviol, undecided, downgraded, known, time.time() - t0, REG, lean_res)
    for k, r in results.items():
        n = len([o for o in r['obligations'] if o.kind != 'canary']); d = len([o for o in r['obligations'] if o.kind != 'canary' and o.status == 'unsat'])
        print('  %-40s %-8s %d/%d obligations%s' % (k, r['status'], d, n, ('  (' + r.get('reason', '')[:90] + ')') if r['status'] == 'unbound' else ''))
        if a.v or r['status'] == 'failed':
            for o in r['obligations']:
                good = (o.status == 'unsat') != (o.kind == 'canary')
                if a.v or not good: print('      %-44s %-4s %s' % (o.name, 'ok' if good else 'FAIL', o.output[:150]))
        if r['status'] == 'unbound' and a.v: print(r['trace'])
    if lemma_res: print('  theory lemmas: %d/%d proved' % (sum(1 for _, st, _l in lemma_res if st == 'unsat'), len(lemma_res)))
    if b: print('  bounded: %d evaluations, %d violations (%s)' % (b['evaluations'], len(b['violations']), ', '.join('%s=%d' % kv for kv in b['groups'].items())))
    for l in out_lines: print(l)
    print('%s %s: %s in %.1fs' % (pid, tier, {0: 'held', 1: 'VIOLATED', 2: 'UNDECIDED'}[exit_code], time.time() - t0))
    return exit_code


def write_evidence(pid, tier, seed, spec, results, lemma_res, b, violations, bviol, undecided, downgraded, known, wall, REG, lean_res=None):
    from gvc import theory as T
    obls = [o for r in results.values() for o in r['obligations'] if o.kind != 'canary']
    dis = [o for o in obls if o.status == 'unsat']
    lem_total = len(lemma_res); lem_ok = sum(1 for _, st, _l in lemma_res if st == 'unsat')
    by_backend = {}
    for o in dis: by_backend[o.backend] = by_backend.get(o.backend, 0) + 1
    fns = []
    for k, r in results.items():
        c = REG.by_name.get(k)
        if c is None:
            fns.append({'function': k, 'status': r['status'], 'obligations': len(r['obligations']), 'discharged': len([o for o in r['obligations'] if o.status == 'unsat'])}); continue
        fns.append({'function': '%s.%s' % (c.module, k), 'status': r['status'], 'source_sha256_16': r.get('info', {}).get('source_hash'),
                    'obligations': len([o for o in r['obligations'] if o.kind != 'canary']), 'discharged': len([o for o in r['obligations'] if o.kind != 'canary' and o.status == 'unsat']),
                    'requires': c.requires, 'ensures': c.ensures, 'loop_invariants': sum(len(l['invariant']) for l in c.loops.values()),
                    'reason': r.get('reason')})
    from gvc import verify as V2
    theories = sorted({th for k in results if k in REG.by_name for th in V2.theories_of(REG.by_name[k])})
    assumed = ['axiom[%s] %s' % (th, n) for th in theories for (tag, n, _f) in T.AXIOMS.get(th, []) if tag == 'assumed']
    assumed += ['type invariant assumed at entry of %s (holds for every Python value of the type; not checked at call sites): %s' % (k, ti)
                for k in results if k in REG.by_name for ti in REG.by_name[k].type_invariants]
    assumed = list(dict.fromkeys(assumed))
    lfp = ['least-fixpoint intro rules[%s] %s (leastness used only via explicit instances)' % (th, n) for th in theories for (tag, n, _f) in T.AXIOMS.get(th, []) if tag == 'lfp']
    all_proved = bool(results) and all(r['status'] == 'proved' for r in results.values()) and lem_ok == lem_total
    assumed_contracts = ['assumed contract (not verified, bounded only): %s' % k for k, r in results.items() if r['status'] == 'assumed']
    level = spec['level'] if all_proved or spec['level'] == 'other' else 'other'
    samples = [{'obligation': o.id, 'kind': o.kind, 'backend': o.backend, 'ms': o.ms, 'goal': str(o.goal)[:300]} for o in obls[:3]]
    cov = {'obligations': len(obls) + lem_total, 'discharged': len(dis) + lem_ok, 'code_obligations': len(obls), 'theory_lemma_obligations': lem_total,
           'discharged_by_backend': by_backend, 'solver_ms_total': sum(o.ms or 0 for o in obls),
           'checker_cmd': 'python3-vt -m gvc.driver %s --tier %s  (portfolio per obligation, fresh processes: z3 5.1 E-matching only, z3 5.1 default, cvc5 1.0.3, z3 4.8.12; first unsat wins; failing obligations are retried with 60 s)' % (pid, tier),
           'trusted_base': ['gvc symbolic executor and its table of Python built-in semantics (gvc/symexec.py)', 'z3 5.1.0 / cvc5 1.0.3',
                            'value semantics for containers: soundness side condition (no mutation through aliases) checked by gvc/effects.py'] + assumed + lfp + assumed_contracts + spec.get('trusted', []),
           'functions_under_contract': fns, 'samples': samples,
           'explanation': spec['explanation'],
           'bounded_standins': None, 'downgraded_to_bounded': downgraded,
           'lean_files': lean_res if lean_res is not None else [{'file': 'lean/GvcTheory/' + f, 'checked': 'in the thorough tier (lean 4.33 + Mathlib)'} for f in spec.get('lean', [])]}
    if b:
        cov['bounded_standins'] = {'label': 'bounded (never counted as proved)', 'evaluations': b['evaluations'], 'distinct_nontrivial': b['distinct_nontrivial'], 'groups': b['groups'],
                                   'bounds': b['bounds'], 'samples': b['samples'][:6], 'wall_s': b['wall_s'], 'notes': b.get('notes', [])}
        cov['evaluations'] = b['evaluations']; cov['distinct_nontrivial'] = max(b['distinct_nontrivial'], 0)
        cov['rule'] = 'bounded stand-in cases: ' + '; '.join('%s: %s' % kv for kv in b['bounds'].items()) + '. distinct = distinct (check, instance, input) keys'
        cov['samples'] = samples + b['samples'][:4]
    if level == 'proof' and (cov['obligations'] != cov['discharged'] or cov['obligations'] == 0): level = 'other'
    ev = {'property_id': pid, 'tier': tier, 'seed': seed, 'level': level, 'coverage': cov,
          'assumptions': spec.get('assumptions', []) + assumed + ['Python semantics as encoded in gvc/symexec.py (CPython 3.12; unbounded recursion depth and memory; no monkey-patching of the record classes)',
                                                                  'strings used as names are atoms with equality only; words are sequences of single-character symbols'],
          'wall_s': round(wall, 2), 'violations': len(violations) + len(bviol),
          'undecided': undecided, 'known_findings_open': [e['id'] for e in known]}
    os.makedirs(os.path.join(ROOT, 'evidence'), exist_ok=True)
    json.dump(ev, open(os.path.join(ROOT, 'evidence', pid + '.json'), 'w'), indent=1, ensure_ascii=False, default=str)


def replay(pid, path):
    case = json.load(open(path))
    if 'case' not in case:
        print('replay file names an undischarged obligation without a concrete input:'); print(json.dumps(case.get('obligation'), indent=1)); return 1
    env = dict(os.environ, PYTHONPATH=ROOT + os.pathsep + '/repo/src')
    r = subprocess.run([VENV_PY, '-m', 'gvc.bounded.run', pid, '--replay', path], capture_output=True, text=True, env=env, cwd=ROOT)
    print(r.stdout.strip() or r.stderr.strip())
    return 0 if r.returncode == 0 else 1


if __name__ == '__main__':
    try:
        sys.exit(main())
    except SystemExit:
        raise
    except Exception:
        traceback.print_exc(); sys.exit(3)
