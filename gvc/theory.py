"""Spec theory: sorts, spec functions (uninterpreted + constructor-pattern axioms), lemmas.

Every axiom carries a tag (DESIGN.md 2.3):
  def        primitive-recursive / explicit definition of a new symbol (conservative)
  lfp        introduction rules of a least fixpoint; leastness is used only through explicit instances (hints)
  lemma      consequence of earlier axioms, proved by the engine itself by induction (gvc.induct) on every run
  assumed    cited textbook fact, listed in every evidence file
Each spec function has an executable twin of the same name in gvc.ref.
"""
import z3
from z3 import ForAll, Exists, Implies, And, Or, Not, Select, Store, If, Function, Const, Consts, IntSort, BoolSort, ArraySort
from .ty import *

SetA = sort_of(SET(ATOM))
Key2 = sort_of(KEY2); mkKey2 = parts(KEY2)[1]
Key3 = sort_of(KEY3); mkKey3 = parts(KEY3)[1]
Int = IntSort()

AXIOMS = {}      # theory name -> list of (tag, name, formula)
SPEC = {}        # spec function name -> callable(ev, *SV) -> SV
LEMMAS = []      # (theory, name, kind, data)  proved by gvc.induct


def axiom(theory, tag, name, f):
    AXIOMS.setdefault(theory, []).append((tag, name, f))


def spec(name):
    def deco(fn):
        SPEC[name] = fn
        return fn
    return deco


# ====================================================================== words
wlen = Function('wlen', Word, Int)
over = Function('over', SetA, Word, BoolSort())
isprefix = Function('isprefix', Word, Word, BoolSort())
app = Function('app', Word, Word, Word)
take = Function('take', Int, Word, Word)
drop = Function('drop', Int, Word, Word)
at = Function('at', Word, Int, Atom)
rev = Function('rev', Word, Word)
cons = Function('cons', Atom, Word, Word)
_u, _v, _w = Consts('u v w', Word); _a, _b = Consts('a b', Atom); _S = Const('S', SetA); _k, _i = Consts('k i', Int)

axiom('word', 'def', 'wlen-nil', wlen(Word.nil) == 0)
axiom('word', 'def', 'wlen-snoc', ForAll([_w, _a], wlen(Word.snoc(_w, _a)) == wlen(_w) + 1))
axiom('word', 'lemma', 'wlen-nonneg', ForAll([_w], wlen(_w) >= 0))
axiom('word', 'lemma', 'wlen-zero', ForAll([_w], (wlen(_w) == 0) == (_w == Word.nil)))
axiom('word', 'def', 'over-nil', ForAll([_S], over(_S, Word.nil)))
axiom('word', 'def', 'over-snoc', ForAll([_S, _w, _a], over(_S, Word.snoc(_w, _a)) == And(over(_S, _w), Select(_S, _a))))
axiom('word', 'def', 'isprefix', ForAll([_u, _w], isprefix(_u, _w) == Or(_u == _w, And(Not(Word.is_nil(_w)), isprefix(_u, Word.init(_w))))))
axiom('word', 'lemma', 'isprefix-over', ForAll([_u, _w, _S], Implies(And(isprefix(_u, _w), over(_S, _w)), over(_S, _u))))
axiom('word', 'lemma', 'isprefix-len', ForAll([_u, _w], Implies(isprefix(_u, _w), wlen(_u) <= wlen(_w))))
axiom('word', 'lemma', 'isprefix-len-eq', ForAll([_u, _w], Implies(And(isprefix(_u, _w), wlen(_u) == wlen(_w)), _u == _w)))
axiom('word', 'lemma', 'isprefix-nil', ForAll([_w], isprefix(Word.nil, _w)))
axiom('wordx', 'def', 'app-nil', ForAll([_u], app(_u, Word.nil) == _u))
axiom('wordx', 'def', 'app-snoc', ForAll([_u, _v, _a], app(_u, Word.snoc(_v, _a)) == Word.snoc(app(_u, _v), _a)))
axiom('wordx', 'def', 'cons', ForAll([_a, _w], cons(_a, _w) == app(Word.snoc(Word.nil, _a), _w)))
axiom('wordx', 'lemma', 'app-len', ForAll([_u, _v], wlen(app(_u, _v)) == wlen(_u) + wlen(_v)))
axiom('wordx', 'lemma', 'app-nil-left', ForAll([_u], app(Word.nil, _u) == _u))
axiom('wordx', 'def', 'at-snoc', ForAll([_w, _a, _i], at(Word.snoc(_w, _a), _i) == If(_i == wlen(_w), _a, at(_w, _i))))
# take / drop by the snoc structure of the word
axiom('wordx', 'def', 'take-nil', ForAll([_k], take(_k, Word.nil) == Word.nil))
axiom('wordx', 'def', 'take-snoc', ForAll([_k, _w, _a], take(_k, Word.snoc(_w, _a)) == If(_k > wlen(_w), Word.snoc(_w, _a), take(_k, _w))))
axiom('wordx', 'def', 'drop-nil', ForAll([_k], drop(_k, Word.nil) == Word.nil))
axiom('wordx', 'def', 'drop-snoc', ForAll([_k, _w, _a], drop(_k, Word.snoc(_w, _a)) == If(_k > wlen(_w), Word.nil, Word.snoc(drop(_k, _w), _a))))
axiom('wordx', 'lemma', 'take-len', ForAll([_k, _w], Implies(And(0 <= _k, _k <= wlen(_w)), wlen(take(_k, _w)) == _k)))
axiom('wordx', 'lemma', 'drop-len', ForAll([_k, _w], Implies(And(0 <= _k, _k <= wlen(_w)), wlen(drop(_k, _w)) == wlen(_w) - _k)))
axiom('wordx', 'lemma', 'take-all', ForAll([_k, _w], Implies(_k >= wlen(_w), take(_k, _w) == _w)))
axiom('wordx', 'lemma', 'drop-zero', ForAll([_k, _w], Implies(_k <= 0, drop(_k, _w) == _w)))
axiom('wordx', 'lemma', 'take-drop-app', ForAll([_k, _w], app(take(_k, _w), drop(_k, _w)) == _w))
axiom('wordx', 'lemma', 'take-over', ForAll([_k, _w, _S], Implies(over(_S, _w), over(_S, take(_k, _w)))))
axiom('wordx', 'lemma', 'drop-over', ForAll([_k, _w, _S], Implies(over(_S, _w), over(_S, drop(_k, _w)))))
axiom('wordx', 'lemma', 'take-app', ForAll([_u, _v], take(wlen(_u), app(_u, _v)) == _u))
axiom('wordx', 'lemma', 'drop-app', ForAll([_u, _v], drop(wlen(_u), app(_u, _v)) == _v))
axiom('wordx', 'lemma', 'prefix-is-take', ForAll([_u, _w], Implies(isprefix(_u, _w), _u == take(wlen(_u), _w))))
axiom('wordx', 'lemma', 'take-zero', ForAll([_w], take(0, _w) == Word.nil))
axiom('wordx', 'lemma', 'drop-all', ForAll([_k, _w], Implies(_k >= wlen(_w), drop(_k, _w) == Word.nil)))
axiom('wordx', 'def', 'rev-nil', rev(Word.nil) == Word.nil)
axiom('wordx', 'def', 'rev-snoc', ForAll([_w, _a], rev(Word.snoc(_w, _a)) == cons(_a, rev(_w))))


def _sv_word(z): return SV(WORD, z)


@spec('wlen')
def s_wlen(ev, w): return SV(INT, wlen(w.z))
@spec('over')
def s_over(ev, S, w): return SV(BOOL, over(S.z, w.z))
@spec('isprefix')
def s_isprefix(ev, u, w): return SV(BOOL, isprefix(u.z, w.z))
@spec('app')
def s_app(ev, u, v): return _sv_word(app(u.z, v.z))
@spec('take')
def s_take(ev, k, w): return _sv_word(take(k.z, w.z))
@spec('drop')
def s_drop(ev, k, w): return _sv_word(drop(k.z, w.z))
@spec('at')
def s_at(ev, w, i): return SV(ATOM, at(w.z, i.z))
@spec('rev')
def s_rev(ev, w): return _sv_word(rev(w.z))
@spec('snoc')
def s_snoc(ev, w, a): return _sv_word(Word.snoc(w.z, a.z))
@spec('nil')
def s_nil(ev): return _sv_word(Word.nil)
@spec('init')
def s_init(ev, w): return _sv_word(Word.init(w.z))
@spec('last')
def s_last(ev, w): return SV(ATOM, Word.last(w.z))
@spec('single')
def s_single(ev, a): return _sv_word(Word.snoc(Word.nil, a.z))


# ====================================================================== DFA
DeltaD = ArraySort(Key2, Atom)
dhat = Function('dhat', DeltaD, Atom, Word, Atom)
_d = Const('d', DeltaD); _q, _p = Consts('q p', Atom)
axiom('dfa', 'def', 'dhat-nil', ForAll([_d, _q], dhat(_d, _q, Word.nil) == _q))
axiom('dfa', 'def', 'dhat-snoc', ForAll([_d, _q, _w, _a], dhat(_d, _q, Word.snoc(_w, _a)) == Select(_d, mkKey2(dhat(_d, _q, _w), _a))))


def dfa_delta_val(D):
    return map_val(rec_get(D, 'delta'))


@spec('dhat')
def s_dhat(ev, D, q, w): return SV(ATOM, dhat(dfa_delta_val(D), q.z, w.z))


@spec('dfa_wf')
def s_dfa_wf(ev, D):
    """the class invariant established by DFA._check_validity (derived from that code, DESIGN 3.1)"""
    Q, Sg, dl, q0, F = [rec_get(D, f) for f in ('Q', 'Sigma', 'delta', 'q0', 'F')]
    dom, val = map_dom(dl), map_val(dl)
    x, y = fresh_z('x', Atom), fresh_z('y', Atom)
    k = mkKey2(x, y)
    return SV(BOOL, And(Select(Q.z, q0.z),
                        ForAll([x], Implies(Select(F.z, x), Select(Q.z, x))),
                        ForAll([x, y], Implies(Select(dom, k), And(Select(Q.z, x), Select(Sg.z, y), Select(Q.z, Select(val, k))))),
                        ForAll([x, y], Implies(And(Select(Q.z, x), Select(Sg.z, y)), Select(dom, k)))))


@spec('dfa_accepts')
def s_dfa_accepts(ev, D, w):
    return SV(BOOL, Select(rec_get(D, 'F').z, dhat(dfa_delta_val(D), rec_get(D, 'q0').z, w.z)))


# lemma (by induction on w): a well-formed DFA stays inside Q
_D = Const('D', sort_of(REC('DFA')))
def _dfa_closed_lemma():
    D = SV(REC('DFA'), _D)
    return ForAll([_D, _q, _w], Implies(And(s_dfa_wf(None, D).z, Select(rec_get(D, 'Q').z, _q), over(rec_get(D, 'Sigma').z, _w)),
                                        Select(rec_get(D, 'Q').z, dhat(dfa_delta_val(D), _q, _w))))
axiom('dfa', 'lemma', 'dhat-closed', _dfa_closed_lemma())


# ====================================================================== NFA (with epsilon moves)
ViewN = ArraySort(Key2, SetA)          # total view of delta: missing key -> empty set
Eclo = Function('Eclo', ViewN, Atom, SetA, SetA)       # epsilon closure: least fixpoint
move = Function('move', ViewN, SetA, Atom, SetA)
Nhat = Function('Nhat', ViewN, Atom, Atom, Word, SetA)  # (view, eps, q0, w): states reachable by reading w
_V = Const('V', ViewN); _e = Const('e', Atom); _x, _y = Consts('x y', Atom); _T = Const('T', SetA)
axiom('nfa', 'lfp', 'Eclo-seed', ForAll([_V, _e, _S, _x], Implies(Select(_S, _x), Select(Eclo(_V, _e, _S), _x))))
axiom('nfa', 'lfp', 'Eclo-step', ForAll([_V, _e, _S, _x, _y], Implies(And(Select(Eclo(_V, _e, _S), _x), Select(Select(_V, mkKey2(_x, _e)), _y)),
                                                                       Select(Eclo(_V, _e, _S), _y))))
axiom('nfa', 'def', 'move', ForAll([_V, _S, _a, _y], Select(move(_V, _S, _a), _y) == z3.Exists([_x], And(Select(_S, _x), Select(Select(_V, mkKey2(_x, _a)), _y)))))
axiom('nfa', 'def', 'Nhat-nil', ForAll([_V, _e, _q], Nhat(_V, _e, _q, Word.nil) == Eclo(_V, _e, Store(z3.K(Atom, False), _q, True))))
axiom('nfa', 'def', 'Nhat-snoc', ForAll([_V, _e, _q, _w, _a], Nhat(_V, _e, _q, Word.snoc(_w, _a)) == Eclo(_V, _e, move(_V, Nhat(_V, _e, _q, _w), _a))))


axiom('nfa', 'lemma', 'Eclo-by-singletons', ForAll([_V, _e, _S, _y], Select(Eclo(_V, _e, _S), _y) == z3.Exists([_x], And(Select(_S, _x), Select(Eclo(_V, _e, Store(z3.K(Atom, False), _x, True)), _y)))))
axiom('nfa', 'lemma', 'Eclo-empty', ForAll([_V, _e, _y], Not(Select(Eclo(_V, _e, z3.K(Atom, False)), _y))))


def Eclo_least(V, e, S, T):
    """instance of leastness: every e-closed superset T of S contains Eclo(S)"""
    x, y = fresh_z('x', Atom), fresh_z('y', Atom)
    return Implies(And(ForAll([x], Implies(Select(S, x), Select(T, x))),
                       ForAll([x, y], Implies(And(Select(T, x), Select(Select(V, mkKey2(x, e)), y)), Select(T, y)))),
                   ForAll([x], Implies(Select(Eclo(V, e, S), x), Select(T, x))))


def nfa_view(N):
    """total view of N.delta (missing key -> empty set)"""
    from . import sets as S
    return S.view(rec_get(N, 'delta'))


def _eps(N): return rec_get(N, 'epsilon').z


@spec('Eclo')
def s_Eclo(ev, N, seed): return SV(SET(ATOM), Eclo(nfa_view(N), _eps(N), seed.z))
@spec('Eclo_least')
def s_Eclo_least(ev, N, seed, Tt): return SV(BOOL, Eclo_least(nfa_view(N), _eps(N), seed.z, Tt.z))
@spec('step')
def s_step(ev, N, x, a): return SV(SET(ATOM), Select(nfa_view(N), mkKey2(x.z, a.z)))
@spec('move')
def s_move(ev, N, Sx, a): return SV(SET(ATOM), move(nfa_view(N), Sx.z, a.z))
@spec('Nhat')
def s_Nhat(ev, N, w): return SV(SET(ATOM), Nhat(nfa_view(N), _eps(N), rec_get(N, 'q0').z, w.z))


@spec('nfa_wf')
def s_nfa_wf(ev, N):
    """the class invariant established by NFA._check_validity"""
    Q, Sg, dl, q0, F, eps = [rec_get(N, f) for f in ('Q', 'Sigma', 'delta', 'q0', 'F', 'epsilon')]
    dom, val = map_dom(dl), map_val(dl)
    x, y, z_ = fresh_z('x', Atom), fresh_z('y', Atom), fresh_z('z', Atom)
    k = mkKey2(x, y)
    return SV(BOOL, And(Select(Q.z, q0.z),
                        ForAll([x], Implies(Select(F.z, x), Select(Q.z, x))),
                        Not(Select(Sg.z, eps.z)),
                        ForAll([x, y], Implies(Select(dom, k), And(Select(Q.z, x), Or(Select(Sg.z, y), y == eps.z)))),
                        ForAll([x, y, z_], Implies(And(Select(dom, k), Select(Select(val, k), z_)), Select(Q.z, z_)))))


@spec('lookup')
def s_lookup(ev, m, k):
    """m.get(k, set()) for a map of sets (total view); stated through the `view` function so that it can serve as a trigger"""
    from . import sets as S
    if m.t.args[1].kind == 'set':
        return SV(m.t.args[1], Select(S.view(m), k.z))
    raise TypeError('lookup')


@spec('nfa_accepts')
def s_nfa_accepts(ev, N, w):
    x = fresh_z('x', Atom)
    return SV(BOOL, z3.Exists([x], And(Select(Nhat(nfa_view(N), _eps(N), rec_get(N, 'q0').z, w.z), x), Select(rec_get(N, 'F').z, x))))


# ====================================================================== naming functions (DESIGN 3.2)
# Names produced by format strings are uninterpreted functions on atoms.  What proofs need from them
# (injectivity, disjointness from operand names) are the named assumptions N1..N5, each backed by a bounded
# check on the real format strings.
EMPTY_STRING_ATOM = lit('')        # '' used as a name (default epsilon)
name_of_set = Function('name_of_set', SetA, Atom)             # print_state_set
pair_name = Function('pair_name', Atom, Atom, Atom)           # '({},{})'.format
hint_index_name = Function('hint_index_name', Atom, Int, Atom)  # '{}{}'.format(hint, index)
upper_name = Function('upper_name', Atom, Atom)
var_name = Function('var_name', Atom, Atom, Atom)             # "{}'{}".format (PDA -> CFG variables)
NAMING = {'({},{})': pair_name, '{}{}': hint_index_name, "{}'{}": var_name}
_A2, _B2 = Consts('A2 B2', SetA); _p2, _q2 = Consts('p2 q2', Atom); _j = Const('j', Int)
axiom('naming', 'assumed', 'N1 print_state_set is injective on sets of state names without commas/braces',
      ForAll([_S, _T], Implies(name_of_set(_S) == name_of_set(_T), _S == _T)))
axiom('naming', 'assumed', 'N2 "(p,q)" is injective for comma-free p, q',
      ForAll([_p, _q, _p2, _q2], Implies(pair_name(_p, _q) == pair_name(_p2, _q2), And(_p == _p2, _q == _q2))))
_jn = Const('jn', Int)
axiom('naming', 'assumed', 'N5 names generated from the hints start / accept differ from each other and from the two hints (different first letters)',
      ForAll([_i, _jn], And(hint_index_name(lit('start'), _i) != hint_index_name(lit('accept'), _jn), hint_index_name(lit('start'), _i) != lit('accept'), hint_index_name(lit('accept'), _jn) != lit('start'))))
axiom('naming', 'assumed', 'N4 hint+index is injective in the index',
      ForAll([_p, _i, _j], Implies(hint_index_name(_p, _i) == hint_index_name(_p, _j), _i == _j)))

# inverse of hint+index on its range (exists because of N4; a conservative Skolem extension of it), and the complement of the set of names
# hint+k with k >= i: "Q - unnamed_from(hint, i)" is the set of generated names with index at least i that are taken in Q, the termination
# measure of the loops that look for an unused name
hint_index_of = Function('hint_index_of', Atom, Atom, Int)
unnamed_from = Function('unnamed_from', Atom, Int, SetA)
axiom('naming', 'assumed', 'N4b hint_index_of inverts hint+index (same content as N4)', ForAll([_p, _i], hint_index_of(_p, hint_index_name(_p, _i)) == _i))
axiom('naming', 'def', 'unnamed_from-def', ForAll([_p, _i, _q], Select(unnamed_from(_p, _i), _q) == Not(And(hint_index_name(_p, hint_index_of(_p, _q)) == _q, hint_index_of(_p, _q) >= _i))))


# the 26 capital letters (string.ascii_uppercase): as the list Python iterates over and as a set; the set has 26 elements (lemma upper-card of
# theory `letters`, proved by a chain of 26 card-add steps over the distinct literals).  Built on first use, so that the 26 literals only
# enter the obligations of functions that mention them
_UPPER = {}
def upper():
    if not _UPPER:
        import string as _string
        from . import sets as _S0
        arr = Const('ascii_uppercase_arr', z3.ArraySort(Int, Atom)); st = z3.K(Atom, False); chain = [st]
        for i, ch in enumerate(_string.ascii_uppercase):
            st = Store(st, lit(ch), True); chain.append(st)
        # the list is an opaque array with 26 ground facts (a chain of stores would be rewritten into nested if-then-else and leave no usable trigger)
        axiom('letters', 'def', 'ascii_uppercase', And([Select(arr, i) == lit(ch) for i, ch in enumerate(_string.ascii_uppercase)]))
        _UPPER.update(list=mk_list(LIST(ATOM), z3.IntVal(26), arr), set=SV(SET(ATOM), st), chain=chain, chars=_string.ascii_uppercase)
        axiom('letters', 'lemma', 'upper-card', And(_S0.fin(_UPPER['set']), _S0.card(_UPPER['set']).z == 26))
    return _UPPER
LAZY = {'letters': upper}
@spec('upper_list')
def s_upper_list(ev): return upper()['list']
@spec('upper_letters')
def s_upper_letters(ev): return upper()['set']


prod_fst = Function('prod_fst', Atom, Atom); prod_snd = Function('prod_snd', Atom, Atom)      # the two labels the product exercise reads out of a state name "(p,q)"
@spec('prod_fst')
def s_prod_fst(ev, q): return SV(ATOM, prod_fst(q.z))
@spec('prod_snd')
def s_prod_snd(ev, q): return SV(ATOM, prod_snd(q.z))
@spec('unnamed_from')
def s_unnamed_from(ev, h, i): return SV(SET(ATOM), unnamed_from(h.z, i.z))
@spec('name_of_set')
def s_name_of_set(ev, s): return SV(ATOM, name_of_set(s.z))
@spec('pair_name')
def s_pair_name(ev, a, b): return SV(ATOM, pair_name(a.z, b.z))


# ====================================================================== Turing machines (Sipser; bounded run)
TMs = sort_of(REC('TM')); ListA = sort_of(LIST(ATOM)); _LA = parts(LIST(ATOM))
run_q = Function('run_q', TMs, Word, Int, Atom)
run_tape = Function('run_tape', TMs, Word, Int, ListA)
run_head = Function('run_head', TMs, Word, Int, Int)
_Tm = Const('Tm', TMs)


def tm_step_terms(Tm, q, tape, head):
    """one step exactly as in the definition: read, default-to-reject, write, clamp at 0, extend with blank"""
    Tsv = SV(REC('TM'), Tm); dl = rec_get(Tsv, 'delta'); dom, val = map_dom(dl), map_val(dl)
    ln, arr = _LA[2](tape), _LA[3](tape)
    a = Select(arr, head); k = mkKey2(q, a)
    t3 = parts(TUP(ATOM, ATOM, ATOM))
    has = Select(dom, k); v = Select(val, k)
    q1 = If(has, t3[2](v), rec_get(Tsv, 'q_reject').z); b = If(has, t3[3](v), a); d = If(has, t3[4](v), lit('R'))
    arr1 = Store(arr, head, b)
    head1 = If(d == lit('L'), If(head - 1 >= 0, head - 1, 0), head + 1)
    grow = head1 == ln
    tape1 = _LA[1](If(grow, ln + 1, ln), If(grow, Store(arr1, ln, rec_get(Tsv, 'blank').z), arr1))
    return q1, tape1, head1


def tm_halting(Tm, q):
    Tsv = SV(REC('TM'), Tm)
    return Or(q == rec_get(Tsv, 'q_accept').z, q == rec_get(Tsv, 'q_reject').z)


axiom('tm', 'def', 'run-0-q', ForAll([_Tm, _w], run_q(_Tm, _w, 0) == rec_get(SV(REC('TM'), _Tm), 'q0').z))
axiom('tm', 'def', 'run-0-head', ForAll([_Tm, _w], run_head(_Tm, _w, 0) == 0))
axiom('tm', 'def', 'run-0-tape-len', ForAll([_Tm, _w], _LA[2](run_tape(_Tm, _w, 0)) == If(wlen(_w) == 0, 1, wlen(_w))))
axiom('tm', 'def', 'run-0-tape-cells', ForAll([_Tm, _w, _i], Implies(And(0 <= _i, _i < wlen(_w)), Select(_LA[3](run_tape(_Tm, _w, 0)), _i) == at(_w, _i))))
axiom('tm', 'def', 'run-0-tape-blank', ForAll([_Tm, _w], Implies(wlen(_w) == 0, Select(_LA[3](run_tape(_Tm, _w, 0)), 0) == rec_get(SV(REC('TM'), _Tm), 'blank').z)))
def _run_step_axioms():
    q, tp, hd = run_q(_Tm, _w, _i), run_tape(_Tm, _w, _i), run_head(_Tm, _w, _i)
    q1, tp1, hd1 = tm_step_terms(_Tm, q, tp, hd)
    h = tm_halting(_Tm, q)
    axiom('tm', 'def', 'run-step-q', ForAll([_Tm, _w, _i], Implies(_i >= 0, run_q(_Tm, _w, _i + 1) == If(h, q, q1))))
    axiom('tm', 'def', 'run-step-tape', ForAll([_Tm, _w, _i], Implies(_i >= 0, run_tape(_Tm, _w, _i + 1) == If(h, tp, tp1))))
    axiom('tm', 'def', 'run-step-head', ForAll([_Tm, _w, _i], Implies(_i >= 0, run_head(_Tm, _w, _i + 1) == If(h, hd, hd1))))
_run_step_axioms()
axiom('tm', 'lemma', 'run-sticky', ForAll([_Tm, _w, _i, _k], Implies(And(0 <= _i, _i <= _k, tm_halting(_Tm, run_q(_Tm, _w, _i))), run_q(_Tm, _w, _k) == run_q(_Tm, _w, _i))))

axiom('tm', 'lemma', 'run-sticky-0', ForAll([_Tm, _w, _k], Implies(And(0 <= _k, tm_halting(_Tm, rec_get(SV(REC('TM'), _Tm), 'q0').z)), run_q(_Tm, _w, _k) == rec_get(SV(REC('TM'), _Tm), 'q0').z)))


@spec('run_q')
def s_run_q(ev, Tm, w, i): return SV(ATOM, run_q(Tm.z, w.z, i.z))
@spec('run_tape')
def s_run_tape(ev, Tm, w, i): return SV(LIST(ATOM), run_tape(Tm.z, w.z, i.z))
@spec('run_head')
def s_run_head(ev, Tm, w, i): return SV(INT, run_head(Tm.z, w.z, i.z))
@spec('tm_halting')
def s_tm_halting(ev, Tm, q): return SV(BOOL, tm_halting(Tm.z, q.z))
@spec('tstep_q')
def s_tstep_q(ev, Tm, q, tape, head): return SV(ATOM, tm_step_terms(Tm.z, q.z, tape.z, head.z)[0])
@spec('tstep_tape')
def s_tstep_tape(ev, Tm, q, tape, head): return SV(LIST(ATOM), tm_step_terms(Tm.z, q.z, tape.z, head.z)[1])
@spec('tstep_head')
def s_tstep_head(ev, Tm, q, tape, head): return SV(INT, tm_step_terms(Tm.z, q.z, tape.z, head.z)[2])


@spec('tm_wf')
def s_tm_wf(ev, Tm):
    """the class invariant established by TM._check_validity"""
    g = lambda f: rec_get(Tm, f)
    Q, Sg, Gm, dl = g('Q').z, g('Sigma').z, g('Gamma').z, g('delta')
    dom, val = map_dom(dl), map_val(dl); t3 = parts(TUP(ATOM, ATOM, ATOM))
    x, y = fresh_z('x', Atom), fresh_z('y', Atom); k = mkKey2(x, y); v = Select(val, k)
    return SV(BOOL, And(Select(Q, g('q0').z), Select(Q, g('q_accept').z), Select(Q, g('q_reject').z), g('q_reject').z != g('q_accept').z,
                        Not(Select(Sg, g('blank').z)), Select(Gm, g('blank').z), ForAll([x], Implies(Select(Sg, x), Select(Gm, x))),
                        ForAll([x, y], Implies(Select(dom, k), And(Select(Q, x), Select(Gm, y), Select(Q, t3[2](v)), Select(Gm, t3[3](v)),
                                                                   Or(t3[4](v) == lit('L'), t3[4](v) == lit('R')))))))


@spec('pda_wf')
def s_pda_wf(ev, P):
    """the class invariant established by PDA._check_validity (verified against that code: contract PDA._check_validity)"""
    g = lambda f: rec_get(P, f)
    Q, Sg, Gm, dl, eps = g('Q').z, g('Sigma').z, g('Gamma').z, g('delta'), g('epsilon').z
    dom, val = map_dom(dl), map_val(dl); t2 = parts(TUP(ATOM, ATOM))
    x, y, u, q, v = [fresh_z(n_, Atom) for n_ in 'xyuqv']; k = mkKey3(x, y, u)
    return SV(BOOL, And(Select(Q, g('q0').z), Not(Select(Sg, eps)), Not(Select(Gm, eps)), ForAll([x], Implies(Select(g('F').z, x), Select(Q, x))),
                        ForAll([x, y, u], Implies(Select(dom, k), And(Select(Q, x), Or(Select(Sg, y), y == eps), Or(Select(Gm, u), u == eps)))),
                        ForAll([x, y, u, q, v], Implies(And(Select(dom, k), Select(Select(val, k), t2[1](q, v))), And(Select(Q, q), Or(Select(Gm, v), v == eps))))))


@spec('tm_verdict')
def s_tm_verdict(ev, Tm, w, k):
    """three-valued verdict after at most k steps (the run is sticky at halting configurations)"""
    ob = OPT(BOOL); po = parts(ob); q = run_q(Tm.z, w.z, k.z)
    return SV(ob, If(q == rec_get(Tm, 'q_accept').z, po[2](z3.BoolVal(True)), If(q == rec_get(Tm, 'q_reject').z, po[2](z3.BoolVal(False)), po[1])))


# ====================================================================== regular expressions (denotational semantics)
# Lang is an abstract Kleene algebra of languages with a membership predicate.  The algebraic facts and the
# take/drop unfoldings of product and star are theorems of Mathlib about `Language α` (KleeneAlgebra instance,
# Language.mem_mul, Language.mem_kstar_iff_exists_nonempty); lean/GvcTheory/Regexp.lean states and checks them in
# exactly this shape.  They are `assumed` on the SMT side and listed in the evidence.
Lang = z3.DeclareSort('Lang')
lzero, lone = z3.Const('lzero', Lang), z3.Const('lone', Lang)
lsym = Function('lsym', Atom, Lang); lplus = Function('lplus', Lang, Lang, Lang); lcat = Function('lcat', Lang, Lang, Lang); lstar = Function('lstar', Lang, Lang)
Lof = Function('Lang_of', Regexp, Lang)
lmem = Function('mem', Word, Lang, BoolSort())
rsize = Function('rsize', Regexp, Int)      # the library's regexp_size: Iteration +1, binary +2
rnodes = Function('rnodes', Regexp, Int)    # number of nodes (termination measure)
_X, _Y = Consts('X Y', Lang); _r, _s = Consts('r s', Regexp)
RXd = Regexp
axiom('regexp', 'def', 'L-zero', Lof(RXd.Zero) == lzero)
axiom('regexp', 'def', 'L-one', Lof(RXd.One) == lone)
axiom('regexp', 'def', 'L-sym', ForAll([_a], Lof(RXd.Sym(_a)) == lsym(_a)))
axiom('regexp', 'def', 'L-iter', ForAll([_r], Lof(RXd.Iter(_r)) == lstar(Lof(_r))))
axiom('regexp', 'def', 'L-sum', ForAll([_r, _s], Lof(RXd.Sum(_r, _s)) == lplus(Lof(_r), Lof(_s))))
axiom('regexp', 'def', 'L-concat', ForAll([_r, _s], Lof(RXd.Concat(_r, _s)) == lcat(Lof(_r), Lof(_s))))
for _n, _f in [('rsize-zero', rsize(RXd.Zero) == 0), ('rsize-one', rsize(RXd.One) == 0), ('rsize-sym', ForAll([_a], rsize(RXd.Sym(_a)) == 0)),
               ('rsize-iter', ForAll([_r], rsize(RXd.Iter(_r)) == rsize(_r) + 1)),
               ('rsize-sum', ForAll([_r, _s], rsize(RXd.Sum(_r, _s)) == rsize(_r) + rsize(_s) + 2)),
               ('rsize-concat', ForAll([_r, _s], rsize(RXd.Concat(_r, _s)) == rsize(_r) + rsize(_s) + 2)),
               ('rnodes-zero', rnodes(RXd.Zero) == 1), ('rnodes-one', rnodes(RXd.One) == 1), ('rnodes-sym', ForAll([_a], rnodes(RXd.Sym(_a)) == 1)),
               ('rnodes-iter', ForAll([_r], rnodes(RXd.Iter(_r)) == rnodes(_r) + 1)),
               ('rnodes-sum', ForAll([_r, _s], rnodes(RXd.Sum(_r, _s)) == rnodes(_r) + rnodes(_s) + 1)),
               ('rnodes-concat', ForAll([_r, _s], rnodes(RXd.Concat(_r, _s)) == rnodes(_r) + rnodes(_s) + 1))]:
    axiom('regexp', 'def', _n, _f)
axiom('regexp', 'lemma', 'rnodes-pos', ForAll([_r], rnodes(_r) >= 1))
axiom('regexp', 'lemma', 'rsize-nonneg', ForAll([_r], rsize(_r) >= 0))
KA = 'assumed'
axiom('regexp', KA, 'KA zero_add / add_zero (Mathlib: Language is an additive monoid)', ForAll([_X], And(lplus(lzero, _X) == _X, lplus(_X, lzero) == _X)))
axiom('regexp', KA, 'KA zero_mul / mul_zero', ForAll([_X], And(lcat(lzero, _X) == lzero, lcat(_X, lzero) == lzero)))
axiom('regexp', KA, 'KA one_mul / mul_one', ForAll([_X], And(lcat(lone, _X) == _X, lcat(_X, lone) == _X)))
axiom('regexp', KA, 'KA kstar_zero, kstar_one, kstar_idem', And(lstar(lzero) == lone, lstar(lone) == lone, ForAll([_X], lstar(lstar(_X)) == lstar(_X))))
axiom('regexp', KA, 'Language.not_mem_zero', ForAll([_w], Not(lmem(_w, lzero))))
axiom('regexp', KA, 'Language.mem_one', ForAll([_w], lmem(_w, lone) == (_w == Word.nil)))
axiom('regexp', KA, 'Language.mem_singleton (symbol)', ForAll([_w, _a], lmem(_w, lsym(_a)) == (_w == Word.snoc(Word.nil, _a))))
axiom('regexp', KA, 'Language.mem_add', ForAll([_w, _X, _Y], lmem(_w, lplus(_X, _Y)) == Or(lmem(_w, _X), lmem(_w, _Y))))
axiom('regexp', KA, 'Language.mem_mul as take/drop split', ForAll([_w, _X, _Y], lmem(_w, lcat(_X, _Y)) == z3.Exists([_k], And(0 <= _k, _k <= wlen(_w), lmem(take(_k, _w), _X), lmem(drop(_k, _w), _Y)))))
axiom('regexp', KA, 'Language.mem_kstar_iff_exists_nonempty as take/drop split', ForAll([_w, _X], lmem(_w, lstar(_X)) == Or(_w == Word.nil, z3.Exists([_k], And(1 <= _k, _k <= wlen(_w), lmem(take(_k, _w), _X), lmem(drop(_k, _w), lstar(_X)))))))


@spec('L')
def s_L(ev, r): return SV(Ty('lang'), Lof(r.z))
@spec('mem')
def s_mem(ev, w, X): return SV(BOOL, lmem(w.z, X.z))
@spec('rsize')
def s_rsize(ev, r): return SV(INT, rsize(r.z))
@spec('rnodes')
def s_rnodes(ev, r): return SV(INT, rnodes(r.z))

for _nm, _tst in [('is_zero', RXd.is_Zero), ('is_one', RXd.is_One), ('is_sym', RXd.is_Sym), ('is_iter', RXd.is_Iter), ('is_sum', RXd.is_Sum), ('is_concat', RXd.is_Concat)]:
    SPEC[_nm] = (lambda t: (lambda ev, r: SV(BOOL, t(r.z))))(_tst)


@spec('tm_accepted')
def s_tm_accepted(ev, Tm, w, k): return SV(BOOL, run_q(Tm.z, w.z, k.z) == rec_get(Tm, 'q_accept').z)


# ====================================================================== DFA constructions (C14)
@spec('dfa_pwf')
def s_dfa_pwf(ev, D):
    """partial DFA (constructed with check_validity=False): everything of dfa_wf except totality"""
    Q, Sg, dl, q0, F = [rec_get(D, f) for f in ('Q', 'Sigma', 'delta', 'q0', 'F')]
    dom, val = map_dom(dl), map_val(dl)
    x, y = fresh_z('x', Atom), fresh_z('y', Atom); k = mkKey2(x, y)
    return SV(BOOL, And(Select(Q.z, q0.z), ForAll([x], Implies(Select(F.z, x), Select(Q.z, x))),
                        ForAll([x, y], Implies(Select(dom, k), And(Select(Q.z, x), Select(Sg.z, y), Select(Q.z, Select(val, k)))))))


Reach = Function('Reach', DeltaD, SetA, Atom, SetA)        # (delta, Sigma, q): states reachable from q by >= 0 steps (least fixpoint)
Reach1 = Function('Reach1', DeltaD, SetA, Atom, SetA)      # by >= 1 steps
axiom('dfa', 'lfp', 'Reach-refl', ForAll([_d, _S, _q], Select(Reach(_d, _S, _q), _q)))
axiom('dfa', 'lfp', 'Reach-step', ForAll([_d, _S, _q, _p, _a], Implies(And(Select(Reach(_d, _S, _q), _p), Select(_S, _a)), Select(Reach(_d, _S, _q), Select(_d, mkKey2(_p, _a)))),
                                          patterns=[Select(Reach(_d, _S, _q), Select(_d, mkKey2(_p, _a))), z3.MultiPattern(Select(Reach(_d, _S, _q), _p), Select(_d, mkKey2(_p, _a)))]))
axiom('dfa', 'lfp', 'Reach1-first', ForAll([_d, _S, _q, _a], Implies(Select(_S, _a), Select(Reach1(_d, _S, _q), Select(_d, mkKey2(_q, _a))))))
axiom('dfa', 'lfp', 'Reach1-step', ForAll([_d, _S, _q, _p, _a], Implies(And(Select(Reach1(_d, _S, _q), _p), Select(_S, _a)), Select(Reach1(_d, _S, _q), Select(_d, mkKey2(_p, _a)))),
                                           patterns=[Select(Reach1(_d, _S, _q), Select(_d, mkKey2(_p, _a))), z3.MultiPattern(Select(Reach1(_d, _S, _q), _p), Select(_d, mkKey2(_p, _a)))]))


def Reach_least(d, Sg, q, Tt, plus):
    """leastness instance: every set that contains the seed(s) and is closed under delta contains Reach / Reach1"""
    x, a = fresh_z('x', Atom), fresh_z('a', Atom)
    seed = ForAll([a], Implies(Select(Sg, a), Select(Tt, Select(d, mkKey2(q, a))))) if plus else Select(Tt, q)
    closed = ForAll([x, a], Implies(And(Select(Tt, x), Select(Sg, a)), Select(Tt, Select(d, mkKey2(x, a)))))
    R = Reach1(d, Sg, q) if plus else Reach(d, Sg, q)
    return Implies(And(seed, closed), ForAll([x], Implies(Select(R, x), Select(Tt, x))))


@spec('Reach')
def s_Reach(ev, D, q): return SV(SET(ATOM), Reach(dfa_delta_val(D), rec_get(D, 'Sigma').z, q.z))
@spec('Reach1')
def s_Reach1(ev, D, q): return SV(SET(ATOM), Reach1(dfa_delta_val(D), rec_get(D, 'Sigma').z, q.z))
@spec('Reach_least')
def s_Reach_least(ev, D, q, Tt): return SV(BOOL, Reach_least(dfa_delta_val(D), rec_get(D, 'Sigma').z, q.z, Tt.z, False))
@spec('Reach1_least')
def s_Reach1_least(ev, D, q, Tt): return SV(BOOL, Reach_least(dfa_delta_val(D), rec_get(D, 'Sigma').z, q.z, Tt.z, True))

def _reach_in_q():
    D = SV(REC('DFA'), _D)
    return ForAll([_D, _q, _x], Implies(And(s_dfa_wf(None, D).z, Select(rec_get(D, 'Q').z, _q), Select(Reach(dfa_delta_val(D), rec_get(D, 'Sigma').z, _q), _x)), Select(rec_get(D, 'Q').z, _x)))
axiom('dfa', 'lemma', 'Reach-in-Q', _reach_in_q())
_d2 = Const('d2', DeltaD)
axiom('dfa', 'lemma', 'restrict-sim', ForAll([_d, _d2, _S, _q, _w], Implies(And(ForAll([_x, _a], Implies(And(Select(Reach(_d, _S, _q), _x), Select(_S, _a)), Select(_d2, mkKey2(_x, _a)) == Select(_d, mkKey2(_x, _a)))), over(_S, _w)),
                                                                            And(dhat(_d2, _q, _w) == dhat(_d, _q, _w), Select(Reach(_d, _S, _q), dhat(_d, _q, _w))))))


@spec('set_empty')
def s_set_empty(ev): return empty_set(ATOM)


def prod_struct(D1, D2, R):
    x, y, a = fresh_z('x', Atom), fresh_z('y', Atom), fresh_z('a', Atom)
    return And(s_dfa_wf(None, D1).z, s_dfa_wf(None, D2).z, rec_get(D1, 'Sigma').z == rec_get(D2, 'Sigma').z,
               ForAll([x, y, a], Implies(And(Select(rec_get(D1, 'Q').z, x), Select(rec_get(D2, 'Q').z, y), Select(rec_get(D1, 'Sigma').z, a)),
                                         Select(dfa_delta_val(R), mkKey2(pair_name(x, y), a)) == pair_name(Select(dfa_delta_val(D1), mkKey2(x, a)), Select(dfa_delta_val(D2), mkKey2(y, a))))))


_D1, _D2, _DR = Consts('D1 D2 DR', sort_of(REC('DFA')))
def _prod_sim():
    D1, D2, R = [SV(REC('DFA'), z_) for z_ in (_D1, _D2, _DR)]
    return ForAll([_D1, _D2, _DR, _x, _y, _w], Implies(And(prod_struct(D1, D2, R), Select(rec_get(D1, 'Q').z, _x), Select(rec_get(D2, 'Q').z, _y), over(rec_get(D1, 'Sigma').z, _w)),
                                                       dhat(dfa_delta_val(R), pair_name(_x, _y), _w) == pair_name(dhat(dfa_delta_val(D1), _x, _w), dhat(dfa_delta_val(D2), _y, _w))))
axiom('dfa', 'lemma', 'product-sim', _prod_sim())


@spec('prod_struct')
def s_prod_struct(ev, D1, D2, R): return SV(BOOL, prod_struct(D1, D2, R))


# ====================================================================== DFA isomorphism (C20)
HMap = ArraySort(Atom, Atom)
_DFAs = sort_of(REC('DFA'))
isofn = Function('isofn', _DFAs, _DFAs, HMap)      # a chosen isomorphism of the reachable parts, if one exists


def iso_pred(h, D1, D2):
    """h is an isomorphism between the reachable parts of D1 and D2"""
    d1, d2 = dfa_delta_val(D1), dfa_delta_val(D2); Sg = rec_get(D1, 'Sigma').z
    R1 = Reach(d1, Sg, rec_get(D1, 'q0').z); R2 = Reach(d2, rec_get(D2, 'Sigma').z, rec_get(D2, 'q0').z)
    x, y, a = fresh_z('x', Atom), fresh_z('y', Atom), fresh_z('a', Atom)
    return And(Select(h, rec_get(D1, 'q0').z) == rec_get(D2, 'q0').z,
               ForAll([x], Implies(Select(R1, x), Select(R2, Select(h, x)))),
               ForAll([x, a], Implies(And(Select(R1, x), Select(Sg, a)), Select(h, Select(d1, mkKey2(x, a))) == Select(d2, mkKey2(Select(h, x), a)))),
               ForAll([x], Implies(Select(R1, x), Select(rec_get(D1, 'F').z, x) == Select(rec_get(D2, 'F').z, Select(h, x)))),
               ForAll([x, y], Implies(And(Select(R1, x), Select(R1, y), Select(h, x) == Select(h, y)), x == y)))


_h = Const('h', HMap)
axiom('iso', 'def', 'isofn-choice (definition of the chosen isomorphism: any isomorphism witnesses it)',
      ForAll([_D1, _D2, _h], Implies(iso_pred(_h, SV(REC('DFA'), _D1), SV(REC('DFA'), _D2)), iso_pred(isofn(_D1, _D2), SV(REC('DFA'), _D1), SV(REC('DFA'), _D2)))))


iso_b = Function('isomorphic', _DFAs, _DFAs, BoolSort())     # opaque name for "the chosen map is an isomorphism" (hide / reveal)
axiom('iso', 'def', 'isomorphic-def', ForAll([_D1, _D2], iso_b(_D1, _D2) == iso_pred(isofn(_D1, _D2), SV(REC('DFA'), _D1), SV(REC('DFA'), _D2))))


iso_map_b = Function('is_iso', HMap, _DFAs, _DFAs, BoolSort())       # opaque name (hide / reveal)
axiom('iso', 'def', 'is_iso-def', ForAll([_h, _D1, _D2], iso_map_b(_h, _D1, _D2) == iso_pred(_h, SV(REC('DFA'), _D1), SV(REC('DFA'), _D2))))
axiom('iso', 'lemma', 'iso-witness', ForAll([_h, _D1, _D2], Implies(iso_map_b(_h, _D1, _D2), iso_b(_D1, _D2))))


@spec('isomorphic')
def s_isomorphic(ev, D1, D2): return SV(BOOL, iso_b(D1.z, D2.z))
@spec('iso_chosen')
def s_iso_chosen(ev, D1, D2): return SV(MAP(ATOM, ATOM), None)
@spec('is_iso')
def s_is_iso(ev, m, D1, D2):
    """the (total extension of the) map m is an isomorphism of the reachable parts"""
    return SV(BOOL, iso_map_b(map_val(m), D1.z, D2.z))
@spec('hval')
def s_hval(ev, D1, D2, x): return SV(ATOM, Select(isofn(D1.z, D2.z), x.z))


@spec('keys')
def s_keys(ev, m): return SV(SET(m.t.args[0]), map_dom(m))


# a relation on states given as a Boolean matrix (dfa_isomorphic): its domain, and a chosen partner per state
RelA = ArraySort(Key2, BoolSort())
fn_of_rel = Function('fn_of_rel', RelA, HMap)
rel_dom = Function('rel_dom', RelA, SetA)
_R = Const('R', RelA)
axiom('iso', 'def', 'fn_of_rel-choice (definition of the chosen partner: any partner witnesses it)',
      ForAll([_R, _x, _y], Implies(Select(_R, mkKey2(_x, _y)), Select(_R, mkKey2(_x, Select(fn_of_rel(_R), _x))))))
axiom('iso', 'def', 'rel_dom', ForAll([_R, _x], Select(rel_dom(_R), _x) == z3.Exists([_y], Select(_R, mkKey2(_x, _y)))))


rel_of = Function('rel_of', RelA, RelA, RelA)       # the relation held by a Boolean matrix: pairs that are keys and map to True
_R2 = Const('R2', RelA); _k2 = Const('k2', Key2)
axiom('iso', 'def', 'rel_of', ForAll([_R, _R2, _k2], Select(rel_of(_R, _R2), _k2) == And(Select(_R, _k2), Select(_R2, _k2)),
                                    patterns=[Select(rel_of(_R, _R2), _k2), z3.MultiPattern(rel_of(_R, _R2), Select(_R2, _k2))]))
def _rel(m): return rel_of(map_dom(m), map_val(m))


axiom('iso', 'lemma', 'rel_of-set-true', ForAll([_R, _R2, _k2], rel_of(Store(_R, _k2, True), Store(_R2, _k2, True)) == Store(rel_of(_R, _R2), _k2, True)))


@spec('rel')
def s_rel(ev, m):
    """the set of pairs marked True in a Boolean matrix"""
    return SV(SET(KEY2), _rel(m))
@spec('rel_fn')
def s_rel_fn(ev, m, x): return SV(ATOM, Select(fn_of_rel(_rel(m)), x.z))
@spec('rel_dom')
def s_rel_dom(ev, m): return SV(SET(ATOM), rel_dom(_rel(m)))
@spec('is_iso_rel')
def s_is_iso_rel(ev, m, D1, D2):
    """the chosen-partner function of the Boolean matrix m is an isomorphism of the reachable parts"""
    return SV(BOOL, iso_rel_b(_rel(m), D1.z, D2.z))


iso_rel_b = Function('is_iso_rel', RelA, _DFAs, _DFAs, BoolSort())       # opaque name (hide / reveal)
axiom('iso', 'def', 'is_iso_rel-def', ForAll([_R, _D1, _D2], iso_rel_b(_R, _D1, _D2) == iso_pred(fn_of_rel(_R), SV(REC('DFA'), _D1), SV(REC('DFA'), _D2))))
axiom('iso', 'lemma', 'iso-rel-witness', ForAll([_R, _D1, _D2], Implies(iso_rel_b(_R, _D1, _D2), iso_b(_D1, _D2))))


# ====================================================================== subset construction (C03)
set_of_name = Function('set_of_name', Atom, SetA)
axiom('naming', 'assumed', 'N1b set_of_name inverts print_state_set (same content as N1)', ForAll([_S], set_of_name(name_of_set(_S)) == _S))
Sreach = Function('Sreach', ViewN, Atom, Atom, SetA, SetA, BoolSort())      # (view, eps, q0, Sigma, S): S is a subset reachable in the subset construction
_Sg2 = Const('Sg2', SetA)
axiom('nfa', 'lfp', 'Sreach-init', ForAll([_V, _e, _q, _Sg2], Sreach(_V, _e, _q, _Sg2, Eclo(_V, _e, Store(z3.K(Atom, False), _q, True)))))
axiom('nfa', 'lfp', 'Sreach-step', ForAll([_V, _e, _q, _Sg2, _S, _a], Implies(And(Sreach(_V, _e, _q, _Sg2, _S), Select(_Sg2, _a)), Sreach(_V, _e, _q, _Sg2, Eclo(_V, _e, move(_V, _S, _a)))),
                                           patterns=[Sreach(_V, _e, _q, _Sg2, Eclo(_V, _e, move(_V, _S, _a)))]))
axiom('nfa', 'lemma', 'Eclo-idem', ForAll([_V, _e, _S], Eclo(_V, _e, Eclo(_V, _e, _S)) == Eclo(_V, _e, _S)))
_NFAs = sort_of(REC('NFA')); _Nn = Const('Nn', _NFAs)


def subset_struct(N, R):
    """R is (a DFA with the structure of) the subset automaton of N, states named by print_state_set"""
    V, e, q0 = nfa_view(N), _eps(N), rec_get(N, 'q0').z
    RQ, RF, rd = rec_get(R, 'Q').z, rec_get(R, 'F').z, dfa_delta_val(R)
    x, a, y = fresh_z('x', Atom), fresh_z('a', Atom), fresh_z('y', Atom)
    sing = Store(z3.K(Atom, False), q0, True)
    return And(rec_get(R, 'Sigma').z == rec_get(N, 'Sigma').z,
               rec_get(R, 'q0').z == name_of_set(Eclo(V, e, sing)), Select(RQ, rec_get(R, 'q0').z),
               ForAll([x], Implies(Select(RQ, x), x == name_of_set(set_of_name(x)))),
               ForAll([x, a], Implies(And(Select(RQ, x), Select(rec_get(N, 'Sigma').z, a)),
                                      And(Select(rd, mkKey2(x, a)) == name_of_set(Eclo(V, e, move(V, set_of_name(x), a))), Select(RQ, Select(rd, mkKey2(x, a)))))),
               ForAll([x], Implies(Select(RQ, x), Select(RF, x) == Exists([y], And(Select(set_of_name(x), y), Select(rec_get(N, 'F').z, y))))))


subset_b = Function('subset_struct', _NFAs, _DFAs, BoolSort())      # opaque name (hide / reveal)
axiom('subset', 'def', 'subset_struct-def', ForAll([_Nn, _DR], subset_b(_Nn, _DR) == subset_struct(SV(REC('NFA'), _Nn), SV(REC('DFA'), _DR))))


@spec('subset_struct')
def s_subset_struct(ev, N, R): return SV(BOOL, subset_b(N.z, R.z))
@spec('set_of_name')
def s_set_of_name(ev, x): return SV(SET(ATOM), set_of_name(x.z))
@spec('Sreach')
def s_Sreach(ev, N, Sx): return SV(BOOL, Sreach(nfa_view(N), _eps(N), rec_get(N, 'q0').z, rec_get(N, 'Sigma').z, Sx.z))


def _subset_sim():
    N, R = SV(REC('NFA'), _Nn), SV(REC('DFA'), _DR)
    V, e, q0 = nfa_view(N), _eps(N), rec_get(N, 'q0').z
    d = dhat(dfa_delta_val(R), rec_get(R, 'q0').z, _w)
    return ForAll([_Nn, _DR, _w], Implies(And(subset_b(_Nn, _DR), over(rec_get(N, 'Sigma').z, _w)),
                                          And(d == name_of_set(Nhat(V, e, q0, _w)), Select(rec_get(R, 'Q').z, d))))
axiom('subset', 'lemma', 'subset-sim', _subset_sim())
def _subset_reach():
    N, R = SV(REC('NFA'), _Nn), SV(REC('DFA'), _DR)
    V, e, q0, Sg = nfa_view(N), _eps(N), rec_get(N, 'q0').z, rec_get(N, 'Sigma').z
    return ForAll([_Nn, _DR, _S], Implies(And(subset_b(_Nn, _DR), Sreach(V, e, q0, Sg, _S)),
                                          And(Select(rec_get(R, 'Q').z, name_of_set(_S)), Select(Reach(dfa_delta_val(R), rec_get(R, 'Sigma').z, rec_get(R, 'q0').z), name_of_set(_S)))))
axiom('subset', 'lemma', 'subset-reach', _subset_reach())


# names of the subsets of a set: the universe in which the subset construction looks for new states (termination measure of nfa_to_dfa)
pow_names = Function('pow_names', SetA, SetA); sub_of = Function('sub_of', SetA, SetA, z3.BoolSort())
_An = Const('An', SetA)
axiom('subset', 'def', 'sub_of-def', ForAll([_S, _An], sub_of(_S, _An) == ForAll([_x], Implies(Select(_S, _x), Select(_An, _x)))))
axiom('subset', 'def', 'pow_names-def', ForAll([_An, _x], Select(pow_names(_An), _x) == And(sub_of(set_of_name(_x), _An), name_of_set(set_of_name(_x)) == _x)))
def _pow_fin():
    from . import sets as _S1
    A = SV(SET(ATOM), _An)
    return ForAll([_An], Implies(_S1.fin(A), _S1.fin(SV(SET(ATOM), pow_names(_An)))))
axiom('subset', 'assumed', 'pow-fin: a finite set has finitely many subsets, hence finitely many subset names (Lean: F10_finite_pow_names)', _pow_fin())
@spec('pow_names')
def s_pow_names(ev, A): return SV(SET(ATOM), pow_names(A.z))


def Sreach_least(V, e, q0, Sg, P):
    """leastness instance for Sreach: P is a predicate (python function on a SetA term) closed under the two rules"""
    Sx, a = fresh_z('S', SetA), fresh_z('a', Atom)
    sing = Store(z3.K(Atom, False), q0, True)
    return Implies(And(P(Eclo(V, e, sing)), ForAll([Sx, a], Implies(And(P(Sx), Select(Sg, a)), P(Eclo(V, e, move(V, Sx, a)))))),
                   ForAll([Sx], Implies(Sreach(V, e, q0, Sg, Sx), P(Sx))))


# ====================================================================== PDAs (Sipser style, acceptance by final state)
PDAs = sort_of(REC('PDA')); CFGt = REC('PDAState'); Conf = sort_of(CFGt); _pc = parts(CFGt)     # _pc[1] = mk, _pc[2] = q, _pc[3] = stack
SetC = sort_of(SET(CFGt))
_T2 = TUP(ATOM, ATOM); _t2 = parts(_T2)


def canpop(stack, u, eps): return Or(u == eps, And(Not(Word.is_nil(stack)), Word.last(stack) == u))
def poppush(stack, u, v, eps):
    base = If(u == eps, stack, Word.init(stack))
    return If(v == eps, base, Word.snoc(base, v))


def pstep_body(P, c, a, c2, u, q, v):
    dl = rec_get(P, 'delta'); dom, val = map_dom(dl), map_val(dl); eps = rec_get(P, 'epsilon').z
    k = mkKey3(_pc[2](c), a, u)
    return And(Select(dom, k), Select(Select(val, k), _t2[1](q, v)), canpop(_pc[3](c), u, eps), c2 == _pc[1](q, poppush(_pc[3](c), u, v, eps)))


def pstep(P, c, a, c2):
    """c --a--> c2 is one transition of P (a may be P.epsilon): exactly can-pop-push / pop-push of the definition"""
    u, q, v = fresh_z('u', Atom), fresh_z('q', Atom), fresh_z('v', Atom)
    return Exists([u, q, v], pstep_body(P, c, a, c2, u, q, v))


EcloP = Function('EcloP', PDAs, SetC, SetC)                  # closure under epsilon steps (least fixpoint; may be infinite)
stepsetP = Function('stepsetP', PDAs, SetC, Atom, SetC)
reachP = Function('reachP', PDAs, Word, SetC)
_Pp = Const('Pp', PDAs); _Rc = Const('Rc', SetC); _c1, _c2 = Consts('c1 c2', Conf)
_Psv = SV(REC('PDA'), _Pp)
axiom('pda', 'lfp', 'EcloP-seed', ForAll([_Pp, _Rc, _c1], Implies(Select(_Rc, _c1), Select(EcloP(_Pp, _Rc), _c1))))
axiom('pda', 'lfp', 'EcloP-step', ForAll([_Pp, _Rc, _c1, _c2], Implies(And(Select(EcloP(_Pp, _Rc), _c1), pstep(_Psv, _c1, rec_get(_Psv, 'epsilon').z, _c2)), Select(EcloP(_Pp, _Rc), _c2)),
                                        patterns=[z3.MultiPattern(Select(EcloP(_Pp, _Rc), _c1), Select(EcloP(_Pp, _Rc), _c2))]))
axiom('pda', 'def', 'stepsetP', ForAll([_Pp, _Rc, _a, _c2], Select(stepsetP(_Pp, _Rc, _a), _c2) == Exists([_c1], And(Select(_Rc, _c1), pstep(_Psv, _c1, _a, _c2)))))
axiom('pda', 'def', 'reachP-nil', ForAll([_Pp], reachP(_Pp, Word.nil) == EcloP(_Pp, Store(z3.K(Conf, False), _pc[1](rec_get(_Psv, 'q0').z, Word.nil), True))))
axiom('pda', 'def', 'reachP-snoc', ForAll([_Pp, _w, _a], reachP(_Pp, Word.snoc(_w, _a)) == EcloP(_Pp, stepsetP(_Pp, reachP(_Pp, _w), _a))))


def EcloP_least(P, R, Tt):
    c1, c2 = fresh_z('c1', Conf), fresh_z('c2', Conf)
    return Implies(And(ForAll([c1], Implies(Select(R, c1), Select(Tt, c1))),
                       ForAll([c1, c2], Implies(And(Select(Tt, c1), pstep(P, c1, rec_get(P, 'epsilon').z, c2)), Select(Tt, c2)))),
                   ForAll([c1], Implies(Select(EcloP(P.z, R), c1), Select(Tt, c1))))


@spec('canpop')
def s_canpop(ev, P, stack, u): return SV(BOOL, canpop(stack.z, u.z, rec_get(P, 'epsilon').z))
@spec('poppush')
def s_poppush(ev, P, stack, u, v): return SV(WORD, poppush(stack.z, u.z, v.z, rec_get(P, 'epsilon').z))
@spec('pstep')
def s_pstep(ev, P, c, a, c2): return SV(BOOL, pstep(P, c.z, a.z, c2.z))
@spec('EcloP')
def s_EcloP(ev, P, R): return SV(SET(CFGt), EcloP(P.z, R.z))
@spec('EcloP_least')
def s_EcloP_least(ev, P, R, Tt): return SV(BOOL, EcloP_least(P, R.z, Tt.z))
@spec('stepsetP')
def s_stepsetP(ev, P, R, a): return SV(SET(CFGt), stepsetP(P.z, R.z, a.z))
@spec('reachP')
def s_reachP(ev, P, w): return SV(SET(CFGt), reachP(P.z, w.z))
@spec('pda_accepts')
def s_pda_accepts(ev, P, w):
    c = fresh_z('c', Conf)
    return SV(BOOL, Exists([c], And(Select(reachP(P.z, w.z), c), Select(rec_get(P, 'F').z, _pc[2](c)))))
@spec('fin')
def s_fin(ev, Sx):
    from . import sets as S
    return SV(BOOL, S.fin(Sx))
@spec('card')
def s_card(ev, Sx):
    from . import sets as S
    return S.card(Sx)
@spec('card_strict_subset')
def s_card_strict(ev, a, b, x):
    from . import sets as S
    return SV(BOOL, S.card_strict_subset(a, b, x))


@spec('closure_limit')
def s_closure_limit(ev): return SV(INT, z3.Const('GambaTools_pda_epsilon_closure_max_iterations', z3.IntSort()))
axiom('pda', 'lemma', 'EcloP-mono', ForAll([_Pp, _Rc, Const('Rc2', SetC)], Implies(ForAll([_c1], Implies(Select(_Rc, _c1), Select(Const('Rc2', SetC), _c1))),
                                                                              ForAll([_c1], Implies(Select(EcloP(_Pp, _Rc), _c1), Select(EcloP(_Pp, Const('Rc2', SetC)), _c1))))))


# ====================================================================== context-free grammars in CNF: span derivability (C07)
CFGs = sort_of(REC('CFG')); _Gg = Const('Gg', CFGs); _Gsv = SV(REC('CFG'), _Gg)
der = Function('der', CFGs, Atom, Word, Int, Int, BoolSort())      # der(G, A, w, i, j): A derives w[i..j] (inclusive) by terminal and binary rules
_LR = parts(LIST(REC('Rule'))); _RL = parts(REC('Rule')); _AL = parts(REC('Alternative')); _LAt = parts(LIST(ATOM))


def rule_at(G, t):
    r = Select(_LR[3](rec_get(G, 'R').z), t)
    syms = _AL[2](_RL[3](r))
    return _RL[2](r), _LAt[2](syms), _LAt[3](syms)      # variable, len(symbols), symbols array


def _der_axioms():
    A, B = Consts('A_ B_', Atom); t = Const('t_', Int); i, j, k = Consts('i_ j_ k_', Int)
    nR = _LR[2](rec_get(_Gsv, 'R').z)
    var, ln, arr = rule_at(_Gsv, t)
    global _DER_AX
    _DER_AX = (A, B, i, j, k, nR)
_der_axioms()


def _der_axioms2():
    A, B, i, j, k, nR = _DER_AX; C = Const('C_', Atom)
    axiom('cfg', 'def', 'der-base', ForAll([_Gg, A, _w, i], der(_Gg, A, _w, i, i) == has_unit_b(_Gg, A, at(_w, i), nR)))
    axiom('cfg', 'def', 'der-step', ForAll([_Gg, A, _w, i, j], Implies(i < j, der(_Gg, A, _w, i, j) ==
          Exists([k, B, C], And(i <= k, k < j, has_bin_b(_Gg, A, B, C, nR), der(_Gg, B, _w, i, k), der(_Gg, C, _w, k + 1, j))))))


@spec('der')
def s_der(ev, G, A, w, i, j): return SV(BOOL, der(G.z, A.z, w.z, i.z, j.z))
LLA = sort_of(LIST(LIST(ATOM))); _LL = parts(LIST(LIST(ATOM)))
has_unit_b = Function('has_unit', CFGs, Atom, Atom, Int, BoolSort())        # some rule R[t], t < upto, is  A -> [a]
has_bin_b = Function('has_bin', CFGs, Atom, Atom, Atom, Int, BoolSort())     # some rule R[t], t < upto, is  A -> [B, C]
in_unit_b = Function('in_unit', LLA, Atom, BoolSort())                       # the list of right-hand sides contains [a]
in_bin_b = Function('in_bin', LLA, Atom, Atom, BoolSort())
def _rhs_axioms():
    A, B, C, a = Consts('A_ B_ C_ a_', Atom); t, up, u = Consts('t_ up_ u_', Int); L = Const('L_', LLA)
    var, ln, arr = rule_at(_Gsv, t)
    axiom('cfg', 'def', 'has_unit-def', ForAll([_Gg, A, a, up], has_unit_b(_Gg, A, a, up) == Exists([t], And(0 <= t, t < up, var == A, ln == 1, Select(arr, 0) == a))))
    axiom('cfg', 'def', 'has_bin-def', ForAll([_Gg, A, B, C, up], has_bin_b(_Gg, A, B, C, up) == Exists([t], And(0 <= t, t < up, var == A, ln == 2, Select(arr, 0) == B, Select(arr, 1) == C))))
    el = Select(_LL[3](L), u)
    axiom('cfg', 'def', 'in_unit-def', ForAll([L, a], in_unit_b(L, a) == Exists([u], And(0 <= u, u < _LL[2](L), _LAt[2](el) == 1, Select(_LAt[3](el), 0) == a))))
    axiom('cfg', 'def', 'in_bin-def', ForAll([L, B, C], in_bin_b(L, B, C) == Exists([u], And(0 <= u, u < _LL[2](L), _LAt[2](el) == 2, Select(_LAt[3](el), 0) == B, Select(_LAt[3](el), 1) == C))))
_rhs_axioms()


@spec('has_unit')
def s_has_unit(ev, G, A, a, upto): return SV(BOOL, has_unit_b(G.z, A.z, a.z, upto.z))
@spec('has_bin')
def s_has_bin(ev, G, A, B, C, upto): return SV(BOOL, has_bin_b(G.z, A.z, B.z, C.z, upto.z))
@spec('in_unit')
def s_in_unit(ev, L, a): return SV(BOOL, in_unit_b(L.z, a.z))
@spec('in_bin')
def s_in_bin(ev, L, B, C): return SV(BOOL, in_bin_b(L.z, B.z, C.z))
@spec('lookup_list')
def s_lookup_list(ev, m, k):
    """m[k] for a defaultdict(list): the stored list or an empty list"""
    vt = m.t.args[1]
    return SV(vt, If(Select(map_dom(m), k.z), Select(map_val(m), k.z), parts(vt)[1](z3.IntVal(0), EMPTY_ARR(vt))))


_empty_arrs = {}
def EMPTY_ARR(vt):
    if vt.key not in _empty_arrs: _empty_arrs[vt.key] = z3.Const('empty_arr_' + ''.join(c if c.isalnum() else '_' for c in vt.key), z3.ArraySort(z3.IntSort(), sort_of(vt.args[0])))
    return _empty_arrs[vt.key]


_der_axioms2()


# ---------------------------------------------------------------------- theory cfgx: the two fixpoints of the Chomsky conversion (C08)
# Null(G): the nullable symbols, least set N with  (every symbol of the right-hand side of R[t] in N)  =>  head of R[t] in N
# UReach(G, A): the variables reachable from A by one or more unit rules X -> B with B in V (least set)
Null = Function('Null', CFGs, SetA)
UReach = Function('UReach', CFGs, Atom, SetA)


def _rhs_all_in(G, t, X):
    k = fresh_z('k', Int); var, ln, arr = rule_at(G, t)
    return ForAll([k], Implies(And(0 <= k, k < ln), Select(X, Select(arr, k))))


def _cfgx_axioms():
    t = Const('t_', Int); A = Const('A_', Atom)
    nR = _LR[2](rec_get(_Gsv, 'R').z); var, ln, arr = rule_at(_Gsv, t); V = rec_get(_Gsv, 'V').z
    rt = Select(_LR[3](rec_get(_Gsv, 'R').z), t)
    axiom('cfgx', 'lfp', 'Null-rule', ForAll([_Gg, t], Implies(And(0 <= t, t < nR, _rhs_all_in(_Gsv, t, Null(_Gg))), Select(Null(_Gg), var)), patterns=[z3.MultiPattern(Null(_Gg), rt)]))
    axiom('cfgx', 'lfp', 'UReach-first', ForAll([_Gg, A, t], Implies(And(0 <= t, t < nR, var == A, ln == 1, Select(V, Select(arr, 0))), Select(UReach(_Gg, A), Select(arr, 0))),
                                                patterns=[z3.MultiPattern(UReach(_Gg, A), rt)]))
    axiom('cfgx', 'lfp', 'UReach-step', ForAll([_Gg, A, t], Implies(And(0 <= t, t < nR, ln == 1, Select(UReach(_Gg, A), var), Select(V, Select(arr, 0))), Select(UReach(_Gg, A), Select(arr, 0))),
                                               patterns=[z3.MultiPattern(UReach(_Gg, A), rt)]))
_cfgx_axioms()


def Null_least(G, X):
    """leastness instance: a set closed under the nullable rule contains Null(G)"""
    t = fresh_z('t', Int); x = fresh_z('x', Atom)
    nR = _LR[2](rec_get(G, 'R').z); var, ln, arr = rule_at(G, t)
    closed = ForAll([t], Implies(And(0 <= t, t < nR, _rhs_all_in(G, t, X)), Select(X, var)))
    return Implies(closed, ForAll([x], Implies(Select(Null(G.z), x), Select(X, x))))


def UReach_least(G, A, X):
    """leastness instance: a set that contains the targets of the unit rules of A and is closed under unit rules contains UReach(G, A)"""
    t = fresh_z('t', Int); x = fresh_z('x', Atom)
    nR = _LR[2](rec_get(G, 'R').z); var, ln, arr = rule_at(G, t); V = rec_get(G, 'V').z
    first = ForAll([t], Implies(And(0 <= t, t < nR, var == A, ln == 1, Select(V, Select(arr, 0))), Select(X, Select(arr, 0))))
    step = ForAll([t], Implies(And(0 <= t, t < nR, ln == 1, Select(X, var), Select(V, Select(arr, 0))), Select(X, Select(arr, 0))))
    return Implies(And(first, step), ForAll([x], Implies(Select(UReach(G.z, A), x), Select(X, x))))


@spec('Null')
def s_Null(ev, G): return SV(SET(ATOM), Null(G.z))
@spec('UReach')
def s_UReach(ev, G, A): return SV(SET(ATOM), UReach(G.z, A.z))
@spec('Null_least')
def s_Null_least(ev, G, X): return SV(BOOL, Null_least(G, X.z))
@spec('UReach_least')
def s_UReach_least(ev, G, A, X): return SV(BOOL, UReach_least(G, A.z, X.z))


re_fullmatch = Function('re_fullmatch', Atom, Atom, BoolSort())      # re.fullmatch(expression, string) is not None: uninterpreted (C17)
@spec('re_fullmatch')
def s_re_fullmatch(ev, r, x): return SV(BOOL, re_fullmatch(r.z, x.z))


# ---- tokenised automaton descriptions (C17): sets read off the list of transitions / a list of names; explicit definitions (set comprehensions)
_LT3d = LIST(KEY3); _LT3ds = sort_of(_LT3d); _LAd = LIST(ATOM); _LAds = sort_of(_LAd)
char_at = Function('char_at', Atom, Int, Atom)        # label[i] for an opaque string (PDA / TM labels); strlen its length: uninterpreted
strlen = Function('strlen', Atom, Int)
tr_chars = Function('tr_chars', _LT3ds, Int, Int, SetA)                  # the i-th characters of the labels of the first n transitions
tr_labels = Function('tr_labels', _LT3ds, Int, SetA)                      # labels of the first n transitions
tr_ends = Function('tr_ends', _LT3ds, Int, SetA)                          # end points of the first n transitions
tr_keys = Function('tr_keys', _LT3ds, Int, sort_of(SET(KEY2)))            # (source, label) of the first n transitions
list_elems = Function('list_elems', _LAds, SetA)                          # the elements of a list of names
def _descr_axioms():
    L = Const('L_', _LT3ds); n, t = Const('n_', Int), Const('t_', Int); x, y = Const('x_', Atom), Const('y_', Atom); M = Const('M_', _LAds)
    arr = parts(_LT3d)[3](L); el = Select(arr, t); f0, f1, f2 = [parts(KEY3)[2 + i](el) for i in range(3)]
    axiom('descr', 'def', 'tr_labels-elim', ForAll([L, n, x], Implies(Select(tr_labels(L, n), x), Exists([t], And(0 <= t, t < n, f1 == x))), patterns=[Select(tr_labels(L, n), x)]))
    axiom('descr', 'def', 'tr_labels-intro', ForAll([L, n, t], Implies(And(0 <= t, t < n), Select(tr_labels(L, n), f1)), patterns=[z3.MultiPattern(tr_labels(L, n), el)]))
    axiom('descr', 'def', 'tr_ends-elim', ForAll([L, n, x], Implies(Select(tr_ends(L, n), x), Exists([t], And(0 <= t, t < n, Or(f0 == x, f2 == x)))), patterns=[Select(tr_ends(L, n), x)]))
    axiom('descr', 'def', 'tr_ends-intro', ForAll([L, n, t], Implies(And(0 <= t, t < n), And(Select(tr_ends(L, n), f0), Select(tr_ends(L, n), f2))), patterns=[z3.MultiPattern(tr_ends(L, n), el)]))
    axiom('descr', 'def', 'tr_keys-elim', ForAll([L, n, x, y], Implies(Select(tr_keys(L, n), mkKey2(x, y)), Exists([t], And(0 <= t, t < n, f0 == x, f1 == y))), patterns=[Select(tr_keys(L, n), mkKey2(x, y))]))
    axiom('descr', 'def', 'tr_keys-intro', ForAll([L, n, t], Implies(And(0 <= t, t < n), Select(tr_keys(L, n), mkKey2(f0, f1))), patterns=[z3.MultiPattern(tr_keys(L, n), el)]))
    i_ = Const('i_', Int)
    axiom('descr', 'def', 'tr_chars-elim', ForAll([L, n, i_, x], Implies(Select(tr_chars(L, n, i_), x), Exists([t], And(0 <= t, t < n, char_at(f1, i_) == x))), patterns=[Select(tr_chars(L, n, i_), x)]))
    axiom('descr', 'def', 'tr_chars-intro', ForAll([L, n, i_, t], Implies(And(0 <= t, t < n), Select(tr_chars(L, n, i_), char_at(f1, i_))), patterns=[z3.MultiPattern(tr_chars(L, n, i_), el)]))
    marr = parts(_LAd)[3](M); mlen = parts(_LAd)[2](M)
    axiom('descr', 'def', 'list_elems-elim', ForAll([M, x], Implies(Select(list_elems(M), x), Exists([t], And(0 <= t, t < mlen, Select(marr, t) == x))), patterns=[Select(list_elems(M), x)]))
    axiom('descr', 'def', 'list_elems-intro', ForAll([M, t], Implies(And(0 <= t, t < mlen), Select(list_elems(M), Select(marr, t))), patterns=[z3.MultiPattern(list_elems(M), Select(marr, t))]))
_descr_axioms()
@spec('tr_chars')
def s_tr_chars(ev, L, n, i): return SV(SET(ATOM), tr_chars(L.z, n.z, i.z))
@spec('char_at')
def s_char_at(ev, a, i): return SV(ATOM, char_at(a.z, i.z))
@spec('strlen')
def s_strlen(ev, a): return SV(INT, strlen(a.z))
@spec('tr_labels')
def s_tr_labels(ev, L, n): return SV(SET(ATOM), tr_labels(L.z, n.z))
@spec('tr_ends')
def s_tr_ends(ev, L, n): return SV(SET(ATOM), tr_ends(L.z, n.z))
@spec('tr_keys')
def s_tr_keys(ev, L, n): return SV(SET(KEY2), tr_keys(L.z, n.z))
@spec('list_elems')
def s_list_elems(ev, M): return SV(SET(ATOM), list_elems(M.z))


tokens = Function('tokens', Atom, _LAds)                                  # line.strip().split(): uninterpreted (C17, assumption A-tokens)
str_startswith = Function('str_startswith', Atom, Atom, BoolSort())
@spec('tokens')
def s_tokens(ev, l): return SV(LIST(ATOM), tokens(l.z))
@spec('str_startswith')
def s_str_startswith(ev, a, b): return SV(BOOL, str_startswith(a.z, b.z))


str_contains = Function('str_contains', Atom, Atom, BoolSort())      # `value in label` on strings: uninterpreted (C17)
@spec('str_contains')
def s_str_contains(ev, a, v): return SV(BOOL, str_contains(a.z, v.z))


vtag = Function('vtag', Atom, BoolSort())        # isinstance(symbol, Variable) for a grammar symbol (assumption A-tags: the class of a symbol object is a function of its string; Variable or Terminal)
@spec('vtag')
def s_vtag(ev, x): return SV(BOOL, vtag(x.z))


cnf_b = Function('cnf', CFGs, BoolSort())          # the value CFG.is_chomsky() returns (assumed contract; the table specification below does not depend on it)
@spec('cnf')
def s_cnf(ev, G): return SV(BOOL, cnf_b(G.z))
def _cnf_def():
    t, k = Const('t_', Int), Const('k_', Int)
    nR = _LR[2](rec_get(_Gsv, 'R').z); var, ln, arr = rule_at(_Gsv, t); Sv = rec_get(_Gsv, 'S').z
    shape = Or(ln == 0, And(ln == 1, Not(vtag(Select(arr, 0)))), And(ln == 2, vtag(Select(arr, 0)), vtag(Select(arr, 1))))
    no_start = ForAll([k], Not(And(0 <= k, k < ln, vtag(Select(arr, k)), Select(arr, k) == Sv)))
    axiom('cfg', 'def', 'cnf-def', ForAll([_Gg], cnf_b(_Gg) == ForAll([t], Implies(And(0 <= t, t < nR), And(shape, no_start, Implies(ln == 0, var == Sv))))))
_cnf_def()


# ====================================================================== word-level readings of DFA constructions (C14)
axiom('dfax', 'lemma', 'dhat-app', ForAll([_d, _q, _u, _v], dhat(_d, _q, app(_u, _v)) == dhat(_d, dhat(_d, _q, _u), _v)))
axiom('dfax', 'lemma', 'Reach1-of-word', ForAll([_d, _S, _q, _v], Implies(And(_v != Word.nil, over(_S, _v)), Select(Reach1(_d, _S, _q), dhat(_d, _q, _v))),
                                               patterns=[Select(Reach1(_d, _S, _q), dhat(_d, _q, _v)), z3.MultiPattern(Reach1(_d, _S, _q), dhat(_d, _q, _v), over(_S, _v))]))
r1word = Function('r1word', DeltaD, SetA, Atom, Atom, Word)       # a chosen non-empty word leading from q to a state of Reach1(q)
axiom('dfax', 'lemma', 'Reach1-has-word', ForAll([_d, _S, _q, _x], Implies(Select(Reach1(_d, _S, _q), _x),
      Exists([_v], And(_v != Word.nil, over(_S, _v), dhat(_d, _q, _v) == _x)))))
nap = Function('nap', DeltaD, SetA, Atom, Word, BoolSort())      # nap(delta, F, q0, w): no proper prefix of w is accepted
_Fs = Const('Fs', SetA)
axiom('dfax', 'def', 'nap-nil', ForAll([_d, _Fs, _q], nap(_d, _Fs, _q, Word.nil)))
axiom('dfax', 'def', 'nap-snoc', ForAll([_d, _Fs, _q, _w, _a], nap(_d, _Fs, _q, Word.snoc(_w, _a)) == And(nap(_d, _Fs, _q, _w), Not(Select(_Fs, dhat(_d, _q, _w))))))
axiom('dfax', 'lemma', 'nap-prefixes', ForAll([_d, _Fs, _q, _w], nap(_d, _Fs, _q, _w) == ForAll([_u], Implies(And(isprefix(_u, _w), _u != _w), Not(Select(_Fs, dhat(_d, _q, _u)))))))
axiom('dfax', 'lemma', 'Eclo-no-eps', ForAll([_V, _e, _S], Implies(ForAll([_x, _y], Implies(Select(_S, _x), Not(Select(Select(_V, mkKey2(_x, _e)), _y)))), Eclo(_V, _e, _S) == _S)))


def np_struct(D, N):
    """N has the structure dfa_no_prefix gives: D with the transitions leaving accepting states cut (no epsilon moves)"""
    q, q1, a = fresh_z('q', Atom), fresh_z('q1', Atom), fresh_z('a', Atom)
    return And(s_dfa_wf(None, D).z, rec_get(N, 'q0').z == rec_get(D, 'q0').z, rec_get(N, 'F').z == rec_get(D, 'F').z, rec_get(N, 'Sigma').z == rec_get(D, 'Sigma').z,
               Not(Select(rec_get(D, 'Sigma').z, rec_get(N, 'epsilon').z)),
               ForAll([q, q1, a], Select(Select(nfa_view(N), mkKey2(q, a)), q1) ==
                      And(Select(rec_get(D, 'Q').z, q), Not(Select(rec_get(D, 'F').z, q)), Select(rec_get(D, 'Sigma').z, a), Select(dfa_delta_val(D), mkKey2(q, a)) == q1)))


np_b = Function('np_struct', _DFAs, _NFAs, BoolSort())
axiom('dfax', 'def', 'np_struct-def', ForAll([_D, _Nn], np_b(_D, _Nn) == np_struct(SV(REC('DFA'), _D), SV(REC('NFA'), _Nn))))
def _np_sim():
    D, N = SV(REC('DFA'), _D), SV(REC('NFA'), _Nn)
    d, q0, Fz = dfa_delta_val(D), rec_get(D, 'q0').z, rec_get(D, 'F').z
    nh = Nhat(nfa_view(N), _eps(N), rec_get(N, 'q0').z, _w)
    return ForAll([_D, _Nn, _w, _x], Implies(And(np_b(_D, _Nn), over(rec_get(D, 'Sigma').z, _w)), Select(nh, _x) == And(nap(d, Fz, q0, _w), _x == dhat(d, q0, _w))))
axiom('dfax', 'lemma', 'noprefix-sim', _np_sim())


axiom('dfax', 'lemma', 'dhat-cons', ForAll([_d, _q, _a, _v], dhat(_d, _q, cons(_a, _v)) == dhat(_d, Select(_d, mkKey2(_q, _a)), _v)))
axiom('dfax', 'lemma', 'rev-over', ForAll([_S, _w], over(_S, rev(_w)) == over(_S, _w)))
axiom('dfax', 'lemma', 'rev-app', ForAll([_u, _v], rev(app(_u, _v)) == app(rev(_v), rev(_u))))
axiom('dfax', 'lemma', 'rev-rev', ForAll([_w], rev(rev(_w)) == _w))


def rev_struct(D, N):
    """N has the structure dfa_reverse gives: a new initial state with epsilon moves to D.F, every transition turned round, F = {D.q0}"""
    q, q1, a = fresh_z('q', Atom), fresh_z('q1', Atom), fresh_z('a', Atom)
    Q, Sg, Fz = rec_get(D, 'Q').z, rec_get(D, 'Sigma').z, rec_get(D, 'F').z
    return And(s_dfa_wf(None, D).z, Not(Select(Q, rec_get(N, 'q0').z)), rec_get(N, 'Sigma').z == Sg, Not(Select(Sg, rec_get(N, 'epsilon').z)),
               ForAll([q], Select(rec_get(N, 'F').z, q) == (q == rec_get(D, 'q0').z)),
               ForAll([q, q1, a], Implies(Select(Sg, a), Select(Select(nfa_view(N), mkKey2(q1, a)), q) == And(Select(Q, q), Select(Q, q1), Select(dfa_delta_val(D), mkKey2(q, a)) == q1))),
               ForAll([q, q1], Select(Select(nfa_view(N), mkKey2(q1, rec_get(N, 'epsilon').z)), q) == And(q1 == rec_get(N, 'q0').z, Select(Fz, q))))


rev_b = Function('rev_struct', _DFAs, _NFAs, BoolSort())
axiom('dfax', 'def', 'rev_struct-def', ForAll([_D, _Nn], rev_b(_D, _Nn) == rev_struct(SV(REC('DFA'), _D), SV(REC('NFA'), _Nn))))
def _rev_sim():
    D, N = SV(REC('DFA'), _D), SV(REC('NFA'), _Nn)
    d, Fz, Q = dfa_delta_val(D), rec_get(D, 'F').z, rec_get(D, 'Q').z
    nh = Nhat(nfa_view(N), _eps(N), rec_get(N, 'q0').z, _w)
    return ForAll([_D, _Nn, _w, _x], Implies(And(rev_b(_D, _Nn), over(rec_get(D, 'Sigma').z, _w)),
                  Select(nh, _x) == If(_w == Word.nil, Or(_x == rec_get(N, 'q0').z, Select(Fz, _x)), And(Select(Q, _x), Select(Fz, dhat(d, _x, rev(_w)))))))
axiom('dfax', 'lemma', 'reverse-sim', _rev_sim())


# partial DFAs: the run on w exists iff every transition it needs is defined; L(D) = {w | the run exists and ends in F}
_dm = Const('dm', ArraySort(Key2, BoolSort()))
run_ok = Function('run_ok', ArraySort(Key2, BoolSort()), DeltaD, Atom, Word, BoolSort())
axiom('dfax', 'def', 'run_ok-nil', ForAll([_dm, _d, _q], run_ok(_dm, _d, _q, Word.nil)))
axiom('dfax', 'def', 'run_ok-snoc', ForAll([_dm, _d, _q, _w, _a], run_ok(_dm, _d, _q, Word.snoc(_w, _a)) == And(run_ok(_dm, _d, _q, _w), Select(_dm, mkKey2(dhat(_d, _q, _w), _a)))))


def tot_struct(D, R):
    """R has the structure dfa_make_total gives for the partial DFA D"""
    x, a = fresh_z('x', Atom), fresh_z('a', Atom)
    Q, Sg, dl = rec_get(D, 'Q').z, rec_get(D, 'Sigma').z, rec_get(D, 'delta')
    Q2, d2 = rec_get(R, 'Q').z, dfa_delta_val(R)
    return And(s_dfa_pwf(None, D).z, s_dfa_wf(None, R).z, rec_get(R, 'Sigma').z == Sg, rec_get(R, 'q0').z == rec_get(D, 'q0').z, rec_get(R, 'F').z == rec_get(D, 'F').z,
               ForAll([x], Implies(Select(Q, x), Select(Q2, x))),
               ForAll([x, a], Implies(Select(map_dom(dl), mkKey2(x, a)), Select(d2, mkKey2(x, a)) == Select(map_val(dl), mkKey2(x, a)))),
               ForAll([x, a], Implies(And(Select(Q, x), Select(Sg, a), Not(Select(map_dom(dl), mkKey2(x, a)))), Not(Select(Q, Select(d2, mkKey2(x, a)))))),
               ForAll([x, a], Implies(And(Select(Q2, x), Not(Select(Q, x)), Select(Sg, a)), Select(d2, mkKey2(x, a)) == x)),
               ForAll([x], Implies(And(Select(Q2, x), Not(Select(Q, x))), Not(Select(rec_get(R, 'F').z, x)))))


tot_b = Function('tot_struct', _DFAs, _DFAs, BoolSort())
_D2 = Const('D2', _DFAs)
axiom('dfax', 'def', 'tot_struct-def', ForAll([_D, _D2], tot_b(_D, _D2) == tot_struct(SV(REC('DFA'), _D), SV(REC('DFA'), _D2))))
def _tot_sim():
    D, R = SV(REC('DFA'), _D), SV(REC('DFA'), _D2)
    dl = rec_get(D, 'delta'); q0 = rec_get(D, 'q0').z
    ok = run_ok(map_dom(dl), map_val(dl), q0, _w)
    return ForAll([_D, _D2, _w], Implies(And(tot_b(_D, _D2), over(rec_get(D, 'Sigma').z, _w)),
                  And(Select(rec_get(R, 'Q').z, dhat(dfa_delta_val(R), q0, _w)),
                      If(ok, And(dhat(dfa_delta_val(R), q0, _w) == dhat(map_val(dl), q0, _w), Select(rec_get(D, 'Q').z, dhat(map_val(dl), q0, _w))),
                         Not(Select(rec_get(D, 'Q').z, dhat(dfa_delta_val(R), q0, _w)))))))
axiom('dfax', 'lemma', 'total-sim', _tot_sim())


@spec('tot_struct')
def s_tot_struct(ev, D, R): return SV(BOOL, tot_b(D.z, R.z))
@spec('pdfa_accepts')
def s_pdfa_accepts(ev, D, w):
    """acceptance by a partial DFA: the run exists and ends in an accepting state"""
    dl = rec_get(D, 'delta'); q0 = rec_get(D, 'q0').z
    return SV(BOOL, And(run_ok(map_dom(dl), map_val(dl), q0, w.z), Select(rec_get(D, 'F').z, dhat(map_val(dl), q0, w.z))))
@spec('rev_struct')
def s_rev_struct(ev, D, N): return SV(BOOL, rev_b(D.z, N.z))
@spec('np_struct')
def s_np_struct(ev, D, N): return SV(BOOL, np_b(D.z, N.z))
@spec('nap')
def s_nap(ev, D, w): return SV(BOOL, nap(dfa_delta_val(D), rec_get(D, 'F').z, rec_get(D, 'q0').z, w.z))


# ====================================================================== runs of an epsilon-NFA from a set of states; embedding of one NFA in another (C18)
from . import sets as _Sets
def U(a, b): return _Sets.union(SV(SET(ATOM), a), SV(SET(ATOM), b)).z
EMPTYA = z3.K(Atom, False)
def single(q): return Store(EMPTYA, q, True)
NS = Function('NS', ViewN, Atom, SetA, Word, SetA)        # (view, eps, S, w): states reachable from some state of S by reading w
axiom('nfax', 'def', 'NS-nil', ForAll([_V, _e, _S], NS(_V, _e, _S, Word.nil) == Eclo(_V, _e, _S)))
axiom('nfax', 'def', 'NS-snoc', ForAll([_V, _e, _S, _w, _a], NS(_V, _e, _S, Word.snoc(_w, _a)) == Eclo(_V, _e, move(_V, NS(_V, _e, _S, _w), _a))))
axiom('nfax', 'lemma', 'Nhat-is-NS', ForAll([_V, _e, _q, _w], Nhat(_V, _e, _q, _w) == NS(_V, _e, single(_q), _w)))
axiom('nfax', 'lemma', 'Eclo-union', ForAll([_V, _e, _S, _T], Eclo(_V, _e, U(_S, _T)) == U(Eclo(_V, _e, _S), Eclo(_V, _e, _T))))
axiom('nfax', 'lemma', 'move-union', ForAll([_V, _S, _T, _a], move(_V, U(_S, _T), _a) == U(move(_V, _S, _a), move(_V, _T, _a))))
axiom('nfax', 'lemma', 'move-empty', ForAll([_V, _a], move(_V, EMPTYA, _a) == EMPTYA))
axiom('nfax', 'lemma', 'Eclo-empty-eq', ForAll([_V, _e], Eclo(_V, _e, EMPTYA) == EMPTYA))
axiom('nfax', 'lemma', 'NS-union', ForAll([_V, _e, _S, _T, _w], NS(_V, _e, U(_S, _T), _w) == U(NS(_V, _e, _S, _w), NS(_V, _e, _T, _w))))
axiom('nfax', 'lemma', 'NS-empty', ForAll([_V, _e, _w], NS(_V, _e, EMPTYA, _w) == EMPTYA))
axiom('nfax', 'lemma', 'eclo-move-pw', ForAll([_V, _e, _S, _a, _x], Select(Eclo(_V, _e, move(_V, _S, _a)), _x) ==
      z3.Exists([_y, _q], And(Select(_S, _q), Select(Select(_V, mkKey2(_q, _a)), _y), Select(Eclo(_V, _e, single(_y)), _x)))))
axiom('nfax', 'lemma', 'Nhat-step-pw', ForAll([_V, _e, _q, _w, _a, _y], Select(Nhat(_V, _e, _q, Word.snoc(_w, _a)), _y) ==
      z3.Exists([_x], And(Select(Nhat(_V, _e, _q, _w), _x), Select(Eclo(_V, _e, Select(_V, mkKey2(_x, _a))), _y)))))
axiom('nfax', 'lemma', 'Nhat-closed', ForAll([_V, _e, _q, _w, _x, _y], Implies(And(Select(Nhat(_V, _e, _q, _w), _x), Select(Eclo(_V, _e, single(_x)), _y)), Select(Nhat(_V, _e, _q, _w), _y))))
axiom('nfax', 'lemma', 'NS-closed', ForAll([_V, _e, _S, _w], Eclo(_V, _e, NS(_V, _e, _S, _w)) == NS(_V, _e, _S, _w)))

_VR, _VN = Consts('VR VN', ViewN); _eR, _eN = Consts('eR eN', Atom); _Qs, _Sg = Consts('Qs Sg', SetA)


def embed_pred(VR, eR, VN, eN, Q, Sg):
    """inside the region Q the automaton (VR, eR) moves exactly like (VN, eN) (epsilon relabelled), Q is closed under VN's moves,
    and from Q the automaton VR has no moves on letters outside Sg"""
    x, y, a = fresh_z('x', Atom), fresh_z('y', Atom), fresh_z('a', Atom)
    return And(ForAll([x, y], Implies(Select(Q, x), Select(Select(VR, mkKey2(x, eR)), y) == Select(Select(VN, mkKey2(x, eN)), y))),
               ForAll([x, a, y], Implies(And(Select(Q, x), Select(Sg, a)), Select(Select(VR, mkKey2(x, a)), y) == Select(Select(VN, mkKey2(x, a)), y))),
               ForAll([x, a, y], Implies(And(Select(Q, x), Select(Select(VN, mkKey2(x, a)), y)), Select(Q, y))),
               ForAll([x, a, y], Implies(And(Select(Q, x), Not(Select(Sg, a)), a != eR), Not(Select(Select(VR, mkKey2(x, a)), y)))),
               Not(Select(Sg, eR)), Not(Select(Sg, eN)))


embed_b = Function('embed', ViewN, Atom, ViewN, Atom, SetA, SetA, BoolSort())
axiom('nfax', 'def', 'embed-def', ForAll([_VR, _eR, _VN, _eN, _Qs, _Sg], embed_b(_VR, _eR, _VN, _eN, _Qs, _Sg) == embed_pred(_VR, _eR, _VN, _eN, _Qs, _Sg)))
def _sub(A, B):
    x = fresh_z('x', Atom); return ForAll([x], Implies(Select(A, x), Select(B, x)))
axiom('nfax', 'lemma', 'embed-eclo', ForAll([_VR, _eR, _VN, _eN, _Qs, _Sg, _S], Implies(And(embed_b(_VR, _eR, _VN, _eN, _Qs, _Sg), _sub(_S, _Qs)),
      And(Eclo(_VR, _eR, _S) == Eclo(_VN, _eN, _S), _sub(Eclo(_VN, _eN, _S), _Qs))), patterns=[z3.MultiPattern(embed_b(_VR, _eR, _VN, _eN, _Qs, _Sg), Eclo(_VR, _eR, _S))]))
axiom('nfax', 'lemma', 'embed-move', ForAll([_VR, _eR, _VN, _eN, _Qs, _Sg, _S, _a], Implies(And(embed_b(_VR, _eR, _VN, _eN, _Qs, _Sg), _sub(_S, _Qs), _a != _eR),
      And(move(_VR, _S, _a) == If(Select(_Sg, _a), move(_VN, _S, _a), EMPTYA), _sub(move(_VN, _S, _a), _Qs))), patterns=[z3.MultiPattern(embed_b(_VR, _eR, _VN, _eN, _Qs, _Sg), move(_VR, _S, _a))]))
_SgR = Const('SgR', SetA)
axiom('nfax', 'lemma', 'embed-sim', ForAll([_VR, _eR, _VN, _eN, _Qs, _Sg, _SgR, _S, _w], Implies(And(embed_b(_VR, _eR, _VN, _eN, _Qs, _Sg), _sub(_S, _Qs), over(_SgR, _w), Not(Select(_SgR, _eR))),
      And(NS(_VR, _eR, _S, _w) == If(over(_Sg, _w), NS(_VN, _eN, _S, _w), EMPTYA), _sub(NS(_VR, _eR, _S, _w), _Qs))),
      patterns=[z3.MultiPattern(embed_b(_VR, _eR, _VN, _eN, _Qs, _Sg), NS(_VR, _eR, _S, _w), over(_SgR, _w))]))


def view_wf(N):
    """what nfa_wf says about the total view: moves stay inside Q and are labelled by Sigma or epsilon"""
    x, a, y = fresh_z('x', Atom), fresh_z('a', Atom), fresh_z('y', Atom)
    Q, Sg = rec_get(N, 'Q').z, rec_get(N, 'Sigma').z
    return And(ForAll([x, a, y], Implies(Select(Select(nfa_view(N), mkKey2(x, a)), y), And(Select(Q, x), Select(Q, y), Or(Select(Sg, a), a == _eps(N))))),
               Not(Select(Sg, _eps(N))), Select(Q, rec_get(N, 'q0').z), _sub(rec_get(N, 'F').z, Q))


def union_struct(N1, N2, R):
    """R has the structure nfa_union gives (second operand's epsilon moves relabelled to the first operand's epsilon)"""
    V1, V2, VR = nfa_view(N1), nfa_view(N2), nfa_view(R); e1, e2 = _eps(N1), _eps(N2); r0 = rec_get(R, 'q0').z
    Q1, Q2 = rec_get(N1, 'Q').z, rec_get(N2, 'Q').z
    q, b, y = fresh_z('q', Atom), fresh_z('b', Atom), fresh_z('y', Atom)
    return And(s_nfa_wf(None, N1).z, s_nfa_wf(None, N2).z, ForAll([q], Not(And(Select(Q1, q), Select(Q2, q)))), Not(Select(rec_get(N2, 'Sigma').z, e1)),
               _eps(R) == e1, Not(Select(Q1, r0)), Not(Select(Q2, r0)),
               ForAll([b], Select(rec_get(R, 'Sigma').z, b) == Or(Select(rec_get(N1, 'Sigma').z, b), Select(rec_get(N2, 'Sigma').z, b))),
               ForAll([q], Select(rec_get(R, 'F').z, q) == Or(Select(rec_get(N1, 'F').z, q), Select(rec_get(N2, 'F').z, q))),
               ForAll([y], Select(Select(VR, mkKey2(r0, e1)), y) == Or(y == rec_get(N1, 'q0').z, y == rec_get(N2, 'q0').z)),
               ForAll([b, y], Implies(b != e1, Not(Select(Select(VR, mkKey2(r0, b)), y)))),
               ForAll([q, b, y], Implies(Select(Q1, q), Select(Select(VR, mkKey2(q, b)), y) == Or(And(b == e1, Select(Select(V1, mkKey2(q, e1)), y)), And(b != e1, Select(Select(V1, mkKey2(q, b)), y))))),
               ForAll([q, b, y], Implies(Select(Q2, q), Select(Select(VR, mkKey2(q, b)), y) == Or(And(b == e1, Select(Select(V2, mkKey2(q, e2)), y)), And(b != e2, Select(Select(V2, mkKey2(q, b)), y))))))


def accepts_z(N, w):
    x = fresh_z('x', Atom)
    return z3.Exists([x], And(Select(Nhat(nfa_view(N), _eps(N), rec_get(N, 'q0').z, w), x), Select(rec_get(N, 'F').z, x)))


union_b = Function('union_struct', _NFAs, _NFAs, _NFAs, BoolSort())
_N1, _N2, _NR = Consts('N1 N2 NR', _NFAs)
axiom('nfax', 'def', 'union_struct-def', ForAll([_N1, _N2, _NR], union_b(_N1, _N2, _NR) == union_struct(SV(REC('NFA'), _N1), SV(REC('NFA'), _N2), SV(REC('NFA'), _NR))))
def _union_sim():
    N1, N2, R = [SV(REC('NFA'), z_) for z_ in (_N1, _N2, _NR)]
    return ForAll([_N1, _N2, _NR, _w], Implies(And(union_b(_N1, _N2, _NR), over(rec_get(R, 'Sigma').z, _w)),
                  accepts_z(R, _w) == Or(And(over(rec_get(N1, 'Sigma').z, _w), accepts_z(N1, _w)), And(over(rec_get(N2, 'Sigma').z, _w), accepts_z(N2, _w)))))
axiom('nfax', 'lemma', 'union-sim', _union_sim())


@spec('union_struct')
def s_union_struct(ev, N1, N2, R): return SV(BOOL, union_b(N1.z, N2.z, R.z))


# ---------------------------------------------------------------------- concatenation
acc_b = Function('nfa_acc', _NFAs, Word, BoolSort())            # opaque name for acceptance (hide / reveal)
axiom('nfax', 'def', 'nfa_acc-def', ForAll([_N1, _w], acc_b(_N1, _w) == accepts_z(SV(REC('NFA'), _N1), _w)))
def lang_b(Nz, w):
    """w is a word over the alphabet of N that N accepts"""
    return And(over(rec_get(SV(REC('NFA'), Nz), 'Sigma').z, w), acc_b(Nz, w))


def cat_struct(N1, N2, R):
    """R has the structure nfa_concatenation gives"""
    V1, V2, VR = nfa_view(N1), nfa_view(N2), nfa_view(R); e1, e2 = _eps(N1), _eps(N2)
    Q1, Q2 = rec_get(N1, 'Q').z, rec_get(N2, 'Q').z
    q, b, y = fresh_z('q', Atom), fresh_z('b', Atom), fresh_z('y', Atom)
    return And(s_nfa_wf(None, N1).z, s_nfa_wf(None, N2).z, ForAll([q], Not(And(Select(Q1, q), Select(Q2, q)))), Not(Select(rec_get(N2, 'Sigma').z, e1)),
               _eps(R) == e1, rec_get(R, 'q0').z == rec_get(N1, 'q0').z,
               ForAll([b], Select(rec_get(R, 'Sigma').z, b) == Or(Select(rec_get(N1, 'Sigma').z, b), Select(rec_get(N2, 'Sigma').z, b))),
               ForAll([q], Select(rec_get(R, 'F').z, q) == Select(rec_get(N2, 'F').z, q)),
               ForAll([q, b, y], Implies(Select(Q1, q), Select(Select(VR, mkKey2(q, b)), y) ==
                      Or(And(b == e1, Select(Select(V1, mkKey2(q, e1)), y)), And(b != e1, Select(Select(V1, mkKey2(q, b)), y)), And(b == e1, Select(rec_get(N1, 'F').z, q), y == rec_get(N2, 'q0').z)))),
               ForAll([q, b, y], Implies(Select(Q2, q), Select(Select(VR, mkKey2(q, b)), y) == Or(And(b == e1, Select(Select(V2, mkKey2(q, e2)), y)), And(b != e2, Select(Select(V2, mkKey2(q, b)), y))))))


cat_b = Function('cat_struct', _NFAs, _NFAs, _NFAs, BoolSort())
axiom('nfax', 'def', 'cat_struct-def', ForAll([_N1, _N2, _NR], cat_b(_N1, _N2, _NR) == cat_struct(SV(REC('NFA'), _N1), SV(REC('NFA'), _N2), SV(REC('NFA'), _NR))))
# the states of the second operand that the concatenation can be in after reading w: by recursion on w
Bcat = Function('Bcat', _NFAs, _NFAs, Word, SetA)
def _n2(N2z): return SV(REC('NFA'), N2z)
def _E2(N2z, S): return Eclo(nfa_view(_n2(N2z)), _eps(_n2(N2z)), S)
def _start2(N1z, N2z, w): return If(lang_b(N1z, w), _E2(N2z, single(rec_get(_n2(N2z), 'q0').z)), EMPTYA)
axiom('nfax', 'def', 'Bcat-nil', ForAll([_N1, _N2], Bcat(_N1, _N2, Word.nil) == _start2(_N1, _N2, Word.nil)))
axiom('nfax', 'def', 'Bcat-snoc', ForAll([_N1, _N2, _w, _a], Bcat(_N1, _N2, Word.snoc(_w, _a)) ==
      U(If(Select(rec_get(_n2(_N2), 'Sigma').z, _a), _E2(_N2, move(nfa_view(_n2(_N2)), Bcat(_N1, _N2, _w), _a)), EMPTYA), _start2(_N1, _N2, Word.snoc(_w, _a)))))
hitF = Function('hits_F', _NFAs, SetA, BoolSort())          # the set S contains an accepting state of N (named, so that equal conditions are equal terms)
axiom('nfax', 'def', 'hits_F-def', ForAll([_N1, _S], hitF(_N1, _S) == z3.Exists([_x], And(Select(rec_get(SV(REC('NFA'), _N1), 'F').z, _x), Select(_S, _x)))))
def _cat_eclo():
    N1, N2, R = [SV(REC('NFA'), z_) for z_ in (_N1, _N2, _NR)]
    E1 = Eclo(nfa_view(N1), _eps(N1), _S)
    hit = hitF(_N1, E1)
    return ForAll([_N1, _N2, _NR, _S], Implies(And(cat_b(_N1, _N2, _NR), _sub(_S, rec_get(N1, 'Q').z)),
                  Eclo(nfa_view(R), _eps(N1), _S) == U(E1, If(hit, _E2(_N2, single(rec_get(N2, 'q0').z)), EMPTYA))),
                  patterns=[z3.MultiPattern(cat_b(_N1, _N2, _NR), Eclo(nfa_view(R), _eps(N1), _S))])
axiom('nfax', 'lemma', 'cat-eclo', _cat_eclo())
def _bcat_char():
    N2 = _n2(_N2); k = _k
    return ForAll([_N1, _N2, _w, _x], Select(Bcat(_N1, _N2, _w), _x) == z3.Exists([k], And(0 <= k, k <= wlen(_w), lang_b(_N1, take(k, _w)), over(rec_get(N2, 'Sigma').z, drop(k, _w)),
                  Select(NS(nfa_view(N2), _eps(N2), single(rec_get(N2, 'q0').z), drop(k, _w)), _x))))
axiom('nfax', 'lemma', 'Bcat-char', _bcat_char())
def _cat_sim():
    N1, N2, R = [SV(REC('NFA'), z_) for z_ in (_N1, _N2, _NR)]
    return ForAll([_N1, _N2, _NR, _w], Implies(And(cat_b(_N1, _N2, _NR), over(rec_get(R, 'Sigma').z, _w)),
                  NS(nfa_view(R), _eps(N1), single(rec_get(N1, 'q0').z), _w) ==
                  U(If(over(rec_get(N1, 'Sigma').z, _w), NS(nfa_view(N1), _eps(N1), single(rec_get(N1, 'q0').z), _w), EMPTYA), Bcat(_N1, _N2, _w))))
axiom('nfax', 'lemma', 'cat-sim', _cat_sim())
def _cat_lang():
    N1, N2, R = [SV(REC('NFA'), z_) for z_ in (_N1, _N2, _NR)]; k = _k
    return ForAll([_N1, _N2, _NR, _w], Implies(And(cat_b(_N1, _N2, _NR), over(rec_get(R, 'Sigma').z, _w)),
                  acc_b(_NR, _w) == z3.Exists([k], And(0 <= k, k <= wlen(_w), lang_b(_N1, take(k, _w)), lang_b(_N2, drop(k, _w))))))
axiom('nfax', 'lemma', 'cat-lang', _cat_lang())


@spec('cat_struct')
def s_cat_struct(ev, N1, N2, R): return SV(BOOL, cat_b(N1.z, N2.z, R.z))
@spec('nfa_lang')
def s_nfa_lang(ev, N, w): return SV(BOOL, lang_b(N.z, w.z))
@spec('nfa_acc')
def s_nfa_acc(ev, N, w): return SV(BOOL, acc_b(N.z, w.z))


# ---------------------------------------------------------------------- star (theory nfastar: needs the language algebra of the regexp theory)
NL = Function('NL', _NFAs, Lang)          # the language of an NFA as an element of the language algebra: the words over its alphabet that it accepts
axiom('nfastar', 'def', 'NL-def (comprehension)', ForAll([_N1, _w], lmem(_w, NL(_N1)) == lang_b(_N1, _w)))
axiom('nfastar', KA, 'Language.mem_kstar, unfolding on the right with a non-empty last block (from one_add_kstar_mul_self_eq_kstar)',
      ForAll([_w, _X], lmem(_w, lstar(_X)) == Or(_w == Word.nil, z3.Exists([_k], And(0 <= _k, _k < wlen(_w), lmem(take(_k, _w), lstar(_X)), lmem(drop(_k, _w), _X))))))


def star_struct(N, R):
    """R has the structure nfa_repetition gives"""
    VN, VR = nfa_view(N), nfa_view(R); e = _eps(N); r0 = rec_get(R, 'q0').z; Q = rec_get(N, 'Q').z
    q, b, y = fresh_z('q', Atom), fresh_z('b', Atom), fresh_z('y', Atom)
    return And(s_nfa_wf(None, N).z, _eps(R) == e, Not(Select(Q, r0)), rec_get(R, 'Sigma').z == rec_get(N, 'Sigma').z,
               ForAll([q], Select(rec_get(R, 'F').z, q) == Or(Select(rec_get(N, 'F').z, q), q == r0)),
               ForAll([y], Select(Select(VR, mkKey2(r0, e)), y) == (y == rec_get(N, 'q0').z)),
               ForAll([b, y], Implies(b != e, Not(Select(Select(VR, mkKey2(r0, b)), y)))),
               ForAll([q, b, y], Implies(Select(Q, q), Select(Select(VR, mkKey2(q, b)), y) == Or(Select(Select(VN, mkKey2(q, b)), y), And(b == e, Select(rec_get(N, 'F').z, q), y == rec_get(N, 'q0').z)))))


star_b = Function('star_struct', _NFAs, _NFAs, BoolSort())
axiom('nfastar', 'def', 'star_struct-def', ForAll([_N1, _NR], star_b(_N1, _NR) == star_struct(SV(REC('NFA'), _N1), SV(REC('NFA'), _NR))))
Sstar = Function('Sstar', _NFAs, Word, SetA)      # the states of N that the star automaton can be in after reading w: by recursion on w
def _EN(Nz, S): return Eclo(nfa_view(_n2(Nz)), _eps(_n2(Nz)), S)
def _hit(Nz, S): return hitF(Nz, S)
def _s0(Nz): return single(rec_get(_n2(Nz), 'q0').z)
def _again(Nz, S): return U(S, If(_hit(Nz, S), _EN(Nz, _s0(Nz)), EMPTYA))
axiom('nfastar', 'def', 'Sstar-nil', ForAll([_N1], Sstar(_N1, Word.nil) == _EN(_N1, _s0(_N1))))
axiom('nfastar', 'def', 'Sstar-snoc', ForAll([_N1, _w, _a], Sstar(_N1, Word.snoc(_w, _a)) ==
      If(Select(rec_get(_n2(_N1), 'Sigma').z, _a), _again(_N1, _EN(_N1, move(nfa_view(_n2(_N1)), Sstar(_N1, _w), _a))), EMPTYA)))
def _star_eclo():
    N, R = SV(REC('NFA'), _N1), SV(REC('NFA'), _NR)
    return ForAll([_N1, _NR, _S], Implies(And(star_b(_N1, _NR), _sub(_S, rec_get(N, 'Q').z)), Eclo(nfa_view(R), _eps(N), _S) == _again(_N1, _EN(_N1, _S))),
                  patterns=[z3.MultiPattern(star_b(_N1, _NR), Eclo(nfa_view(R), _eps(N), _S))])
axiom('nfastar', 'lemma', 'star-eclo', _star_eclo())
def starL(Nz, u): return lmem(u, lstar(NL(Nz)))
def _sstar_char():
    N = _n2(_N1); k = _k
    return ForAll([_N1, _w, _x], Implies(s_nfa_wf(None, N).z, Select(Sstar(_N1, _w), _x) == z3.Exists([k], And(0 <= k, k <= wlen(_w), starL(_N1, take(k, _w)), over(rec_get(N, 'Sigma').z, drop(k, _w)),
                  Select(NS(nfa_view(N), _eps(N), _s0(_N1), drop(k, _w)), _x)))))
axiom('nfastar', 'lemma', 'Sstar-char', _sstar_char())
def _star_sim():
    N, R = SV(REC('NFA'), _N1), SV(REC('NFA'), _NR)
    return ForAll([_N1, _NR, _w], Implies(And(star_b(_N1, _NR), over(rec_get(N, 'Sigma').z, _w)),
                  NS(nfa_view(R), _eps(N), single(rec_get(R, 'q0').z), _w) == U(If(_w == Word.nil, single(rec_get(R, 'q0').z), EMPTYA), Sstar(_N1, _w))))
axiom('nfastar', 'lemma', 'star-sim', _star_sim())
def _star_lang():
    N = SV(REC('NFA'), _N1)
    return ForAll([_N1, _NR, _w], Implies(And(star_b(_N1, _NR), over(rec_get(N, 'Sigma').z, _w)), acc_b(_NR, _w) == starL(_N1, _w)))
axiom('nfastar', 'lemma', 'star-lang', _star_lang())


@spec('star_struct')
def s_star_struct(ev, N, R): return SV(BOOL, star_b(N.z, R.z))
@spec('NL')
def s_NL(ev, N): return SV(Ty('lang'), NL(N.z))
@spec('lstar')
def s_lstar(ev, X): return SV(Ty('lang'), lstar(X.z))


# ====================================================================== feedback messages of the checkers (C12)
TextS = sort_of(TEXT)
msg_should_not = Function('msg_should_not', Word, TextS)      # "Error: word '{}' should not be accepted"
msg_should = Function('msg_should', Word, TextS)              # "Error: word '{}' should be accepted"
MESSAGES = {"Error: word '{}' should not be accepted": msg_should_not, "Error: word '{}' should be accepted": msg_should}
@spec('msg_should_not')
def s_msg_should_not(ev, w): return SV(TEXT, msg_should_not(w.z))
@spec('msg_should')
def s_msg_should(ev, w): return SV(TEXT, msg_should(w.z))
@spec('show_word')
def s_show_word(ev, w):
    """how the checkers print a word: the empty word as the one-letter word epsilon"""
    return SV(WORD, If(w.z == Word.nil, Word.snoc(Word.nil, ev.atom_const('ε').z), w.z))


# ====================================================================== PDA with a single accepting state (C10)
def pda_cfg_ok(P):
    """what the construction needs of P: transitions start and end in Q, accepting states are states"""
    dl = rec_get(P, 'delta'); Q = rec_get(P, 'Q').z
    p, a, u, q, v = [fresh_z(n, Atom) for n in 'pauqv']
    return And(ForAll([p, a, u, q, v], Implies(And(Select(map_dom(dl), mkKey3(p, a, u)), Select(Select(map_val(dl), mkKey3(p, a, u)), _t2[1](q, v))), And(Select(Q, p), Select(Q, q)))),
               _sub(rec_get(P, 'F').z, Q), Select(Q, rec_get(P, 'q0').z))


def one_acc_struct(P, P2, qa):
    """P2 is P plus the state qa, reached from every accepting state of P by a stack-neutral epsilon move, as the only accepting state"""
    d1, d2 = rec_get(P, 'delta'), rec_get(P2, 'delta'); eps = rec_get(P, 'epsilon').z
    p, a, u, q, v = [fresh_z(n, Atom) for n in 'pauqv']
    k = mkKey3(p, a, u); t = _t2[1](q, v)
    has1 = And(Select(map_dom(d1), k), Select(Select(map_val(d1), k), t)); has2 = And(Select(map_dom(d2), k), Select(Select(map_val(d2), k), t))
    return And(pda_cfg_ok(P), Not(Select(rec_get(P, 'Q').z, qa)), rec_get(P2, 'q0').z == rec_get(P, 'q0').z, rec_get(P2, 'epsilon').z == eps,
               ForAll([q], Select(rec_get(P2, 'F').z, q) == (q == qa)),
               ForAll([p, a, u, q, v], has2 == Or(has1, And(Select(rec_get(P, 'F').z, p), a == eps, u == eps, q == qa, v == eps))))


one_acc_b = Function('one_acc_struct', PDAs, PDAs, Atom, BoolSort())
_P2 = Const('P2', PDAs); _qa = Const('qa', Atom)
axiom('pdax', 'def', 'one_acc_struct-def', ForAll([_Pp, _P2, _qa], one_acc_b(_Pp, _P2, _qa) == one_acc_struct(_Psv, SV(REC('PDA'), _P2), _qa)))
ExtF = Function('ExtF', PDAs, Atom, SetC, SetC)       # C plus (qa, s) for every (q, s) in C with q accepting in P
_s = Const('s', Word)
axiom('pdax', 'def', 'ExtF-def', ForAll([_Pp, _qa, _Rc, _c1], Select(ExtF(_Pp, _qa, _Rc), _c1) ==
      Or(Select(_Rc, _c1), And(_pc[2](_c1) == _qa, z3.Exists([_q], And(Select(rec_get(_Psv, 'F').z, _q), Select(_Rc, _pc[1](_q, _pc[3](_c1)))))))))
def _inQ(P, C):
    c = fresh_z('c', Conf); return ForAll([c], Implies(Select(C, c), Select(rec_get(P, 'Q').z, _pc[2](c))))
axiom('pdax', 'lemma', 'one-acc-eclo', ForAll([_Pp, _P2, _qa, _Rc], Implies(And(one_acc_b(_Pp, _P2, _qa), _inQ(_Psv, _Rc)),
      And(EcloP(_P2, _Rc) == ExtF(_Pp, _qa, EcloP(_Pp, _Rc)), _inQ(_Psv, EcloP(_Pp, _Rc)))),
      patterns=[z3.MultiPattern(one_acc_b(_Pp, _P2, _qa), EcloP(_P2, _Rc))]))
axiom('pdax', 'lemma', 'one-acc-sim', ForAll([_Pp, _P2, _qa, _w, _Sg], Implies(And(one_acc_b(_Pp, _P2, _qa), over(_Sg, _w), Not(Select(_Sg, rec_get(_Psv, 'epsilon').z))),
      And(reachP(_P2, _w) == ExtF(_Pp, _qa, reachP(_Pp, _w)), _inQ(_Psv, reachP(_Pp, _w))))))
def pda_acc_z(P, w):
    c = fresh_z('c', Conf)
    return Exists([c], And(Select(reachP(P.z, w), c), Select(rec_get(P, 'F').z, _pc[2](c))))
axiom('pdax', 'lemma', 'one-acc-lang', ForAll([_Pp, _P2, _qa, _w, _Sg], Implies(And(one_acc_b(_Pp, _P2, _qa), over(_Sg, _w), Not(Select(_Sg, rec_get(_Psv, 'epsilon').z))),
      pda_acc_z(SV(REC('PDA'), _P2), _w) == pda_acc_z(_Psv, _w))))


@spec('one_acc_struct')
def s_one_acc_struct(ev, P, P2, qa): return SV(BOOL, one_acc_b(P.z, P2.z, qa.z))
@spec('pda_cfg_ok')
def s_pda_cfg_ok(ev, P): return SV(BOOL, pda_cfg_ok(P))


# ====================================================================== Myhill-Nerode distinguishability (C04)
ListA = sort_of(LIST(ATOM))
listof = Function('listof', SetA, ListA)        # the enumeration order of a set object (assumption A-list-order: see gvc/symexec.py b_list)
@spec('listof')
def s_listof(ev, Sx): return SV(LIST(ATOM), listof(Sx.z))
distF = Function('dist', DeltaD, SetA, SetA, Atom, Atom, BoolSort())     # (delta, Sigma, F, x, y): some word leads from x and y to states of different acceptance
_Fz = Const('Fz', SetA)
axiom('nerode', 'lfp', 'dist-base', ForAll([_d, _S, _Fz, _x, _y], Implies(Select(_Fz, _x) != Select(_Fz, _y), distF(_d, _S, _Fz, _x, _y))))
axiom('nerode', 'lfp', 'dist-step', ForAll([_d, _S, _Fz, _x, _y, _a], Implies(And(Select(_S, _a), distF(_d, _S, _Fz, Select(_d, mkKey2(_x, _a)), Select(_d, mkKey2(_y, _a)))), distF(_d, _S, _Fz, _x, _y)),
                                          patterns=[z3.MultiPattern(distF(_d, _S, _Fz, _x, _y), Select(_d, mkKey2(_x, _a)), Select(_d, mkKey2(_y, _a)))]))


def dist_least(d, Sg, Fz, Tt):
    """leastness instance: a relation Tt (on pairs of states) closed under the two rules contains dist"""
    x, y, a = fresh_z('x', Atom), fresh_z('y', Atom), fresh_z('a', Atom)
    return Implies(And(ForAll([x, y], Implies(Select(Fz, x) != Select(Fz, y), Select(Tt, mkKey2(x, y)))),
                       ForAll([x, y, a], Implies(And(Select(Sg, a), Select(Tt, mkKey2(Select(d, mkKey2(x, a)), Select(d, mkKey2(y, a))))), Select(Tt, mkKey2(x, y))))),
                   ForAll([x, y], Implies(distF(d, Sg, Fz, x, y), Select(Tt, mkKey2(x, y)))))


axiom('nerode', 'lemma', 'dist-back', ForAll([_d, _S, _Fz, _x, _y, _v], Implies(And(over(_S, _v), distF(_d, _S, _Fz, dhat(_d, _x, _v), dhat(_d, _y, _v))), distF(_d, _S, _Fz, _x, _y))))
axiom('nerode', 'lemma', 'dist-of-word', ForAll([_d, _S, _Fz, _x, _y, _v], Implies(And(over(_S, _v), Select(_Fz, dhat(_d, _x, _v)) != Select(_Fz, dhat(_d, _y, _v))), distF(_d, _S, _Fz, _x, _y))))
axiom('nerode', 'lemma', 'dist-has-word', ForAll([_d, _S, _Fz, _x, _y], Implies(distF(_d, _S, _Fz, _x, _y), Exists([_v], And(over(_S, _v), Select(_Fz, dhat(_d, _x, _v)) != Select(_Fz, dhat(_d, _y, _v)))))))
axiom('nerode', 'lemma', 'dist-irrefl', ForAll([_d, _S, _Fz, _x], Not(distF(_d, _S, _Fz, _x, _x))))
axiom('nerode', 'lemma', 'dist-sym', ForAll([_d, _S, _Fz, _x, _y], distF(_d, _S, _Fz, _x, _y) == distF(_d, _S, _Fz, _y, _x)))
axiom('nerode', 'lemma', 'dist-trans', ForAll([_d, _S, _Fz, _x, _y, _q], Implies(distF(_d, _S, _Fz, _x, _q), Or(distF(_d, _S, _Fz, _x, _y), distF(_d, _S, _Fz, _y, _q)))))


@spec('dist')
def s_dist(ev, D, x, y): return SV(BOOL, distF(dfa_delta_val(D), rec_get(D, 'Sigma').z, rec_get(D, 'F').z, x.z, y.z))
idxF = Function('index_of', ListA, Atom, Int)       # a position of x in the list (chosen; unique when the list has no repetitions)
_L = Const('L', ListA)
def _larr(L): return list_arr(SV(LIST(ATOM), L))
def _llen(L): return list_len(SV(LIST(ATOM), L))
axiom('nerode', 'def', 'index_of-choice', ForAll([_L, _x, _i], Implies(And(0 <= _i, _i < _llen(_L), Select(_larr(_L), _i) == _x),
      And(0 <= idxF(_L, _x), idxF(_L, _x) < _llen(_L), Select(_larr(_L), idxF(_L, _x)) == _x)), patterns=[z3.MultiPattern(idxF(_L, _x), Select(_larr(_L), _i))]))
TabK = sort_of(TUP(INT, INT)); mkTabK = parts(TUP(INT, INT))[1]
tabrel = Function('tabrel', ListA, ArraySort(TabK, BoolSort()), RelA)     # pairs of states NOT marked equivalent by the table (or not both in the list)
_tv = Const('tv', ArraySort(TabK, BoolSort()))
def _imin(a, b): return If(a <= b, a, b)
def _imax(a, b): return If(a >= b, a, b)
def _memL(L, x):
    i = fresh_z('i', Int); return Exists([i], And(0 <= i, i < _llen(L), Select(_larr(L), i) == x))
axiom('nerode', 'def', 'tabrel-def', ForAll([_L, _tv, _x, _y], Select(tabrel(_L, _tv), mkKey2(_x, _y)) ==
      Not(And(_memL(_L, _x), _memL(_L, _y), Select(_tv, mkTabK(_imin(idxF(_L, _x), idxF(_L, _y)), _imax(idxF(_L, _x), idxF(_L, _y))))))))


@spec('index_of')
def s_index_of(ev, L, x): return SV(INT, idxF(L.z, x.z))
@spec('tabrel')
def s_tabrel(ev, L, table): return SV(SET(KEY2), tabrel(L.z, map_val(table)))
@spec('dist_least')
def s_dist_least(ev, D, Tt): return SV(BOOL, dist_least(dfa_delta_val(D), rec_get(D, 'Sigma').z, rec_get(D, 'F').z, Tt.z))
# the set of keys of a Boolean table that are marked True (for the termination measure of the table-filling loop)
TabSet = ArraySort(TabK, BoolSort())
trues = Function('trues', TabSet, TabSet, TabSet)      # (dom, val)
_td, _tk = Const('td', TabSet), Const('tk', TabK); _bb = Const('bb', BoolSort())
axiom('nerode', 'def', 'trues-def', ForAll([_td, _tv, _tk], Select(trues(_td, _tv), _tk) == And(Select(_td, _tk), Select(_tv, _tk))))
axiom('nerode', 'lemma', 'trues-store', ForAll([_td, _tv, _tk, _bb], trues(Store(_td, _tk, True), Store(_tv, _tk, _bb)) == Store(trues(_td, _tv), _tk, _bb)))
axiom('nerode', 'lemma', 'trues-empty', ForAll([_tv], trues(z3.K(TabK, False), _tv) == z3.K(TabK, False)))
@spec('trues')
def s_trues(ev, table): return SV(SET(TUP(INT, INT)), trues(map_dom(table), map_val(table)))


# ---------------------------------------------------------------------- the quotient by Myhill-Nerode equivalence (theory quot)
clsF = Function('cls', _DFAs, Atom, SetA)         # the equivalence class of x: the states of D that no word distinguishes from x
def _dist(D, x, y): return distF(dfa_delta_val(D), rec_get(D, 'Sigma').z, rec_get(D, 'F').z, x, y)
_Dsv = SV(REC('DFA'), _D)
axiom('quot', 'def', 'cls-def', ForAll([_D, _x, _y], Select(clsF(_D, _x), _y) == And(Select(rec_get(_Dsv, 'Q').z, _y), Not(_dist(_Dsv, _x, _y)))))
axiom('quot', 'lemma', 'cls-eq', ForAll([_D, _x, _y], Implies(Not(_dist(_Dsv, _x, _y)), clsF(_D, _x) == clsF(_D, _y))))
axiom('quot', 'lemma', 'cls-congruence', ForAll([_D, _x, _y, _a], Implies(And(Not(_dist(_Dsv, _x, _y)), Select(rec_get(_Dsv, 'Sigma').z, _a)),
      Not(_dist(_Dsv, Select(dfa_delta_val(_Dsv), mkKey2(_x, _a)), Select(dfa_delta_val(_Dsv), mkKey2(_y, _a)))))))
def cname(Dz, x): return name_of_set(clsF(Dz, x))


def quot_struct(D, R):
    """R is the quotient of D by the Myhill-Nerode equivalence, with the printed class as state name"""
    Q, Sg, Fz = rec_get(D, 'Q').z, rec_get(D, 'Sigma').z, rec_get(D, 'F').z
    x, s, a = fresh_z('x', Atom), fresh_z('s', Atom), fresh_z('a', Atom)
    dl = rec_get(R, 'delta')
    return And(s_dfa_wf(None, D).z, rec_get(R, 'Sigma').z == Sg,
               ForAll([s], Select(rec_get(R, 'Q').z, s) == Exists([x], And(Select(Q, x), s == cname(D.z, x)))),
               rec_get(R, 'q0').z == cname(D.z, rec_get(D, 'q0').z),
               ForAll([s], Select(rec_get(R, 'F').z, s) == Exists([x], And(Select(Fz, x), s == cname(D.z, x)))),
               ForAll([x, a], Implies(And(Select(Q, x), Select(Sg, a)), And(Select(map_dom(dl), mkKey2(cname(D.z, x), a)),
                                                                           Select(map_val(dl), mkKey2(cname(D.z, x), a)) == cname(D.z, Select(dfa_delta_val(D), mkKey2(x, a)))))))


quot_b = Function('quot_struct', _DFAs, _DFAs, BoolSort())
axiom('quot', 'def', 'quot_struct-def', ForAll([_D, _D2], quot_b(_D, _D2) == quot_struct(_Dsv, SV(REC('DFA'), _D2))))
_D2sv = SV(REC('DFA'), _D2)
axiom('quot', 'lemma', 'quot-sim', ForAll([_D, _D2, _x, _w], Implies(And(quot_b(_D, _D2), Select(rec_get(_Dsv, 'Q').z, _x), over(rec_get(_Dsv, 'Sigma').z, _w)),
      dhat(dfa_delta_val(_D2sv), cname(_D, _x), _w) == cname(_D, dhat(dfa_delta_val(_Dsv), _x, _w)))))
def _acc(D, w): return Select(rec_get(D, 'F').z, dhat(dfa_delta_val(D), rec_get(D, 'q0').z, w))
axiom('quot', 'lemma', 'quot-lang', ForAll([_D, _D2, _w], Implies(And(quot_b(_D, _D2), over(rec_get(_Dsv, 'Sigma').z, _w)), _acc(_D2sv, _w) == _acc(_Dsv, _w))))
_s1, _s2 = Consts('s1 s2', Atom)
axiom('quot', 'lemma', 'quot-dist', ForAll([_D, _D2, _s1, _s2], Implies(And(quot_b(_D, _D2), Select(rec_get(_D2sv, 'Q').z, _s1), Select(rec_get(_D2sv, 'Q').z, _s2), _s1 != _s2), _dist(_D2sv, _s1, _s2))))


@spec('cls')
def s_cls(ev, D, x): return SV(SET(ATOM), clsF(D.z, x.z))
@spec('quot_struct')
def s_quot_struct(ev, D, R): return SV(BOOL, quot_b(D.z, R.z))


# ---------------------------------------------------------------------- PDA closures configuration by configuration (C02: pda_words_up_to_n)
def csingle(c): return Store(z3.K(Conf, False), c, True)
axiom('pdax', 'lemma', 'EcloP-by-singletons', ForAll([_Pp, _Rc, _c2], Select(EcloP(_Pp, _Rc), _c2) == Exists([_c1], And(Select(_Rc, _c1), Select(EcloP(_Pp, csingle(_c1)), _c2)))))
_c3 = Const('c3', Conf)
axiom('pdax', 'lemma', 'reachP-step-pw', ForAll([_Pp, _w, _a, _c2], Select(reachP(_Pp, Word.snoc(_w, _a)), _c2) ==
      Exists([_c1], And(Select(reachP(_Pp, _w), _c1), Select(EcloP(_Pp, stepsetP(_Pp, csingle(_c1), _a)), _c2)))))


@spec('relookup')
def s_relookup(ev, m, k):
    """m.get(k, Zero()) for a map of regular expressions with default Zero (the transition labels of a GNFA)"""
    if m.t.args[1] == REGEXP and m.t.args[0] == KEY2: return SV(REGEXP, Select(relabel(map_dom(m), map_val(m)), k.z))
    raise TypeError('relookup')


# total view of a map of regular expressions with default Zero (named, so that it can serve as an instantiation trigger)
LabA = ArraySort(Key2, Regexp)
relabel = Function('relabel', RelA, LabA, LabA)
_lv = Const('lv', LabA); _rr = Const('rr', Regexp)
axiom('regexp', 'def', 'relabel-def', ForAll([_R, _lv, _k2], Select(relabel(_R, _lv), _k2) == If(Select(_R, _k2), Select(_lv, _k2), Regexp.Zero),
                                             patterns=[Select(relabel(_R, _lv), _k2), z3.MultiPattern(relabel(_R, _lv), Select(_lv, _k2))]))
axiom('regexp', 'lemma', 'relabel-store', ForAll([_R, _lv, _k2, _rr], relabel(Store(_R, _k2, True), Store(_lv, _k2, _rr)) == Store(relabel(_R, _lv), _k2, _rr)))
@spec('hint_index_name')
def s_hint_index_name(ev, h, i): return SV(ATOM, hint_index_name(h.z, i.z))


# ====================================================================== generalised NFAs: acceptance along regexp-labelled edges (C06, theory gnfa)
axiom('wordx', 'lemma', 'app-assoc', ForAll([_u, _v, _w], app(app(_u, _v), _w) == app(_u, app(_v, _w))))
XW = TUP(ATOM, WORD); XWs = sort_of(XW); mkXW = parts(XW)[1]
GRel = ArraySort(XWs, BoolSort())
GAcc = Function('GAcc', LabA, SetA, Atom, Atom, Word, BoolSort())      # (labels, states, q_accept, x, w): w leads from x to q_accept (least fixpoint)
_Lb = Const('Lb', LabA)
axiom('gnfa', 'lfp', 'GAcc-base', ForAll([_Lb, _Qs, _qa], GAcc(_Lb, _Qs, _qa, _qa, Word.nil)))
axiom('gnfa', 'lfp', 'GAcc-step', ForAll([_Lb, _Qs, _qa, _x, _y, _u, _v], Implies(And(Select(_Qs, _y), lmem(_u, Lof(Select(_Lb, mkKey2(_x, _y)))), GAcc(_Lb, _Qs, _qa, _y, _v)),
                                                                               GAcc(_Lb, _Qs, _qa, _x, app(_u, _v))),
                                   patterns=[z3.MultiPattern(lmem(_u, Lof(Select(_Lb, mkKey2(_x, _y)))), GAcc(_Lb, _Qs, _qa, _y, _v))]))


def GAcc_least(Lb, Q, qa, Tt):
    """leastness instance: a relation Tt on (state, word) closed under the two rules contains GAcc"""
    x, y = fresh_z('x', Atom), fresh_z('y', Atom); u, v, w = fresh_z('u', Word), fresh_z('v', Word), fresh_z('w', Word)
    return Implies(And(Select(Tt, mkXW(qa, Word.nil)),
                       ForAll([x, y, u, v], Implies(And(Select(Q, y), lmem(u, Lof(Select(Lb, mkKey2(x, y)))), Select(Tt, mkXW(y, v))), Select(Tt, mkXW(x, app(u, v)))))),
                   ForAll([x, w], Implies(GAcc(Lb, Q, qa, x, w), Select(Tt, mkXW(x, w)))))


# bridges between the take/drop form of the language algebra and concatenation of words
axiom('gnfa', 'lemma', 'mem-cat-app', ForAll([_u, _v, _X, _Y], Implies(And(lmem(_u, _X), lmem(_v, _Y)), lmem(app(_u, _v), lcat(_X, _Y)))))
axiom('gnfa', 'lemma', 'mem-cat-split', ForAll([_w, _X, _Y], Implies(lmem(_w, lcat(_X, _Y)), Exists([_u, _v], And(_w == app(_u, _v), lmem(_u, _X), lmem(_v, _Y))))))
axiom('gnfa', 'lemma', 'star-nil', ForAll([_X], lmem(Word.nil, lstar(_X))))
axiom('gnfa', 'lemma', 'star-cons', ForAll([_u, _v, _X], Implies(And(lmem(_u, _X), lmem(_v, lstar(_X))), lmem(app(_u, _v), lstar(_X)))))
_r0 = Const('r0', Atom)
axiom('gnfa', 'lemma', 'GAcc-star', ForAll([_Lb, _Qs, _qa, _r0, _u, _v], Implies(And(Select(_Qs, _r0), lmem(_u, lstar(Lof(Select(_Lb, mkKey2(_r0, _r0))))), GAcc(_Lb, _Qs, _qa, _r0, _v)),
                                                                              GAcc(_Lb, _Qs, _qa, _r0, app(_u, _v)))))


def rip_pred(Lb, Lb2, Q, Q2, r, qs, qa):
    """Lb2 / Q2 is the GNFA Lb / Q after ripping state r: the label between two remaining states i (not accept) and j (not start) denotes
    L(i,r) L(r,r)* L(r,j) + L(i,j); all other labels are unchanged; no edge leaves the accept state or enters the start state"""
    i, j, x, y = fresh_z('i', Atom), fresh_z('j', Atom), fresh_z('x', Atom), fresh_z('y', Atom)
    lab = lambda L_, a, b: Lof(Select(L_, mkKey2(a, b)))
    upd = lambda a, b: And(Select(Q2, a), a != qa, Select(Q2, b), b != qs)
    return And(Select(Q, r), r != qa, r != qs,
               ForAll([x], Select(Q2, x) == And(Select(Q, x), x != r)),
               ForAll([i, j], Implies(upd(i, j), lab(Lb2, i, j) == lplus(lcat(lab(Lb, i, r), lcat(lstar(lab(Lb, r, r)), lab(Lb, r, j))), lab(Lb, i, j)))),
               ForAll([x, y], Implies(Not(upd(x, y)), lab(Lb2, x, y) == lab(Lb, x, y))),
               ForAll([y], lab(Lb, qa, y) == lzero), ForAll([x], lab(Lb, x, qs) == lzero))


rip_b = Function('rip', LabA, LabA, SetA, SetA, Atom, Atom, Atom, BoolSort())
_Lb2 = Const('Lb2', LabA); _Q2s = Const('Q2s', SetA); _qs = Const('qs', Atom)
axiom('gnfa', 'def', 'rip-def', ForAll([_Lb, _Lb2, _Qs, _Q2s, _r0, _qs, _qa], rip_b(_Lb, _Lb2, _Qs, _Q2s, _r0, _qs, _qa) == rip_pred(_Lb, _Lb2, _Qs, _Q2s, _r0, _qs, _qa)))
axiom('gnfa', 'lemma', 'rip-sim', ForAll([_Lb, _Lb2, _Qs, _Q2s, _r0, _qs, _qa, _x, _w], Implies(And(rip_b(_Lb, _Lb2, _Qs, _Q2s, _r0, _qs, _qa), Select(_Q2s, _x)),
      GAcc(_Lb2, _Q2s, _qa, _x, _w) == GAcc(_Lb, _Qs, _qa, _x, _w))))


LABELS = Ty('labels')        # spec only: the total label function of a GNFA (missing entries are Zero)
@spec('glabels')
def s_glabels(ev, G): return SV(LABELS, relabel(map_dom(rec_get(G, 'delta')), map_val(rec_get(G, 'delta'))))
@spec('lab')
def s_lab(ev, Ls, x, y): return SV(Ty('lang'), Lof(Select(Ls.z, mkKey2(x.z, y.z))))
@spec('lab_re')
def s_lab_re(ev, Ls, x, y): return SV(REGEXP, Select(Ls.z, mkKey2(x.z, y.z)))
@spec('lplus')
def s_lplus(ev, X, Y): return SV(Ty('lang'), lplus(X.z, Y.z))
@spec('lcat')
def s_lcat(ev, X, Y): return SV(Ty('lang'), lcat(X.z, Y.z))
@spec('lzero')
def s_lzero(ev): return SV(Ty('lang'), lzero)
@spec('gacc')
def s_gacc(ev, Ls, Q, qa, x, w): return SV(BOOL, GAcc(Ls.z, Q.z, qa.z, x.z, w.z))
@spec('rip')
def s_rip(ev, L0, L1, Q0, Q1, r, qs, qa): return SV(BOOL, rip_b(L0.z, L1.z, Q0.z, Q1.z, r.z, qs.z, qa.z))
axiom('gnfa', 'lemma', 'gnfa-two-state', ForAll([_Lb, _Qs, _qs, _qa, _w], Implies(And(_qs != _qa, ForAll([_x], Select(_Qs, _x) == Or(_x == _qs, _x == _qa)),
      ForAll([_y], Lof(Select(_Lb, mkKey2(_qa, _y))) == lzero), ForAll([_x], Lof(Select(_Lb, mkKey2(_x, _qs))) == lzero)),
      GAcc(_Lb, _Qs, _qa, _qs, _w) == lmem(_w, Lof(Select(_Lb, mkKey2(_qs, _qa)))))))


# ---------------------------------------------------------------------- the GNFA of a DFA accepts the language of the DFA (theory gnfadfa)
axiom('wordx', 'lemma', 'over-app', ForAll([_S, _u, _v], over(_S, app(_u, _v)) == And(over(_S, _u), over(_S, _v))))
axiom('wordx', 'lemma', 'word-uncons', ForAll([_w], Implies(_w != Word.nil, Exists([_a, _v], And(_w == cons(_a, _v), wlen(_v) == wlen(_w) - 1)))))


def gdfa_pred(D, Lb, Q, qs, qa):
    """(Lb, Q, qs, qa) is the generalised NFA that dfa_to_gnfa builds from D"""
    QD, Sg, Fz, d, q0 = rec_get(D, 'Q').z, rec_get(D, 'Sigma').z, rec_get(D, 'F').z, dfa_delta_val(D), rec_get(D, 'q0').z
    x, y, a = fresh_z('x', Atom), fresh_z('y', Atom), fresh_z('a', Atom); w = fresh_z('w', Word)
    lab = lambda p_, q_: Select(Lb, mkKey2(p_, q_))
    edge = lambda p_, q_: Or(And(p_ == qs, q_ == q0), And(Select(Fz, p_), q_ == qa), And(Select(QD, p_), Select(QD, q_)))
    return And(s_dfa_wf(None, D).z, Not(Select(QD, qs)), Not(Select(QD, qa)), qs != qa,
               ForAll([x], Select(Q, x) == Or(Select(QD, x), x == qs, x == qa)),
               ForAll([x, y, w], Implies(And(Select(QD, x), Select(QD, y)), lmem(w, Lof(lab(x, y))) == Exists([a], And(Select(Sg, a), Select(d, mkKey2(x, a)) == y, w == Word.snoc(Word.nil, a))))),
               lab(qs, q0) == Regexp.One, ForAll([x], Implies(Select(Fz, x), lab(x, qa) == Regexp.One)),
               ForAll([x, y], Implies(Not(edge(x, y)), lab(x, y) == Regexp.Zero)))


gdfa_b = Function('gnfa_of_dfa', _DFAs, LabA, SetA, Atom, Atom, BoolSort())
axiom('gnfadfa', 'def', 'gnfa_of_dfa-def', ForAll([_D, _Lb, _Qs, _qs, _qa], gdfa_b(_D, _Lb, _Qs, _qs, _qa) == gdfa_pred(_Dsv, _Lb, _Qs, _qs, _qa)))
axiom('gnfadfa', 'lemma', 'gnfa-of-dfa-lang', ForAll([_D, _Lb, _Qs, _qs, _qa, _w], Implies(gdfa_b(_D, _Lb, _Qs, _qs, _qa),
      GAcc(_Lb, _Qs, _qa, _qs, _w) == And(over(rec_get(_Dsv, 'Sigma').z, _w), _acc(_Dsv, _w)))))


@spec('gnfa_of_dfa')
def s_gnfa_of_dfa(ev, D, Ls, Q, qs, qa): return SV(BOOL, gdfa_b(D.z, Ls.z, Q.z, qs.z, qa.z))


# ====================================================================== regexp -> NFA (theory thompson): alphabet-free readings of the constructions
allbut = Function('allbut', Atom, SetA)         # every symbol except e
axiom('thompson', 'def', 'allbut-def', ForAll([_e, _x], Select(allbut(_e), _x) == (_x != _e)))
def noeps(e, w):
    """no letter of w is the symbol e (words are sequences of one-character strings; the epsilon symbol of the NFAs is the empty string)"""
    return over(allbut(e), w)
_rx1, _rx2 = Consts('rx1 rx2', Regexp)
syms = Function('syms', Regexp, SetA)          # the symbols occurring in a regular expression (the library's regexp_symbols)
axiom('thompson', 'def', 'syms-zero', syms(Regexp.Zero) == EMPTYA)
axiom('thompson', 'def', 'syms-one', syms(Regexp.One) == EMPTYA)
axiom('thompson', 'def', 'syms-sym', ForAll([_a], syms(Regexp.Sym(_a)) == single(_a)))
axiom('thompson', 'def', 'syms-iter', ForAll([_rx1], syms(Regexp.Iter(_rx1)) == syms(_rx1)))
axiom('thompson', 'def', 'syms-sum', ForAll([_rx1, _rx2], syms(Regexp.Sum(_rx1, _rx2)) == U(syms(_rx1), syms(_rx2))))
axiom('thompson', 'def', 'syms-concat', ForAll([_rx1, _rx2], syms(Regexp.Concat(_rx1, _rx2)) == U(syms(_rx1), syms(_rx2))))
axiom('thompson', KA, 'Language.ext: languages with the same words are equal', ForAll([_X, _Y], Implies(ForAll([_w], lmem(_w, _X) == lmem(_w, _Y)), _X == _Y)))
axiom('thompson', 'lemma', 'over-mono', ForAll([_S, _T, _w], Implies(And(over(_S, _w), _sub(_S, _T)), over(_T, _w))))
axiom('thompson', 'lemma', 'star-over', ForAll([_X, _S, _w], Implies(And(ForAll([_u], Implies(lmem(_u, _X), over(_S, _u))), lmem(_w, lstar(_X))), over(_S, _w))))
axiom('thompson', 'lemma', 'L-over-syms', ForAll([_rx1, _w], Implies(lmem(_w, Lof(_rx1)), over(syms(_rx1), _w))))
def _acc_over():
    N = SV(REC('NFA'), _N1)
    return ForAll([_N1, _w], Implies(And(s_nfa_wf(None, N).z, noeps(_eps(N), _w), acc_b(_N1, _w)), over(rec_get(N, 'Sigma').z, _w)))
axiom('thompson', 'lemma', 'acc-over', _acc_over())
def _free(Nz): return noeps(_eps(SV(REC('NFA'), Nz)), _w)
axiom('thompson', 'lemma', 'union-free', ForAll([_N1, _N2, _NR, _w], Implies(And(union_b(_N1, _N2, _NR), s_nfa_wf(None, SV(REC('NFA'), _NR)).z, _free(_N1), _free(_N2)),
      acc_b(_NR, _w) == Or(acc_b(_N1, _w), acc_b(_N2, _w)))))
axiom('thompson', 'lemma', 'cat-free', ForAll([_N1, _N2, _NR, _w], Implies(And(cat_b(_N1, _N2, _NR), s_nfa_wf(None, SV(REC('NFA'), _NR)).z, _free(_N1), _free(_N2)),
      acc_b(_NR, _w) == Exists([_k], And(0 <= _k, _k <= wlen(_w), acc_b(_N1, take(_k, _w)), acc_b(_N2, drop(_k, _w)))))))
axiom('thompson', 'lemma', 'star-free', ForAll([_N1, _NR, _w], Implies(And(star_b(_N1, _NR), s_nfa_wf(None, SV(REC('NFA'), _NR)).z, _free(_N1)),
      acc_b(_NR, _w) == lmem(_w, lstar(NL(_N1))))))


@spec('noeps')
def s_noeps(ev, e, w): return SV(BOOL, noeps(e.z, w.z))
@spec('syms')
def s_syms(ev, r): return SV(SET(ATOM), syms(r.z))

@spec('eps0')
def s_eps0(ev): return SV(ATOM, EMPTY_STRING_ATOM)
def _acc_sigma():
    Q, S1, S2, F = Consts('Qx S1x S2x Fx', SetA); dl = Const('dlx', sort_of(RECORDS['NFA']['delta'])); q0, e = Consts('q0x ex', Atom)
    mk = parts(REC('NFA'))[1]
    return ForAll([Q, S1, S2, dl, q0, F, e, _w], acc_b(mk(Q, S1, dl, q0, F, e), _w) == acc_b(mk(Q, S2, dl, q0, F, e), _w))
axiom('thompson', 'lemma', 'acc-sigma-irrelevant', _acc_sigma())
_q1 = Const('q1x', Atom)
axiom('thompson', 'lemma', 'leaf-one', ForAll([_V, _e, _q, _w], Implies(ForAll([_x, _b, _y], Not(Select(Select(_V, mkKey2(_x, _b)), _y))),
      Nhat(_V, _e, _q, _w) == If(_w == Word.nil, single(_q), EMPTYA)), patterns=[Nhat(_V, _e, _q, _w)]))
axiom('thompson', 'lemma', 'leaf-sym', ForAll([_V, _e, _q, _q1, _a, _w], Implies(And(ForAll([_x, _b, _y], Select(Select(_V, mkKey2(_x, _b)), _y) == And(_x == _q, _b == _a, _y == _q1)), _a != _e, _q != _q1),
      Nhat(_V, _e, _q, _w) == If(_w == Word.nil, single(_q), If(_w == Word.snoc(Word.nil, _a), single(_q1), EMPTYA)))))



# "N accepts exactly the epsilon-free words of L(r)" under an opaque name, and how the three constructions transport it
agrees_b = Function('lang_agrees', _NFAs, Regexp, BoolSort())
def agrees_pred(N, r):
    u = fresh_z('u', Word); return ForAll([u], Implies(noeps(_eps(N), u), acc_b(N.z, u) == lmem(u, Lof(r))))
axiom('thompson', 'def', 'lang_agrees-def', ForAll([_N1, _rx1], agrees_b(_N1, _rx1) == agrees_pred(SV(REC('NFA'), _N1), _rx1)))
def _agrees_sigma():
    Q, S1, S2, F = Consts('Qx S1x S2x Fx', SetA); dl = Const('dlx', sort_of(RECORDS['NFA']['delta'])); q0, e = Consts('q0x ex', Atom)
    mk = parts(REC('NFA'))[1]
    return ForAll([Q, S1, S2, dl, q0, F, e, _rx1], agrees_b(mk(Q, S1, dl, q0, F, e), _rx1) == agrees_b(mk(Q, S2, dl, q0, F, e), _rx1))
axiom('thompson', 'lemma', 'agrees-sigma-irrelevant', _agrees_sigma())
def _wfz(Nz): return s_nfa_wf(None, SV(REC('NFA'), Nz)).z
def _epz(Nz): return _eps(SV(REC('NFA'), Nz))
axiom('thompson', 'lemma', 'agrees-union', ForAll([_N1, _N2, _NR, _rx1, _rx2], Implies(And(union_b(_N1, _N2, _NR), _wfz(_NR), _epz(_N1) == _epz(_N2), agrees_b(_N1, _rx1), agrees_b(_N2, _rx2)),
      agrees_b(_NR, Regexp.Sum(_rx1, _rx2)))))
axiom('thompson', 'lemma', 'agrees-cat', ForAll([_N1, _N2, _NR, _rx1, _rx2], Implies(And(cat_b(_N1, _N2, _NR), _wfz(_NR), _epz(_N1) == _epz(_N2), agrees_b(_N1, _rx1), agrees_b(_N2, _rx2)),
      agrees_b(_NR, Regexp.Concat(_rx1, _rx2)))))
axiom('thompson', 'lemma', 'agrees-star', ForAll([_N1, _NR, _rx1], Implies(And(star_b(_N1, _NR), _wfz(_NR), _wfz(_N1), _sub(syms(_rx1), rec_get(SV(REC('NFA'), _N1), 'Sigma').z), agrees_b(_N1, _rx1)),
      agrees_b(_NR, Regexp.Iter(_rx1)))))
axiom('thompson', 'lemma', 'agrees-accepts', ForAll([_N1, _rx1, _w], Implies(And(agrees_b(_N1, _rx1), _wfz(_N1), over(rec_get(SV(REC('NFA'), _N1), 'Sigma').z, _w)), acc_b(_N1, _w) == lmem(_w, Lof(_rx1)))))


@spec('lang_agrees')
def s_lang_agrees(ev, N, r): return SV(BOOL, agrees_b(N.z, r.z))
