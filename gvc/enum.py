"""Small-scope enumerators and seeded random generators of gambatools objects (used by replay search and by the
bounded stand-ins).  Imports gambatools, so it runs under /venv/bin/python."""
import itertools, random
from collections import defaultdict
from gambatools.dfa import DFA
from gambatools.nfa import NFA
from gambatools.pda import PDA
from gambatools.tm import TM
from gambatools import regexp as rx
from gambatools.cfg import CFG, Rule, Alternative, Variable, Terminal


def subsets(xs):
    xs = list(xs)
    for k in range(len(xs) + 1):
        for c in itertools.combinations(xs, k): yield set(c)


def all_dfas(n, Sigma, names=None):
    """every total DFA with exactly n states over Sigma (initial state = first name)"""
    Q = list(names or ['q%d' % i for i in range(n)]); Sg = sorted(Sigma)
    keys = [(q, a) for q in Q for a in Sg]
    for targets in itertools.product(Q, repeat=len(keys)):
        delta = dict(zip(keys, targets))
        for F in subsets(Q):
            yield DFA(set(Q), set(Sg), dict(delta), Q[0], set(F))


def random_dfa(rnd, n, Sigma, names=None):
    Q = list(names or ['q%d' % i for i in range(n)]); Sg = sorted(Sigma)
    delta = {(q, a): rnd.choice(Q) for q in Q for a in Sg}
    F = {q for q in Q if rnd.random() < 0.4}
    return DFA(set(Q), set(Sg), delta, Q[0], F)


def successor_pairs_dfa(k, rnd=None):
    """k pairwise inequivalent anchor states (a counter modulo k with one accepting state; the second symbol is a self-loop) and one further
    state for every ordered pair (i, j) of anchors with successors (anchor i, anchor j): every combination of successor classes occurs, so a
    refinement step that confuses two different successor tuples merges inequivalent states.  More than ten classes for k > 10."""
    anchors = ['a%d' % i for i in range(k)]
    delta = {}
    for i, q in enumerate(anchors):
        delta[q, 'a'] = anchors[(i + 1) % k]; delta[q, 'b'] = q
    Q = list(anchors)
    for i in range(k):
        for j in range(k):
            s = 'p%d_%d' % (i, j); Q.append(s)
            delta[s, 'a'] = anchors[i]; delta[s, 'b'] = anchors[j]
    if rnd is not None: rnd.shuffle(Q)
    return DFA(set(Q), {'a', 'b'}, delta, anchors[0], {anchors[0]})


def burst_pairs_dfa(m, rnd=None):
    """m <= 16 accepting states that are separated from each other in ONE refinement round (each has its own combination of four kinds of
    rejecting successors), one rejecting state per ordered pair (i, j) of them as successors, and a chain that makes every state reachable:
    2*m*m + m + 3 states, all reachable, pairwise inequivalent; for m > 10 one class splits into more than ten classes at once"""
    G = ['g%d' % i for i in range(m)]
    pairs = [(i, j) for i in range(m) for j in range(m)]
    V = {p_: 'v%d_%d' % p_ for p_ in pairs}; C = {p_: 'r%d_%d' % p_ for p_ in pairs}
    kind = {'v': V[0, 0], 'x': 'cx', 'y': 'cy', 'd': 'dd'}
    combos = [(x, y) for x in 'xydv' for y in 'xydv'][:m]
    delta = {}
    for g, (x, y) in zip(G, combos): delta[g, 'a'] = kind[x]; delta[g, 'b'] = kind[y]
    for (i, j) in pairs: delta[V[i, j], 'a'] = G[i]; delta[V[i, j], 'b'] = G[j]
    for n, p_ in enumerate(pairs):
        delta[C[p_], 'a'] = V[p_]; delta[C[p_], 'b'] = C[pairs[n + 1]] if n + 1 < len(pairs) else 'dd'
    delta['cx', 'a'] = G[0]; delta['cx', 'b'] = 'dd'; delta['cy', 'a'] = 'dd'; delta['cy', 'b'] = G[0]; delta['dd', 'a'] = 'dd'; delta['dd', 'b'] = 'dd'
    Q = set(G) | set(V.values()) | set(C.values()) | {'cx', 'cy', 'dd'}
    return DFA(Q, {'a', 'b'}, delta, C[pairs[0]], set(G))


def all_nfas(n, Sigma, eps='', plain=True, max_targets=None):
    """every NFA with n states over Sigma: each (q, a), a in Sigma+eps, maps to any subset (absent key if empty)"""
    Q = ['q%d' % i for i in range(n)]; Sg = sorted(Sigma)
    keys = [(q, a) for q in Q for a in Sg + [eps]]
    subs = [s for s in subsets(Q) if max_targets is None or len(s) <= max_targets]
    for choice in itertools.product(subs, repeat=len(keys)):
        for F in subsets(Q):
            delta = {} if plain else defaultdict(set)
            for k, s in zip(keys, choice):
                if s: delta[k] = set(s)
            yield NFA(set(Q), set(Sg), delta, Q[0], set(F), eps)


def random_nfa(rnd, n, Sigma, eps='', kind=None, names=None):
    """kind: plain (partial dict) | total (plain dict with every key) | default (defaultdict)"""
    Q = list(names or ['q%d' % i for i in range(n)]); Sg = sorted(Sigma)
    kind = kind or rnd.choice(['plain', 'total', 'default'])
    delta = defaultdict(set) if kind == 'default' else {}
    for q in Q:
        for a in Sg + [eps]:
            k = rnd.choice([0, 0, 1, 1, 2])
            T = set(rnd.sample(Q, min(k, len(Q))))
            if T or kind == 'total': delta[q, a] = T
    F = {q for q in Q if rnd.random() < 0.4}
    return NFA(set(Q), set(Sg), delta, Q[0], F, eps)


def random_pda(rnd, nq=3, Sigma=('a', 'b'), Gamma=('x', 'y'), nt=5, eps='', default=True):
    Q = ['p%d' % i for i in range(rnd.randint(1, nq))]
    Sg = list(Sigma)[:rnd.randint(1, len(Sigma))]; Gm = list(Gamma)[:rnd.randint(1, len(Gamma))] if len(Gamma) <= 2 else list(Gamma)
    delta = defaultdict(set) if default else {}
    for _ in range(rnd.randint(0, nt)):
        k = (rnd.choice(Q), rnd.choice(Sg + [eps]), rnd.choice(Gm + [eps]))
        if k not in delta: delta[k] = set()
        delta[k].add((rnd.choice(Q), rnd.choice(Gm + [eps])))
    F = set(rnd.sample(Q, rnd.randint(0, len(Q))))
    return PDA(set(Q), set(Sg), set(Gm), delta, Q[0], F, eps)


def all_pdas(nq, Sigma, Gamma, nt, eps=''):
    """every PDA with nq states and exactly nt transitions (as a set of 5-tuples)"""
    Q = ['p%d' % i for i in range(nq)]; Sg = sorted(Sigma); Gm = sorted(Gamma)
    trs = [(p, a, u, q, v) for p in Q for a in Sg + [eps] for u in Gm + [eps] for q in Q for v in Gm + [eps]]
    for ts in itertools.combinations(trs, nt):
        for F in subsets(Q):
            delta = defaultdict(set)
            for (p, a, u, q, v) in ts: delta[p, a, u].add((q, v))
            yield PDA(set(Q), set(Sg), set(Gm), delta, Q[0], set(F), eps)


def random_tm(rnd, nq=3, Sigma=('a', 'b'), extra=('x',), blank='_', halting_q0=0.05):
    W = ['s%d' % i for i in range(rnd.randint(1, nq))]
    Q = W + ['acc', 'rej']; Gm = list(Sigma) + list(extra) + [blank]
    delta = {}
    for p in W:
        for a in Gm:
            if rnd.random() < 0.75:
                delta[p, a] = (rnd.choice(Q), rnd.choice(Gm), rnd.choice('LR'))
    q0 = rnd.choice(['acc', 'rej']) if rnd.random() < halting_q0 else W[0]
    return TM(set(Q), set(Sigma), set(Gm), delta, q0, 'acc', 'rej', blank)


def all_regexps(size, Sigma):
    """all regular expression trees with exactly `size` operator nodes... measured as in regexp_size (Iteration 1, binary 2)"""
    if size == 0:
        yield rx.Zero(); yield rx.One()
        for a in sorted(Sigma): yield rx.Symbol(a)
        return
    for r in all_regexps(size - 1, Sigma): yield rx.Iteration(r)
    if size >= 2:
        for k in range(size - 1):
            for l in all_regexps(k, Sigma):
                for r in all_regexps(size - 2 - k, Sigma):
                    yield rx.Sum(l, r); yield rx.Concat(l, r)


def random_regexp(rnd, size, Sigma):
    Sg = sorted(Sigma)
    if size == 0:
        x = rnd.random()
        return rx.Zero() if x < 0.15 else rx.One() if x < 0.3 else rx.Symbol(rnd.choice(Sg))
    if size == 1: return rx.Iteration(random_regexp(rnd, 0, Sigma))
    x = rnd.random()
    if x < 0.33: return rx.Iteration(random_regexp(rnd, size - 1, Sigma))
    k = rnd.randint(0, size - 2)
    l, r = random_regexp(rnd, k, Sigma), random_regexp(rnd, size - 2 - k, Sigma)
    return rx.Concat(l, r) if x < 0.66 else rx.Sum(l, r)


def regexp_twin(rnd, r):
    """a copy of r with one binary node switched between + and . (same shape, same leaves, usually another language)"""
    nodes = []
    def walk(x, path):
        if isinstance(x, (rx.Sum, rx.Concat)):
            nodes.append(path); walk(x.left, path + 'l'); walk(x.right, path + 'r')
        elif isinstance(x, rx.Iteration): walk(x.operand, path + 'o')
    walk(r, '')
    if not nodes: return None
    target = rnd.choice(nodes)
    def rebuild(x, path):
        if isinstance(x, (rx.Sum, rx.Concat)):
            l, r_ = rebuild(x.left, path + 'l'), rebuild(x.right, path + 'r')
            cls = type(x)
            if path == target: cls = rx.Concat if isinstance(x, rx.Sum) else rx.Sum
            return cls(l, r_)
        if isinstance(x, rx.Iteration): return rx.Iteration(rebuild(x.operand, path + 'o'))
        return x
    return rebuild(r, '')


def regexp_pool_combo(rnd, Sigma=('a', 'b'), depth=2):
    """expressions assembled from a pool of small 'interesting' pieces (1, 0, letters, starred letters, optional letters): the shapes that
    special-casing in a simplifier or in the Thompson construction would touch (1 + x, x*.y, (1 + x)*, x + x, ...)"""
    a, b = rx.Symbol(Sigma[0]), rx.Symbol(Sigma[1])
    pool = [rx.One(), rx.Zero(), a, b, rx.Iteration(a), rx.Iteration(b), rx.Sum(rx.One(), a), rx.Sum(b, rx.One()), rx.Concat(a, b), rx.Iteration(rx.Concat(a, b)), rx.Sum(a, b)]
    def build(d):
        if d == 0 or rnd.random() < 0.25: return rnd.choice(pool)
        x = rnd.random()
        if x < 0.2: return rx.Iteration(build(d - 1))
        l, r_ = build(d - 1), build(d - 1)
        return rx.Sum(l, r_) if x < 0.6 else rx.Concat(l, r_)
    return build(depth)


def regexp_templates(Sigma=('a', 'b')):
    """every expression op1(p1, op2(p2, p3)) and op1(op2(p1, p2), p3), optionally starred, with the pieces from {1, a, b, a*, 1+a}: all two-level
    combinations of the shapes that special cases in a construction would single out"""
    a, b = rx.Symbol(Sigma[0]), rx.Symbol(Sigma[1])
    pool = [rx.One(), a, b, rx.Iteration(a), rx.Sum(rx.One(), a)]
    ops = [rx.Sum, rx.Concat]
    for p1 in pool:
        for p2 in pool:
            for p3 in pool:
                for o1 in ops:
                    for o2 in ops:
                        yield o1(p1, o2(p2, p3)); yield o1(o2(p1, p2), p3)
                        yield rx.Iteration(o1(p1, o2(p2, p3)))


def mk_cfg(rules, S=None, V=None, Sigma=None, eps='ε'):
    """rules: list of (variable, [symbols]); symbols that are rule heads (or in V) are variables"""
    heads = [a for a, _ in rules]
    Vs = set(V) if V is not None else set(heads)
    R = [Rule(Variable(a), Alternative([Variable(s) if s in Vs else Terminal(s) for s in rhs])) for a, rhs in rules]
    Sg = set(Sigma) if Sigma is not None else {s for _, rhs in rules for s in rhs if s not in Vs}
    return CFG({Variable(v) for v in Vs}, {Terminal(t) for t in Sg}, R, Variable(S or heads[0]), Terminal(eps))


def random_cfg(rnd, nv=3, Sigma=('a', 'b'), max_rules=3, max_rhs=3, cnf=False):
    V = ['S', 'A', 'B', 'C'][:rnd.randint(1, nv)]
    rules = []
    for v in V:
        for _ in range(rnd.randint(1, max_rules)):
            if cnf:
                if rnd.random() < 0.45: rhs = [rnd.choice(Sigma)]
                else: rhs = [rnd.choice(V[1:] or V), rnd.choice(V[1:] or V)] if len(V) > 1 else [rnd.choice(Sigma)]
            else:
                rhs = [rnd.choice(V + list(Sigma)) for _ in range(rnd.randint(0, max_rhs))]
            if (v, rhs) not in rules: rules.append((v, rhs))
    if cnf and rnd.random() < 0.3: rules.append(('S', []))
    return mk_cfg(rules, S='S', V=V, Sigma=Sigma)


def random_unit_cfg(rnd, Sigma=('a', 'b', 'd')):
    """grammars rich in unit rules: every variable has one to three unit alternatives (cycles through the start variable included, several
    unit alternatives in a random order) next to terminal and binary alternatives - the shapes on which a unit-rule closure can go wrong"""
    V = ['S', 'A', 'B', 'C'][:rnd.randint(2, 4)]
    rules = []
    for v in V:
        alts = [[u] for u in rnd.sample([x for x in V if x != v], rnd.randint(1, min(3, len(V) - 1)))]
        for _ in range(rnd.randint(0, 2)):
            k = rnd.random()
            alts.append([rnd.choice(Sigma)] if k < 0.4 else [rnd.choice(Sigma), rnd.choice(V)] if k < 0.8 else [rnd.choice(V), rnd.choice(V)])
        rnd.shuffle(alts)
        for a in alts:
            if (v, a) not in rules: rules.append((v, a))
    if not any(len(a) == 1 and a[0] in Sigma for _, a in rules): rules.append((rnd.choice(V), [rnd.choice(Sigma)]))
    return mk_cfg(rules, S='S', V=V, Sigma=Sigma)


def random_cnf_colliding_names(rnd, Sigma=('a', 'b', 'c', 'd')):
    """CNF grammar over variables whose names concatenate ambiguously (A.BB and AB.B both spell ABB): sentential forms must be compared
    as sequences of variables, not as joined strings"""
    V = ['S', 'A', 'B', 'AB', 'BB', 'AA'][:rnd.randint(4, 6)]
    rules = []
    for v in V:
        for _ in range(rnd.randint(1, 3)):
            rhs = [rnd.choice(Sigma)] if (v != 'S' and rnd.random() < 0.5) else [rnd.choice(V[1:]), rnd.choice(V[1:])]
            if (v, rhs) not in rules: rules.append((v, rhs))
    return mk_cfg(rules, S='S', V=V, Sigma=Sigma)


def all_cfgs(nv, Sigma, nrules, max_rhs):
    """every grammar with variables S, A.. (nv of them), exactly nrules distinct rules, rhs length <= max_rhs, start S"""
    V = ['S', 'A', 'B'][:nv]; syms = V + sorted(Sigma)
    rhss = [list(t) for k in range(max_rhs + 1) for t in itertools.product(syms, repeat=k)]
    allrules = [(v, r) for v in V for r in rhss]
    for rs in itertools.combinations(allrules, nrules):
        yield mk_cfg(list(rs), S='S', V=V, Sigma=Sigma)


def nfa_as_pda(N):
    """the NFA N as a PDA that never touches its stack (same language; nondeterministic fan-out preserved)"""
    delta = defaultdict(set)
    for (q, a), T in N.delta.items():
        for t in T: delta[q, (N.epsilon if a == N.epsilon else a), N.epsilon].add((t, N.epsilon))
    return PDA(set(N.Q), set(N.Sigma), {'x'}, delta, N.q0, set(N.F), N.epsilon)
