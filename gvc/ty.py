"""Types of the verified Python subset and their z3 sorts.

Every program value is ONE z3 term (SV = type + term).  Mutable containers are *values*
(value semantics); the soundness side condition (no in-place mutation through an alias) is
enforced by gvc.effects, see DESIGN.md section 2.2.
"""
import z3

Atom = z3.DeclareSort('Atom')                      # names: states, symbols, variables, terminals
_W = z3.Datatype('Word'); _W.declare('nil'); _W.declare('snoc', ('init', _W), ('last', Atom))
Word = _W.create()                                 # words / stacks: canonical sequences of atoms
_R = z3.Datatype('Regexp')
_R.declare('Zero'); _R.declare('One'); _R.declare('Sym', ('sym', Atom)); _R.declare('Iter', ('operand', _R))
_R.declare('Sum', ('sleft', _R), ('sright', _R)); _R.declare('Concat', ('cleft', _R), ('cright', _R))
Regexp = _R.create()


class Ty(object):
    __slots__ = ('kind', 'args', 'key')

    def __init__(self, kind, *args):
        self.kind, self.args = kind, args
        self.key = kind + ('[' + ','.join(a.key if isinstance(a, Ty) else str(a) for a in args) + ']' if args else '')

    def __repr__(self): return self.key
    def __eq__(self, o): return isinstance(o, Ty) and self.key == o.key
    def __hash__(self): return hash(self.key)


ATOM, WORD, INT, BOOL, NONE, REGEXP = Ty('atom'), Ty('word'), Ty('int'), Ty('bool'), Ty('none'), Ty('regexp')
TEXT = Ty('text')        # message strings: content irrelevant, modelled as an opaque sort


def SET(e): return Ty('set', e)
def MAP(k, v, default=None): return Ty('map', k, v, default)     # default: None | 'set' | 'list' | 'zero'
def LIST(e): return Ty('list', e)
def TUP(*ts): return Ty('tup', *ts)
def REC(name): return Ty('rec', name)
def OPT(t): return Ty('opt', t)


RECORDS = {}     # name -> ordered dict field -> Ty


def defrecord(name, **fields):
    RECORDS[name] = dict(fields)


_sorts = {}
Text = z3.DeclareSort('Text')


def _safe(k):
    return ''.join(c if c.isalnum() else '_' for c in k)


def sort_of(t):
    if t.key in _sorts:
        return _sorts[t.key][0]
    k = t.kind
    if k == 'atom': s = (Atom,)
    elif k == 'word': s = (Word,)
    elif k == 'int': s = (z3.IntSort(),)
    elif k == 'bool': s = (z3.BoolSort(),)
    elif k == 'regexp': s = (Regexp,)
    elif k == 'text': s = (Text,)
    elif k == 'lang': s = (z3.DeclareSort('Lang'),)
    elif k == 'none':
        d = z3.Datatype('NoneT'); d.declare('none_value'); d = d.create(); s = (d, d.constructor(0)())
    elif k == 'set': s = (z3.ArraySort(sort_of(t.args[0]), z3.BoolSort()),)
    elif k == 'map':
        ks, vs = sort_of(t.args[0]), sort_of(t.args[1])
        nm = 'Map_' + _safe(t.args[0].key + '__' + t.args[1].key)
        d = z3.Datatype(nm)
        d.declare('mk_' + nm, ('dom_' + nm, z3.ArraySort(ks, z3.BoolSort())), ('val_' + nm, z3.ArraySort(ks, vs)))
        d = d.create(); s = (d, d.constructor(0), d.accessor(0, 0), d.accessor(0, 1))
    elif k == 'list':
        es = sort_of(t.args[0])
        nm = 'List_' + _safe(t.args[0].key)
        d = z3.Datatype(nm)
        d.declare('mk_' + nm, ('len_' + nm, z3.IntSort()), ('arr_' + nm, z3.ArraySort(z3.IntSort(), es)))
        d = d.create(); s = (d, d.constructor(0), d.accessor(0, 0), d.accessor(0, 1))
    elif k == 'tup':
        nm = 'Tup_' + _safe('__'.join(a.key for a in t.args))
        d = z3.Datatype(nm)
        d.declare('mk_' + nm, *[('%s_f%d' % (nm, i), sort_of(a)) for i, a in enumerate(t.args)])
        d = d.create(); s = (d, d.constructor(0)) + tuple(d.accessor(0, i) for i in range(len(t.args)))
    elif k == 'opt':
        nm = 'Opt_' + _safe(t.args[0].key)
        d = z3.Datatype(nm)
        d.declare('none_' + nm); d.declare('some_' + nm, ('get_' + nm, sort_of(t.args[0])))
        d = d.create(); s = (d, d.constructor(0)(), d.constructor(1), d.accessor(1, 0), d.recognizer(0), d.recognizer(1))
    elif k == 'rec':
        flds = RECORDS[t.args[0]]
        nm = 'Rec_' + t.args[0]
        d = z3.Datatype(nm)
        d.declare('mk_' + nm, *[('%s_%s' % (nm, f), sort_of(ft)) for f, ft in flds.items()])
        d = d.create(); s = (d, d.constructor(0)) + tuple(d.accessor(0, i) for i in range(len(flds)))
    else:
        raise TypeError('no sort for %r' % (t,))
    _sorts[t.key] = s
    return s[0]


def parts(t):
    sort_of(t)
    return _sorts[t.key]


class SV(object):
    """symbolic value"""
    __slots__ = ('t', 'z', 'shares')

    def __init__(self, t, z):
        self.t, self.z = t, z
        self.shares = None        # {field: place} when a field of this record value may be an object shared with `place` (see Contract.result_shares)

    def __repr__(self): return 'SV(%s, %s)' % (self.t, self.z)


_n = [0]


def fresh(name, t):
    _n[0] += 1
    return SV(t, z3.Const('%s!%d' % (name, _n[0]), sort_of(t)))


def fresh_z(name, sort):
    _n[0] += 1
    return z3.Const('%s!%d' % (name, _n[0]), sort)


LITERALS = {}


def lit(s):
    """a string literal used as a name: one distinct Atom constant per literal"""
    if s not in LITERALS:
        LITERALS[s] = z3.Const('lit_' + ''.join(c if c.isalnum() else '_%x_' % ord(c) for c in s), Atom)
    return LITERALS[s]


def distinct_literals():
    cs = list(LITERALS.values())
    return [z3.Distinct(*cs)] if len(cs) > 1 else []


# ---------------------------------------------------------------- constructors / accessors
def mk_tup(*svs):
    t = TUP(*[v.t for v in svs])
    return SV(t, parts(t)[1](*[v.z for v in svs]))


def tup_get(v, i):
    return SV(v.t.args[i], parts(v.t)[2 + i](v.z))


def rec_get(v, f):
    flds = RECORDS[v.t.args[0]]
    i = list(flds).index(f)
    return SV(flds[f], parts(v.t)[2 + i](v.z))


def rec_set(v, f, nv):
    flds = RECORDS[v.t.args[0]]
    p = parts(v.t)
    return SV(v.t, p[1](*[nv.z if g == f else p[2 + i](v.z) for i, g in enumerate(flds)]))


def mk_rec(name, **svs):
    t = REC(name)
    return SV(t, parts(t)[1](*[svs[f].z for f in RECORDS[name]]))


def map_dom(m): return parts(m.t)[2](m.z)
def map_val(m): return parts(m.t)[3](m.z)
def mk_map(t, dom, val): return SV(t, parts(t)[1](dom, val))
def list_len(l): return parts(l.t)[2](l.z)
def list_arr(l): return parts(l.t)[3](l.z)
def mk_list(t, ln, arr): return SV(t, parts(t)[1](ln, arr))


def empty_set(et):
    return SV(SET(et), z3.K(sort_of(et), z3.BoolVal(False)))


def set_add(s, x):
    return SV(s.t, z3.Store(s.z, x.z, z3.BoolVal(True)))


def set_remove(s, x):
    return SV(s.t, z3.Store(s.z, x.z, z3.BoolVal(False)))


def set_lit(et, elems):
    s = empty_set(et)
    for e in elems:
        s = set_add(s, e)
    return s


def word_lit(atoms):
    w = Word.nil
    for a in atoms:
        w = Word.snoc(w, a)
    return w


def is_canonical(t):
    """may be used as set element / map key (term identity == value equality)"""
    if t.kind in ('atom', 'word', 'int', 'bool', 'regexp', 'none', 'set', 'text', 'lang'): return True
    if t.kind in ('tup',): return all(is_canonical(a) for a in t.args)
    if t.kind == 'opt': return is_canonical(t.args[0])
    if t.kind == 'rec': return all(is_canonical(ft) for ft in RECORDS[t.args[0]].values())
    return False


def eq(a, b):
    """typed equality (lists and maps compare by content)"""
    if a.t != b.t:
        if a.t.kind == 'opt' and b.t == NONE: return parts(a.t)[4](a.z)
        if b.t.kind == 'opt' and a.t == NONE: return parts(b.t)[4](b.z)
        if a.t.kind == 'opt' and a.t.args[0] == b.t:
            return z3.And(parts(a.t)[5](a.z), eq(SV(b.t, parts(a.t)[3](a.z)), b))
        if b.t.kind == 'opt': return eq(b, a)
        raise TypeError('eq on different types %s %s' % (a.t, b.t))
    t = a.t
    if is_canonical(t): return a.z == b.z
    if t.kind == 'list':
        i = fresh_z('i', z3.IntSort())
        ea, eb = SV(t.args[0], z3.Select(list_arr(a), i)), SV(t.args[0], z3.Select(list_arr(b), i))
        return z3.And(list_len(a) == list_len(b), z3.ForAll([i], z3.Implies(z3.And(0 <= i, i < list_len(a)), eq(ea, eb))))
    if t.kind == 'map':
        k = fresh_z('k', sort_of(t.args[0]))
        va, vb = SV(t.args[1], z3.Select(map_val(a), k)), SV(t.args[1], z3.Select(map_val(b), k))
        return z3.And(z3.ForAll([k], z3.Select(map_dom(a), k) == z3.Select(map_dom(b), k)),
                      z3.ForAll([k], z3.Implies(z3.Select(map_dom(a), k), eq(va, vb))))
    if t.kind == 'tup':
        return z3.And([eq(tup_get(a, i), tup_get(b, i)) for i in range(len(t.args))])
    if t.kind == 'rec':
        return z3.And([eq(rec_get(a, f), rec_get(b, f)) for f in RECORDS[t.args[0]]])
    if t.kind == 'opt':
        p = parts(t)
        return z3.Or(z3.And(p[4](a.z), p[4](b.z)), z3.And(p[5](a.z), p[5](b.z), eq(SV(t.args[0], p[3](a.z)), SV(t.args[0], p[3](b.z)))))
    raise TypeError('eq: %s' % t)


# ---------------------------------------------------------------- the record classes of gambatools
KEY2 = TUP(ATOM, ATOM)
KEY3 = TUP(ATOM, ATOM, ATOM)
defrecord('DFA', Q=SET(ATOM), Sigma=SET(ATOM), delta=MAP(KEY2, ATOM), q0=ATOM, F=SET(ATOM))
defrecord('NFA', Q=SET(ATOM), Sigma=SET(ATOM), delta=MAP(KEY2, SET(ATOM)), q0=ATOM, F=SET(ATOM), epsilon=ATOM)
defrecord('TM', Q=SET(ATOM), Sigma=SET(ATOM), Gamma=SET(ATOM), delta=MAP(KEY2, TUP(ATOM, ATOM, ATOM)), q0=ATOM,
          q_accept=ATOM, q_reject=ATOM, blank=ATOM)
defrecord('PDA', Q=SET(ATOM), Sigma=SET(ATOM), Gamma=SET(ATOM), delta=MAP(KEY3, SET(TUP(ATOM, ATOM))), q0=ATOM, F=SET(ATOM),
          epsilon=ATOM)
defrecord('PDAState', q=ATOM, stack=WORD)
defrecord('GNFA', Q=SET(ATOM), Sigma=SET(ATOM), delta=MAP(KEY2, REGEXP, 'zero'), q_start=ATOM, q_accept=ATOM, epsilon=ATOM)
defrecord('IdGen', index=INT)
defrecord('RxGen', Sigma=SET(ATOM), id_generator=REC('IdGen'))
defrecord('Alternative', symbols=LIST(ATOM))
defrecord('Rule', variable=ATOM, alternative=REC('Alternative'))
defrecord('CFG', V=SET(ATOM), Sigma=SET(ATOM), R=LIST(REC('Rule')), S=ATOM, epsilon=ATOM)
# the generic automaton description produced by the tokeniser (automaton.py) and the builder objects that turn it into a DFA / NFA / ... (C17);
# regular expressions for labels are opaque names (their matching relation is the uninterpreted predicate re_fullmatch)
defrecord('Automaton', states=SET(ATOM), transitions=LIST(KEY3), initial_states=SET(ATOM), final_states=SET(ATOM), items=MAP(ATOM, LIST(ATOM)))
defrecord('Parser', keywords=SET(ATOM), state_regex=ATOM, transition_regex=ATOM, items=MAP(ATOM, LIST(ATOM)), states=SET(ATOM), transitions=LIST(KEY3), initial_states=SET(ATOM), final_states=SET(ATOM))
defrecord('Builder', A=REC('Automaton'), state_regex=ATOM, transition_regex=ATOM, symbol_regex=ATOM)


def parse_type(s):
    """'Set[Atom]', 'Map[(Atom,Atom),Atom]', 'List[Set[Atom]]', 'DFA', 'Word', 'Int', '(Atom,Word)', 'Opt[Atom]' ..."""
    s = s.replace(' ', '')
    pos = [0]

    def p():
        if s[pos[0]] == '(':
            pos[0] += 1; items = [p()]
            while s[pos[0]] == ',':
                pos[0] += 1; items.append(p())
            assert s[pos[0]] == ')', s; pos[0] += 1
            return TUP(*items)
        j = pos[0]
        while j < len(s) and (s[j].isalnum() or s[j] == '_'): j += 1
        name = s[pos[0]:j]; pos[0] = j
        args = []
        if j < len(s) and s[j] == '[':
            pos[0] += 1; args = [p()]
            while s[pos[0]] == ',':
                pos[0] += 1
                if s[pos[0]:pos[0] + 8] == 'default=':
                    k = pos[0] + 8; e = k
                    while s[e].isalnum(): e += 1
                    args.append(s[k:e]); pos[0] = e
                else:
                    args.append(p())
            assert s[pos[0]] == ']', s; pos[0] += 1
        base = {'Atom': ATOM, 'State': ATOM, 'Symbol': ATOM, 'Word': WORD, 'Int': INT, 'Bool': BOOL, 'None': NONE,
                'Regexp': REGEXP, 'Text': TEXT}
        if name in base: return base[name]
        if name == 'Set': return SET(args[0])
        if name == 'List': return LIST(args[0])
        if name == 'Opt': return OPT(args[0])
        if name == 'Map': return MAP(args[0], args[1], args[2] if len(args) > 2 else None)
        if name in RECORDS: return REC(name)
        raise TypeError('unknown type %r in %r' % (name, s))
    t = p()
    assert pos[0] == len(s), (s, pos[0])
    return t
