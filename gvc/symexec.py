"""Forward symbolic execution of the real gambatools source (Python `ast`) into verification conditions.

One obligation = (hypotheses, goal) valid for all inputs; loops are cut by invariants from the sidecar
contract, calls are replaced by callee contracts, set iteration / pop / next(iter()) are arbitrary choice.
See DESIGN.md section 2 for the rules and for what is assumed about Python.
"""
import ast, copy
import z3
from z3 import And, Or, Not, Implies, ForAll, Exists, Select, Store, If, IntVal, BoolVal
from .ty import *
from . import sets as S
from . import theory as T


class Unsupported(Exception):
    """construct outside the verified subset: the function falls back to its bounded stand-in"""


class Obligation(object):
    def __init__(self, fn, name, kind, hyps, goal, line=None, expect='unsat'):
        self.fn, self.name, self.kind, self.hyps, self.goal, self.line, self.expect = fn, name, kind, hyps, goal, line, expect
        self.status = None; self.backend = None; self.ms = None; self.output = ''

    @property
    def id(self): return '%s/%s' % (self.fn, self.name)


class Path(object):
    def __init__(self):
        self.env = {}; self.pc = []; self.ghost = {}; self.old = {}; self.alias = {}; self.guards = []
        self.fa = {}          # local name -> (parameter, field) while it is still bound to that field of an unmodified parameter

    def clone(self):
        p = Path(); p.env = dict(self.env); p.pc = list(self.pc); p.ghost = dict(self.ghost); p.old = self.old
        p.alias = dict(self.alias); p.guards = list(self.guards); p.fa = dict(self.fa)
        return p


class Gen(object):
    """a comprehension / generator expression kept symbolic: binders, guards, element"""
    def __init__(self, vars_, guards, elem, ordered_list=None):
        self.vars, self.guards, self.elem, self.ordered_list = vars_, guards, elem, ordered_list


class Ret(Exception):
    pass


ID_CASTS = {'State', 'Symbol', 'Variable', 'Terminal', 'Direction', 'nfaSymbol'}
REGEXP_CTORS = {'Zero': 0, 'One': 0, 'Symbol': 1, 'Iteration': 1, 'Sum': 2, 'Concat': 2}
RX = Regexp
RX_TEST = {'Zero': RX.is_Zero, 'One': RX.is_One, 'Symbol': RX.is_Sym, 'Iteration': RX.is_Iter, 'Sum': RX.is_Sum, 'Concat': RX.is_Concat}
RX_FIELD = {'operand': (RX.operand, RX.is_Iter, REGEXP), 'symbol': (RX.sym, RX.is_Sym, ATOM)}
REC_CLASSES = {'DFA', 'NFA', 'TM', 'PDA', 'PDAState', 'GNFA', 'Rule', 'Alternative', 'CFG'}


def loops_in(fn):
    """loops of a function in source order (nested functions excluded), for binding invariants by ordinal"""
    out = []

    def walk(n):
        for c in ast.iter_child_nodes(n):
            if isinstance(c, (ast.FunctionDef, ast.Lambda)) and c is not fn: continue
            if isinstance(c, (ast.For, ast.While)): out.append(c)
            walk(c)
    walk(fn)
    return out


def assigned_names(stmts):
    """names a statement list may (re)bind or mutate in place"""
    names = set()
    MUT = {'add', 'remove', 'discard', 'pop', 'clear', 'update', 'append', 'insert', 'extend', 'sort', 'setdefault', 'popitem'}

    def target(t):
        if isinstance(t, ast.Name): names.add(t.id)
        elif isinstance(t, (ast.Tuple, ast.List)):
            for e in t.elts: target(e)
        elif isinstance(t, (ast.Subscript, ast.Attribute)):
            b = t
            while isinstance(b, (ast.Subscript, ast.Attribute)): b = b.value
            if isinstance(b, ast.Name): names.add(b.id)
    for st in stmts:
        for n in ast.walk(st):
            if isinstance(n, ast.Assign):
                for t in n.targets: target(t)
            elif isinstance(n, (ast.AugAssign, ast.AnnAssign)): target(n.target)
            elif isinstance(n, ast.For): target(n.target)
            elif isinstance(n, ast.Call) and isinstance(n.func, ast.Attribute) and n.func.attr in MUT:
                target(n.func.value)
            elif isinstance(n, ast.Delete):
                for t in n.targets: target(t)
            elif isinstance(n, ast.Call) and isinstance(n.func, ast.Name):
                pass
    return names


class Exec(object):
    def __init__(self, contract, fn_ast, registry, src_file):
        self.c, self.fn, self.reg, self.src_file = contract, fn_ast, registry, src_file
        self.obls = []
        self.loops = loops_in(fn_ast)
        self.binders = []           # stack of (vars, guard) while evaluating under comprehension binders
        self.local_fns = {}
        self.spec_mode = False
        self.result = None
        self.loop_stack = []
        self.in_comprehension = False
        self.literal_lists = {}      # list term -> its elements, for list literals
        self.elem_sets = {}          # list term -> set term with the same elements (ghost), when known by construction
        self.arg_stack = []          # arguments of the calls being evaluated (for Contract.result_shares)

    # ------------------------------------------------------------------ obligations / assumptions
    def _wrap(self, p, f):
        for vars_, guard in reversed(self.binders):
            f = Implies(guard, f) if guard is not None else f
            if vars_: f = ForAll(vars_, f)
        return f

    def has_bound_vars(self):
        return any(vs for vs, _ in self.binders)

    def oblig(self, p, name, kind, goal, line=None):
        if self.spec_mode: return
        g = self._wrap(p, goal)
        n = name
        k = 1
        ids = {o.name for o in self.obls}
        while n in ids:
            k += 1; n = '%s~%d' % (name, k)
        self.obls.append(Obligation(self.c.qualname, n, kind, list(p.pc), g, line))

    def assume(self, p, f):
        p.pc.append(self._wrap(p, f))

    # ------------------------------------------------------------------ truthiness
    def truth(self, v):
        t = v.t
        if t == BOOL: return v.z
        if t == INT: return v.z != 0
        if t.kind == 'set': return S.nonempty(v)
        if t.kind == 'list': return list_len(v) > 0
        if t == WORD: return Not(Word.is_nil(v.z))
        if t.kind == 'opt':
            inner = SV(t.args[0], parts(t)[3](v.z))
            return And(parts(t)[5](v.z), self.truth(inner)) if t.args[0] in (BOOL, INT, WORD) or t.args[0].kind in ('set', 'list') else parts(t)[5](v.z)
        if t == NONE: return BoolVal(False)
        if t.kind == 'map':
            k = fresh_z('k', sort_of(t.args[0])); return Exists([k], Select(map_dom(v), k))
        raise Unsupported('truthiness of %s' % t)

    # ------------------------------------------------------------------ expressions
    def ev(self, p, e):
        m = getattr(self, 'e_' + type(e).__name__, None)
        if m is None: raise Unsupported('expression %s (line %s)' % (type(e).__name__, getattr(e, 'lineno', '?')))
        return m(p, e)

    def e_Constant(self, p, e):
        v = e.value
        if v is True or v is False: return SV(BOOL, BoolVal(v))
        if v is None: return SV(NONE, parts(NONE)[1])
        if isinstance(v, int): return SV(INT, IntVal(v))
        if isinstance(v, str):
            if v == '': return SV(WORD, Word.nil)
            return self.atom_const(v)
        raise Unsupported('constant %r' % (v,))

    def atom_const(self, s):
        return SV(ATOM, lit(s))

    def distinct_literals(self):
        return distinct_literals()

    def lookup(self, p, name):
        if name in p.alias:
            base, fld = p.alias[name]
            return rec_get(self.lookup(p, base), fld)
        if name == 'retval' and self.result is not None: return self.result      # the returned value, for functions that have a local variable called `result`
        if name in p.env: return p.env[name]
        if name in p.ghost: return p.ghost[name]
        if name == 'result' and self.result is not None: return self.result
        raise Unsupported('unknown name %s' % name)

    def e_Name(self, p, e):
        if e.id in ('True', 'False'): return SV(BOOL, BoolVal(e.id == 'True'))
        return self.lookup(p, e.id)

    def e_Attribute(self, p, e):
        if isinstance(e.value, ast.Name) and e.value.id == 'GambaTools':
            # module-level configuration: an arbitrary (universally quantified) value, fixed during the call
            t = {'pda_epsilon_closure_max_iterations': INT, 'enable_logging': BOOL}.get(e.attr)
            if t is None: raise Unsupported('GambaTools.%s' % e.attr)
            return SV(t, z3.Const('GambaTools_' + e.attr, sort_of(t)))
        if isinstance(e.value, ast.Name) and e.value.id == 'string' and 'string' not in p.env and e.attr == 'ascii_uppercase':
            # a str constant of the standard library used as an iterable: the list of its characters (distinct literal atoms)
            u = T.upper(); r = u['list']
            self.literal_lists[str(r.z)] = [self.atom_const(ch) for ch in u['chars']]
            return r
        o = self.ev(p, e.value)
        if o.t.kind == 'rec':
            if e.attr not in RECORDS[o.t.args[0]]: raise Unsupported('field %s of %s' % (e.attr, o.t))
            return rec_get(o, e.attr)
        if o.t == REGEXP:
            if e.attr in RX_FIELD:
                sel, test, ty = RX_FIELD[e.attr]
                self.oblig(p, 'attr-%s:%d' % (e.attr, e.lineno), 'safety', test(o.z), e.lineno)
                return SV(ty, sel(o.z))
            if e.attr in ('left', 'right'):
                self.oblig(p, 'attr-%s:%d' % (e.attr, e.lineno), 'safety', Or(RX.is_Sum(o.z), RX.is_Concat(o.z)), e.lineno)
                l = If(RX.is_Sum(o.z), RX.sleft(o.z), RX.cleft(o.z)); r = If(RX.is_Sum(o.z), RX.sright(o.z), RX.cright(o.z))
                return SV(REGEXP, l if e.attr == 'left' else r)
        raise Unsupported('attribute %s on %s' % (e.attr, o.t))

    def e_Tuple(self, p, e):
        return mk_tup(*[self.ev(p, x) for x in e.elts])

    def e_Set(self, p, e):
        vs = [self.ev(p, x) for x in e.elts]
        return set_lit(vs[0].t, vs)

    def e_List(self, p, e):
        vs = [self.ev(p, x) for x in e.elts]
        if not vs:
            raise Unsupported('empty list literal needs a declared type')
        return self.list_lit(vs[0].t, vs)

    def list_lit(self, et, vs):
        t = LIST(et); arr = fresh_z('arr0', z3.ArraySort(z3.IntSort(), sort_of(et)))
        for i, v in enumerate(vs): arr = Store(arr, i, v.z)
        r = mk_list(t, IntVal(len(vs)), arr)
        self.literal_lists[str(r.z)] = list(vs)
        return r

    def default_of(self, t):
        return fresh_z('dflt', sort_of(t))

    def e_UnaryOp(self, p, e):
        v = self.ev(p, e.operand)
        if isinstance(e.op, ast.Not): return SV(BOOL, Not(self.truth(v)))
        if isinstance(e.op, ast.USub) and v.t == INT: return SV(INT, -v.z)
        raise Unsupported('unary op')

    def under(self, p, guard, thunk):
        self.binders.append(([], guard))
        try: return thunk()
        finally: self.binders.pop()

    def e_BoolOp(self, p, e):
        vals = []
        guard = BoolVal(True)
        acc = None
        for x in e.values:
            v = self.under(p, guard, lambda: self.ev(p, x))
            tv = self.truth(v)
            vals.append((v, tv))
            stv = z3.simplify(tv)
            if (isinstance(e.op, ast.And) and z3.is_false(stv)) or (isinstance(e.op, ast.Or) and z3.is_true(stv)): break    # static short circuit
            guard = And(guard, tv) if isinstance(e.op, ast.And) else And(guard, Not(tv))
        if all(v.t == BOOL for v, _ in vals):
            zs = [tv for _, tv in vals]
            return SV(BOOL, And(zs) if isinstance(e.op, ast.And) else Or(zs))
        # python returns one of the operands; only truthiness is used in the supported subset
        zs = [tv for _, tv in vals]
        return SV(BOOL, And(zs) if isinstance(e.op, ast.And) else Or(zs))

    def e_IfExp(self, p, e):
        if self.static_isinstance(p, e.test) is not None:
            return self.ev(p, e.body if self.static_isinstance(p, e.test) else e.orelse)
        c = self.truth(self.ev(p, e.test))
        if self.is_empty_literal(e.body):
            b = self.under(p, Not(c), lambda: self.ev(p, e.orelse)); a = self.ev_hint(p, e.body, b.t)
        else:
            a = self.under(p, c, lambda: self.ev(p, e.body)); b = self.under(p, Not(c), lambda: self.ev_hint(p, e.orelse, a.t))
        a, b = self.unify(a, b)
        return SV(a.t, If(c, a.z, b.z))

    def unify(self, a, b):
        if a.t == b.t: return a, b
        if a.t == ATOM and b.t == WORD: return self.coerce(a, WORD), b          # a one-character string where a string is expected
        if a.t == WORD and b.t == ATOM: return a, self.coerce(b, WORD)
        if a.t.kind == 'opt' and b.t == NONE: return a, SV(a.t, parts(a.t)[1])
        if b.t.kind == 'opt' and a.t == NONE: return SV(b.t, parts(b.t)[1]), b
        if a.t == NONE: ot = OPT(b.t); return SV(ot, parts(ot)[1]), SV(ot, parts(ot)[2](b.z))
        if b.t == NONE: ot = OPT(a.t); return SV(ot, parts(ot)[2](a.z)), SV(ot, parts(ot)[1])
        if a.t.kind == 'opt' and a.t.args[0] == b.t: return a, SV(a.t, parts(a.t)[2](b.z))
        if b.t.kind == 'opt' and b.t.args[0] == a.t: return SV(b.t, parts(b.t)[2](a.z)), b
        raise Unsupported('cannot unify %s and %s' % (a.t, b.t))

    def static_isinstance(self, p, test):
        """isinstance(x, set) on a value whose static type decides the answer"""
        if isinstance(test, ast.Call) and isinstance(test.func, ast.Name) and test.func.id == 'isinstance':
            v = self.ev(p, test.args[0]); cls = test.args[1]
            if isinstance(cls, ast.Name) and cls.id == 'set': return v.t.kind == 'set'
            if isinstance(cls, ast.Name) and cls.id == 'str': return v.t in (ATOM, WORD, TEXT)
            cname = cls.attr if isinstance(cls, ast.Attribute) else cls.id if isinstance(cls, ast.Name) else None
            if cname in RECORDS or cname == 'Regexp' or cname == 'CFG':
                if isinstance(v, Gen): return None
                if v.t.kind == 'rec': return v.t.args[0] == cname
                return v.t == REGEXP if cname == 'Regexp' else False
        return None

    def e_Compare(self, p, e):
        lz = self.len_zero_test(p, e)
        if lz is not None: return SV(BOOL, lz)
        left = self.ev(p, e.left); res = []
        for op, c in zip(e.ops, e.comparators):
            right = self.ev(p, c)
            res.append(self.compare(p, op, left, right, e))
            left = right
        return SV(BOOL, And(res) if len(res) > 1 else res[0])

    def len_zero_test(self, p, e):
        """len(X) == 0 / != 0 / > 0 on a set: emptiness (no cardinality reasoning needed)"""
        if len(e.ops) != 1: return None
        l, r, op = e.left, e.comparators[0], e.ops[0]
        if isinstance(l, ast.Call) and isinstance(l.func, ast.Name) and l.func.id == 'len' and isinstance(r, ast.Constant) and r.value == 0:
            v = self.ev(p, l.args[0])
            if isinstance(v, Gen) or v.t.kind != 'set': return None
            if isinstance(op, ast.Eq): return S.is_empty(v)
            if isinstance(op, (ast.NotEq, ast.Gt)): return S.nonempty(v)
        return None

    def compare(self, p, op, a, b, e):
        if isinstance(op, (ast.In, ast.NotIn)):
            r = self.member(p, a, b, e)
            return r if isinstance(op, ast.In) else Not(r)
        if isinstance(op, (ast.Is, ast.IsNot, ast.Eq, ast.NotEq)) and not isinstance(a, Gen) and not isinstance(b, Gen) and NONE in (a.t, b.t) \
                and all(t_ == NONE or t_.kind in ('rec', 'set', 'map', 'list') for t_ in (a.t, b.t)):
            # None against None, or None against a value whose static type excludes None: decided by the types
            return BoolVal((a.t == b.t) == isinstance(op, (ast.Is, ast.Eq)))
        if isinstance(op, (ast.Eq, ast.Is)): return self.equal(a, b)
        if isinstance(op, (ast.NotEq, ast.IsNot)): return Not(self.equal(a, b))
        if a.t == INT and b.t == INT:
            return {ast.Lt: a.z < b.z, ast.LtE: a.z <= b.z, ast.Gt: a.z > b.z, ast.GtE: a.z >= b.z}[type(op)]
        if a.t.kind == 'set' and b.t.kind == 'set':
            if isinstance(op, ast.LtE): return S.subset(a, b)
            if isinstance(op, ast.GtE): return S.subset(b, a)
            if isinstance(op, ast.Lt): return And(S.subset(a, b), Not(a.z == b.z))
        raise Unsupported('comparison %s on %s,%s' % (type(op).__name__, a.t, b.t))

    def equal(self, a, b):
        if a.t == WORD and b.t == ATOM: return a.z == Word.snoc(Word.nil, b.z)
        if a.t == ATOM and b.t == WORD: return b.z == Word.snoc(Word.nil, a.z)
        try:
            return eq(a, b)
        except TypeError:
            if NONE in (a.t, b.t): return BoolVal(False)
            raise Unsupported('equality %s %s' % (a.t, b.t))

    def member(self, p, x, c, e):
        if c.t.kind == 'set':
            x = self.coerce(x, c.t.args[0]); return Select(c.z, x.z)
        if c.t.kind == 'map':
            x = self.coerce(x, c.t.args[0]); return Select(map_dom(c), x.z)
        if c.t.kind == 'list' and str(c.z) in self.elem_sets:
            es = self.elem_sets[str(c.z)]; return Select(es.z, self.coerce(x, es.t.args[0]).z)
        if c.t.kind == 'list' and c.t.args[0].kind == 'list' and str(x.z) in self.literal_lists:
            # membership of a literal list [x0, .., xn-1] in a list of lists: no inner quantifier needed
            els = self.literal_lists[str(x.z)]; i = fresh_z('i', z3.IntSort()); el = SV(c.t.args[0], Select(list_arr(c), i))
            return Exists([i], And(0 <= i, i < list_len(c), list_len(el) == len(els), *[Select(list_arr(el), j) == v.z for j, v in enumerate(els)]))
        if c.t.kind == 'list':
            i = fresh_z('i', z3.IntSort())
            return Exists([i], And(0 <= i, i < list_len(c), self.equal(SV(c.t.args[0], Select(list_arr(c), i)), x)))
        if c.t == ATOM and x.t == ATOM:        # substring test on opaque strings (a label contains the epsilon / blank symbol): uninterpreted relation
            return T.str_contains(c.z, x.z)
        raise Unsupported('membership in %s' % c.t)

    def coerce(self, v, t):
        if v.t == t: return v
        if t.kind == 'opt' and v.t == t.args[0]: return SV(t, parts(t)[2](v.z))
        if t.kind == 'opt' and v.t == NONE: return SV(t, parts(t)[1])
        if t == WORD and v.t == ATOM: return SV(WORD, Word.snoc(Word.nil, v.z))
        if t == TEXT and v.t == ATOM: return fresh('text', TEXT)          # a string constant used as a message: texts are opaque
        if self.spec_mode and v.t.kind == 'opt' and v.t.args[0] == t: return SV(t, parts(v.t)[3](v.z))      # spec only: the value held by an Optional (meaningful under `x is not None`)
        if t.kind == 'map' and v.t.kind == 'map' and t.args[:2] == v.t.args[:2]: return SV(t, v.z)      # dict / defaultdict: same content
        raise Unsupported('cannot use %s as %s' % (v.t, t))

    def e_BinOp(self, p, e):
        if isinstance(e.op, ast.Add) and isinstance(e.right, ast.List):
            a = self.ev(p, e.left)
            if a.t == WORD:
                z = a.z
                for x in e.right.elts: z = Word.snoc(z, self.coerce_atom(self.ev(p, x)).z)
                return SV(WORD, z)
        a = self.ev(p, e.left); b = self.ev(p, e.right); op = e.op
        if a.t == INT and b.t == INT:
            if isinstance(op, ast.Add): return SV(INT, a.z + b.z)
            if isinstance(op, ast.Sub): return SV(INT, a.z - b.z)
            if isinstance(op, ast.Mult): return SV(INT, a.z * b.z)
        if a.t.kind == 'set' and b.t.kind == 'set' and a.t == b.t:
            if isinstance(op, ast.BitOr): return S.union(a, b)
            if isinstance(op, ast.BitAnd): return S.inter(a, b)
            if isinstance(op, ast.Sub): return S.diff(a, b)
            if isinstance(op, ast.BitXor): return S.symdiff(a, b)
        if isinstance(op, ast.Add):
            if a.t == WORD and b.t == ATOM: return SV(WORD, Word.snoc(a.z, b.z))
            if a.t == ATOM and b.t == WORD: return SV(WORD, T.cons(a.z, b.z))
            if a.t == WORD and b.t == WORD: return SV(WORD, T.app(a.z, b.z))
            if a.t.kind == 'list' and a.t == b.t: return self.list_concat(p, a, b)
        raise Unsupported('binary op %s on %s,%s (line %d)' % (type(op).__name__, a.t, b.t, e.lineno))

    def coerce_atom(self, v):
        if v.t != ATOM: raise Unsupported('stack symbol of type %s' % v.t)
        return v

    def list_concat(self, p, a, b):
        r = fresh('cat', a.t); i = fresh_z('i', z3.IntSort())
        self.assume(p, list_len(r) == list_len(a) + list_len(b))
        self.assume(p, ForAll([i], Implies(And(0 <= i, i < list_len(a)), Select(list_arr(r), i) == Select(list_arr(a), i))))
        self.assume(p, ForAll([i], Implies(And(0 <= i, i < list_len(b)), Select(list_arr(r), list_len(a) + i) == Select(list_arr(b), i))))
        return r

    def e_Subscript(self, p, e):
        o = self.ev(p, e.value)
        sl = e.slice
        if isinstance(sl, ast.Slice): return self.slice(p, o, sl, e)
        if o.t.kind == 'map':
            k = self.coerce(self.ev(p, sl), o.t.args[0])
            return self.map_lookup(p, o, k, e)
        if o.t.kind == 'list':
            i = self.ev(p, sl)
            if i.t != INT: raise Unsupported('list index type')
            n = list_len(o)
            if isinstance(sl, ast.UnaryOp) or (isinstance(sl, ast.Constant) and isinstance(sl.value, int) and sl.value < 0):
                idx = n + i.z
            else:
                idx = i.z
            self.oblig(p, 'index:%d' % e.lineno, 'safety', And(0 <= idx, idx < n), e.lineno)
            return SV(o.t.args[0], Select(list_arr(o), idx))
        if o.t.kind == 'tup' and isinstance(sl, ast.Constant):
            return tup_get(o, sl.value)
        if o.t == WORD:
            if isinstance(sl, ast.UnaryOp) and isinstance(sl.op, ast.USub) and isinstance(sl.operand, ast.Constant) and sl.operand.value == 1:
                self.oblig(p, 'index:%d' % e.lineno, 'safety', Not(Word.is_nil(o.z)), e.lineno)
                return SV(ATOM, Word.last(o.z))
            i = self.ev(p, sl)
            self.oblig(p, 'index:%d' % e.lineno, 'safety', And(0 <= i.z, i.z < T.wlen(o.z)), e.lineno)
            return SV(ATOM, T.at(o.z, i.z))
        if o.t == ATOM and isinstance(sl, ast.Constant) and isinstance(sl.value, int) and sl.value >= 0:
            # a character of an opaque string (a PDA / TM label): char_at(label, i); IndexError unless i < strlen(label)
            self.partial_op(p, 'index', IntVal(sl.value) < T.strlen(o.z), e.lineno)
            return SV(ATOM, T.char_at(o.z, IntVal(sl.value)))
        raise Unsupported('subscript on %s' % o.t)

    def partial_op(self, p, what, ok, line):
        """an operation that raises unless `ok`: a safety obligation, or - in a function with a `raises` clause - an exceptional exit that
        the clause must justify; the path continues with `ok` (under comprehension binders: for every element)"""
        if self.spec_mode: return
        if self.c.raises is not None:
            self.oblig(p, '%s-or-raise-justified:%d' % (what, line), 'post', Or(ok, self.raises_cond(p, what)), line)
        else:
            self.oblig(p, '%s:%d' % (what, line), 'safety', ok, line)
        self.assume(p, ok)

    def map_lookup(self, p, m, k, e):
        dflt = m.t.args[2]
        if dflt is None:
            self.oblig(p, 'lookup:%d' % e.lineno, 'safety', Select(map_dom(m), k.z), e.lineno)
            return SV(m.t.args[1], Select(map_val(m), k.z))
        # defaultdict: value if present, default otherwise.  The insertion of the default into the map itself is
        # not modelled (it does not change the abstract view); see DESIGN 2.2 "defaultdict".
        if dflt == 'set': return SV(m.t.args[1], Select(S.view(m), k.z))
        if dflt == 'list' and not self.has_bound_vars() and not self.spec_mode:
            cur = fresh('cur', m.t.args[1])          # the stored list, or a new empty one: a constant, so that its array can serve as a trigger
            self.assume(p, Implies(Select(map_dom(m), k.z), cur.z == Select(map_val(m), k.z)))
            self.assume(p, Implies(Not(Select(map_dom(m), k.z)), list_len(cur) == 0))
            self.assume(p, list_len(cur) >= 0)
            return cur
        if dflt == 'zero' and m.t.args[0] == KEY2: return SV(REGEXP, Select(T.relabel(map_dom(m), map_val(m)), k.z))      # named total view (usable as a trigger)
        return SV(m.t.args[1], If(Select(map_dom(m), k.z), Select(map_val(m), k.z), self.dflt_value(m.t).z))

    def dflt_value(self, mt):
        vt, d = mt.args[1], mt.args[2]
        if d == 'set': return empty_set(vt.args[0])
        if d == 'zero': return SV(REGEXP, RX.Zero)
        if d == 'list': return mk_list(vt, IntVal(0), T.EMPTY_ARR(vt))
        raise Unsupported('default %s' % d)

    def slice(self, p, o, sl, e):
        if sl.step is not None:
            if o.t == WORD and sl.lower is None and sl.upper is None and isinstance(sl.step, ast.UnaryOp):
                return SV(WORD, T.rev(o.z))
            raise Unsupported('slice step')
        if o.t == WORD:
            if sl.lower is None and sl.upper is None: return o
            if sl.lower is None:
                if self.is_neg1(sl.upper): return SV(WORD, If(Word.is_nil(o.z), Word.nil, Word.init(o.z)))
                k = self.ev(p, sl.upper); self.oblig(p, 'slice-nonneg:%d' % e.lineno, 'subset', k.z >= 0, e.lineno)
                return SV(WORD, T.take(k.z, o.z))
            if sl.upper is None:
                k = self.ev(p, sl.lower); self.oblig(p, 'slice-nonneg:%d' % e.lineno, 'subset', k.z >= 0, e.lineno)
                return SV(WORD, T.drop(k.z, o.z))
        if o.t.kind == 'list' and sl.lower is None and sl.upper is None: return o
        if o.t.kind == 'list' and sl.upper is None and isinstance(sl.lower, ast.Constant) and isinstance(sl.lower.value, int) and sl.lower.value >= 0 and not self.has_bound_vars():
            # l[k:] for a literal k >= 0: the list without its first k elements (empty when it is shorter)
            k = sl.lower.value; ln = list_len(o)
            tl = fresh_z('tail', z3.ArraySort(z3.IntSort(), sort_of(o.t.args[0])))
            r = mk_list(o.t, If(ln >= k, ln - k, IntVal(0)), tl)
            i = fresh_z('i', z3.IntSort())
            self.assume(p, ForAll([i], Implies(And(0 <= i, i < ln - k), Select(tl, i) == Select(list_arr(o), i + k)), patterns=[Select(tl, i)]))
            self.assume(p, ForAll([i], Implies(And(k <= i, i < ln), Select(list_arr(o), i) == Select(tl, i - k)), patterns=[Select(list_arr(o), i)]))      # the same fact, found from the original list
            return r
        raise Unsupported('slice on %s' % o.t)

    @staticmethod
    def is_neg1(n):
        return isinstance(n, ast.UnaryOp) and isinstance(n.op, ast.USub) and isinstance(n.operand, ast.Constant) and n.operand.value == 1

    # ------------------------------------------------------------------ comprehensions
    def iter_binders(self, p, target, it_expr):
        """binder variables + guard + bindings for one `for target in it_expr` clause"""
        it = self.iterable(p, it_expr)
        kind = it[0]
        env_upd = {}
        if kind == 'set':
            s = it[1]; x = fresh('x', s.t.args[0])
            self.bind_target(p, target, x, env_upd)
            return [x.z], Select(s.z, x.z), env_upd, None
        if kind == 'list':
            l = it[1]; i = fresh_z('i', z3.IntSort())
            self.bind_target(p, target, SV(l.t.args[0], Select(list_arr(l), i)), env_upd)
            return [i], And(0 <= i, i < list_len(l)), env_upd, ('list', l, i)
        if kind == 'range':
            lo, hi = it[1], it[2]; k = fresh_z('k', z3.IntSort())
            self.bind_target(p, target, SV(INT, k), env_upd)
            return [k], And(lo <= k, k < hi), env_upd, ('range', lo, hi, k)
        if kind == 'word':
            w = it[1]; i = fresh_z('i', z3.IntSort())
            self.bind_target(p, target, SV(ATOM, T.at(w.z, i)), env_upd)
            return [i], And(0 <= i, i < T.wlen(w.z)), env_upd, ('range', IntVal(0), T.wlen(w.z), i)
        if kind == 'items':
            m = it[1]; k = fresh('k', m.t.args[0])
            self.bind_target(p, target, mk_tup(k, SV(m.t.args[1], Select(map_val(m), k.z))), env_upd)
            return [k.z], Select(map_dom(m), k.z), env_upd, None
        if kind == 'keys':
            m = it[1]; k = fresh('k', m.t.args[0])
            self.bind_target(p, target, k, env_upd)
            return [k.z], Select(map_dom(m), k.z), env_upd, None
        if kind == 'values':
            m = it[1]; k = fresh('k', m.t.args[0])
            self.bind_target(p, target, SV(m.t.args[1], Select(map_val(m), k.z)), env_upd)
            return [k.z], Select(map_dom(m), k.z), env_upd, None
        if kind == 'typed':        # spec only: unbounded domain with a guard (program code: the unbounded character supply)
            x = fresh('x', it[1]); self.bind_target(p, target, x, env_upd)
            return [x.z], it[2](x), env_upd, (('supply',) if len(it) > 3 else None)
        raise Unsupported('iteration over %s' % kind)

    def bind_target(self, p, target, v, env_upd):
        if isinstance(target, ast.Name):
            env_upd[target.id] = v
        elif isinstance(target, (ast.Tuple, ast.List)):
            if v.t.kind != 'tup' or len(v.t.args) != len(target.elts):
                raise Unsupported('unpacking %s into %d targets' % (v.t, len(target.elts)))
            for i, t in enumerate(target.elts): self.bind_target(p, t, tup_get(v, i), env_upd)
        else:
            raise Unsupported('loop target')

    def iterable(self, p, e):
        """classify an iterable expression"""
        if isinstance(e, ast.Call):
            f = e.func
            if isinstance(f, ast.Name) and f.id == 'range':
                a = [self.ev(p, x) for x in e.args]
                if len(a) == 1: return ('range', IntVal(0), a[0].z)
                if len(a) == 2: return ('range', a[0].z, a[1].z)
                raise Unsupported('range with step')
            if isinstance(f, ast.Attribute) and f.attr in ('items', 'keys', 'values') and not e.args:
                m = self.ev(p, f.value)
                if m.t.kind == 'map': return (f.attr, m)
            if isinstance(f, ast.Name) and f.id in ('reversed', 'sorted', 'list', 'set') and len(e.args) == 1 and self.spec_mode:
                return self.iterable(p, e.args[0])
            if isinstance(f, ast.Attribute) and isinstance(f.value, ast.Name) and f.value.id == 'itertools':
                return self.itertools_iter(p, f.attr, e)
            if isinstance(f, ast.Name) and self.spec_mode and f.id == 'pairs': return ('typed', TUP(ATOM, ATOM), lambda x: BoolVal(True))
            if isinstance(f, ast.Name) and self.spec_mode and f.id in ('words', 'atoms', 'ints', 'regexps', 'allwords', 'configs'):
                if f.id == 'allwords': return ('typed', WORD, lambda x: BoolVal(True))
                if f.id == 'configs': return ('typed', REC('PDAState'), lambda x: BoolVal(True))
                if f.id == 'words':
                    sg = self.ev(p, e.args[0]); return ('typed', WORD, lambda x: T.over(sg.z, x.z))
                if f.id == 'atoms': return ('typed', ATOM, lambda x: BoolVal(True))
                if f.id == 'ints': return ('typed', INT, lambda x: BoolVal(True))
                if f.id == 'regexps': return ('typed', REGEXP, lambda x: BoolVal(True))
        v = self.ev(p, e)
        if isinstance(v, Gen): raise Unsupported('iteration over a generator')
        if v.t.kind == 'opt' and v.t.args[0].kind == 'set':       # iterating over None is a TypeError
            self.partial_op(p, 'iterate', parts(v.t)[5](v.z), getattr(e, 'lineno', 0))
            v = SV(v.t.args[0], parts(v.t)[3](v.z))
        if v.t.kind == 'set': return ('set', v)
        if v.t.kind == 'list' and self.in_comprehension and str(v.z) in self.elem_sets: return ('set', self.elem_sets[str(v.z)])
        if v.t.kind == 'list': return ('list', v)
        if v.t == WORD: return ('word', v)
        if v.t.kind == 'map': return ('keys', v)
        raise Unsupported('iteration over %s' % v.t)

    def itertools_iter(self, p, name, e):
        if name == 'product':
            rep = [k for k in e.keywords if k.arg == 'repeat']
            srcs = [self.ev(p, a) for a in e.args]
            if self.in_comprehension:       # element sets suffice when the consumer is a set / dict builder or a quantifier
                srcs = [(self.elem_sets.get(str(s_.z)) or self.set_of_list(p, s_)) if (not isinstance(s_, Gen) and s_.t.kind == 'list') else s_ for s_ in srcs]
            if rep:
                n = rep[0].value
                if not (isinstance(n, ast.Constant) and isinstance(n.value, int)):
                    # trusted builtin contract B-product-repeat: itertools.product(S, repeat=i) enumerates exactly the tuples of
                    # length i over S; a tuple of single-character symbols is identified with the word it spells (''.join)
                    if len(srcs) == 1 and srcs[0].t == SET(ATOM):
                        k = self.ev(p, n); ps = fresh('words_of_len', SET(WORD)); w = fresh_z('w', Word)
                        self.assume(p, ForAll([w], Select(ps.z, w) == And(T.over(srcs[0].z, w), T.wlen(w) == k.z)))
                        return ('set', ps)
                    raise Unsupported('product repeat=var')
                srcs = srcs * n.value
            if all(s.t.kind == 'set' for s in srcs):
                tt = TUP(*[s.t.args[0] for s in srcs]); ps = S_pairs(tt, srcs)
                if 'fin(' in repr(self.c.requires) + repr(self.c.loops) + repr(self.c.type_invariants):
                    # trusted Finset fact B-product-finite (Set.Finite.prod): a product of finite sets is finite
                    PRODUCT_FACTS.append(Implies(And([S.fin(s_) for s_ in srcs]), S.fin(ps)))
                return ('set', ps)
            raise Unsupported('itertools.product over %s' % [s.t for s in srcs])
        if name in ('combinations', 'combinations_with_replacement'):
            src = e.args[0]
            if isinstance(src, ast.Call) and isinstance(src.func, ast.Name) and src.func.id == 'range' and isinstance(e.args[1], ast.Constant) and e.args[1].value == 2:
                n = self.ev(p, src.args[0]); tt = TUP(INT, INT)
                strict = name == 'combinations'
                ps = fresh('combs', SET(tt)); i, j = fresh_z('i', z3.IntSort()), fresh_z('j', z3.IntSort())
                mk = parts(tt)[1]
                self.assume(p, ForAll([i, j], Select(ps.z, mk(i, j)) == And(0 <= i, (i < j) if strict else (i <= j), j < n.z)))
                return ('set', ps)
        if name == 'chain' and self.is_char_supply(e):
            # itertools.chain('..', map(chr, itertools.count(k))): an unbounded supply of one-character strings.  Over-approximated by
            # "any string" (sound for every statement about the element picked); that the supply is not exhausted before the consumer
            # finds what it looks for is NOT proved (recorded assumption A-char-supply)
            self.used_char_supply = True
            return ('typed', ATOM, lambda x: BoolVal(True), 'supply')
        raise Unsupported('itertools.%s' % name)

    @staticmethod
    def is_char_supply(e):
        def is_count(a): return isinstance(a, ast.Call) and isinstance(a.func, ast.Attribute) and a.func.attr == 'count' and isinstance(a.func.value, ast.Name) and a.func.value.id == 'itertools'
        def is_map_chr(a): return isinstance(a, ast.Call) and isinstance(a.func, ast.Name) and a.func.id == 'map' and len(a.args) == 2 and isinstance(a.args[0], ast.Name) and a.args[0].id == 'chr' and is_count(a.args[1])
        # the leading iterables (string constants or parameters holding preferred characters) only put elements in front of the unbounded tail
        return bool(e.args) and is_map_chr(e.args[-1]) and all((isinstance(a, ast.Constant) and isinstance(a.value, str)) or isinstance(a, ast.Name) for a in e.args[:-1])

    def gen_of(self, p, e):
        """ListComp / SetComp / GeneratorExp -> Gen"""
        vars_, guards, pushed = [], [], 0
        saved = dict(p.env); ordered = None
        saved_ic = self.in_comprehension; self.in_comprehension = True
        try:
            for gi, g in enumerate(e.generators):
                vs, guard, upd, ordinfo = self.iter_binders(p, g.target, g.iter)
                p.env.update(upd)
                self.binders.append((vs, guard)); pushed += 1
                vars_ += vs; guards.append(guard)
                if len(e.generators) == 1 and not g.ifs and ordinfo: ordered = ordinfo
                if ordinfo == ('supply',): ordered = ordinfo
                for c in g.ifs:
                    cz = self.truth(self.ev(p, c)); guards.append(cz)
                    self.binders.append(([], cz)); pushed += 1
            if isinstance(e, ast.DictComp):
                elem = (self.ev(p, e.key), self.ev(p, e.value))
            elif getattr(self, 'elt_hint', None) is not None and self.is_empty_literal(e.elt):
                elem = self.empty_of(self.elt_hint, e.elt)
            else:
                elem = self.ev(p, e.elt)
        finally:
            self.in_comprehension = saved_ic
            for _ in range(pushed): self.binders.pop()
            p.env.clear(); p.env.update(saved)
        return Gen(vars_, guards, elem, ordered)

    def e_GeneratorExp(self, p, e): return self.gen_of(p, e)

    def e_SetComp(self, p, e): return self.set_of_gen(p, self.gen_of(p, e))

    def e_ListComp(self, p, e): return self.list_of_gen(p, self.gen_of(p, e))

    def e_DictComp(self, p, e):
        g = self.gen_of(p, e)
        if self.has_bound_vars(): raise Unsupported('dict comprehension under binders')
        k, v = g.elem
        mt = MAP(k.t, v.t); m = fresh('dictcomp', mt); y = fresh_z('y', sort_of(k.t))
        grd = And(g.guards) if g.guards else BoolVal(True)
        # last-write-wins is only modelled when keys determine values: make that an obligation
        ren = [fresh_z('r', v_.sort()) for v_ in g.vars]
        k2, v2, g2 = [z3.substitute(t, *zip(g.vars, ren)) for t in (k.z, v.z, grd)]
        self.oblig(p, 'dictcomp-functional:%d' % e.lineno, 'safety', ForAll(g.vars + ren, Implies(And(grd, g2, k.z == k2), v.z == v2)), e.lineno)
        self.assume(p, ForAll([y], Select(map_dom(m), y) == Exists(g.vars, And(grd, y == k.z))))
        self.assume(p, ForAll(g.vars, Implies(grd, Select(map_val(m), k.z) == v.z)))
        return m

    def set_of_gen(self, p, g):
        if self.has_bound_vars(): raise Unsupported('set comprehension under binders')
        el = g.elem
        r = fresh('setcomp', SET(el.t)); y = fresh_z('y', sort_of(el.t))
        grd = And(g.guards) if g.guards else BoolVal(True)
        self.assume(p, ForAll([y], Select(r.z, y) == Exists(g.vars, And(grd, y == el.z))))
        return r

    def list_of_gen(self, p, g):
        if self.has_bound_vars(): raise Unsupported('list comprehension under binders')
        el = g.elem; r = fresh('listcomp', LIST(el.t))
        if g.ordered_list is not None and g.ordered_list[0] == 'list':
            _, src, i = g.ordered_list
            self.assume(p, list_len(r) == list_len(src))
            self.assume(p, ForAll([i], Implies(And(0 <= i, i < list_len(src)), Select(list_arr(r), i) == el.z)))
            return r
        if g.ordered_list is not None and g.ordered_list[0] == 'range':
            _, lo, hi, k = g.ordered_list
            self.assume(p, list_len(r) == If(hi > lo, hi - lo, 0))
            self.assume(p, ForAll([k], Implies(And(lo <= k, k < hi), Select(list_arr(r), k - lo) == el.z)))
            return r
        # unordered source or filtered: a list whose element set is the comprehension's
        y = fresh_z('y', sort_of(el.t)); i = fresh_z('i', z3.IntSort())
        es = self.set_of_gen(p, g)
        self.assume(p, list_len(r) >= 0)
        self.assume(p, ForAll([y], Exists([i], And(0 <= i, i < list_len(r), Select(list_arr(r), i) == y)) == Select(es.z, y)))
        self.assume(p, ForAll([i], Implies(And(0 <= i, i < list_len(r)), Select(es.z, Select(list_arr(r), i)))))
        self.elem_sets[str(r.z)] = es
        return r

    # ------------------------------------------------------------------ calls
    def e_Call(self, p, e):
        f = e.func
        if isinstance(f, ast.Name):
            n = f.id
            if n in self.local_fns: return self.inline_local(p, self.local_fns[n], e)
            if n in p.env and isinstance(p.env[n], ast.Lambda): return self.inline_lambda(p, p.env[n], e)
            h = getattr(self, 'b_' + n, None)
            if h is not None: return h(p, e)
            if n in ID_CASTS and n != 'Symbol': return self.ev(p, e.args[0])
            if n == 'Symbol':
                v = self.ev(p, e.args[0])
                if self.c.symbol_is_regexp: return SV(REGEXP, RX.Sym(v.z))
                return v
            if n in REGEXP_CTORS and n != 'Symbol':
                args = [self.ev(p, a) for a in e.args]
                ctor = {'Zero': lambda: RX.Zero, 'One': lambda: RX.One, 'Iteration': lambda: RX.Iter(args[0].z),
                        'Sum': lambda: RX.Sum(args[0].z, args[1].z), 'Concat': lambda: RX.Concat(args[0].z, args[1].z)}[n]
                return SV(REGEXP, ctor())
            if n in REC_CLASSES: return self.construct(p, n, e)
            if n == 'IdentifierGenerator': return self.construct(p, 'IdGen', e)     # field-wise, justified by the verified contract of __init__
            if n == 'RegexpToNFAGenerator' and not e.args:                            # empty alphabet, fresh name generator (verified contract of __init__)
                return mk_rec('RxGen', Sigma=empty_set(ATOM), id_generator=mk_rec('IdGen', index=SV(INT, IntVal(0))))
            if self.spec_mode and n in T.SPEC:
                return T.SPEC[n](self, *[self.ev(p, a) for a in e.args])
            if self.spec_mode and n == 'old':
                return self.ev_old(p, e.args[0])
            if self.spec_mode and n == 'implies':
                a = self.truth(self.ev(p, e.args[0])); b = self.under(p, a, lambda: self.truth(self.ev(p, e.args[1])))
                return SV(BOOL, Implies(a, b))
            if self.spec_mode and n == 'iff':
                return SV(BOOL, self.truth(self.ev(p, e.args[0])) == self.truth(self.ev(p, e.args[1])))
            c = self.reg.find(n, self.c)
            if c is not None and self.spec_mode: return self.spec_call(p, c, e)
            if c is not None: return self.call_contract(p, c, e)
            raise Unsupported('call of %s (line %d)' % (n, getattr(e, 'lineno', 0)))
        if isinstance(f, ast.Attribute) and f.attr == 'union' and len(e.args) == 1 and isinstance(e.args[0], ast.Starred) \
                and isinstance(f.value, ast.Call) and isinstance(f.value.func, ast.Name) and f.value.func.id == 'set' and not f.value.args:
            inner = e.args[0].value
            g = self.gen_of(p, inner) if isinstance(inner, (ast.ListComp, ast.GeneratorExp, ast.SetComp)) else self.ev(p, inner)
            return self.big_union(p, g, e)
        if isinstance(f, ast.Attribute):
            # module-qualified calls
            if isinstance(f.value, ast.Name) and f.value.id == 're' and f.attr == 'fullmatch' and len(e.args) == 2 and 're' not in p.env:
                # matching a label against a regular expression: an uninterpreted relation between the (opaque) expression and the string
                rx, sv = self.ev(p, e.args[0]), self.ev(p, e.args[1])
                if rx.t == ATOM and sv.t == ATOM: return SV(BOOL, T.re_fullmatch(rx.z, sv.z))
                raise Unsupported('re.fullmatch on %s, %s' % (rx.t, sv.t))
            if isinstance(f.value, ast.Name) and f.value.id in ('copy',) and f.attr == 'deepcopy':
                return self.ev(p, e.args[0])      # value semantics: a deep copy is the same value (freshness: gvc.effects)
            if isinstance(f.value, ast.Name) and f.value.id == 'regexp' and f.attr in REGEXP_CTORS:
                e2 = ast.Call(func=ast.Name(id=f.attr, ctx=ast.Load()), args=e.args, keywords=e.keywords); ast.copy_location(e2, e)
                saved = self.c.symbol_is_regexp; self.c.symbol_is_regexp = True
                try: return self.e_Call(p, e2)
                finally: self.c.symbol_is_regexp = saved
            if isinstance(f.value, ast.Attribute) and isinstance(f.value.value, ast.Name) and f.value.value.id == 'gambatools':
                c = self.reg.find(f.attr, self.c)          # gambatools.<module>.<function>(...)
                if c is not None: return self.call_contract(p, c, e)
                raise Unsupported('call of %s (line %d)' % (f.attr, e.lineno))
            if isinstance(f.value, ast.Name) and f.value.id == 'self':
                c = self.reg.find_method(self.c, f.attr)
                if c is not None and self.spec_mode:
                    # in a specification, self.m(args) for a pure method under contract denotes its result (the function symbol used at call sites)
                    args = [self.lookup(p, 'self')] + [self.ev(p, a) for a in e.args]
                    ok = [k for k in c if k.pure and len(k.params) == len(args) and all(a.t == k.param_types[n] for a, n in zip(args, k.params))]
                    if len(ok) != 1: raise Unsupported('spec call of method %s' % f.attr)
                    fn = ok[0].result_fn(','.join(a.t.key for a in args), [sort_of(a.t) for a in args])
                    return SV(ok[0].result_type, fn(*[a.z for a in args]))
                if c is not None: return self.call_contract(p, c, e, self_arg=self.lookup(p, 'self'), self_expr=f.value)
            return self.method(p, f, e)
        raise Unsupported('call form')

    def spec_call(self, p, cs, e):
        """in a specification, f(args) for a pure function under contract denotes its result (the function symbol used at
        call sites); nothing is assumed about it here"""
        args = [self.ev(p, a) for a in e.args]
        ok = [c for c in cs if c.pure and len(c.params) == len(args) and all(a.t == c.param_types[n] for a, n in zip(args, c.params))]
        if len(ok) != 1: raise Unsupported('spec call of %s' % cs[0].qualname)
        c = ok[0]
        fn = c.result_fn(','.join(a.t.key for a in args), [sort_of(a.t) for a in args])
        return SV(c.result_type, fn(*[a.z for a in args]))

    def ev_old(self, p, e):
        q = p.clone(); q.env = dict(p.env); q.env.update(p.old); q.alias = {}
        return self.ev(q, e)

    def inline_local(self, p, fd, e):
        body = [s for s in fd.body if not (isinstance(s, ast.Expr) and isinstance(s.value, ast.Constant))]
        if len(body) != 1 or not isinstance(body[0], ast.Return):
            raise Unsupported('local function %s is not a single return' % fd.name)
        args = [self.ev(p, a) for a in e.args]
        saved = dict(p.env)
        for a, v in zip(fd.args.args, args): p.env[a.arg] = v
        try: return self.ev(p, body[0].value)
        finally: p.env.clear(); p.env.update(saved)

    def inline_lambda(self, p, lam, e):
        args = [self.ev(p, a) for a in e.args]
        saved = dict(p.env)
        for a, v in zip(lam.args.args, args): p.env[a.arg] = v
        try: return self.ev(p, lam.body)
        finally: p.env.clear(); p.env.update(saved)

    def big_union(self, p, g, e):
        """set().union(*[S(x) for x in ...]) : y in result <=> exists x. guard and y in S(x)"""
        if self.has_bound_vars(): raise Unsupported('big union under binders')
        if isinstance(g, Gen):
            if g.elem.t.kind != 'set': raise Unsupported('big union of %s' % g.elem.t)
            r = fresh('bigunion', g.elem.t); y = fresh_z('y', sort_of(g.elem.t.args[0]))
            grd = And(g.guards) if g.guards else BoolVal(True)
            self.assume(p, ForAll([y], Select(r.z, y) == (Exists(g.vars, And(grd, Select(g.elem.z, y))) if g.vars else And(grd, Select(g.elem.z, y)))))
            return r
        if g.t.kind == 'list' and g.t.args[0].kind == 'set':
            r = fresh('bigunion', g.t.args[0]); y = fresh_z('y', sort_of(g.t.args[0].args[0])); i = fresh_z('i', z3.IntSort())
            self.assume(p, ForAll([y], Select(r.z, y) == Exists([i], And(0 <= i, i < list_len(g), Select(Select(list_arr(g), i), y)))))
            return r
        raise Unsupported('big union over %s' % g.t)

    # --- builtins
    def b_len(self, p, e):
        v = self.ev(p, e.args[0])
        if v.t.kind == 'list': return SV(INT, list_len(v))
        if v.t == WORD: return SV(INT, T.wlen(v.z))
        if v.t.kind == 'set': return S.card(v)
        raise Unsupported('len of %s' % v.t)

    def b_sorted(self, p, e):
        """trusted builtin contract B-sorted: sorted(S, key=f) of a set is a list without repetitions whose elements are those of S,
        non-decreasing in the key (the order among equal keys is left open: every tie-break is covered)"""
        if self.spec_mode or len(e.args) != 1: raise Unsupported('sorted')
        s = self.ev(p, e.args[0])
        if isinstance(s, Gen) or s.t.kind != 'set': raise Unsupported('sorted of %s' % getattr(s, 't', 'generator'))
        key = [k.value for k in e.keywords if k.arg == 'key']
        if any(k.arg not in ('key',) for k in e.keywords): raise Unsupported('sorted(..., reverse=)')
        et = s.t.args[0]; r = fresh('sorted', LIST(et)); i, j = fresh_z('i', z3.IntSort()), fresh_z('j', z3.IntSort()); x = fresh('x', et)
        at = lambda k: SV(et, Select(list_arr(r), k))
        self.assume(p, list_len(r) >= 0)
        self.assume(p, ForAll([i], Implies(And(0 <= i, i < list_len(r)), Select(s.z, at(i).z))))
        self.assume(p, ForAll([x.z], Implies(Select(s.z, x.z), Exists([i], And(0 <= i, i < list_len(r), at(i).z == x.z)))))
        self.assume(p, ForAll([i, j], Implies(And(0 <= i, i < j, j < list_len(r)), at(i).z != at(j).z)))
        if key:
            lam = key[0]
            if not isinstance(lam, ast.Lambda) or len(lam.args.args) != 1: raise Unsupported('sorted key')
            def kf(v):
                saved = dict(p.env); p.env[lam.args.args[0].arg] = v
                try: kv = self.ev(p, lam.body)
                finally: p.env.clear(); p.env.update(saved)
                if kv.t != INT: raise Unsupported('sorted key of type %s' % kv.t)
                return kv.z
            self.assume(p, ForAll([i, j], Implies(And(0 <= i, i <= j, j < list_len(r)), kf(at(i)) <= kf(at(j)))))
        elif et != INT:
            pass      # natural order of strings: nothing is assumed about it
        else:
            self.assume(p, ForAll([i, j], Implies(And(0 <= i, i <= j, j < list_len(r)), at(i).z <= at(j).z)))
        return r

    def b_set(self, p, e):
        if not e.args:
            raise Unsupported('set() needs a declared element type')
        a = e.args[0]
        if isinstance(a, ast.List) and not a.elts: raise Unsupported('set([]) needs a declared element type')
        if isinstance(a, (ast.ListComp, ast.GeneratorExp, ast.SetComp)): return self.set_of_gen(p, self.gen_of(p, a))
        v = self.ev(p, a)
        if isinstance(v, Gen): return self.set_of_gen(p, v)
        if v.t.kind == 'set': return v
        if v.t.kind == 'list': return self.set_of_list(p, v)
        raise Unsupported('set(%s)' % v.t)

    b_frozenset = b_set

    def set_of_list(self, p, l):
        r = fresh('elems', SET(l.t.args[0])); y = fresh_z('y', sort_of(l.t.args[0])); i = fresh_z('i', z3.IntSort())
        self.assume(p, ForAll([y], Select(r.z, y) == Exists([i], And(0 <= i, i < list_len(l), Select(list_arr(l), i) == y))))
        return r

    def b_list(self, p, e):
        a0 = e.args[0]
        if isinstance(a0, ast.Call) and isinstance(a0.func, ast.Attribute) and isinstance(a0.func.value, ast.Name) and a0.func.value.id == 'itertools':
            it = self.iterable(p, a0)
            if it[0] != 'set': raise Unsupported('list(itertools...)')
            v = it[1]
        else:
            v = self.ev(p, a0)
        if isinstance(v, Gen): return self.list_of_gen(p, v)
        if v.t.kind == 'list': return v
        if v.t.kind == 'set':       # some duplicate-free enumeration of the set: every order is covered
            stable = (isinstance(a0, ast.Name) and a0.id in p.alias and p.alias[a0.id][0] not in self.c.modifies) or \
                     (isinstance(a0, ast.Attribute) and isinstance(a0.value, ast.Name) and a0.value.id in self.c.params and a0.value.id not in self.c.modifies) or \
                     (isinstance(a0, ast.Name) and a0.id in p.fa)
            if stable and v.t.args[0] == ATOM:
                # assumption A-list-order: enumerating the same, unmodified set object of a parameter again (here or in a callee that receives the
                # same parameter) gives the same order; modelled as a function of the set value
                r = SV(LIST(ATOM), T.listof(v.z))
            else:
                r = fresh('enum', LIST(v.t.args[0]))
            y = fresh_z('y', sort_of(v.t.args[0])); i, j = fresh_z('i', z3.IntSort()), fresh_z('j', z3.IntSort())
            self.assume(p, list_len(r) == S.card(v).z)
            self.assume(p, ForAll([y], Select(v.z, y) == Exists([i], And(0 <= i, i < list_len(r), Select(list_arr(r), i) == y))))
            self.assume(p, ForAll([i, j], Implies(And(0 <= i, i < j, j < list_len(r)), Select(list_arr(r), i) != Select(list_arr(r), j))))
            self.elem_sets[str(r.z)] = v
            return r
        raise Unsupported('list(%s)' % v.t)

    def b_the(self, p, e):
        """spec only: the value held by an Optional (meaningful under `x is not None`)"""
        v = self.ev(p, e.args[0])
        if not self.spec_mode or v.t.kind != 'opt': raise Unsupported('the() of %s' % v.t)
        return SV(v.t.args[0], parts(v.t)[3](v.z))

    def b_trig(self, p, e):
        """spec only: trig(body, t1, t2, ...) is body; the terms t1.. become the instantiation trigger (a multi-pattern) of the
        enclosing all(...).  Triggers steer the solver's search and nothing else: a bad trigger loses proofs, never soundness"""
        if not self.spec_mode or not self.trig_acc: raise Unsupported('trig outside all(...)')
        self.trig_acc[-1].append([self.ev(p, a).z for a in e.args[1:]])
        return self.ev(p, e.args[0])

    trig_acc = None

    def quant(self, p, e, universal):
        if self.trig_acc is None: self.trig_acc = []
        self.trig_acc.append([])
        try: g = self.ev(p, e.args[0])
        finally: trigs = self.trig_acc.pop()
        if isinstance(g, Gen):
            grd = And(g.guards) if g.guards else BoolVal(True)
            body = self.truth(g.elem)
            if universal and trigs and g.vars:
                pats = [z3.MultiPattern(*t) if len(t) > 1 else t[0] for t in trigs]
                return SV(BOOL, ForAll(g.vars, Implies(grd, body), patterns=pats))
            if universal: return SV(BOOL, ForAll(g.vars, Implies(grd, body)) if g.vars else Implies(grd, body))
            return SV(BOOL, Exists(g.vars, And(grd, body)) if g.vars else And(grd, body))
        if g.t.kind == 'list' and g.t.args[0] == BOOL:
            i = fresh_z('i', z3.IntSort()); inr = And(0 <= i, i < list_len(g)); b = Select(list_arr(g), i)
            return SV(BOOL, ForAll([i], Implies(inr, b)) if universal else Exists([i], And(inr, b)))
        raise Unsupported('any/all over %s' % g.t)

    def b_all(self, p, e): return self.quant(p, e, True)
    def b_any(self, p, e): return self.quant(p, e, False)

    def b_next(self, p, e):
        a = e.args[0]
        if isinstance(a, ast.Call) and isinstance(a.func, ast.Name) and a.func.id == 'iter':
            s = self.ev(p, a.args[0])
            if s.t.kind == 'set':
                self.oblig(p, 'next-nonempty:%d' % e.lineno, 'safety', S.nonempty(s), e.lineno)
                x = fresh('elem', s.t.args[0]); self.assume(p, Select(s.z, x.z)); return x
        g = self.ev(p, a)
        if isinstance(g, Gen):
            if self.has_bound_vars(): raise Unsupported('next() under binders')
            grd = And(g.guards) if g.guards else BoolVal(True)
            if g.ordered_list != ('supply',):      # an unbounded supply is assumed not to run out (A-char-supply)
                self.oblig(p, 'next-nonempty:%d' % e.lineno, 'safety', Exists(g.vars, grd) if g.vars else grd, e.lineno)
            # arbitrary element satisfying the guard (the first one in CPython; every choice is covered)
            ren = [fresh_z('nx', v.sort()) for v in g.vars]
            sub = list(zip(g.vars, ren))
            self.assume(p, z3.substitute(grd, *sub))
            return SV(g.elem.t, z3.substitute(g.elem.z, *sub))
        raise Unsupported('next')

    def b_set_element(self, p, e):
        s = self.ev(p, e.args[0])
        self.oblig(p, 'next-nonempty:%d' % e.lineno, 'safety', S.nonempty(s), e.lineno)
        x = fresh('elem', s.t.args[0]); self.assume(p, Select(s.z, x.z)); return x

    def b_isinstance(self, p, e):
        st = self.static_isinstance(p, e)
        if st is not None: return SV(BOOL, BoolVal(st))
        v = self.ev(p, e.args[0]); cls = e.args[1]
        names = [c.id for c in cls.elts] if isinstance(cls, ast.Tuple) else [cls.id]
        if v.t == REGEXP: return SV(BOOL, Or([RX_TEST[n](v.z) for n in names]))
        if v.t == ATOM and names == ['Variable']: return SV(BOOL, T.vtag(v.z))               # grammar symbols: assumption A-tags
        if v.t == ATOM and names == ['Terminal']: return SV(BOOL, Not(T.vtag(v.z)))
        raise Unsupported('isinstance on %s' % v.t)

    def b_max(self, p, e):
        a, b = [self.ev(p, x) for x in e.args]; return SV(INT, If(a.z >= b.z, a.z, b.z))

    def b_min(self, p, e):
        a, b = [self.ev(p, x) for x in e.args]; return SV(INT, If(a.z <= b.z, a.z, b.z))

    def b_dict(self, p, e):
        if len(e.args) == 1:
            v = self.ev(p, e.args[0])
            if v.t.kind == 'map': return SV(MAP(v.t.args[0], v.t.args[1]), v.z) if v.t.args[2] is None else v
        raise Unsupported('dict(...)')

    def b_print_state_set(self, p, e):
        v = self.ev(p, e.args[0])
        if v.t != SET(ATOM): raise Unsupported('print_state_set of %s' % v.t)
        return SV(ATOM, T.name_of_set(v.z))

    def b_print(self, p, e): return SV(NONE, parts(NONE)[1])
    def b_log(self, p, e): return SV(NONE, parts(NONE)[1])     # gambatools.logging.log: no effect on results (arguments are pure printers)

    def b_str(self, p, e): return fresh('text', TEXT)

    # --- methods
    def method(self, p, f, e):
        name = f.attr
        if name == 'format':
            return self.format_call(p, f, e)
        if name == 'join' and isinstance(f.value, ast.Constant) and f.value.value == '' and len(e.args) == 1:
            v = self.ev(p, e.args[0])
            if not isinstance(v, Gen) and v.t == WORD: return v
            raise Unsupported("''.join of %s" % (v.t if not isinstance(v, Gen) else 'generator'))
        if name in ('add', 'append') and isinstance(f.value, ast.Call) and isinstance(f.value.func, ast.Attribute) and f.value.func.attr == 'setdefault' \
                and len(f.value.args) == 2 and self.is_empty_literal(f.value.args[1]) and len(e.args) == 1:
            # m.setdefault(k, set()).add(x): the entry of k (the empty container if there was none) gains x; k becomes a key
            mexpr = f.value.func.value; m = self.ev(p, mexpr)
            if m.t.kind == 'map' and m.t.args[1].kind == 'set' and name == 'add':
                k = self.coerce(self.ev(p, f.value.args[0]), m.t.args[0]); x = self.coerce(self.ev(p, e.args[0]), m.t.args[1].args[0])
                cur = SV(m.t.args[1], If(Select(map_dom(m), k.z), Select(map_val(m), k.z), empty_set(m.t.args[1].args[0]).z))
                self.store(p, mexpr, mk_map(m.t, Store(map_dom(m), k.z, BoolVal(True)), Store(map_val(m), k.z, set_add(cur, x).z)))
                return SV(NONE, parts(NONE)[1])
            raise Unsupported('setdefault(...).%s on %s' % (name, m.t))
        if name == 'split' and not e.args and isinstance(f.value, ast.Call) and isinstance(f.value.func, ast.Attribute) and f.value.func.attr == 'strip' and not f.value.args:
            # line.strip().split(): the blank-separated tokens of a line, an uninterpreted function of the line (assumption A-tokens)
            ln = self.ev(p, f.value.func.value)
            if ln.t == ATOM:
                r = SV(LIST(ATOM), T.tokens(ln.z)); p.pc += self.type_inv(r); return r
        o = self.ev(p, f.value)
        args = [self.ev(p, a) if not self.is_empty_literal(a) else None for a in e.args]
        if o.t == ATOM and name == 'startswith' and len(args) == 1 and args[0].t == ATOM:
            return SV(BOOL, T.str_startswith(o.z, args[0].z))       # uninterpreted relation on opaque strings
        if o.t.kind == 'set':
            if name == 'copy': return o
            if name == 'isdisjoint': return SV(BOOL, S.disjoint(o, args[0]))
            if name == 'issubset': return SV(BOOL, S.subset(o, args[0]))
            if name == 'union' and len(args) == 1 and args[0].t == o.t: return S.union(o, args[0])
            if name in ('add', 'remove', 'discard', 'pop', 'clear', 'update'): return self.mutate(p, f.value, o, name, args, e)
        if o.t.kind == 'map':
            if name == 'get':
                k = self.coerce(args[0], o.t.args[0])
                if len(e.args) < 2: raise Unsupported('dict.get without default')
                d = self.coerce(self.ev_hint(p, e.args[1], o.t.args[1]), o.t.args[1])
                return SV(o.t.args[1], If(Select(map_dom(o), k.z), Select(map_val(o), k.z), d.z))
            if name == 'copy': return o
            if name in ('clear', 'update', 'pop'): return self.mutate(p, f.value, o, name, args, e)
        if o.t.kind == 'list':
            if name == 'copy': return o
            if name in ('append', 'pop', 'insert', 'extend', 'clear'): return self.mutate(p, f.value, o, name, args, e)
            if name == 'index':
                x = args[0]; i = fresh_z('idx', z3.IntSort()); j = fresh_z('j', z3.IntSort())
                self.oblig(p, 'index-present:%d' % e.lineno, 'safety', self.member(p, x, o, e), e.lineno)
                self.assume(p, And(0 <= i, i < list_len(o), self.equal(SV(o.t.args[0], Select(list_arr(o), i)), x),
                                   ForAll([j], Implies(And(0 <= j, j < i), Not(self.equal(SV(o.t.args[0], Select(list_arr(o), j)), x))))))
                return SV(INT, i)
        if o.t.kind == 'rec':
            cname = {'IdGen': 'IdentifierGenerator', 'RxGen': 'RegexpToNFAGenerator'}.get(o.t.args[0], o.t.args[0])
            cs = self.reg.variants('%s.%s' % (cname, name))
            if cs: return self.call_contract(p, cs, e, self_arg=o, self_expr=f.value)
        if o.t == WORD:
            if name == 'startswith': return SV(BOOL, T.isprefix(args[0].z, o.z))
        if o.t == ATOM and name == 'upper':
            return SV(ATOM, T.upper_name(o.z))
        raise Unsupported('method %s on %s (line %d)' % (name, o.t, e.lineno))

    def format_call(self, p, f, e):
        if isinstance(f.value, ast.Constant) and isinstance(f.value.value, str):
            fmt = f.value.value
            args = [self.ev(p, a) for a in e.args]
            nf = T.NAMING.get(fmt)
            if nf is not None and all(a.t in (ATOM, INT) for a in args):
                return SV(ATOM, nf(*[a.z for a in args]))
            mf = T.MESSAGES.get(fmt)          # feedback messages with one word argument: an uninterpreted function of the word (injectivity is not assumed)
            if mf is not None and len(args) == 1 and args[0].t in (WORD, ATOM):
                return SV(TEXT, mf(self.coerce(args[0], WORD).z))
        return fresh('text', TEXT)

    def e_JoinedStr(self, p, e): return fresh('text', TEXT)

    def mutate(self, p, target_expr, o, name, args, e):
        """in-place container operation on a local (value semantics: rebinding; aliasing is checked by gvc.effects)"""
        if o.t.kind == 'set':
            et = o.t.args[0]
            if name == 'add': nv = set_add(o, self.coerce(args[0], et)); res = None
            elif name == 'discard': nv = set_remove(o, self.coerce(args[0], et)); res = None
            elif name == 'remove':
                x = self.coerce(args[0], et)
                self.oblig(p, 'remove-present:%d' % e.lineno, 'safety', Select(o.z, x.z), e.lineno)
                nv = set_remove(o, x); res = None
            elif name == 'pop':
                self.oblig(p, 'pop-nonempty:%d' % e.lineno, 'safety', S.nonempty(o), e.lineno)
                x = fresh('pop', et); self.assume(p, Select(o.z, x.z)); nv = set_remove(o, x); res = x
            elif name == 'clear': nv = empty_set(et); res = None
            elif name == 'update': nv = S.union(o, args[0]); res = None
        elif o.t.kind == 'list':
            et = o.t.args[0]; n = list_len(o); arr = list_arr(o)
            if name == 'append':
                # the new array is a fresh constant related to the old one by a frame fact with triggers on BOTH arrays, so that
                # facts about old cells (arr[i]) instantiate quantified goals about the new list and vice versa
                av = self.coerce(args[0], et).z; arr2 = fresh_z('arr', arr.sort()); i_ = fresh_z('i', z3.IntSort())
                try:
                    frame_ = ForAll([i_], Implies(i_ != n, Select(arr2, i_) == Select(arr, i_)), patterns=[Select(arr, i_), Select(arr2, i_)])
                    p.pc.append(Select(arr2, n) == av); p.pc.append(frame_)
                    nv = mk_list(o.t, n + 1, arr2)
                except z3.Z3Exception:      # the old array is not a pattern-able term (e.g. an if-then-else from a defaultdict lookup)
                    nv = mk_list(o.t, n + 1, Store(arr, n, av))
                res = None
            elif name == 'pop' and not args:
                self.oblig(p, 'pop-nonempty:%d' % e.lineno, 'safety', n > 0, e.lineno)
                nv = mk_list(o.t, n - 1, arr); res = SV(et, Select(arr, n - 1))
            elif name == 'clear': nv = mk_list(o.t, IntVal(0), arr); res = None
            elif name == 'insert' and len(args) == 2 and args[0].t == INT:
                # list.insert(k, x) for an index inside the list (Python clamps other indices; that case is not modelled and made an obligation)
                k = args[0].z; av = self.coerce(args[1], et).z; arr2 = fresh_z('arr', arr.sort()); i_ = fresh_z('i', z3.IntSort())
                self.oblig(p, 'insert-index:%d' % e.lineno, 'safety', And(0 <= k, k <= n), e.lineno)
                p.pc.append(Select(arr2, k) == av)
                p.pc.append(ForAll([i_], Implies(i_ < k, Select(arr2, i_) == Select(arr, i_)), patterns=[Select(arr2, i_)]))
                p.pc.append(ForAll([i_], Implies(i_ > k, Select(arr2, i_) == Select(arr, i_ - 1)), patterns=[Select(arr2, i_)]))
                nv = mk_list(o.t, n + 1, arr2); res = None
            else: raise Unsupported('list.%s' % name)
        elif o.t.kind == 'map':
            if name == 'clear':
                nv = mk_map(o.t, z3.K(sort_of(o.t.args[0]), BoolVal(False)), map_val(o)); res = None
            elif name == 'update' and args[0].t.args[:2] == o.t.args[:2]:
                src = args[0]; nv = fresh('upd', o.t); k = fresh_z('k', sort_of(o.t.args[0]))
                self.assume(p, ForAll([k], Select(map_dom(nv), k) == Or(Select(map_dom(o), k), Select(map_dom(src), k))))
                self.assume(p, ForAll([k], Select(map_val(nv), k) == If(Select(map_dom(src), k), Select(map_val(src), k), Select(map_val(o), k))))
                res = None
            else: raise Unsupported('dict.%s' % name)
        else:
            raise Unsupported('mutation of %s' % o.t)
        self.store(p, target_expr, nv)
        return res if res is not None else SV(NONE, parts(NONE)[1])

    def store(self, p, target, v):
        """assignment to a place: name | name.field | name[key] | alias"""
        if isinstance(target, ast.Name):
            n = target.id
            if n in p.alias:
                base, fld = p.alias[n]
                bt = ast.Name(id=base, ctx=ast.Load())
                self.store(p, bt, rec_set(self.lookup(p, base), fld, v)); return
            if n in p.env and not isinstance(p.env[n], SV): raise Unsupported('assignment to function name')
            if n in p.env and p.env[n].t != v.t: v = self.coerce_assign(v, p.env[n].t)
            p.env[n] = v; return
        if isinstance(target, ast.Attribute):
            o = self.ev(p, target.value)
            if o.t.kind == 'rec':
                self.store(p, target.value, rec_set(o, target.attr, self.coerce(v, RECORDS[o.t.args[0]][target.attr]))); return
        if isinstance(target, ast.Subscript):
            o = self.ev(p, target.value)
            if o.t.kind == 'map':
                k = self.coerce(self.ev(p, target.slice), o.t.args[0]); v = self.coerce(v, o.t.args[1])
                self.store(p, target.value, mk_map(o.t, Store(map_dom(o), k.z, BoolVal(True)), Store(map_val(o), k.z, v.z))); return
            if o.t.kind == 'list':
                i = self.ev(p, target.slice)
                self.oblig(p, 'index:%d' % target.lineno, 'safety', And(0 <= i.z, i.z < list_len(o)), target.lineno)
                self.store(p, target.value, mk_list(o.t, list_len(o), Store(list_arr(o), i.z, self.coerce(v, o.t.args[0]).z))); return
        raise Unsupported('assignment target (line %d)' % target.lineno)

    def coerce_assign(self, v, t):
        try: return self.coerce(v, t)
        except Unsupported: return v     # rebinding a local to a new type is allowed

    # --- constructors of the record classes: the class invariant asserted by _check_validity becomes an obligation
    def construct(self, p, cls, e):
        flds = list(RECORDS[cls])
        vals = {}
        for f_, a in zip(flds, e.args): vals[f_] = self.ev_hint(p, a, RECORDS[cls][f_])
        for kw in e.keywords:
            if kw.arg in flds: vals[kw.arg] = self.ev_hint(p, kw.value, RECORDS[cls][kw.arg])
        check = True
        for kw in e.keywords:
            if kw.arg == 'check_validity' and isinstance(kw.value, ast.Constant): check = bool(kw.value.value)
        if 'epsilon' in flds and 'epsilon' not in vals: vals['epsilon'] = SV(ATOM, T.EMPTY_STRING_ATOM)
        if cls == 'TM' and 'blank' not in vals: vals['blank'] = self.atom_const('_')
        if cls == 'IdGen' and 'index' not in vals: vals['index'] = SV(INT, IntVal(0))       # default checked in the contract of IdentifierGenerator.__init__
        for f_ in flds:
            if f_ not in vals: raise Unsupported('constructor %s: missing %s' % (cls, f_))
            vals[f_] = self.coerce(vals[f_], RECORDS[cls][f_]) if vals[f_].t != RECORDS[cls][f_] else vals[f_]
        r = mk_rec(cls, **vals)
        wf = T.SPEC.get(cls.lower() + '_wf')
        if check and wf is not None:
            g = wf(self, r).z
            conj = g.children() if z3.is_and(g) else [g]
            for i, cj in enumerate(conj):
                if self.c.raises is not None and not self.spec_mode and not self.has_bound_vars() and self.c.raise_witness.get('ctor#%d' % (i + 1), 0) is not None:
                    # a failing validity assertion of the constructor is an exception like any other: justified by the `raises` condition
                    self.oblig(p, 'ctor-%s-valid-or-raise-justified#%d:%d' % (cls, i + 1, e.lineno), 'post', Or(cj, self.raises_cond(p, 'ctor#%d' % (i + 1))), e.lineno)
                    p.pc.append(cj)
                else:
                    self.oblig(p, 'ctor-%s-valid#%d:%d' % (cls, i + 1, e.lineno), 'safety', cj, e.lineno)
        return r

    # --- contract calls
    def call_contract(self, p, cs, e, self_arg=None, self_expr=None):
        if len(cs) > 1:       # typed entry points of one function: pick the variant whose first differing parameter type matches
            pos_vals = [self.ev(p, a) if not self.is_empty_literal(a) else None for a in e.args]
            off = 1 if self_arg is not None else 0
            ok = [c for c in cs if all(v is None or isinstance(v, Gen) or v.t == c.param_types[list(c.params)[i + off]] or self.coercible(v.t, c.param_types[list(c.params)[i + off]]) for i, v in enumerate(pos_vals))]
            if len(ok) > 1:       # an omitted argument selects the variant that has a default for it
                given = set(list(ok[0].params)[off:off + len(pos_vals)]) | {kw.arg for kw in e.keywords} | ({list(ok[0].params)[0]} if off else set())
                ok = [c for c in ok if all(n in given or n in c.defaults for n in c.params)] or ok
            if len(ok) != 1: raise Unsupported('cannot select a contract variant of %s' % cs[0].qualname)
            c = ok[0]
        else:
            c = cs[0]
        names = list(c.params)
        args = {}
        pos = list(e.args)
        if self_arg is not None: args[names[0]] = self_arg; names_rest = names[1:]
        else: names_rest = names
        # arguments are evaluated left to right; a later argument may be a call that enlarges an object shared with an earlier one
        # (see Contract.result_shares): the values already evaluated are kept on a stack so that such a call can re-read them
        cur = []; self.arg_stack.append(cur)
        try:
            for n, a in zip(names_rest, pos): cur.append([n, self.ev_hint(p, a, c.param_types[n])])
            for kw in e.keywords: cur.append([kw.arg, self.ev_hint(p, kw.value, c.param_types[kw.arg])])
        finally:
            self.arg_stack.pop()
        for n, v in cur: args[n] = v
        for n in names:
            if n not in args:
                if n in c.defaults: args[n] = self.ev_spec_in(p, c.defaults[n], {})
                else: raise Unsupported('call %s: missing argument %s' % (c.qualname, n))
            args[n] = self.coerce(args[n], c.param_types[n])
        return self.apply_contract(p, c, args, e, ([self_expr] if self_arg is not None else []) + [a for a in pos])

    @staticmethod
    def is_empty_literal(n):
        if isinstance(n, ast.Call) and isinstance(n.func, ast.Name) and n.func.id in ('set', 'dict', 'list', 'defaultdict', 'frozenset'):
            if n.func.id == 'defaultdict': return True
            return not n.args or (isinstance(n.args[0], ast.List) and not n.args[0].elts)
        if isinstance(n, ast.Dict) and not n.keys: return True
        if isinstance(n, ast.List) and not n.elts: return True
        return False

    def coercible(self, a, b):
        return a == b or (b.kind == 'opt' and (a == b.args[0] or a == NONE)) or (b == WORD and a == ATOM)

    def ev_hint(self, p, e, t):
        """evaluate e where a value of type t is expected (resolves empty literals)"""
        if t is not None and self.is_empty_literal(e):
            v = self.empty_of(t, e)
            if v is not None: return v
        if t is not None and t.kind == 'set' and isinstance(e, ast.Set):
            return set_lit(t.args[0], [self.coerce(self.ev(p, x), t.args[0]) for x in e.elts])
        if t is not None and isinstance(e, ast.IfExp) and self.static_isinstance(p, e.test) is None:
            c = self.truth(self.ev(p, e.test))
            a = self.under(p, c, lambda: self.ev_hint(p, e.body, t)); b = self.under(p, Not(c), lambda: self.ev_hint(p, e.orelse, t))
            a, b = self.unify(a, b)
            return SV(a.t, If(c, a.z, b.z))
        if t is not None and t.kind == 'list' and isinstance(e, ast.ListComp) and self.is_empty_literal(e.elt):
            self.elt_hint = t.args[0]         # [set() for ...]: the declared element type types the empty literal
            try: return self.list_of_gen(p, self.gen_of(p, e))
            finally: self.elt_hint = None
        v = self.ev(p, e)
        if isinstance(v, Gen):
            if t is not None and t.kind == 'set': return self.set_of_gen(p, v)
            if t is not None and t.kind == 'list': return self.list_of_gen(p, v)
            raise Unsupported('generator where %s expected' % t)
        return v

    def ev_spec_in(self, p, src, env, ghost=None):
        q = Path(); q.env = env; q.pc = p.pc; q.old = env; q.ghost = ghost or {}
        saved = self.spec_mode; self.spec_mode = True
        try: return self.ev(q, ast.parse(src, mode='eval').body)
        finally: self.spec_mode = saved

    def apply_contract(self, p, c, args, e, arg_exprs):
        line = e.lineno
        # 1. preconditions
        for i, r in enumerate(c.requires):
            self.oblig(p, 'call-%s-pre#%d:%d' % (c.name, i + 1, line), 'pre', self.truth(self.ev_spec_in(p, r, dict(args))), line)
        # 2. termination of recursion
        if c is self.c and c.decreases:
            cur = [self.ev_spec_in(p, d, dict(p.old)).z for d in c.decreases]
            new = [self.ev_spec_in(p, d, dict(args)).z for d in c.decreases]
            self.oblig(p, 'call-%s-decreases:%d' % (c.name, line), 'decreases', lex_less(new, cur), line)
        # 2b. exceptional exit of the callee: it raises exactly when its `raises` condition holds; the exception propagates (no handler in the
        #     verified subset), so it must be justified by the caller's own `raises` condition; the path continues with the normal return
        if c.raises is not None:
            rc = self.truth(self.ev_spec_in(p, c.raises, dict(args)))
            if self.c.raises is not None:
                self.oblig(p, 'call-%s-raise-justified:%d' % (c.name, line), 'post', Implies(rc, self.raises_cond(p, c.name)), line)
            else:
                self.oblig(p, 'call-%s-does-not-raise:%d' % (c.name, line), 'safety', Not(rc), line)
            self.assume(p, Not(rc))        # under comprehension binders: for every element (the comprehension evaluates the call for each of them)
        # 3. result and post-state
        if c.pure:
            key = ','.join(args[n].t.key for n in c.params)
            fn = c.result_fn(key, [sort_of(args[n].t) for n in c.params])
            res = SV(c.result_type, fn(*[args[n].z for n in c.params]))
        else:
            if self.has_bound_vars(): raise Unsupported('call of non-pure %s under binders' % c.name)
            res = fresh(c.name + '_res', c.result_type)
        post_env = dict(args)
        old_env = dict(args)
        for n in c.modifies:
            if self.has_bound_vars(): raise Unsupported('mutating call under binders')
            post_env[n] = fresh(n + '_after', args[n].t)
            p.pc += self.type_inv(post_env[n])
        if not self.has_bound_vars(): p.pc += self.type_inv(res)
        q = Path(); q.env = post_env; q.old = old_env; q.pc = p.pc
        for g_, src in c.ghost.items(): q.ghost[g_] = self.ev_spec_in(p, src, dict(old_env))
        saved_res, saved_mode = self.result, self.spec_mode
        self.result, self.spec_mode = res, True
        try:
            for en in c.ensures:
                self.assume(p, self.truth(self.ev(q, ast.parse(en, mode='eval').body)))
        finally:
            self.result, self.spec_mode = saved_res, saved_mode
        # 4. write back modified arguments
        for n in c.modifies:
            idx = list(c.params).index(n) - (1 if (c.is_method and len(arg_exprs) < len(c.params)) else 0)
            if arg_exprs[idx] is not None and not isinstance(arg_exprs[idx], ast.Call):      # a temporary (the value of a call) has no place to write back to
                self.store(p, arg_exprs[idx], post_env[n])
        # 5. shared mutable fields (Contract.result_shares): this call may have enlarged the shared object, so every value obtained earlier
        #    from such a call (local variables and arguments already evaluated) is re-read with a field between its old value and the
        #    current content of the shared place; the new result is marked in turn
        if c.result_shares:
            self.grow_shared(p)
            res.shares = dict(c.result_shares)
        return res

    def grow_shared(self, p):
        def grown(v):
            for fld, place in v.shares.items():
                cur = self.ev(p, ast.parse(place, mode='eval').body)
                oldf = rec_get(v, fld); nf = fresh('grown_' + fld, oldf.t)
                self.assume(p, S.subset(oldf, nf)); self.assume(p, S.subset(nf, S.union(oldf, cur)))
                nv = rec_set(v, fld, nf); nv.shares = v.shares; v = nv
            return v
        for k, v in list(p.env.items()):
            if isinstance(v, SV) and getattr(v, 'shares', None): p.env[k] = grown(v)
        for lst in self.arg_stack:
            for ent in lst:
                if isinstance(ent[1], SV) and getattr(ent[1], 'shares', None): ent[1] = grown(ent[1])

    # ------------------------------------------------------------------ statements
    def run_block(self, paths, stmts):
        for st in stmts:
            nxt = []
            for q in paths: nxt += self.stmt(q, st)
            paths = nxt
        return paths

    def stmt(self, p, st):
        m = getattr(self, 's_' + type(st).__name__, None)
        if m is None: raise Unsupported('statement %s (line %d)' % (type(st).__name__, st.lineno))
        return m(p, st)

    def s_Pass(self, p, st): return [p]
    def s_Import(self, p, st): return [p]
    def s_ImportFrom(self, p, st): return [p]

    def s_FunctionDef(self, p, st):
        self.local_fns[st.name] = st; return [p]

    def s_Expr(self, p, st):
        if isinstance(st.value, ast.Constant): return [p]
        self.ev(p, st.value); return [p]

    def declared(self, name):
        t = self.c.types.get(name)
        return parse_type(t) if t else None

    def s_Assign(self, p, st):
        if isinstance(st.value, ast.Lambda) and isinstance(st.targets[0], ast.Name):
            p.env[st.targets[0].id] = st.value; return [p]
        v = self.ev_typed(p, st.value, st.targets[0])
        for tg in st.targets: self.assign(p, tg, v, st.value)
        return [p]

    def ev_typed(self, p, value, target):
        """evaluate with the declared type of the target as a hint (empty literals, defaultdict)"""
        dt = self.declared(target.id) if isinstance(target, ast.Name) else None
        if isinstance(target, ast.Attribute):       # a field of a record object: the field type types an empty literal
            try:
                o_ = self.ev(p, target.value)
                if o_.t.kind == 'rec': dt = RECORDS[o_.t.args[0]].get(target.attr)
            except Unsupported:
                dt = None
        if dt == NONE: dt = None          # a parameter typed None in this entry point may be rebound to a real object
        if dt is not None:
            ev = self.empty_of(dt, value)
            if ev is not None: return ev
        v = self.ev_hint(p, value, dt) if dt is not None else self.ev(p, value)
        if isinstance(v, Gen): raise Unsupported('generator assigned to a variable')
        if dt is not None and v.t == NONE and dt.kind != 'opt': return v      # `x = None` placeholder before the real assignment
        if dt is not None and v.t != dt: v = self.coerce(v, dt)
        return v

    def empty_of(self, t, value):
        """`set()`, `set([])`, `{}`, `[]`, `defaultdict(...)`, `dict()` with a declared type"""
        if not self.is_empty_literal(value): return None
        if t == WORD and isinstance(value, ast.List): return SV(WORD, Word.nil)
        if t.kind == 'set': return empty_set(t.args[0])
        if t.kind == 'map': return mk_map(t, z3.K(sort_of(t.args[0]), BoolVal(False)), fresh_z('val0', z3.ArraySort(sort_of(t.args[0]), sort_of(t.args[1]))))
        if t.kind == 'list': return mk_list(t, IntVal(0), fresh_z('arr0', z3.ArraySort(z3.IntSort(), sort_of(t.args[0]))))
        return None

    def assign(self, p, tg, v, value_expr=None):
        if isinstance(tg, ast.Name):
            # alias of a field of a parameter that the contract allows to be modified
            if value_expr is not None and isinstance(value_expr, ast.Attribute) and isinstance(value_expr.value, ast.Name) \
                    and value_expr.value.id in self.c.modifies and v.t.kind in ('set', 'map', 'list', 'rec'):
                p.alias[tg.id] = (value_expr.value.id, value_expr.attr); p.env.pop(tg.id, None); return
            p.alias.pop(tg.id, None)
            if value_expr is not None and isinstance(value_expr, ast.Attribute) and isinstance(value_expr.value, ast.Name) \
                    and value_expr.value.id in self.c.params and value_expr.value.id not in self.c.modifies and value_expr.value.id not in assigned_names(self.fn.body):
                p.fa[tg.id] = (value_expr.value.id, value_expr.attr)
            else:
                p.fa.pop(tg.id, None)
            p.env[tg.id] = v; return
        if isinstance(tg, (ast.Tuple, ast.List)) and v.t == ATOM:
            # a, b, c, d = label: the characters of an opaque string; ValueError unless it has exactly that many
            self.partial_op(p, 'unpack', T.strlen(v.z) == len(tg.elts), tg.lineno)
            for i, t in enumerate(tg.elts): self.assign(p, t, SV(ATOM, T.char_at(v.z, IntVal(i))))
            return
        if isinstance(tg, (ast.Tuple, ast.List)):
            if v.t.kind != 'tup' or len(v.t.args) != len(tg.elts): raise Unsupported('unpacking %s' % v.t)
            for i, t in enumerate(tg.elts): self.assign(p, t, tup_get(v, i))
            return
        self.store(p, tg, v)

    def s_AnnAssign(self, p, st):
        if st.value is None: return [p]
        v = self.ev_typed(p, st.value, st.target)
        self.assign(p, st.target, v, st.value); return [p]

    def s_AugAssign(self, p, st):
        cur = self.ev(p, st.target); rhs = self.ev(p, st.value); op = st.op
        if cur.t == INT:
            nv = SV(INT, cur.z + rhs.z if isinstance(op, ast.Add) else cur.z - rhs.z)
        elif cur.t.kind == 'set':
            nv = {ast.BitOr: S.union, ast.BitAnd: S.inter, ast.Sub: S.diff}[type(op)](cur, rhs)
        else:
            raise Unsupported('augmented assignment on %s' % cur.t)
        self.store(p, st.target, nv); return [p]

    def s_Assert(self, p, st):
        c = self.truth(self.ev(p, st.test))
        if self.c.raises is not None:       # a failing assertion is an exception: justified by the `raises` condition, the path continues with the assertion true
            self.oblig(p, 'assert-or-raise-justified:%d' % st.lineno, 'post', Or(c, self.raises_cond(p)), st.lineno)
        else:
            self.oblig(p, 'assert:%d' % st.lineno, 'safety', c, st.lineno)
        p.pc.append(c); return [p]

    def raises_cond(self, p, site=None):
        """the exceptional postcondition of the function under verification, over its entry state (for a site with a declared witness:
        the disjunct that justifies it)"""
        src = self.c.raises
        if site is not None and site in self.c.raise_witness: src = self.c.raises_parts[self.c.raise_witness[site]]
        return self.truth(self.ev_spec_in(p, src, dict(p.old), ghost=dict(p.ghost)))

    def s_Raise(self, p, st):
        if self.c.raises is not None:       # the function may raise, exactly when its `raises` condition holds on entry
            rs = sorted((n.lineno, n.col_offset) for n in ast.walk(self.fn) if isinstance(n, ast.Raise))
            self.oblig(p, 'raise-justified:%d' % st.lineno, 'post', self.raises_cond(p, 'raise#%d' % (rs.index((st.lineno, st.col_offset)) + 1)), st.lineno)
            return []
        self.oblig(p, 'raise-unreachable:%d' % st.lineno, 'safety', BoolVal(False), st.lineno)
        return []

    def s_If(self, p, st):
        si = self.static_isinstance(p, st.test)
        if si is not None: return self.run_block([p], st.body if si else st.orelse)
        c = self.truth(self.ev(p, st.test))
        sc = z3.simplify(c)
        if z3.is_true(sc): return self.run_block([p], st.body)          # statically decided by the declared types
        if z3.is_false(sc): return self.run_block([p], st.orelse)
        if any(h.eq(Not(c)) or h.eq(z3.simplify(Not(c))) for h in p.pc): return self.run_block([p], st.orelse)      # decided by a precondition
        if any(h.eq(c) for h in p.pc): return self.run_block([p], st.body)
        a = p.clone(); a.pc.append(c)
        b = p.clone(); b.pc.append(Not(c))
        return self.run_block([a], st.body) + self.run_block([b], st.orelse)

    def s_Return(self, p, st):
        pra = self.c.pre_return_asserts
        if isinstance(pra, dict):
            rets = sorted((n.lineno, n.col_offset) for n in ast.walk(self.fn) if isinstance(n, ast.Return))
            k = rets.index((st.lineno, st.col_offset)) + 1
            pra = list(pra.get(k, [])) + (list(pra.get('last', [])) if k == len(rets) else [])
        for i, a_ in enumerate(pra):
            g = self.spec(p, a_)
            self.oblig(p, 'assert-before-return#%d@%d' % (i + 1, st.lineno), 'assert', g, st.lineno)
            p.pc.append(g)
        rt_ = self.c.result_type
        if st.value is not None and rt_ is not None and rt_.kind in ('list', 'set', 'map') and (self.is_empty_literal(st.value) or isinstance(st.value, ast.List)):
            v = self.empty_of(rt_, st.value) if self.is_empty_literal(st.value) else self.ev_hint(p, st.value, rt_)      # the declared result type types the literal
        else:
            v = self.ev(p, st.value) if st.value is not None else SV(NONE, parts(NONE)[1])
        if isinstance(v, Gen): raise Unsupported('returning a generator')
        self.post(p, v, st.lineno); return []

    def s_Break(self, p, st):
        self.loop_stack[-1]['breaks'].append(p); return []

    def s_Continue(self, p, st):
        self.loop_stack[-1]['continues'].append(p); return []

    def post(self, p, v, line):
        rt = self.c.result_type
        if rt is not None and v.t == NONE and rt != NONE and rt.kind != 'opt':
            # `return None` where a value is required: the contract says this path is infeasible
            self.oblig(p, 'return-none-unreachable@%d' % line, 'safety', BoolVal(False), line); return
        if rt is not None: v = self.coerce(v, rt)
        if self.c.raises is not None:
            for k_, part in enumerate(self.c.raises_parts):
                self.oblig(p, 'return-only-if-not-raises#%d@%d' % (k_ + 1, line), 'post', Not(self.truth(self.ev_spec_in(p, part, dict(p.old), ghost=dict(p.ghost)))), line)
        saved_res, saved_mode = self.result, self.spec_mode
        self.result, self.spec_mode = v, True
        try:
            for i, a_ in enumerate(self.c.asserts):
                g = self.truth(self.ev(p, ast.parse(a_, mode='eval').body))
                self.spec_mode = False
                self.oblig(p, 'assert#%d@%d' % (i + 1, line), 'assert', g, line)
                self.spec_mode = True
                p.pc.append(g)
            for i, en in enumerate(self.c.ensures):
                g = self.truth(self.ev(p, ast.parse(en, mode='eval').body))
                self.spec_mode = False
                self.oblig(p, 'post#%d@%d' % (i + 1, line), 'post', g, line)
                self.spec_mode = True
        finally:
            self.result, self.spec_mode = saved_res, saved_mode

    def spec(self, p, src):
        saved = self.spec_mode; self.spec_mode = True
        try: return self.truth(self.ev(p, ast.parse(src, mode='eval').body))
        finally: self.spec_mode = saved

    def spec_term(self, p, src):
        saved = self.spec_mode; self.spec_mode = True
        try: return self.ev(p, ast.parse(src, mode='eval').body)
        finally: self.spec_mode = saved

    # ------------------------------------------------------------------ loops
    def loop_contract(self, st):
        n = self.loops.index(st) + 1
        L = self.c.loops.get(n)
        if L is None: raise Unsupported('loop %d (line %d) has no invariant' % (n, st.lineno))
        return n, L

    def type_inv(self, v):
        """facts that hold of every Python value of the type: list lengths are non-negative (also for lists in tuples / records)"""
        t = v.t; out = []
        if t.kind == 'list': out.append(list_len(v) >= 0)
        elif t.kind == 'tup':
            for i in range(len(t.args)): out += self.type_inv(tup_get(v, i))
        elif t.kind == 'rec':
            for f_ in RECORDS[t.args[0]]: out += self.type_inv(rec_get(v, f_))
        elif t.kind == 'map' and t.args[1].kind == 'list':       # lists stored as map values
            k = fresh_z('k', sort_of(t.args[0]))
            out.append(ForAll([k], list_len(SV(t.args[1], Select(map_val(v), k))) >= 0))
        return out

    def havoc(self, p, names):
        for nm in names:
            if nm in p.alias:
                base, _ = p.alias[nm]; nm = base
            if nm in p.env and isinstance(p.env[nm], SV):
                p.env[nm] = fresh(nm, p.env[nm].t)
                p.pc += self.type_inv(p.env[nm])

    def check_inv(self, p, n, L, tag):
        for i, inv in enumerate(L['invariant']):
            self.oblig(p, 'loop%d/%s#%d' % (n, tag, i + 1), 'inv-' + tag, self.spec(p, inv))

    def assume_inv(self, p, L):
        for inv in L['invariant']: p.pc.append(self.spec(p, inv))

    def s_While(self, p, st):
        n, L = self.loop_contract(st)
        self.before_loop(p, n, L)
        self.check_inv(p, n, L, 'init')
        mod = assigned_names(st.body)
        h = p.clone(); self.havoc(h, mod); self.assume_inv(h, L)
        for gn, src in (L.get('snapshot') or {}).items():       # ghost constants: the value of a spec term at the head of the iteration
            h.ghost[gn] = self.spec_term(h, src)
        if L.get('decreases'):
            dec0 = [self.spec_term(h, d).z for d in L['decreases']]
        frame = {'breaks': [], 'continues': []}
        self.loop_stack.append(frame)
        b = h.clone(); b.pc.append(self.truth(self.ev(b, st.test)))
        ends = self.run_block([b], st.body) + frame['continues']
        self.loop_stack.pop()
        for q in ends:
            self.check_inv(q, n, L, 'keep')
            for i, hint in enumerate(L.get('body_end', [])):        # hints for the measure at the end of the loop body: proved on that path, then assumed
                g = self.spec(q, hint)
                self.oblig(q, 'loop%d/body-end#%d' % (n, i + 1), 'assert', g)
                q.pc.append(g)
            if L.get('decreases'):
                dec1 = [self.spec_term(q, d).z for d in L['decreases']]
                self.oblig(q, 'loop%d/decreases' % n, 'decreases', lex_less(dec1, dec0))
        x = h.clone()
        always = isinstance(st.test, ast.Constant) and st.test.value is True
        outs = []
        if not always:
            x.pc.append(Not(self.truth(self.ev(x, st.test))))
            for hint in L.get('exit_hints', []): x.pc.append(self.spec(x, hint))
            outs.append(x)
        for q in frame['breaks']:
            for hint in L.get('exit_hints', []): q.pc.append(self.spec(q, hint))
            outs.append(q)
        self.after_loop(outs, n, L)
        return outs

    def after_loop(self, outs, n, L):
        """hints stated just after a loop: each is proved on every path leaving the loop (normal exit and breaks), then assumed"""
        for q in outs:
            for i, hint in enumerate(L.get('after', [])):
                g = self.spec(q, hint)
                self.oblig(q, 'loop%d/after#%d' % (n, i + 1), 'assert', g)
                q.pc.append(g)

    def before_loop(self, p, n, L):
        """hints stated just before a loop: each is proved on the path reaching the loop, then assumed (Dafny-style assert)"""
        for i, hint in enumerate(L.get('before', [])):
            g = self.spec(p, hint)
            self.oblig(p, 'loop%d/before#%d' % (n, i + 1), 'assert', g)
            p.pc.append(g)

    def s_For(self, p, st):
        n, L = self.loop_contract(st)
        self.before_loop(p, n, L)
        for gn, src in (L.get('entry_snapshot') or {}).items():      # ghost constants: the value of a spec term when the loop is entered
            p.ghost[gn] = self.spec_term(p, src)
        it = self.iterable(p, st.iter)
        kind = it[0]
        mod = assigned_names(st.body) | assigned_names([ast.Assign(targets=[st.target], value=ast.Constant(value=0))])
        gname = L.get('ghost')
        frame = {'breaks': [], 'continues': []}

        def setup(kindname, ghost_sv):
            return ghost_sv

        if kind in ('set', 'items', 'keys', 'values'):
            if kind == 'set': dom = it[1]; et = dom.t.args[0]
            else: m = it[1]; et = m.t.args[0]; dom = SV(SET(et), map_dom(m))
            gname = gname or 'done'
            p0 = p.clone(); p0.ghost[gname] = empty_set(et)
            self.check_inv(p0, n, L, 'init')
            h = p.clone(); self.havoc(h, mod)
            done = fresh(gname, SET(et)); h.ghost[gname] = done
            h.pc.append(S.subset(done, dom))
            self.assume_inv(h, L)
            b = h.clone(); x = fresh('it', et)
            b.pc.append(Select(dom.z, x.z)); b.pc.append(Not(Select(done.z, x.z)))
            if kind == 'set': elem = x
            elif kind == 'items': elem = mk_tup(x, SV(m.t.args[1], Select(map_val(m), x.z)))
            elif kind == 'keys': elem = x
            else: elem = SV(m.t.args[1], Select(map_val(m), x.z))
            upd = {}; self.bind_target(b, st.target, elem, upd); b.env.update(upd)
            b.ghost[gname + '_cur'] = x
            self.loop_stack.append(frame)
            ends = self.run_block([b], st.body) + frame['continues']
            self.loop_stack.pop()
            for q in ends:
                q.ghost[gname] = set_add(done, x)
                self.check_inv(q, n, L, 'keep')
            xq = h.clone(); xq.pc.append(ForAll([x.z], Select(done.z, x.z) == Select(dom.z, x.z)))
            xq.ghost[gname] = SV(SET(et), dom.z) if kind != 'set' else dom
            xq.pc.append(done.z == dom.z)
            outs = [xq]
        elif kind in ('range', 'list'):
            gname = gname or (st.target.id if kind == 'range' and isinstance(st.target, ast.Name) else 'idx')
            if kind == 'range': lo, hi = it[1], it[2]
            else: lst = it[1]; lo, hi = IntVal(0), list_len(lst)
            p0 = p.clone(); p0.ghost[gname] = SV(INT, lo)
            if kind == 'range' and isinstance(st.target, ast.Name): p0.env[st.target.id] = SV(INT, lo)
            self.check_inv(p0, n, L, 'init')
            h = p.clone(); self.havoc(h, mod)
            i = fresh(gname, INT); h.ghost[gname] = i
            if kind == 'range' and isinstance(st.target, ast.Name): h.env[st.target.id] = i
            h.pc.append(lo <= i.z); h.pc.append(i.z <= If(hi > lo, hi, lo))
            self.assume_inv(h, L)
            b = h.clone(); b.pc.append(i.z < hi)
            elem = i if kind == 'range' else SV(lst.t.args[0], Select(list_arr(lst), i.z))
            upd = {}; self.bind_target(b, st.target, elem, upd); b.env.update(upd)
            self.loop_stack.append(frame)
            ends = self.run_block([b], st.body) + frame['continues']
            self.loop_stack.pop()
            for q in ends:
                nx = SV(INT, i.z + 1); q.ghost[gname] = nx
                if kind == 'range' and isinstance(st.target, ast.Name): q.env[st.target.id] = nx
                self.check_inv(q, n, L, 'keep')
            xq = h.clone(); xq.pc.append(i.z == If(hi > lo, hi, lo))
            outs = [xq]
        elif kind == 'word':
            w = it[1]; gname = gname or 'prefix'
            p0 = p.clone(); p0.ghost[gname] = SV(WORD, Word.nil)
            self.check_inv(p0, n, L, 'init')
            h = p.clone(); self.havoc(h, mod)
            pf = fresh(gname, WORD); h.ghost[gname] = pf
            h.pc.append(T.isprefix(pf.z, w.z))
            self.assume_inv(h, L)
            b = h.clone(); a = fresh('sym', ATOM)
            b.pc.append(T.isprefix(Word.snoc(pf.z, a.z), w.z))
            upd = {}; self.bind_target(b, st.target, a, upd); b.env.update(upd)
            self.loop_stack.append(frame)
            ends = self.run_block([b], st.body) + frame['continues']
            self.loop_stack.pop()
            for q in ends:
                q.ghost[gname] = SV(WORD, Word.snoc(pf.z, a.z))
                self.check_inv(q, n, L, 'keep')
            xq = h.clone(); xq.pc.append(pf.z == w.z)
            outs = [xq]
        elif kind == 'typed' and len(it) > 3 and it[3] == 'supply':
            # for s in itertools.chain(.., map(chr, itertools.count(k))): every round gets an arbitrary string (over-approximation of the supply);
            # the loop is left by return / break only - that the supply is not exhausted first is assumption A-char-supply, as for next()
            self.check_inv(p, n, L, 'init')
            h = p.clone(); self.havoc(h, mod); self.assume_inv(h, L)
            b = h.clone(); x = fresh('it', it[1])
            upd = {}; self.bind_target(b, st.target, x, upd); b.env.update(upd)
            self.loop_stack.append(frame)
            ends = self.run_block([b], st.body) + frame['continues']
            self.loop_stack.pop()
            for q in ends: self.check_inv(q, n, L, 'keep')
            outs = []
        else:
            raise Unsupported('for over %s' % kind)
        for hint in L.get('exit_hints', []):
            for q in outs: q.pc.append(self.spec(q, hint))
        for q in frame['breaks']:
            for hint in L.get('exit_hints', []): q.pc.append(self.spec(q, hint))
        self.after_loop(outs + frame['breaks'], n, L)
        return outs + frame['breaks']

    # ------------------------------------------------------------------ entry
    def run(self):
        c = self.c
        p = Path()
        for n, t in c.param_types.items():
            p.env[n] = SV(t, z3.Const('v_' + n, sort_of(t)))       # prefixed: plain names may clash with datatype accessors in SMT-LIB
            p.pc += self.type_inv(p.env[n])
        p.old = dict(p.env)
        for g, src in c.ghost.items():
            p.ghost[g] = self.spec_term(p, src)
        for r in c.requires: p.pc.append(self.spec(p, r))
        for r in c.type_invariants: p.pc.append(self.spec(p, r))
        self.entry_pc = list(p.pc)
        body = [s for s in self.fn.body]
        ends = self.run_block([p], body)
        for q in ends:       # falling off the end returns None
            pra = self.c.pre_return_asserts
            for i, a_ in enumerate(pra.get('end', []) if isinstance(pra, dict) else []):      # hints for the implicit return at the end of the body
                g = self.spec(q, a_)
                self.oblig(q, 'assert-at-end#%d' % (i + 1), 'assert', g, self.fn.body[-1].lineno)
                q.pc.append(g)
            self.post(q, SV(NONE, parts(NONE)[1]), self.fn.body[-1].lineno)
        return self.obls


def IntSort_(): return z3.IntSort()


def lex_less(new, cur):
    """lexicographic decrease of tuples of non-negative integer measures"""
    assert len(new) == len(cur)
    ors = []
    for i in range(len(new)):
        ors.append(And([new[j] == cur[j] for j in range(i)] + [new[i] < cur[i], new[i] >= 0]))
    return Or(ors)


def S_pairs(tt, srcs):
    """cartesian product of sets as a set of tuples"""
    r = fresh('prod', SET(tt)); mk = parts(tt)[1]
    xs = [fresh_z('x', sort_of(s.t.args[0])) for s in srcs]
    S.GEN_AXIOMS  # (product facts are path-local: emitted as an assumption by the caller through PRODUCT_FACTS)
    PRODUCT_FACTS.append(ForAll(xs, Select(r.z, mk(*xs)) == And([Select(s.z, x) for s, x in zip(srcs, xs)])))
    return r


PRODUCT_FACTS = []
