from ..contract import contract

M = 'gambatools.cfg_algorithms'
PT = 'Map[Atom,List[List[Atom]],default=list]'
XT = 'Map[(Int,Int),Set[Atom],default=set]'

contract('gambatools.cfg', 'CFG.is_chomsky', {'self': 'CFG'}, returns='Bool', verify=False, ensures=['result == cnf(self)'], theories=[], props=['C07', 'C08'],
         note='list comprehensions over isinstance(symbol, Terminal / Variable): the str-subclass tags are not part of the value model; checked against an independent CNF recogniser by the bounded stand-ins of C07 / C08')

_P_OK = ['all(in_unit(lookup_list(P, A), a) == has_unit(G, A, a, %s) for A in atoms() for a in atoms())',
         'all(in_bin(lookup_list(P, A), B, C) == has_bin(G, A, B, C, %s) for A in atoms() for B in atoms() for C in atoms())']
_CELL = '(A in lookup(X, (i0, j0))) == (A in G.V and der(G, A, w, i0, j0))'
_BASE = [x % 'len(R)' for x in _P_OK] + ['n == wlen(w)', 'V == G.V', 'R == G.R',
         'all(implies(der(G, A, w, i0, j0) and i0 <= j0, A in G.V) for A in atoms() for i0 in ints() for j0 in ints())']
_EXACT = 'all(implies(0 <= i0 and i0 <= j0 and j0 < n and %s, ' + _CELL + ') for A in atoms() for i0 in ints() for j0 in ints())'
_EMPTY = 'all(implies(not (0 <= i0 and i0 <= j0 and j0 < n and %s), lookup(X, (i0, j0)) == set_empty()) for i0 in ints() for j0 in ints())'
_IJ_S = 'all(implies(A in lookup(X, (i, j)), A in G.V and (any(has_bin(G, A, B, C, len(R)) and der(G, B, w, i, k0) and der(G, C, w, k0 + 1, j) for k0 in range(i, k) for B in atoms() for C in atoms()) or %s)) for A in atoms())'
_IJ_C = 'all(implies(has_bin(G, A, B, C, len(R)) and der(G, B, w, i, k0) and der(G, C, w, k0 + 1, j) and i <= k0 and k0 < k and A in G.V, A in lookup(X, (i, j))) for A in atoms() for B in atoms() for C in atoms() for k0 in ints())'
contract(M, 'cfg_cyk_matrix', {'G': 'CFG', 'w': 'Word', 'verbose': 'Bool'}, returns=XT, defaults={'verbose': 'False'},
         requires=['not verbose', 'cnf(G)', 'all(G.R[t].variable in G.V for t in range(len(G.R)))'],
         ensures=['all(implies(0 <= i0 and i0 <= j0 and j0 < wlen(w), (A in lookup(result, (i0, j0))) == (A in G.V and der(G, A, w, i0, j0))) for A in atoms() for i0 in ints() for j0 in ints())'],
         types={'P': PT, 'X': XT},
         loops={1: {'ghost': 'idx', 'invariant': [x % 'idx' for x in _P_OK] + ['n == wlen(w)', 'V == G.V', 'R == G.R']},
                2: {'ghost': 'i', 'invariant': [x % 'len(R)' for x in _P_OK] + ['n == wlen(w)', 'V == G.V', 'R == G.R', '0 <= i',
                    'all(implies(0 <= i0 and i0 < i and i0 == j0, %s) for A in atoms() for i0 in ints() for j0 in ints())' % _CELL,
                    'all(implies(not (0 <= i0 and i0 < i and i0 == j0), lookup(X, (i0, j0)) == set_empty()) for i0 in ints() for j0 in ints())']},
                4: {'ghost': 'm', 'invariant': _BASE + ['1 <= m', _EXACT % 'j0 - i0 < m', _EMPTY % 'j0 - i0 < m']},
                5: {'ghost': 'i', 'invariant': _BASE + ['1 <= m', 'm < n', '0 <= i', _EXACT % '(j0 - i0 < m or (j0 - i0 == m and i0 < i))', _EMPTY % '(j0 - i0 < m or (j0 - i0 == m and i0 < i))']},
                6: {'ghost': 'k', 'invariant': _BASE + ['1 <= m', 'm < n', '0 <= i', 'i < n - m', 'j == i + m', 'i <= k',
                                                      _EXACT % '((j0 - i0 < m or (j0 - i0 == m and i0 < i)) and not (i0 == i and j0 == j))', _EMPTY % '(j0 - i0 < m or (j0 - i0 == m and i0 <= i))',
                                                      _IJ_S % 'False', _IJ_C]},
                7: {'ghost': 'donePairs', 'invariant': _BASE + ['1 <= m', 'm < n', '0 <= i', 'i < n - m', 'j == i + m', 'i <= k', 'k < j',
                                                              _EXACT % '((j0 - i0 < m or (j0 - i0 == m and i0 < i)) and not (i0 == i and j0 == j))', _EMPTY % '(j0 - i0 < m or (j0 - i0 == m and i0 <= i))',
                                                              _IJ_S % 'any(has_bin(G, A, B, C, len(R)) for (B, C) in donePairs)', _IJ_C,
                                                              'all(implies(has_bin(G, A, B, C, len(R)) and (B, C) in donePairs and A in G.V, A in lookup(X, (i, j))) for A in atoms() for B in atoms() for C in atoms())']},
                },
         theories=['word', 'wordx', 'cfg'], props=['C07'])

contract(M, 'cfg_to_chomsky', {'G': 'CFG', 'verbose': 'Bool'}, returns='CFG', defaults={'verbose': 'False'}, verify=False,
         ensures=['cnf(result)'], theories=[], props=['C08'],
         note='the five in-place phases mutate Alternative objects shared between rules (outside the value-semantics subset): bounded stand-in C08')

contract(M, 'cfg_accepts_word', {'G': 'CFG', 'w': 'Word', 'verbose': 'Bool'}, returns='Bool', defaults={'verbose': 'False'}, variant='cnf',
         requires=['not verbose', 'cnf(G)', 'all(G.R[t].variable in G.V for t in range(len(G.R)))', 'G.S in G.V'],
         ensures=['implies(w == nil(), result == any(G.R[t].variable == G.S and len(G.R[t].alternative.symbols) == 0 for t in range(len(G.R))))',
                  'implies(w != nil(), result == der(G, G.S, w, 0, wlen(w) - 1))'],
         theories=['word', 'wordx', 'cfg'], props=['C07'],
         note='entry point for grammars already in Chomsky normal form; for other grammars the answer is that of the converted grammar (cfg_to_chomsky: C08, bounded)')
