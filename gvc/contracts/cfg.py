from ..contract import contract

M = 'gambatools.cfg_algorithms'
PT = 'Map[Atom,List[List[Atom]],default=list]'
XT = 'Map[(Int,Int),Set[Atom],default=set]'

MC = 'gambatools.cfg'
_SY = 'self.symbols'
_ALT_CNF = '(len(%s) == 0 or (len(%s) == 1 and not vtag(%s[0])) or (len(%s) == 2 and vtag(%s[0]) and vtag(%s[1])))'
_VARS = 'all((x in result) == any(%s[k] == x and vtag(x) for k in range(len(%s))) for x in atoms())'
contract(MC, 'Alternative.is_chomsky', {'self': 'Alternative'}, returns='Bool', ensures=['result == ' + _ALT_CNF % ((_SY,) * 6)], theories=[], props=['C07', 'C08', 'C12'],
         note='the shape of a Chomsky alternative: empty, one terminal, or two variables (isinstance tests on the symbols: assumption A-tags)')
contract(MC, 'Alternative.is_variable', {'self': 'Alternative'}, returns='Bool', ensures=['result == (len(%s) == 1 and vtag(%s[0]))' % (_SY, _SY)], theories=[], props=['C12'])
contract(MC, 'Alternative.is_terminal', {'self': 'Alternative'}, returns='Bool', ensures=['result == (len(%s) == 1 and not vtag(%s[0]))' % (_SY, _SY)], theories=[], props=['C12'])
contract(MC, 'Alternative.variables', {'self': 'Alternative'}, returns='Set[Atom]', ensures=[_VARS % (_SY, _SY)], theories=[], props=['C07', 'C08'])
_RS = 'self.alternative.symbols'
contract(MC, 'Rule.is_chomsky', {'self': 'Rule'}, returns='Bool', ensures=['result == ' + _ALT_CNF % ((_RS,) * 6)], theories=[], props=['C07', 'C08', 'C12'])
contract(MC, 'Rule.is_unit_rule', {'self': 'Rule'}, returns='Bool', ensures=['result == (len(%s) == 1 and vtag(%s[0]))' % (_RS, _RS)], theories=[], props=['C12'])
contract(MC, 'Rule.variables', {'self': 'Rule'}, returns='Set[Atom]', ensures=[_VARS % (_RS, _RS)], theories=[], props=['C07', 'C08'])
contract(MC, 'CFG.is_chomsky', {'self': 'CFG'}, returns='Bool', ensures=['result == cnf(self)'], theories=['cfg'], props=['C07', 'C08'],
         note='the Chomsky normal form test against its definition (every rule has the Chomsky shape, the start variable occurs on no right-hand side, only the start variable has an epsilon rule); '
              'isinstance(symbol, Variable / Terminal) is the predicate vtag on symbols (assumption A-tags: every symbol object of a rule is a Variable or a Terminal and its class is determined by its string)')

_P_OK = ['all(in_unit(lookup_list(P, A), a) == has_unit(G, A, a, %s) for A in atoms() for a in atoms())',
         'all(in_bin(lookup_list(P, A), B, C) == has_bin(G, A, B, C, %s) for A in atoms() for B in atoms() for C in atoms())']
_CELL = '(A in lookup(X, (i0, j0))) == (A in G.V and der(G, A, w, i0, j0))'
_BASE = [x % 'len(R)' for x in _P_OK] + ['n == wlen(w)', 'V == G.V', 'R == G.R',
         'all(implies(der(G, A, w, i0, j0) and i0 <= j0, A in G.V) for A in atoms() for i0 in ints() for j0 in ints())']
_EXACT = 'all(implies(0 <= i0 and i0 <= j0 and j0 < n and %s, ' + _CELL + ') for A in atoms() for i0 in ints() for j0 in ints())'
_EMPTY = 'all(implies(not (0 <= i0 and i0 <= j0 and j0 < n and %s), lookup(X, (i0, j0)) == set_empty()) for i0 in ints() for j0 in ints())'
_IJ_S = 'all(implies(A in lookup(X, (i, j)), A in G.V and (any(has_bin(G, A, B, C, len(R)) and der(G, B, w, i, k0) and der(G, C, w, k0 + 1, j) for k0 in range(i, k) for B in atoms() for C in atoms()) or %s)) for A in atoms())'
_IJ_C = 'all(implies(has_bin(G, A, B, C, len(R)) and der(G, B, w, i, k0) and der(G, C, w, k0 + 1, j) and i <= k0 and k0 < k and A in G.V, A in lookup(X, (i, j))) for A in atoms() for B in atoms() for C in atoms() for k0 in ints())'
contract(M, 'cfg_cyk_matrix', {'G': 'CFG', 'w': 'Word', 'verbose': 'Bool'}, returns=XT, defaults={'verbose': 'False'},
         requires=['not verbose', 'cnf(G)', 'all(G.R[t].variable in G.V for t in range(len(G.R)))'],
         ensures=['all(implies(0 <= i0 and i0 <= j0 and j0 < wlen(w), (A in lookup(result, (i0, j0))) == (A in G.V and der(G, A, w, i0, j0))) for A in atoms() for i0 in ints() for j0 in ints())'],
         types={'P': PT, 'X': XT},
         loops={1: {'ghost': 'idx', 'invariant': [x % 'idx' for x in _P_OK] + ['n == wlen(w)', 'V == G.V', 'R == G.R']},
                2: {'ghost': 'i', 'invariant': [x % 'len(R)' for x in _P_OK] + ['n == wlen(w)', 'V == G.V', 'R == G.R', '0 <= i',
                    'all(implies(0 <= i0 and i0 < i and i0 == j0, %s) for A in atoms() for i0 in ints() for j0 in ints())' % _CELL,
                    'all(implies(not (0 <= i0 and i0 < i and i0 == j0), lookup(X, (i0, j0)) == set_empty()) for i0 in ints() for j0 in ints())']},
                4: {'ghost': 'm', 'invariant': _BASE + ['1 <= m', _EXACT % 'j0 - i0 < m', _EMPTY % 'j0 - i0 < m']},
                5: {'ghost': 'i', 'invariant': _BASE + ['1 <= m', 'm < n', '0 <= i', _EXACT % '(j0 - i0 < m or (j0 - i0 == m and i0 < i))', _EMPTY % '(j0 - i0 < m or (j0 - i0 == m and i0 < i))']},
                6: {'ghost': 'k', 'invariant': _BASE + ['1 <= m', 'm < n', '0 <= i', 'i < n - m', 'j == i + m', 'i <= k',
                                                      _EXACT % '((j0 - i0 < m or (j0 - i0 == m and i0 < i)) and not (i0 == i and j0 == j))', _EMPTY % '(j0 - i0 < m or (j0 - i0 == m and i0 <= i))',
                                                      _IJ_S % 'False', _IJ_C],
                    # the crux, stated on its own so that the outer invariant is a case split: after all split points the cell (i, j) is exact
                    'after': ['all((A in lookup(X, (i, j))) == (A in G.V and der(G, A, w, i, j)) for A in atoms())']},
                7: {'ghost': 'donePairs', 'invariant': _BASE + ['1 <= m', 'm < n', '0 <= i', 'i < n - m', 'j == i + m', 'i <= k', 'k < j',
                                                              _EXACT % '((j0 - i0 < m or (j0 - i0 == m and i0 < i)) and not (i0 == i and j0 == j))', _EMPTY % '(j0 - i0 < m or (j0 - i0 == m and i0 <= i))',
                                                              _IJ_S % 'any(has_bin(G, A, B, C, len(R)) for (B, C) in donePairs)', _IJ_C,
                                                              'all(implies(has_bin(G, A, B, C, len(R)) and (B, C) in donePairs and A in G.V, A in lookup(X, (i, j))) for A in atoms() for B in atoms() for C in atoms())']},
                },
         theories=['word', 'wordx', 'cfg'], props=['C07'])

contract(M, 'cfg_to_chomsky', {'G': 'CFG', 'verbose': 'Bool'}, returns='CFG', defaults={'verbose': 'False'}, verify=False,
         ensures=['cnf(result)'], theories=[], props=['C08'],
         note='the five in-place phases mutate Alternative objects shared between rules (outside the value-semantics subset): bounded stand-in C08')

contract(M, 'cfg_accepts_word', {'G': 'CFG', 'w': 'Word', 'verbose': 'Bool'}, returns='Bool', defaults={'verbose': 'False'}, variant='cnf',
         requires=['not verbose', 'cnf(G)', 'all(G.R[t].variable in G.V for t in range(len(G.R)))', 'G.S in G.V'],
         ensures=['implies(w == nil(), result == any(G.R[t].variable == G.S and len(G.R[t].alternative.symbols) == 0 for t in range(len(G.R))))',
                  'implies(w != nil(), result == der(G, G.S, w, 0, wlen(w) - 1))'],
         theories=['word', 'wordx', 'cfg'], props=['C07'],
         note='entry point for grammars already in Chomsky normal form; for other grammars the answer is that of the converted grammar (cfg_to_chomsky: C08, bounded)')


# ---------------------------------------------------------------------------------------------- C08: the two fixpoint computations of the conversion
_RHS_IN = 'all(G.R[t].alternative.symbols[k] in %s for k in range(len(G.R[t].alternative.symbols)))'
_NCLOSED = 'all(implies(0 <= t and t < %s and ' + (_RHS_IN % 'nullable') + ', G.R[t].variable in nullable) for t in ints())'
_HEADS_OK = 'all(G.R[t].variable in G.V for t in range(len(G.R)))'        # part of CFG.check_validity
contract(M, 'cfg_nullable_variables', {'G': 'CFG'}, returns='Set[Atom]', requires=[_HEADS_OK], type_invariants=['fin(G.V)'],
         ensures=['result == Null(G)'], types={'nullable': 'Set[Atom]'},
         loops={1: {'invariant': ['R == G.R', 'nullable <= Null(G)', 'nullable <= G.V'], 'exit_hints': ['Null_least(G, nullable)'],
                    'snapshot': {'c0': 'card(G.V - nullable)'}, 'decreases': ['card(G.V - nullable)']},
                2: {'ghost': 'idx', 'invariant': ['R == G.R', 'nullable <= Null(G)', 'nullable <= G.V', 'implies(not changed, %s)' % (_NCLOSED % 'idx'),
                                                  'card(G.V - nullable) <= c0', 'implies(changed, card(G.V - nullable) < c0)']}},
         theories=['cfgx'], props=['C08'],
         note='total correctness: the result is the least set closed under "all symbols of a right-hand side nullable => head nullable" (soundness of every addition by the rule, completeness by the leastness instance '
              'for the final set); every round that does not stop adds a variable of the finite set G.V (fin(G.V): type invariant of Python sets; rule heads in V: class invariant checked by CFG.check_validity)')

_U1 = 'len(G.R[t].alternative.symbols) == 1'
_UB = 'G.R[t].alternative.symbols[0]'
_UFIRST = 'all(implies(0 <= t and t < %s and G.R[t].variable == A and ' + _U1 + ' and ' + _UB + ' in G.V, ' + _UB + ' in W) for t in ints())'
_USTEP = 'all(implies(0 <= t and t < %s and ' + _U1 + ' and G.R[t].variable in W1 and ' + _UB + ' in G.V, ' + _UB + ' in W) for t in ints())'
contract(M, 'cfg_derivable_variables', {'G': 'CFG', 'A': 'Atom'}, returns='Set[Atom]', type_invariants=['fin(G.V)'],
         ensures=['result == UReach(G, A) - {A}'], types={'W': 'Set[Atom]', 'W1': 'Set[Atom]'},
         loops={1: {'ghost': 'idx', 'invariant': ['R == G.R', 'V == G.V', 'W1 == set_empty()', 'W <= UReach(G, A)', 'W <= G.V', 'fin(W)', _UFIRST % 'idx']},
                2: {'invariant': ['R == G.R', 'V == G.V', 'W <= UReach(G, A)', 'W <= G.V', 'W1 <= W', 'fin(W)', 'fin(W1)', _UFIRST % 'len(R)', _USTEP % 'len(R)'],
                    'exit_hints': ['UReach_least(G, A, W)'], 'decreases': ['card(G.V - W1)'], 'snapshot': {'W1old': 'W1'},
                    'body_end': ['W1old <= W1', 'card(W1 - W1old) == card(W1) - card(W1old)', 'W1 - W1old != set_empty()', 'card(W1) > card(W1old)',
                                 'card(G.V - W1) == card(G.V) - card(W1)', 'card(G.V - W1old) == card(G.V) - card(W1old)']},
                3: {'ghost': 'idx', 'invariant': ['R == G.R', 'V == G.V', 'W <= UReach(G, A)', 'W <= G.V', 'W1 <= W', 'fin(W)', 'fin(W1)', _UFIRST % 'len(R)', _USTEP % 'idx',
                                                  'W1old <= W1', 'W1old != W1']}},
         theories=['cfgx'], props=['C08'],
         note='total correctness: W is the least set containing the targets of the unit rules of A and closed under unit rules (leastness instance for the final set); the outer loop stops because W1 grows strictly within the finite set G.V')

contract(M, 'cfg_fresh_variable', {'G': 'CFG', 'hint': 'Atom'}, returns='Atom', type_invariants=['fin(G.V)'],
         ensures=['result not in G.V'],
         loops={1: {'invariant': ['V == G.V', 'index >= 0', 'implies(index >= 1, A == hint_index_name(hint, index - 1))'],
                    'decreases': ['card(V - unnamed_from(hint, index - 1 if index >= 1 else 0))', '1 if index == 0 else 0'],
                    'body_end': ['implies(index >= 2, V - unnamed_from(hint, index - 1) == (V - unnamed_from(hint, index - 2)) - {hint_index_name(hint, index - 2)})']},
                2: {'ghost': 'idx', 'invariant': ['V == G.V', 'all(implies(0 <= k and k < idx, upper_list()[k] in V) for k in ints())'],
                    'after': ['upper_list()[%d] in V' % k for k in range(26)] + ['upper_letters() <= V', 'card(V - upper_letters()) == card(V) - 26']}},
         theories=['naming', 'letters'], props=['C08'],
         note='the variable returned is not a variable of G; with 26 or more variables the search through hint, hint0, hint1, ... terminates (finitely many names are taken); with fewer than 26 variables one of the 26 capital letters is free (counting argument: lemma upper-card), so the function does not fall off its end')

_NEWSTART = ['%s.S not in %s.V', '%s.V == %s.V | {%s.S}', '%s.Sigma == %s.Sigma', '%s.epsilon == %s.epsilon', 'len(%s.R) == len(%s.R) + 1',
             '%s.R[0].variable == %s.S', 'len(%s.R[0].alternative.symbols) == 1', '%s.R[0].alternative.symbols[0] == %s.S',
             'all(implies(1 <= t and t < len(%s.R), %s.R[t] == %s.R[t - 1]) for t in ints())']
def _newstart(new, old_):
    a = (new, old_)
    return [_NEWSTART[0] % a, _NEWSTART[1] % (new, old_, new), _NEWSTART[2] % a, _NEWSTART[3] % a, _NEWSTART[4] % a, _NEWSTART[5] % (new, new), _NEWSTART[6] % new,
            _NEWSTART[7] % a, _NEWSTART[8] % (new, new, old_)]
contract(M, 'cfg_add_new_start_variable_in_place', {'G': 'CFG', 'hint': 'Atom'}, returns='None', modifies=['G'], defaults={'hint': "'S'"}, type_invariants=['fin(G.V)'],
         ensures=_newstart('G', 'old(G)'), theories=['naming', 'letters'], props=['C08'],
         note='phase 1 of the conversion, structure: a variable that was not a variable of G becomes the start variable, its only rule S0 -> S is put in front, all other rules, the terminals and epsilon are unchanged (language preservation: bounded stand-in)')
contract(M, 'cfg_add_new_start_variable', {'G': 'CFG', 'hint': 'Atom'}, returns='CFG', defaults={'hint': "'S'"}, type_invariants=['fin(G.V)'],
         ensures=_newstart('result', 'old(G)'), theories=['naming', 'letters'], props=['C08', 'C19'],       # the body rebinds the name G: old(G) is the argument
         note='phase 1 on a deep copy: the same structure statement about the result, and the argument is not modified (frame obligation)')

contract(M, 'cfg_put_start_variable_in_front', {'G': 'CFG'}, returns='None', modifies=['G'],
         ensures=['G.V == old(G.V)', 'G.Sigma == old(G.Sigma)', 'G.S == old(G.S)', 'G.epsilon == old(G.epsilon)', 'len(G.R) == len(old(G.R))',
                  'implies(any(old(G.R)[t].variable == G.S for t in range(len(G.R))), G.R[0].variable == G.S)',
                  'G.R == old(G.R) or any(0 < i and i < len(G.R) and G.R[0] == old(G.R)[i] and G.R[i] == old(G.R)[0] and all(implies(0 < t and t < len(G.R) and t != i, G.R[t] == old(G.R)[t]) for t in ints()) for i in ints())'],
         loops={1: {'invariant': ['R == G.R', 'S == G.S', 'G == old(G)', 'all(implies(0 <= t and t < i, R[t].variable != S) for t in ints())']}},
         theories=[], props=['C08'],
         note='the first rule whose head is the start variable is exchanged with the first rule (nothing else changes); afterwards the first rule belongs to the start variable whenever it has a rule')

# ---------------------------------------------------------------------------------------------- C12: the structure checks of the Chomsky exercise
contract('gambatools.cfg', 'Alternative.is_epsilon', {'self': 'Alternative'}, returns='Bool', ensures=['result == (len(self.symbols) == 0)'], theories=[], props=['C12'])
contract('gambatools.cfg', 'Rule.is_epsilon', {'self': 'Rule'}, returns='Bool', ensures=['result == (len(self.alternative.symbols) == 0)'], theories=[], props=['C12'])
_MC = 'gambatools.notebook_chomsky'
contract(_MC, 'check_cfg_has_start_variable', {'G': 'CFG', 'S': 'Atom'}, returns='List[Text]',
         ensures=['(len(result) == 0) == (G.S == S)'], theories=[], props=['C12', 'C19'], note='no feedback exactly when the start variable is the requested one')
contract(_MC, 'check_cfg_has_no_epsilon_rules', {'G': 'CFG'}, returns='List[Text]',
         ensures=['(len(result) == 0) == all(implies(len(G.R[t].alternative.symbols) == 0, G.R[t].variable == G.S) for t in range(len(G.R)))'],
         loops={1: {'ghost': 'idx', 'invariant': ['all(implies(0 <= t and t < idx and len(G.R[t].alternative.symbols) == 0, G.R[t].variable == G.S) for t in ints())']}},
         theories=[], props=['C12', 'C19'], note='no feedback exactly when every epsilon rule belongs to the start variable')
contract(_MC, 'check_cfg_has_right_hand_sides_of_length_at_most_two', {'G': 'CFG'}, returns='List[Text]',
         ensures=['(len(result) == 0) == all(len(G.R[t].alternative.symbols) <= 2 for t in range(len(G.R)))'],
         loops={1: {'ghost': 'idx', 'invariant': ['all(implies(0 <= t and t < idx, len(G.R[t].alternative.symbols) <= 2) for t in ints())']}},
         theories=[], props=['C12', 'C19'], note='no feedback exactly when no right-hand side has more than two symbols')
contract(_MC, 'check_cfg_has_no_unit_productions', {'G': 'CFG'}, returns='List[Text]',
         ensures=['(len(result) == 0) == all(not (len(G.R[t].alternative.symbols) == 1 and vtag(G.R[t].alternative.symbols[0])) for t in range(len(G.R)))'],
         loops={1: {'ghost': 'idx', 'invariant': ['all(implies(0 <= t and t < idx, not (len(G.R[t].alternative.symbols) == 1 and vtag(G.R[t].alternative.symbols[0]))) for t in ints())']}},
         theories=[], props=['C12', 'C19'], note='no feedback exactly when no rule is a unit rule (one variable on the right-hand side)')
contract(_MC, 'check_cfg_is_chomsky', {'G': 'CFG'}, returns='List[Text]',
         ensures=['(len(result) == 0) == all(%s for t in range(len(G.R)))' % (_ALT_CNF % (('G.R[t].alternative.symbols',) * 6))],
         loops={1: {'ghost': 'idx', 'invariant': ['all(implies(0 <= t and t < idx, %s) for t in ints())' % (_ALT_CNF % (('G.R[t].alternative.symbols',) * 6))]}},
         theories=[], props=['C12', 'C19'], note='no feedback exactly when every rule has the Chomsky shape')

# ---------------------------------------------------------------------------------------------- the class invariant of CFG
contract(MC, 'Alternative.terminals', {'self': 'Alternative'}, returns='Set[Atom]',
         ensures=['all((x in result) == any(%s[k] == x and not vtag(x) for k in range(len(%s))) for x in atoms())' % (_SY, _SY)], theories=[], props=['C08'])
contract(MC, 'Rule.terminals', {'self': 'Rule'}, returns='Set[Atom]',
         ensures=['all((x in result) == any(%s[k] == x and not vtag(x) for k in range(len(%s))) for x in atoms())' % (_RS, _RS)], theories=[], props=['C08'])
_RT = 'self.R[t].alternative.symbols'
_CFG_BAD = ['any(0 <= t and t < len(self.R) and 0 <= k and k < len(%s) and vtag(%s[k]) and %s[k] not in self.V for t in ints() for k in ints())' % (_RT, _RT, _RT),
            'any(0 <= t and t < len(self.R) and 0 <= k and k < len(%s) and not vtag(%s[k]) and %s[k] not in self.Sigma for t in ints() for k in ints())' % (_RT, _RT, _RT),
            'any(0 <= t and t < len(self.R) and self.R[t].variable not in self.V for t in ints())']
contract(MC, 'CFG.check_validity', {'self': 'CFG'}, returns='Bool', raises=_CFG_BAD, raise_witness={'raise#1': 0, 'raise#2': 1, 'raise#3': 2},
         ensures=['result'],
         loops={1: {'ghost': 'idx', 'invariant': ['V == self.V', 'Sigma == self.Sigma', 'R == self.R'] + ['not ' + b.replace('len(self.R)', 'idx') for b in _CFG_BAD]}},
         theories=[], props=['C08'],
         note='the class invariant of CFG: check_validity raises exactly when some rule uses a variable that is not in V, a terminal that is not in Sigma, or has a head that is not in V, and returns True otherwise (isinstance tests: assumption A-tags)')
