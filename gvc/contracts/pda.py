from ..contract import contract

M = 'gambatools.pda_algorithms'
SC = 'Set[PDAState]'

contract(M, 'pda_can_pop_push', {'P': 'PDA', 'stack': 'Word', 'u': 'Symbol', 'v': 'Symbol'}, returns='Bool',
         ensures=['result == canpop(P, stack, u)'], theories=['pda'], props=['C09', 'C10', 'C15'])

contract(M, 'pda_pop_push', {'P': 'PDA', 'stack': 'Word', 'u': 'Symbol', 'v': 'Symbol'}, returns='Word',
         requires=['canpop(P, stack, u)'], ensures=['result == poppush(P, stack, u, v)'], theories=['pda'], props=['C09', 'C10', 'C15'])

_STEP_S = 'all(any(pstep(P, c, a, c2) for c in R) for c2 in result)'
_TGT = 'PDAState(%s, poppush(P, %s, %s, %s))'
contract(M, 'pda_do_transition', {'P': 'PDA', 'a': 'Symbol', 'R': SC}, returns=SC, requires=['fin(R)'],
         ensures=[_STEP_S, 'all(implies(pstep(P, c, a, c2), c2 in result) for c in R for c2 in configs())', 'fin(result)', 'result == stepsetP(P, R, a)'],
         types={'result': SC},
         loops={1: {'ghost': 'doneR', 'invariant': [_STEP_S, 'fin(result)', 'all(implies(pstep(P, c, a, c2), c2 in result) for c in doneR for c2 in configs())']},
                2: {'ghost': 'doneK', 'invariant': [_STEP_S, 'fin(result)', 'r in R', 'p == r.q', 'stack == r.stack', 'doneR <= R',
                                                  'all(implies(pstep(P, c, a, c2), c2 in result) for c in doneR for c2 in configs())',
                                                  'all(implies(k[0] == r.q and k[1] == a and canpop(P, r.stack, k[2]), PDAState(t[0], poppush(P, r.stack, k[2], t[1])) in result) for k in doneK for t in P.delta[k])']},
                3: {'ghost': 'doneT', 'invariant': [_STEP_S, 'fin(result)', 'r in R', 'p == r.q', 'stack == r.stack', 'p == p1', 'a == a1', '(p1, a1, u) in P.delta', 'Q1 == P.delta[(p1, a1, u)]', 'doneR <= R',
                                                  'all(implies(pstep(P, c, a, c2), c2 in result) for c in doneR for c2 in configs())',
                                                  'all(implies(k[0] == r.q and k[1] == a and canpop(P, r.stack, k[2]), PDAState(t[0], poppush(P, r.stack, k[2], t[1])) in result) for k in doneK for t in P.delta[k])',
                                                  'all(implies(canpop(P, stack, u), PDAState(t[0], poppush(P, stack, u, t[1])) in result) for t in doneT)']}},
         theories=['pda'], props=['C09', 'C15'])

_EPS_COMMON = ['R <= result', 'todo <= result', 'result <= EcloP(P, R)', 'fin(result)', 'fin(todo)', 'max_iterations == closure_limit()', 'epsilon == P.epsilon',
               'iteration == card(result - todo)', 'iteration >= 0']
_CLOSED = 'all(implies(pstep(P, c, P.epsilon, c2), c2 in result) for c in %s for c2 in configs())'
_SRC_K = 'all(implies(k[0] == src.q and k[1] == P.epsilon and canpop(P, src.stack, k[2]), PDAState(t[0], poppush(P, src.stack, k[2], t[1])) in result) for k in doneK for t in P.delta[k])'
contract(M, 'pda_epsilon_closure', {'P': 'PDA', 'R': SC}, returns=SC, requires=['fin(R)'],
         ensures=['R <= result', 'result <= EcloP(P, R)', 'fin(result)',
                  'implies(fin(EcloP(P, R)) and card(EcloP(P, R)) <= closure_limit(), result == EcloP(P, R))'],
         types={'result': SC, 'todo': SC},
         loops={1: {'invariant': _EPS_COMMON + [_CLOSED % '(result - todo)'],
                    'decreases': ['max_iterations - iteration'],
                    'exit_hints': ['EcloP_least(P, R, result)', 'all(card_strict_subset(result - todo, EcloP(P, R), x) for x in todo)']},
                2: {'ghost': 'doneK', 'invariant': _EPS_COMMON[:7] + ['src in result', 'src not in todo', 'iteration == card(result - todo)', 'iteration >= 1',
                                                                     _CLOSED % '(result - todo - {src})', _SRC_K]},
                3: {'ghost': 'doneT', 'invariant': _EPS_COMMON[:7] + ['src in result', 'src not in todo', 'iteration == card(result - todo)', 'iteration >= 1',
                                                                     _CLOSED % '(result - todo - {src})', _SRC_K,
                                                                     'p == src.q', 'a == epsilon', '(p, a, u) in P.delta', 'Q1 == P.delta[(p, a, u)]',
                                                                     'all(implies(canpop(P, src.stack, u), PDAState(t[0], poppush(P, src.stack, u, t[1])) in result) for t in doneT)']}},
         theories=['pda'], props=['C09', 'C15'])

_SMALL = 'all(implies(isprefix(p_, w), fin(reachP(P, p_)) and card(reachP(P, p_)) <= closure_limit()) for p_ in allwords())'
contract(M, 'pda_accepts_word', {'P': 'PDA', 'w': 'Word'}, returns='Bool',
         ensures=['implies(result, pda_accepts(P, w))', 'implies(pda_accepts(P, w) and %s, result)' % _SMALL],
         loops={1: {'invariant': ['R <= reachP(P, prefix)', 'fin(R)', 'implies(%s, R == reachP(P, prefix))' % _SMALL]}},
         theories=['word', 'pda'], props=['C09'])

# the value class the configuration sets are built from: equality is componentwise, the constructor copies the stack
contract(M, 'PDAState.__eq__', {'self': 'PDAState', 'other': 'PDAState'}, returns='Bool',
         ensures=['result == (self.q == other.q and self.stack == other.stack)'], theories=[], props=['C09', 'C15'])
contract(M, 'PDAState.__init__', {'self': 'PDAState', 'q': 'State', 'stack': 'Word'}, returns='None', modifies=['self'],
         ensures=['self.q == q', 'self.stack == stack'], theories=[], props=['C09', 'C15'])
