from ..contract import contract

M = 'gambatools.pda_algorithms'
SC = 'Set[PDAState]'

contract(M, 'pda_can_pop_push', {'P': 'PDA', 'stack': 'Word', 'u': 'Symbol', 'v': 'Symbol'}, returns='Bool',
         ensures=['result == canpop(P, stack, u)'], theories=['pda'], props=['C09', 'C10', 'C15'])

contract(M, 'pda_pop_push', {'P': 'PDA', 'stack': 'Word', 'u': 'Symbol', 'v': 'Symbol'}, returns='Word',
         requires=['canpop(P, stack, u)'], ensures=['result == poppush(P, stack, u, v)'], theories=['pda'], props=['C09', 'C10', 'C15'])

_STEP_S = 'all(any(pstep(P, c, a, c2) for c in R) for c2 in result)'
_TGT = 'PDAState(%s, poppush(P, %s, %s, %s))'
contract(M, 'pda_do_transition', {'P': 'PDA', 'a': 'Symbol', 'R': SC}, returns=SC, requires=['fin(R)'],
         ensures=[_STEP_S, 'all(implies(pstep(P, c, a, c2), c2 in result) for c in R for c2 in configs())', 'fin(result)', 'result == stepsetP(P, R, a)'],
         types={'result': SC},
         loops={1: {'ghost': 'doneR', 'invariant': [_STEP_S, 'fin(result)', 'all(implies(pstep(P, c, a, c2), c2 in result) for c in doneR for c2 in configs())']},
                2: {'ghost': 'doneK', 'invariant': [_STEP_S, 'fin(result)', 'r in R', 'p == r.q', 'stack == r.stack', 'doneR <= R',
                                                  'all(implies(pstep(P, c, a, c2), c2 in result) for c in doneR for c2 in configs())',
                                                  'all(implies(k[0] == r.q and k[1] == a and canpop(P, r.stack, k[2]), PDAState(t[0], poppush(P, r.stack, k[2], t[1])) in result) for k in doneK for t in P.delta[k])']},
                3: {'ghost': 'doneT', 'invariant': [_STEP_S, 'fin(result)', 'r in R', 'p == r.q', 'stack == r.stack', 'p == p1', 'a == a1', '(p1, a1, u) in P.delta', 'Q1 == P.delta[(p1, a1, u)]', 'doneR <= R',
                                                  'all(implies(pstep(P, c, a, c2), c2 in result) for c in doneR for c2 in configs())',
                                                  'all(implies(k[0] == r.q and k[1] == a and canpop(P, r.stack, k[2]), PDAState(t[0], poppush(P, r.stack, k[2], t[1])) in result) for k in doneK for t in P.delta[k])',
                                                  'all(implies(canpop(P, stack, u), PDAState(t[0], poppush(P, stack, u, t[1])) in result) for t in doneT)']}},
         theories=['pda'], props=['C09', 'C15'])

_EPS_COMMON = ['R <= result', 'todo <= result', 'result <= EcloP(P, R)', 'fin(result)', 'fin(todo)', 'max_iterations == closure_limit()', 'epsilon == P.epsilon',
               'iteration == card(result - todo)', 'iteration >= 0']
_CLOSED = 'all(implies(pstep(P, c, P.epsilon, c2), c2 in result) for c in %s for c2 in configs())'
_SRC_K = 'all(implies(k[0] == src.q and k[1] == P.epsilon and canpop(P, src.stack, k[2]), PDAState(t[0], poppush(P, src.stack, k[2], t[1])) in result) for k in doneK for t in P.delta[k])'
contract(M, 'pda_epsilon_closure', {'P': 'PDA', 'R': SC}, returns=SC, requires=['fin(R)'],
         ensures=['R <= result', 'result <= EcloP(P, R)', 'fin(result)',
                  'implies(fin(EcloP(P, R)) and card(EcloP(P, R)) <= closure_limit(), result == EcloP(P, R))'],
         types={'result': SC, 'todo': SC},
         loops={1: {'invariant': _EPS_COMMON + [_CLOSED % '(result - todo)'],
                    'decreases': ['max_iterations - iteration'],
                    'exit_hints': ['EcloP_least(P, R, result)', 'all(card_strict_subset(result - todo, EcloP(P, R), x) for x in todo)']},
                2: {'ghost': 'doneK', 'invariant': _EPS_COMMON[:7] + ['src in result', 'src not in todo', 'iteration == card(result - todo)', 'iteration >= 1',
                                                                     _CLOSED % '(result - todo - {src})', _SRC_K]},
                3: {'ghost': 'doneT', 'invariant': _EPS_COMMON[:7] + ['src in result', 'src not in todo', 'iteration == card(result - todo)', 'iteration >= 1',
                                                                     _CLOSED % '(result - todo - {src})', _SRC_K,
                                                                     'p == src.q', 'a == epsilon', '(p, a, u) in P.delta', 'Q1 == P.delta[(p, a, u)]',
                                                                     'all(implies(canpop(P, src.stack, u), PDAState(t[0], poppush(P, src.stack, u, t[1])) in result) for t in doneT)']}},
         theories=['pda'], props=['C09', 'C15'])

_SMALL = 'all(implies(isprefix(p_, w), fin(reachP(P, p_)) and card(reachP(P, p_)) <= closure_limit()) for p_ in allwords())'
contract(M, 'pda_accepts_word', {'P': 'PDA', 'w': 'Word'}, returns='Bool',
         ensures=['implies(result, pda_accepts(P, w))', 'implies(pda_accepts(P, w) and %s, result)' % _SMALL],
         loops={1: {'invariant': ['R <= reachP(P, prefix)', 'fin(R)', 'implies(%s, R == reachP(P, prefix))' % _SMALL]}},
         theories=['word', 'pda'], props=['C09'])

# the value class the configuration sets are built from: equality is componentwise, the constructor copies the stack
contract(M, 'PDAState.__eq__', {'self': 'PDAState', 'other': 'PDAState'}, returns='Bool',
         ensures=['result == (self.q == other.q and self.stack == other.stack)'], theories=[], props=['C09', 'C15'])
contract(M, 'PDAState.__init__', {'self': 'PDAState', 'q': 'State', 'stack': 'Word'}, returns='None', modifies=['self'],
         ensures=['self.q == q', 'self.stack == stack'], theories=[], props=['C09', 'C15'])

# ---------------------------------------------------------------------------------------------- C10: normal forms (in place)
_TR = 'lookup(%s, (p, a, u))'
contract(M, 'pda_to_one_accepting_state_in_place', {'P': 'PDA'}, returns='None', modifies=['P'],
         requires=['pda_cfg_ok(P)', 'P.epsilon not in P.Sigma'],
         ensures=['P.Sigma == old(P.Sigma)', 'P.Gamma == old(P.Gamma)', 'P.q0 == old(P.q0)', 'P.epsilon == old(P.epsilon)',
                  'implies(card(old(P.F)) == 1, P.Q == old(P.Q) and P.F == old(P.F) and P.delta == old(P.delta))',
                  # otherwise: one new state, reached by a stack-neutral epsilon move from every old accepting state, is the only accepting state
                  'implies(card(old(P.F)) != 1, any(qa not in old(P.Q) and P.Q == old(P.Q) | {qa} and P.F == {qa} and '
                  'all((t in lookup(P.delta, (p, a, u))) == (t in lookup(old(P.delta), (p, a, u)) or (p in old(P.F) and a == P.epsilon and u == P.epsilon and t == (qa, P.epsilon))) '
                  'for p in atoms() for a in atoms() for u in atoms() for t in pairs()) for qa in atoms()))',
                  # the property itself, over words: the language is unchanged
                  'all(implies(over(P.Sigma, w), pda_accepts(P, w) == pda_accepts(old(P), w)) for w in allwords())'],
         pre_return_asserts={'end': ['pda_cfg_ok(old(P))', 'q_accept not in old(P.Q)', 'P.q0 == old(P.q0) and P.epsilon == old(P.epsilon)', 'all((q in P.F) == (q == q_accept) for q in atoms())',
                                     'all((t in lookup(P.delta, (p, a, u))) == (t in lookup(old(P.delta), (p, a, u)) or (p in old(P.F) and a == P.epsilon and u == P.epsilon and t == (q_accept, P.epsilon))) '
                                     'for p in atoms() for a in atoms() for u in atoms() for t in pairs())',
                                     'one_acc_struct(old(P), P, q_accept)']},
         asserts=['implies(card(old(P.F)) != 1, any(one_acc_struct(old(P), P, qa) for qa in atoms()))',
                  # the property itself, over words: the language is unchanged (lemmas one-acc-eclo / one-acc-sim / one-acc-lang)
                  'all(implies(over(P.Sigma, w), pda_accepts(P, w) == pda_accepts(old(P), w)) for w in allwords())'],
         loops={1: {'ghost': 'doneF', 'invariant': [
             'P.Sigma == old(P.Sigma)', 'P.Gamma == old(P.Gamma)', 'P.q0 == old(P.q0)', 'P.epsilon == old(P.epsilon)',
             'q_accept not in old(P.Q)', 'P.Q == old(P.Q) | {q_accept}', 'P.F == old(P.F)', 'epsilon == P.epsilon',
             'all((t in lookup(P.delta, (p, a, u))) == (t in lookup(old(P.delta), (p, a, u)) or (p in doneF and a == epsilon and u == epsilon and t == (q_accept, epsilon))) '
             'for p in atoms() for a in atoms() for u in atoms() for t in pairs())']}},
         theories=['naming', 'word', 'pda', 'pdax'], props=['C10'],
         note='exact structure of the in-place construction; the language statement (asserts) follows by lemmas one-acc-eclo / one-acc-sim / one-acc-lang: configurations of the new automaton are those of the old one plus (q_accept, s) for every reachable accepting (q, s)')

# ---------------------------------------------------------------------------------------------- C02: bounded enumeration of a PDA
# sound for every closure limit; exact when no closure computation hits the limit (_PSMALL: the initial closure and the closure of the
# a-successors of every configuration reachable by a word shorter than n have at most closure_limit() elements)
_PWS = 'all(implies(v in lookup(W, c), wlen(v) == %s and over(P.Sigma, v) and c in reachP(P, v)) for c in configs() for v in allwords())'
_PRS = 'all(implies(v in result, wlen(v) <= %s and over(P.Sigma, v) and pda_accepts(P, v)) for v in allwords())'
_PW1 = 'all(implies(v in lookup(W1, c), wlen(v) == i + 1 and over(P.Sigma, v) and c in reachP(P, v)) for c in configs() for v in allwords())'
_ONE = 'EcloP(P, stepsetP(P, {%s}, %s))'
_PSMALL = ('(fin(reachP(P, nil())) and card(reachP(P, nil())) <= closure_limit() and all(implies(wlen(u) < n and over(P.Sigma, u) and r0 in reachP(P, u) and b in P.Sigma, '
           'fin(%s) and card(%s) <= closure_limit()) for u in allwords() for r0 in configs() for b in atoms()))' % (_ONE % ('r0', 'b'), _ONE % ('r0', 'b')))
_PWC = 'implies(%s, all(implies(wlen(v) == %%s and over(P.Sigma, v) and c in reachP(P, v), v in lookup(W, c)) for c in configs() for v in allwords()))' % _PSMALL
_PRC = 'implies(%s, all(implies(wlen(v) <= %%s and over(P.Sigma, v) and pda_accepts(P, v), v in result) for v in allwords()))' % _PSMALL
def _PDONE(proc):      # completeness of the round so far: every processed (configuration, letter, successor) has contributed its words
    return ('implies(%s, all(implies(%s and v in lookup(W, r0) and b in P.Sigma and c in %s, snoc(v, b) in lookup(W1, c) and implies(c.q in P.F, snoc(v, b) in result)) '
            'for r0 in configs() for b in atoms() for c in configs() for v in allwords()))' % (_PSMALL, proc, _ONE % ('r0', 'b')))
_PP3 = 'r0 in doneK'
_PP4 = '(r0 in doneK or (r0 == r and b in doneA))'
_PP5 = '(r0 in doneK or (r0 == r and (b in doneA or (b == a and c in doneC))))'
_PCOM = ['F == P.F', 'Sigma == P.Sigma', '0 <= i and i < n', _PWS % 'i', _PW1, _PRS % 'i + 1', _PWC % 'i', _PRC % 'i']
contract(M, 'pda_words_up_to_n', {'P': 'PDA', 'n': 'Int'}, returns='Set[Word]', requires=['n >= 0'],
         ensures=[_PRS % 'n', _PRC % 'n'],
         types={'W': 'Map[PDAState,Set[Word],default=set]', 'W1': 'Map[PDAState,Set[Word],default=set]', 'result': 'Set[Word]', 'R': SC, 'words_plus_a': 'Set[Word]'},
         loops={1: {'ghost': 'doneR', 'invariant': ['F == P.F', 'Sigma == P.Sigma', 'R <= reachP(P, nil())', 'implies(%s, R == reachP(P, nil()))' % _PSMALL, _PWS % '0', _PRS % '0',
                                                   'all(implies(c in doneR, nil() in lookup(W, c) and implies(c.q in P.F, nil() in result)) for c in configs())']},
                2: {'invariant': ['F == P.F', 'Sigma == P.Sigma', '0 <= i and i <= n', _PWS % 'i', _PRS % 'i', _PWC % 'i', _PRC % 'i']},
                3: {'ghost': 'doneK', 'invariant': _PCOM + [_PDONE(_PP3)],
                    'after': ['all(implies(v != nil(), v == snoc(init(v), last(v)) and wlen(v) == wlen(init(v)) + 1 and over(P.Sigma, v) == (over(P.Sigma, init(v)) and last(v) in P.Sigma)) for v in allwords())',
                              'all(implies(v != nil(), (c in reachP(P, v)) == any(r0 in reachP(P, init(v)) and c in %s for r0 in configs())) for c in configs() for v in allwords())' % (_ONE % ('r0', 'last(v)')),
                              (_PWC % 'i + 1').replace('lookup(W, c)', 'lookup(W1, c)'),
                              'implies(%s, all(implies(wlen(v) == i + 1 and over(P.Sigma, v) and pda_accepts(P, v), v in result) for v in allwords()))' % _PSMALL,
                              _PRC % 'i + 1']},
                4: {'ghost': 'doneA', 'invariant': _PCOM + ['r in W', 'words == lookup(W, r)', _PDONE(_PP4)]},
                5: {'ghost': 'doneC', 'invariant': _PCOM + ['r in W', 'words == lookup(W, r)', 'a in P.Sigma',
                                                         'all(wlen(v) == i + 1 and over(P.Sigma, v) for v in words_plus_a)',
                                                         'all((v in words_plus_a) == (v != nil() and last(v) == a and init(v) in words) for v in allwords())',
                                                         'all(implies(v in words_plus_a, c in reachP(P, v)) for c in R for v in allwords())',
                                                         'R <= %s' % (_ONE % ('r', 'a')),
                                                         'implies(%s and any(v in words for v in allwords()), R == %s)' % (_PSMALL, _ONE % ('r', 'a')),
                                                         _PDONE(_PP5)]}},
         theories=['word', 'wordx', 'pda', 'pdax'], props=['C02', 'C19'],
         note='W[c] only holds words after which configuration c is reachable (soundness, every limit); when no closure computation hits the limit it holds all of them '
              '(lemma reachP-step-pw: the configurations after w.a are the closures of the a-successors of the configurations after w, one configuration at a time)')

# ---------------------------------------------------------------------------------------------- C15: a step of the PDA simulation, searched backwards
contract(M, 'pda_find_transition', {'P': 'PDA', 'R': SC, 'a': 'Symbol', 'target': 'PDAState'}, returns='Opt[PDAState]',
         ensures=['implies(result is not None, the(result) in R and pstep(P, the(result), a, target))',
                  'implies(result is None, all(not pstep(P, c, a, target) for c in R))'],
         loops={1: {'ghost': 'doneR', 'invariant': ['all(not pstep(P, c, a, target) for c in doneR)']},
                2: {'ghost': 'doneK', 'invariant': ['src in R', 'all(not pstep(P, c, a, target) for c in doneR)',
                                                  'all(implies(k[0] == src.q and k[1] == a and canpop(P, src.stack, k[2]), PDAState(t[0], poppush(P, src.stack, k[2], t[1])) != target) for k in doneK for t in P.delta[k])']},
                3: {'ghost': 'doneT', 'invariant': ['src in R', 'src.q == p', 'a == a1', '(p, a1, u) in P.delta', 'Q1 == P.delta[(p, a1, u)]', 'all(not pstep(P, c, a, target) for c in doneR)',
                                                  'all(implies(k[0] == src.q and k[1] == a and canpop(P, src.stack, k[2]), PDAState(t[0], poppush(P, src.stack, k[2], t[1])) != target) for k in doneK for t in P.delta[k])',
                                                  'all(implies(canpop(P, src.stack, u), PDAState(t[0], poppush(P, src.stack, u, t[1])) != target) for t in doneT)']}},
         theories=['pda'], props=['C15', 'C19'],
         note='a configuration of R with the required move into the target, or None when there is none')

contract(M, 'fresh_symbol', {'Sigma': 'Set[Symbol]', 'symbols': 'Atom'}, returns='Symbol', ensures=['result not in Sigma'],
         loops={1: {'invariant': []}}, theories=[], props=['C10'],
         note='first element of the preferred characters followed by an unbounded character supply that is not in Sigma: whatever is returned is not in Sigma (proved); '
              'that the supply is not exhausted first (chr() range) is assumption A-char-supply')

# accept only with an empty stack: exact structure of the in-place construction (language statement: bounded stand-in)
_E_OLD = 't in lookup(old(P.delta), (p, a, u))'
_E_INIT = '(p == %(qi)s and a == %(e)s and u == %(e)s and t == (old(P.q0), %(sb)s))'
_E_ACC = '(p in %(F)s and a == %(e)s and u == %(sb)s and t == (%(qa)s, %(e)s))'
_E_DRAIN = '(p in %(F)s and a == %(e)s and u in %(G)s and t == (%(qd)s, %(e)s))'
_E_LOOP = '(p == %(qd)s and a == %(e)s and u in %(G2)s and t == (%(qd)s, %(e)s))'
_E_LAST = '(p == %(qd)s and a == %(e)s and u == %(sb)s and t == (%(qa)s, %(e)s))'
def _edges(parts, **kw):
    return 'all((t in lookup(P.delta, (p, a, u))) == (' + ' or '.join([_E_OLD] + [x % kw for x in parts]) + ') for p in atoms() for a in atoms() for u in atoms() for t in pairs())'
_LOC = dict(qi='q_initial', qd='q_drain', qa='q_accept', sb='stack_bottom', e='epsilon')
_E_COMMON = ['P.Sigma == old(P.Sigma)', 'P.epsilon == old(P.epsilon)', 'epsilon == P.epsilon', 'q0 == old(P.q0)', 'P.q0 == q_initial', 'P.F == old(P.F)',
             'stack_bottom not in old(P.Gamma)', 'stack_bottom != epsilon', 'P.Gamma == old(P.Gamma) | {stack_bottom}',
             'q_initial not in old(P.Q)', 'q_drain not in old(P.Q)', 'q_accept not in old(P.Q)', 'q_drain != q_initial', 'q_accept != q_initial', 'q_accept != q_drain',
             'P.Q == old(P.Q) | {q_initial} | {q_drain} | {q_accept}']
_E_FINAL = dict(qi='qi', qd='qd', qa='qa', sb='sb', e='P.epsilon', F='old(P.F)', G='old(P.Gamma)', G2='old(P.Gamma)')
_ES_POST = ['P.Sigma == old(P.Sigma)', 'P.epsilon == old(P.epsilon)',
            'any(sb not in old(P.Gamma) and sb != P.epsilon and P.Gamma == old(P.Gamma) | {sb} and '
            'qi not in old(P.Q) and qd not in old(P.Q) and qa not in old(P.Q) and qi != qd and qi != qa and qd != qa and P.Q == old(P.Q) | {qi} | {qd} | {qa} and '
            'P.q0 == qi and P.F == {qa} and ' + _edges([_E_INIT, _E_ACC, _E_DRAIN, _E_LOOP, _E_LAST], **_E_FINAL) +
            ' for sb in atoms() for qi in atoms() for qd in atoms() for qa in atoms())']
contract(M, 'pda_to_accept_on_empty_stack_in_place', {'P': 'PDA'}, returns='None', modifies=['P'], type_invariants=['fin(P.Q)'],
         ensures=_ES_POST,
         loops={1: {'ghost': 'doneF', 'invariant': _E_COMMON + [_edges([_E_INIT, _E_ACC, _E_DRAIN], F='doneF', G='old(P.Gamma)', **_LOC)]},
                2: {'ghost': 'doneX', 'invariant': _E_COMMON + ['q in old(P.F)', 'q not in doneF', _edges([_E_INIT, _E_ACC, _E_DRAIN, '(p == q and a == %(e)s and u == %(sb)s and t == (%(qa)s, %(e)s))',
                                                                                                           '(p == q and a == %(e)s and u in doneX and t == (%(qd)s, %(e)s))'], F='doneF', G='old(P.Gamma)', **_LOC)]},
                3: {'ghost': 'doneY', 'invariant': _E_COMMON + [_edges([_E_INIT, _E_ACC, _E_DRAIN, _E_LOOP], F='old(P.F)', G='old(P.Gamma)', G2='doneY', **_LOC)]}},
         pre_return_asserts={'end': ['stack_bottom not in old(P.Gamma) and stack_bottom != P.epsilon and P.Gamma == old(P.Gamma) | {stack_bottom}',
                                     'P.Q == old(P.Q) | {q_initial} | {q_drain} | {q_accept} and P.q0 == q_initial and P.F == {q_accept}',
                                     _edges([_E_INIT, _E_ACC, _E_DRAIN, _E_LOOP, _E_LAST], **dict(_E_FINAL, qi='q_initial', qd='q_drain', qa='q_accept', sb='stack_bottom'))]},
         theories=['naming'], props=['C10'],
         note='exact structure: a new stack symbol is pushed from a new initial state; every old accepting state can pop the marker into the new (only) accepting state or start draining into q_drain, '
              'which pops every old stack symbol and finally the marker; all old transitions, the input alphabet and epsilon are unchanged.  That this preserves the language is decided by the bounded stand-in')

import re as _re
def _on_result(x):
    # the wrapper works on a deep copy: the same statement with the result in the role of the modified automaton and the argument in the role of the old one
    x = _re.sub(r'old\(P\.(\w+)\)', r'OLDP.\1', x)
    x = x.replace('P.', 'result.').replace('OLDresult.', 'old(P).')
    return x
contract(M, 'pda_to_accept_on_empty_stack', {'P': 'PDA'}, returns='PDA', type_invariants=['fin(P.Q)'], ensures=[_on_result(x) for x in _ES_POST],
         theories=['naming'], props=['C10', 'C19'], note='the in-place construction on a deep copy: same structure statement about the result; the argument is not modified (frame obligation)')

# push/pop format: the clause of the property that the result really has only push or pop moves (language statement: bounded stand-in)
contract('gambatools.pda', 'PDA.is_push_pop_transition', {'self': 'PDA', 'p': 'State', 'a': 'Symbol', 'u': 'Symbol', 'q': 'State', 'v': 'Symbol'}, returns='Bool',
         ensures=['result == ((u == self.epsilon) != (v == self.epsilon))'], theories=[], props=['C10'])
_PP_OK = 'all(implies(t in lookup(%s, (p, a, u)), (u == %s) != (t[1] == %s)) for p in atoms() for a in atoms() for u in atoms() for t in pairs())'
_PP_INV = ['epsilon == old(P.epsilon)', 'P.epsilon == old(P.epsilon)', 'P.Sigma == old(P.Sigma)', 'P.delta == d0', 'P.F == f0', 'P.q0 == old(P.q0)', 'old(P.Q) <= P.Q',
           'dummy != epsilon', 'dummy not in old(P.Gamma)', 'P.Gamma == old(P.Gamma) | {dummy}', _PP_OK % ('delta1', 'epsilon', 'epsilon')]
contract(M, 'pda_to_push_pop_in_place', {'P': 'PDA'}, returns='None', modifies=['P'], requires=['pda_cfg_ok(P)', 'P.epsilon not in P.Sigma'], type_invariants=['fin(P.Q)'],
         ensures=['P.epsilon == old(P.epsilon)', 'P.Sigma == old(P.Sigma)', 'P.q0 == old(P.q0)', 'old(P.Q) <= P.Q',
                  'any(dm not in old(P.Gamma) and dm != P.epsilon and P.Gamma == old(P.Gamma) | {dm} for dm in atoms())',
                  _PP_OK % ('P.delta', 'P.epsilon', 'P.epsilon')],
         types={'delta1': 'Map[(State,Symbol,Symbol),Set[(State,Symbol)],default=set]'},
         loops={1: {'ghost': 'doneK', 'entry_snapshot': {'d0': 'P.delta', 'f0': 'P.F'}, 'invariant': _PP_INV},
                2: {'ghost': 'doneT', 'invariant': _PP_INV}},
         theories=['naming', 'word', 'pda', 'pdax'], props=['C10'],
         note='every transition of the result either pushes or pops (never both, never neither); a new stack symbol is added, old states are kept, input alphabet, epsilon and initial state are unchanged. '
              'Language preservation of the splitting through intermediate states is decided by the bounded stand-in')
contract(M, 'pda_to_push_pop', {'P': 'PDA'}, returns='PDA', requires=['pda_cfg_ok(P)', 'P.epsilon not in P.Sigma'], type_invariants=['fin(P.Q)'],
         ensures=['result.epsilon == old(P).epsilon', 'result.Sigma == old(P).Sigma', 'result.q0 == old(P).q0', 'old(P).Q <= result.Q',       # the body rebinds the name P
                  'any(dm not in old(P).Gamma and dm != old(P).epsilon and result.Gamma == old(P).Gamma | {dm} for dm in atoms())',
                  _PP_OK % ('result.delta', 'old(P).epsilon', 'old(P).epsilon')],
         theories=['naming', 'word', 'pda', 'pdax'], props=['C10', 'C19'], note='the in-place construction on a deep copy; the argument is not modified (frame obligation)')
contract(M, 'pda_is_push_pop', {'P': 'PDA'}, returns='Bool', ensures=['result == ' + (_PP_OK % ('P.delta', 'P.epsilon', 'P.epsilon'))], theories=[], props=['C10'],
         note='the recogniser used by the tests and the documentation: true exactly when every transition pushes or pops')
