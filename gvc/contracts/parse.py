"""C17: the layer of the four parsers that works on the tokenised description (class Automaton) - the validation methods of
AutomatonBuilder / DFABuilder / NFABuilder and the construction of the DFA / NFA object.  Each validation method gets an
exceptional postcondition (`raises`): it raises exactly when the stated defect is present in the description, and returns
normally otherwise; `build` raises exactly when one of them does and otherwise returns the automaton that was written.

Outside (bounded stand-in of C17): the tokeniser (str.split, the line dispatch of AutomatonParser.parse_line) and the meaning of
the label expressions (re.fullmatch is the uninterpreted relation re_fullmatch(expression, string), `value in label` the
uninterpreted relation str_contains).

Vocabulary (theory `descr`, explicit definitions): tr_ends(T, n) / tr_labels(T, n) / tr_keys(T, n) are the end points / labels /
(source, label) pairs of the first n transitions of the list T; list_elems(M) are the elements of a list of names."""
from ..contract import contract

MA = 'gambatools.automaton'
MB = 'gambatools.automaton_algorithms'
MD = 'gambatools.dfa_algorithms'
MN = 'gambatools.nfa_algorithms'
TH = ['descr']


def used(A, x='x', hi=None):
    """x is an initial state, a final state or an end point of one of the first `hi` transitions of A"""
    hi = hi or 'len(%s.transitions)' % A
    return '(%s in %s.initial_states or %s in %s.final_states or %s in tr_ends(%s.transitions, %s))' % (x, A, x, A, x, A, hi)


UNDECLARED = 'any(%s and x not in %s.states for x in atoms())'                # a state is used but not declared
BAD_LABEL = 'any(x in %s.states and not re_fullmatch(%s.state_regex, x) for x in atoms())'
NOT_ONE_INITIAL = 'card(%s.initial_states) != 1'
FIN = ['fin(self.A.states)', 'fin(self.A.initial_states)', 'fin(self.A.final_states)']

contract(MA, 'Automaton.used_states', {'self': 'Automaton'}, returns='Set[Atom]',
         ensures=['all((x in result) == %s for x in atoms())' % used('self')],
         types={'result': 'Set[Atom]'},
         loops={1: {'ghost': 'idx', 'invariant': ['all((x in result) == %s for x in atoms())' % used('self', hi='idx')]}},
         theories=TH, props=['C17'],
         note='the states used in a description: initial and final states and both end points of every transition; the sets of the description are not modified (frame)')

contract(MB, 'AutomatonBuilder._check_state_label', {'self': 'Builder', 'state': 'Atom'}, returns='None',
         raises='not re_fullmatch(self.state_regex, state)', theories=[], props=['C17'])
contract(MB, 'AutomatonBuilder._check_symbol', {'self': 'Builder', 'symbol': 'Atom'}, returns='None',
         raises='not re_fullmatch(self.symbol_regex, symbol)', theories=[], props=['C17'])
contract(MB, 'AutomatonBuilder._check_symbols', {'self': 'Builder', 'symbols': 'Set[Atom]'}, returns='None',
         raises='any(x in symbols and not re_fullmatch(self.symbol_regex, x) for x in atoms())',
         loops={1: {'ghost': 'done', 'invariant': ['all(implies(x in done, re_fullmatch(self.symbol_regex, x)) for x in atoms())']}},
         theories=[], props=['C17'], note='raises exactly when some symbol of the set does not match the symbol expression')
contract(MB, 'AutomatonBuilder._check_state_labels', {'self': 'Builder'}, returns='None',
         raises=BAD_LABEL % ('self.A', 'self'),
         loops={1: {'ghost': 'done', 'invariant': ['A == self.A', 'all(implies(x in done, re_fullmatch(self.state_regex, x)) for x in atoms())']}},
         theories=[], props=['C17'], note='raises exactly when some declared state does not match the state expression')
contract(MB, 'AutomatonBuilder._check_one_initial_state', {'self': 'Builder'}, returns='None', type_invariants=['fin(self.A.initial_states)'],
         raises=NOT_ONE_INITIAL % 'self.A', theories=[], props=['C17'],
         note='raises exactly when the number of initial states is not one')
contract(MB, 'AutomatonBuilder._check_states_are_declared', {'self': 'Builder'}, returns='None',
         raises=UNDECLARED % (used('self.A'), 'self.A'), theories=TH, props=['C17'],
         note='raises exactly when a state that is used (initial, final, end point of a transition) is not among the declared states')
contract(MB, 'AutomatonBuilder._check_symbols_are_declared', {'self': 'Builder', 'used_symbols': 'Set[Atom]', 'declared_symbols': 'Set[Atom]'}, returns='None',
         raises='not (used_symbols <= declared_symbols)', theories=[], props=['C17'])


# ------------------------------------------------------------------------------------------------ keyword items
_ITEM = 'self.A.items[key]'
_ITEM_BAD = 'key in self.A.items and len(%s) != 1' % _ITEM
for _m in ('get_symbol', 'get_state'):
    contract(MB, 'AutomatonBuilder.' + _m, {'self': 'Builder', 'key': 'Atom', 'default_value': 'Atom'}, returns='Atom',
             raises=_ITEM_BAD, ensures=['result == (%s[0] if key in self.A.items else default_value)' % _ITEM], theories=[], props=['C17'],
             note='the single value given for a keyword, the default when the keyword is absent; raises exactly when the keyword is present with no or several values')
_T = 'self.A.transitions'
_N = 'len(self.A.transitions)'
contract(MB, 'AutomatonBuilder.parse_symbol', {'self': 'Builder', 'key': 'Atom', 'value': 'Atom', 'default_value': 'Atom'}, returns='Atom',
         defaults={'key': "'epsilon'", 'value': "'ε'", 'default_value': "'_'"},
         raises=_ITEM_BAD,
         ensures=['implies(key in self.A.items, result == %s[0])' % _ITEM,
                  'implies(key not in self.A.items, result == (value if any(str_contains(%s[t][1], value) for t in range(%s)) else default_value))' % (_T, _N)],
         loops={1: {'ghost': 'idx', 'invariant': ['A == self.A', 'not any(str_contains(%s[t][1], value) for t in range(idx))' % _T]}},
         theories=[], props=['C17'],
         note='epsilon / blank symbol of a description: the declared one; otherwise the conventional symbol if some label contains it, else the documented default')
contract(MB, 'AutomatonBuilder.get_symbol_set', {'self': 'Builder', 'key': 'Atom', 'used_symbols': 'Set[Atom]'}, returns='Set[Atom]',
         raises='key in self.A.items and not (used_symbols <= list_elems(self.A.items[key]))',
         ensures=['implies(key in self.A.items, result == list_elems(self.A.items[key]))', 'implies(key not in self.A.items, result == used_symbols)'],
         types={'declared_symbols': 'Set[Atom]'}, theories=TH, props=['C17'],
         note='the declared alphabet if there is a declaration (raises exactly when a used symbol is missing from it), otherwise the symbols that are used')


# ------------------------------------------------------------------------------------------------ DFA descriptions
_KEYS_SAME = '%s[i][0] == %s[j][0] and %s[i][1] == %s[j][1]' % (_T, _T, _T, _T)
NONDET = 'any(0 <= i and i < j and j < %s and %s for i in ints() for j in ints())'
contract(MD, 'DFABuilder.used_input_symbols', {'self': 'Builder'}, returns='Set[Atom]',
         ensures=['result == tr_labels(%s, %s)' % (_T, _N)], theories=TH, props=['C17'],
         note='the labels that occur on transitions')
contract(MD, 'DFABuilder._check_is_deterministic', {'self': 'Builder'}, returns='None', types={'V': 'Set[(Atom,Atom)]'},
         raises=NONDET % (_N, _KEYS_SAME),
         loops={1: {'ghost': 'idx', 'invariant': ['A == self.A', 'V == tr_keys(%s, idx)' % _T, 'not ' + NONDET % ('idx', _KEYS_SAME)]}},
         theories=TH, props=['C17'], note='raises exactly when two transitions leave the same state with the same label')
NOT_TOTAL = 'any(p0 in %s and a0 in %s and (p0, a0) not in tr_keys(%s, %s) for p0 in atoms() for a0 in atoms())'
contract(MD, 'DFABuilder._check_is_total', {'self': 'Builder', 'input_symbols': 'Set[Atom]'}, returns='None', types={'V': 'Set[(Atom,Atom)]'},
         raises=NOT_TOTAL % ('self.A.states', 'input_symbols', _T, _N),
         loops={1: {'ghost': 'doneP', 'invariant': ['A == self.A', 'V == tr_keys(%s, %s)' % (_T, _N), 'all(implies(p0 in doneP and a0 in input_symbols, (p0, a0) in V) for p0 in atoms() for a0 in atoms())']},
                2: {'ghost': 'doneA', 'invariant': ['A == self.A', 'V == tr_keys(%s, %s)' % (_T, _N), 'all(implies(p0 in doneP and a0 in input_symbols, (p0, a0) in V) for p0 in atoms() for a0 in atoms())',
                                                    'all(implies(a0 in doneA, (p, a0) in V) for a0 in atoms())']}},
         theories=TH, props=['C17'], note='raises exactly when some declared state has no transition for some input symbol')


_HAS_STATES = 'any(y in self.A.states for y in atoms())'
def _decl(x):       # the states of the automaton: the declared ones, or - when none are declared - the ones that are used
    return '((%s and %s in self.A.states) or (not %s and %s))' % (_HAS_STATES, x, _HAS_STATES, used('self.A', x))
_KEY = "'input_symbols'"
def _input(x, usedsym='%%s in tr_labels(%s, %s)' % (_T, _N)):       # the input alphabet: the declared one, or - when none is declared - the labels that are used
    return "((%s in self.A.items and %s in list_elems(self.A.items[%s])) or (%s not in self.A.items and %s))" % (_KEY, x, _KEY, _KEY, usedsym % x)
_DFA_RAISES = [
    'any(%s and not %s for x in atoms())' % (used('self.A'), _decl('x')),                                             # a used state is not declared
    'any(%s and not re_fullmatch(self.state_regex, x) for x in atoms())' % _decl('x'),                                # a state name is malformed
    NOT_ONE_INITIAL % 'self.A',                                                                                       # not exactly one initial state
    NONDET % (_N, _KEYS_SAME),                                                                                        # two transitions for one (state, symbol)
    "(%s in self.A.items and any(x in tr_labels(%s, %s) and x not in list_elems(self.A.items[%s]) for x in atoms()))" % (_KEY, _T, _N, _KEY),   # a used symbol is not declared
    'any(%s and not re_fullmatch(self.symbol_regex, x) for x in atoms())' % _input('x'),                              # a symbol is malformed
    'any(%s and %s and (p0, a0) not in tr_keys(%s, %s) for p0 in atoms() for a0 in atoms())' % (_decl('p0'), _input('a0'), _T, _N),   # not total
]
_OT = 'old(self.A.transitions)'
_KEEPS = ['self.A.transitions == old(self.A.transitions)', 'self.A.initial_states == old(self.A.initial_states)', 'self.A.final_states == old(self.A.final_states)',
          'self.A.items == old(self.A.items)', 'self.A.states == result.Q', 'self.state_regex == old(self.state_regex)', 'self.symbol_regex == old(self.symbol_regex)',
          'self.transition_regex == old(self.transition_regex)']
contract(MD, 'DFABuilder.build', {'self': 'Builder'}, returns='DFA', modifies=['self'], type_invariants=FIN,
         raises=_DFA_RAISES,
         raise_witness={'AutomatonBuilder__check_states_are_declared': 0, 'AutomatonBuilder__check_state_labels': 1, 'AutomatonBuilder__check_one_initial_state': 2,
                        'DFABuilder__check_is_deterministic': 3, 'AutomatonBuilder_get_symbol_set': 4, 'AutomatonBuilder__check_symbols': 5, 'DFABuilder__check_is_total': 6},
         ensures=['all((x in result.Q) == %s for x in atoms())' % _decl('x').replace('self.A', 'old(self.A)'),
                  'all((x in result.Sigma) == %s for x in atoms())' % _input('x').replace('self.A', 'old(self.A)'),
                  'result.q0 in old(self.A.initial_states)', 'result.F == old(self.A.final_states)',
                  'all(implies(0 <= t and t < len(%s), (%s[t][0], %s[t][1]) in result.delta and result.delta[(%s[t][0], %s[t][1])] == %s[t][2]) for t in ints())' % ((_OT,) * 6),
                  'all(implies((u, v) in result.delta, (u, v) in tr_keys(%s, len(%s))) for u in atoms() for v in atoms())' % (_OT, _OT)] + _KEEPS,
         types={'delta': 'Map[(Atom,Atom),Atom]'},
         loops={1: {'ghost': 'idx', 'invariant': ['all(implies(0 <= t and t < idx, (%s[t][0], %s[t][1]) in delta and delta[(%s[t][0], %s[t][1])] == %s[t][2]) for t in ints())' % ((_T,) * 5),
                                                  'all(implies((u, v) in delta, (u, v) in tr_keys(%s, idx)) for u in atoms() for v in atoms())' % _T]}},
         theories=TH, props=['C17'],
         note='a tokenised DFA description is turned into exactly the automaton that was written: states = the declared ones (the used ones if there is no declaration), alphabet = the declared one (the labels used if there is '
              'no declaration), the initial state, the final states, one transition per line; an exception is raised exactly when a used state is undeclared, a name is malformed, the number of initial states is not one, '
              'two transitions share source and label, a used symbol is undeclared, or some (state, symbol) has no transition; the only effect on the description is that the state set is filled in')


# ------------------------------------------------------------------------------------------------ NFA descriptions
contract(MN, 'NFABuilder.used_input_symbols', {'self': 'Builder', 'epsilon': 'Atom'}, returns='Set[Atom]',
         ensures=['all((x in result) == (x in tr_labels(%s, %s) and x != epsilon) for x in atoms())' % (_T, _N)], theories=TH, props=['C17'],
         note='the labels that occur on transitions, without the epsilon symbol')
_EKEY = "'epsilon'"
_EPS = "(self.A.items[%s][0] if %s in self.A.items else ('ε' if any(str_contains(%s[t][1], 'ε') for t in range(%s)) else '_'))" % (_EKEY, _EKEY, _T, _N)
_NFA_USEDSYM = '(%%s in tr_labels(%s, %s) and %%s != %s)' % (_T, _N, _EPS)
def _ninput(x): return _input(x, usedsym=_NFA_USEDSYM.replace('%s', '%(x)s') % {'x': '%s'}) if False else \
    "((%s in self.A.items and %s in list_elems(self.A.items[%s])) or (%s not in self.A.items and %s))" % (_KEY, x, _KEY, _KEY, _NFA_USEDSYM % (x, x))
_NFA_RAISES = [
    'any(%s and not %s for x in atoms())' % (used('self.A'), _decl('x')),                                             # a used state is not declared
    'any(%s and not re_fullmatch(self.state_regex, x) for x in atoms())' % _decl('x'),                                # a state name is malformed
    NOT_ONE_INITIAL % 'self.A',                                                                                       # not exactly one initial state
    "(%s in self.A.items and len(self.A.items[%s]) != 1)" % (_EKEY, _EKEY),                                           # epsilon declared with no or several values
    "(%s in self.A.items and any(%s and x not in list_elems(self.A.items[%s]) for x in atoms()))" % (_KEY, _NFA_USEDSYM % ('x', 'x'), _KEY),   # a used symbol is not declared
    'any(%s and not re_fullmatch(self.symbol_regex, x) for x in atoms())' % _ninput('x'),                             # a symbol is malformed
    "(%s in self.A.items and %s in list_elems(self.A.items[%s]))" % (_KEY, _EPS, _KEY),                               # the epsilon symbol is declared as an input symbol
]
_OEPS = _EPS.replace('self.A', 'old(self.A)')
contract(MN, 'NFABuilder.build', {'self': 'Builder'}, returns='NFA', modifies=['self'], type_invariants=FIN,
         raises=_NFA_RAISES,
         raise_witness={'AutomatonBuilder__check_states_are_declared': 0, 'AutomatonBuilder__check_state_labels': 1, 'AutomatonBuilder__check_one_initial_state': 2,
                        'AutomatonBuilder_parse_symbol': 3, 'AutomatonBuilder_get_symbol_set': 4, 'AutomatonBuilder__check_symbols': 5,
                        'ctor#1': None, 'ctor#2': None, 'ctor#3': 6, 'ctor#4': None, 'ctor#5': None},      # only `epsilon not in Sigma` can fail in the constructor
         ensures=['all((x in result.Q) == %s for x in atoms())' % _decl('x').replace('self.A', 'old(self.A)'),
                  'all((x in result.Sigma) == %s for x in atoms())' % _ninput('x').replace('self.A', 'old(self.A)'),
                  'result.epsilon == %s' % _OEPS,
                  'result.q0 in old(self.A.initial_states)', 'result.F == old(self.A.final_states)',
                  'all((z in lookup(result.delta, (u, v))) == any(%s[t][0] == u and %s[t][1] == v and %s[t][2] == z for t in range(len(%s))) for u in atoms() for v in atoms() for z in atoms())' % ((_OT,) * 4)] + _KEEPS,
         types={'delta': 'Map[(Atom,Atom),Set[Atom],default=set]'},
         loops={1: {'ghost': 'idx', 'invariant': ['all(implies((u, v) in delta, (u, v) in tr_keys(%s, idx)) for u in atoms() for v in atoms())' % _T,
                                                  'all((z in lookup(delta, (u, v))) == any(%s[t][0] == u and %s[t][1] == v and %s[t][2] == z for t in range(idx)) for u in atoms() for v in atoms() for z in atoms())' % ((_T,) * 3)],
                    'after': ['all(implies((u, v) in delta and z in delta[(u, v)], z in lookup(delta, (u, v))) for u in atoms() for v in atoms() for z in atoms())',
                              'all(implies((u, v) in delta and z in delta[(u, v)], z in tr_ends(%s, %s)) for u in atoms() for v in atoms() for z in atoms())' % (_T, _N),
                              'all(implies((u, v) in delta and z in delta[(u, v)], z in self.A.states) for u in atoms() for v in atoms() for z in atoms())']}},
         theories=TH, props=['C17'],
         note='a tokenised NFA description is turned into exactly the automaton that was written (states, alphabet without the epsilon symbol, epsilon symbol = the declared one, else the conventional one if a label contains it, else "_", '
              'initial state, final states, delta(p, a) = the targets of the lines p q a); an exception is raised exactly when a used state is undeclared, a name is malformed, the number of initial states is not one, the epsilon '
              'declaration has no or several values, a used symbol is undeclared, or the epsilon symbol is among the declared input symbols')


# ------------------------------------------------------------------------------------------------ the line-level methods of AutomatonParser (after str.split)
DUP = 'any(0 <= i and i < j and j < %s and words[i] == words[j] for i in ints() for j in ints())'
contract(MB, 'AutomatonParser._check_no_duplicate_keys', {'self': 'Parser', 'key': 'Atom'}, returns='None', raises='key in self.items', theories=[], props=['C17'],
         note='raises exactly when the keyword has been seen before (repeated declaration)')
contract(MB, 'AutomatonParser._check_no_duplicates', {'self': 'Parser', 'words': 'List[Atom]'}, returns='None', types={'W': 'Set[Atom]'},
         raises=DUP % 'len(words)',
         loops={1: {'ghost': 'idx', 'invariant': ['all((x in W) == any(words[t] == x for t in range(idx)) for x in atoms())', 'not ' + DUP % 'idx']}},
         theories=[], props=['C17'], note='raises exactly when a name occurs twice in the list')
contract(MB, 'AutomatonParser._check_keys_exist', {'self': 'Parser', 'keys': 'List[Atom]'}, returns='None',
         raises='any(keys[t] not in self.items for t in range(len(keys)))',
         loops={1: {'ghost': 'idx', 'invariant': ['all(implies(0 <= t and t < idx, keys[t] in self.items) for t in ints())']}},
         theories=[], props=['C17'])
contract(MB, 'AutomatonParser._check_state_label', {'self': 'Parser', 'state': 'Atom'}, returns='None',
         raises='not re_fullmatch(self.state_regex, state)', theories=[], props=['C17'])
contract(MB, 'AutomatonParser._check_transition_label', {'self': 'Parser', 'label': 'Atom'}, returns='None',
         raises='not re_fullmatch(self.transition_regex, label)', theories=[], props=['C17'])
contract(MB, 'AutomatonParser.parse_state', {'self': 'Parser', 'state': 'Atom'}, returns='Atom',
         raises='not re_fullmatch(self.state_regex, state)', ensures=['result == state'], theories=[], props=['C17'])
contract(MB, 'AutomatonParser.parse_transition_label', {'self': 'Parser', 'label': 'Atom'}, returns='Atom',
         raises='not re_fullmatch(self.transition_regex, label)', ensures=['result == label'], theories=[], props=['C17'])
contract(MB, 'AutomatonParser.parse_state_set', {'self': 'Parser', 'keyword': 'Atom', 'words': 'List[Atom]', 'check_non_empty': 'Bool'}, returns='Set[Atom]',
         defaults={'check_non_empty': 'False'},
         raises=['keyword in self.items', DUP % 'len(words)', 'check_non_empty and len(words) == 0', 'any(not re_fullmatch(self.state_regex, words[t]) for t in range(len(words)))'],
         raise_witness={'AutomatonParser__check_no_duplicate_keys': 0, 'AutomatonParser__check_no_duplicates': 1, 'raise#1': 2, 'AutomatonParser_parse_state': 3},
         ensures=['result == list_elems(words)'], theories=TH, props=['C17'],
         note='a declaration line "states ..." / "initial ..." / "final ...": the set of the names listed; raises exactly when the declaration is repeated, a name is listed twice, the list is empty where that is not allowed, or a name is malformed')
_OTR = 'old(self.transitions)'
_PT_INV = ['len(self.transitions) == len(%s) + %%s' % _OTR,
           'all(implies(0 <= t and t < len(%s), self.transitions[t] == %s[t]) for t in ints())' % (_OTR, _OTR),
           'all(implies(0 <= k and k < %%s, self.transitions[len(%s) + k] == (words[0], words[k + 2], words[1])) for k in ints())' % _OTR,
           'self.items == old(self.items)', 'self.states == old(self.states)', 'self.initial_states == old(self.initial_states)', 'self.final_states == old(self.final_states)',
           'self.keywords == old(self.keywords)', 'self.state_regex == old(self.state_regex)', 'self.transition_regex == old(self.transition_regex)']
contract(MB, 'AutomatonParser.parse_transition', {'self': 'Parser', 'words': 'List[Atom]', 'line': 'Atom'}, returns='None', modifies=['self'],
         raises=['len(words) <= 2', 'not re_fullmatch(self.state_regex, words[0])', 'not re_fullmatch(self.state_regex, words[1])',
                 'any(2 <= t and t < len(words) and not re_fullmatch(self.transition_regex, words[t]) for t in ints())'],
         raise_witness={'raise#1': 0, 'AutomatonParser_parse_transition_label': 3},
         ensures=[x % 'len(words) - 2' if '%s' in x else x for x in _PT_INV],
         loops={1: {'ghost': 'idx', 'invariant': ['p == words[0]', 'q == words[1]', 'len(words) > 2'] + [x % 'idx' if '%s' in x else x for x in _PT_INV]
                                                 + ['all(implies(2 <= t and t < idx + 2, re_fullmatch(self.transition_regex, words[t])) for t in ints())']}},
         theories=[], props=['C17'],
         note='a transition line "p q a1 ... ak": the transitions (p, a1, q) ... (p, ak, q) are appended in this order and nothing else changes; raises exactly when there is no label, a state name is malformed or a label is malformed')


# ------------------------------------------------------------------------------------------------ the class invariants themselves
# The constructor obligations of every proof (C03, C14, C17, C18, ...) use the predicates dfa_wf / nfa_wf / pda_wf; here the validity
# checks of the classes are verified against them: _check_validity raises (AssertionError) exactly when the predicate is false.
contract('gambatools.dfa', 'DFA._is_total', {'self': 'DFA'}, returns='Bool',
         ensures=['result == all(implies(x in self.Q and y in self.Sigma, (x, y) in self.delta) for x in atoms() for y in atoms())'],
         loops={1: {'ghost': 'doneQ', 'invariant': ['Q == self.Q', 'Sigma == self.Sigma', 'delta == self.delta', 'all(implies(x in doneQ and y in self.Sigma, (x, y) in self.delta) for x in atoms() for y in atoms())']},
                2: {'ghost': 'doneS', 'invariant': ['Q == self.Q', 'Sigma == self.Sigma', 'delta == self.delta', 'all(implies(x in doneQ and y in self.Sigma, (x, y) in self.delta) for x in atoms() for y in atoms())',
                                                    'all(implies(y in doneS, (q, y) in self.delta) for y in atoms())']}},
         theories=['dfa'], props=['C17'], note='true exactly when every (state, symbol) has a transition')
contract('gambatools.dfa', 'DFA._check_validity', {'self': 'DFA'}, returns='None', raises='not dfa_wf(self)',
         loops={1: {'ghost': 'doneK', 'invariant': ['Q == self.Q', 'Sigma == self.Sigma', 'delta == self.delta', 'q0 == self.q0', 'F == self.F', 'q0 in Q', 'F <= Q',
                                                    'all(implies((x, y) in doneK, x in self.Q and y in self.Sigma and self.delta[(x, y)] in self.Q) for x in atoms() for y in atoms())']}},
         theories=['dfa'], props=['C17'],
         note='the class invariant of DFA: the validity check fails (AssertionError) exactly when dfa_wf - the predicate used as constructor obligation in all proofs - is false')
contract('gambatools.nfa', 'NFA._check_validity', {'self': 'NFA'}, returns='None', raises='not nfa_wf(self)',
         loops={1: {'ghost': 'doneK', 'invariant': ['Q == self.Q', 'Sigma == self.Sigma', 'delta == self.delta', 'q0 == self.q0', 'F == self.F', 'epsilon == self.epsilon', 'q0 in Q', 'F <= Q', 'epsilon not in Sigma',
                                                    'all(implies((x, y) in doneK, x in self.Q and (y in self.Sigma or y == self.epsilon) and self.delta[(x, y)] <= self.Q) for x in atoms() for y in atoms())']}},
         theories=['nfa'], props=['C17'],
         note='the class invariant of NFA: the validity check fails exactly when nfa_wf is false')
contract('gambatools.tm', 'TM._check_validity', {'self': 'TM'}, returns='None', raises='not tm_wf(self)',
         loops={1: {'ghost': 'doneK', 'invariant': ['Q == self.Q', 'Sigma == self.Sigma', 'Gamma == self.Gamma', 'delta == self.delta', 'q0 == self.q0', 'q_accept == self.q_accept', 'q_reject == self.q_reject', 'blank == self.blank',
                                                    'q0 in Q', 'q_accept in Q', 'q_reject in Q', 'q_reject != q_accept', 'blank not in Sigma', 'blank in Gamma', 'Sigma <= Gamma',
                                                    "all(implies((x, y) in doneK, x in self.Q and y in self.Gamma and self.delta[(x, y)][0] in self.Q and self.delta[(x, y)][1] in self.Gamma and (self.delta[(x, y)][2] == 'L' or self.delta[(x, y)][2] == 'R')) for x in atoms() for y in atoms())"]}},
         theories=['tm'], props=['C17'],
         note='the class invariant of TM: the validity check fails exactly when tm_wf is false')
_PDA_EQ = ['Q == self.Q', 'Sigma == self.Sigma', 'Gamma == self.Gamma', 'delta == self.delta', 'q0 == self.q0', 'F == self.F', 'epsilon == self.epsilon',
           'q0 in Q', 'epsilon not in Sigma', 'epsilon not in Gamma', 'F <= Q']
_PDA_KEY_OK = '(x in self.Q and (y in self.Sigma or y == self.epsilon) and (u in self.Gamma or u == self.epsilon))'
_PDA_TGT_OK = '(q1 in self.Q and (v1 in self.Gamma or v1 == self.epsilon))'
contract('gambatools.pda', 'PDA._check_validity', {'self': 'PDA'}, returns='None', raises='not pda_wf(self)',
         loops={1: {'ghost': 'doneK', 'invariant': _PDA_EQ + [
                        'all(implies((x, y, u) in doneK, %s) for x in atoms() for y in atoms() for u in atoms())' % _PDA_KEY_OK,
                        'all(implies((x, y, u) in doneK and (q1, v1) in self.delta[(x, y, u)], %s) for x in atoms() for y in atoms() for u in atoms() for q1 in atoms() for v1 in atoms())' % _PDA_TGT_OK]},
                2: {'ghost': 'doneT', 'invariant': _PDA_EQ + [
                        'all(implies((x, y, u) in doneK, %s) for x in atoms() for y in atoms() for u in atoms())' % _PDA_KEY_OK,
                        'all(implies((x, y, u) in doneK and (q1, v1) in self.delta[(x, y, u)], %s) for x in atoms() for y in atoms() for u in atoms() for q1 in atoms() for v1 in atoms())' % _PDA_TGT_OK,
                        '(p, a, u) in self.delta', 'Q1 == self.delta[(p, a, u)]', 'p in Q', 'a in Sigma or a == epsilon', 'u in Gamma or u == epsilon',
                        'all(implies((q1, v1) in doneT, %s) for q1 in atoms() for v1 in atoms())' % _PDA_TGT_OK]}},
         theories=['pda'], props=['C17'],
         note='the class invariant of PDA: the validity check fails exactly when pda_wf is false (pda_wf becomes the constructor obligation for PDA objects)')


# ------------------------------------------------------------------------------------------------ PDA descriptions (labels "a,uv": characters 0, 2, 3)
MP = 'gambatools.pda_algorithms'
_LEN4 = 'any(0 <= t and t < %s and strlen(%s[t][1]) != 4 for t in ints())' % (_N, _T)
_SHORT = lambda k: 'any(0 <= t and t < %s and strlen(%s[t][1]) <= %d for t in ints())' % (_N, _T, k)
contract(MP, 'PDABuilder.used_input_symbols', {'self': 'Builder', 'epsilon': 'Atom'}, returns='Set[Atom]',
         raises=_SHORT(0), ensures=['all((x in result) == (x in tr_chars(%s, %s, 0) and x != epsilon) for x in atoms())' % (_T, _N)], theories=TH, props=['C17'],
         note='the first characters of the labels, without the epsilon symbol (IndexError exactly when a label is empty)')
contract(MP, 'PDABuilder.used_stack_symbols', {'self': 'Builder', 'epsilon': 'Atom'}, returns='Set[Atom]', types={'result': 'Set[Atom]'},
         raises=_SHORT(3),
         ensures=['all((x in retval) == ((x in tr_chars(%s, %s, 2) or x in tr_chars(%s, %s, 3)) and x != epsilon) for x in atoms())' % (_T, _N, _T, _N)],      # retval: the function has a local called `result`
         loops={1: {'ghost': 'idx', 'invariant': ['A == self.A', 'all((x in result) == (x in tr_chars(%s, idx, 2) or x in tr_chars(%s, idx, 3)) for x in atoms())' % (_T, _T),
                                                  'all(implies(0 <= t and t < idx, strlen(%s[t][1]) > 3) for t in ints())' % _T],
                    'after': ['all((x in result) == (x in tr_chars(%s, %s, 2) or x in tr_chars(%s, %s, 3)) for x in atoms())' % (_T, _N, _T, _N)]}},
         theories=TH, props=['C17'], note='the third and fourth characters of the labels, without the epsilon symbol (IndexError exactly when a label has fewer than four characters)')
_SKEY = "'stack_symbols'"
_P_IN = '(%%s in tr_chars(%s, %s, 0) and %%s != %s)' % (_T, _N, _EPS)
_P_ST = '((%%s in tr_chars(%s, %s, 2) or %%s in tr_chars(%s, %s, 3)) and %%s != %s)' % (_T, _N, _T, _N, _EPS)
def _pinput(x): return "((%s in self.A.items and %s in list_elems(self.A.items[%s])) or (%s not in self.A.items and %s))" % (_KEY, x, _KEY, _KEY, _P_IN % (x, x))
def _pstack(x): return "((%s in self.A.items and %s in list_elems(self.A.items[%s])) or (%s not in self.A.items and %s))" % (_SKEY, x, _SKEY, _SKEY, _P_ST % (x, x, x))
_PDA_RAISES = [
    'any(%s and not %s for x in atoms())' % (used('self.A'), _decl('x')),                                             # 0 a used state is not declared
    'any(%s and not re_fullmatch(self.state_regex, x) for x in atoms())' % _decl('x'),                                # 1 a state name is malformed
    NOT_ONE_INITIAL % 'self.A',                                                                                       # 2 not exactly one initial state
    "(%s in self.A.items and len(self.A.items[%s]) != 1)" % (_EKEY, _EKEY),                                           # 3 epsilon declared with no or several values
    _LEN4,                                                                                                            # 4 a label does not have four characters
    "(%s in self.A.items and any(%s and x not in list_elems(self.A.items[%s]) for x in atoms()))" % (_KEY, _P_IN % ('x', 'x'), _KEY),      # 5 a used input symbol is not declared
    "(%s in self.A.items and any(%s and x not in list_elems(self.A.items[%s]) for x in atoms()))" % (_SKEY, _P_ST % ('x', 'x', 'x'), _SKEY),  # 6 a used stack symbol is not declared
    'any(%s and not re_fullmatch(self.symbol_regex, x) for x in atoms())' % _pinput('x'),                             # 7 an input symbol is malformed
    "(%s in self.A.items and %s in list_elems(self.A.items[%s]))" % (_KEY, _EPS, _KEY),                               # 8 epsilon declared as an input symbol
    "(%s in self.A.items and %s in list_elems(self.A.items[%s]))" % (_SKEY, _EPS, _SKEY),                             # 9 epsilon declared as a stack symbol
]
_PTR = 'any(%s[t][0] == p1 and char_at(%s[t][1], 0) == a1 and char_at(%s[t][1], 2) == u1 and %s[t][2] == q1 and char_at(%s[t][1], 3) == v1 for t in range(%s))'
_PQ = 'for p1 in atoms() for a1 in atoms() for u1 in atoms() for q1 in atoms() for v1 in atoms()'
contract(MP, 'PDABuilder.build', {'self': 'Builder'}, returns='PDA', modifies=['self'], type_invariants=FIN,
         raises=_PDA_RAISES,
         raise_witness={'AutomatonBuilder__check_states_are_declared': 0, 'AutomatonBuilder__check_state_labels': 1, 'AutomatonBuilder__check_one_initial_state': 2,
                        'AutomatonBuilder_parse_symbol': 3, 'PDABuilder_used_input_symbols': 4, 'PDABuilder_used_stack_symbols': 4, 'unpack': 4,
                        'AutomatonBuilder__check_symbols': 7, 'ctor#1': None, 'ctor#2': 8, 'ctor#3': 9, 'ctor#4': None, 'ctor#5': None, 'ctor#6': None},
         ensures=['all((x in result.Q) == %s for x in atoms())' % _decl('x').replace('self.A', 'old(self.A)'),
                  'all((x in result.Sigma) == %s for x in atoms())' % _pinput('x').replace('self.A', 'old(self.A)'),
                  'all((x in result.Gamma) == %s for x in atoms())' % _pstack('x').replace('self.A', 'old(self.A)'),
                  'result.epsilon == %s' % _OEPS, 'result.q0 in old(self.A.initial_states)', 'result.F == old(self.A.final_states)',
                  'all(((q1, v1) in lookup(result.delta, (p1, a1, u1))) == %s %s)' % (_PTR % ((_OT,) * 5 + ('len(%s)' % _OT,)), _PQ)] + _KEEPS,
         types={'delta': 'Map[(Atom,Atom,Atom),Set[(Atom,Atom)],default=set]'},
         loops={1: {'ghost': 'idx', 'invariant': ['all(implies((p1, a1, u1) in delta, any(%s[t][0] == p1 and char_at(%s[t][1], 0) == a1 and char_at(%s[t][1], 2) == u1 for t in range(idx))) for p1 in atoms() for a1 in atoms() for u1 in atoms())' % ((_T,) * 3),
                                                  'all(((q1, v1) in lookup(delta, (p1, a1, u1))) == %s %s)' % (_PTR % ((_T,) * 5 + ('idx',)), _PQ),
                                                  'all(implies(0 <= t and t < idx, strlen(%s[t][1]) == 4) for t in ints())' % _T],
                    'after': ['all(implies((p1, a1, u1) in delta and (q1, v1) in delta[(p1, a1, u1)], (q1, v1) in lookup(delta, (p1, a1, u1))) %s)' % _PQ]}},
         theories=TH, props=['C17'],
         note='a tokenised PDA description (labels "a,uv") is turned into exactly the automaton that was written; an exception is raised exactly when a used state is undeclared, a name is malformed, the number of initial '
              'states is not one, the epsilon declaration has no or several values, a label does not have four characters, a used input / stack symbol is undeclared, or the epsilon symbol is declared as an input or stack symbol')


# ------------------------------------------------------------------------------------------------ generic builder, fresh names (used by the TM builder)
contract(MB, 'AutomatonBuilder._fresh_state', {'self': 'Builder', 'states': 'Set[Atom]', 'hint': 'Atom'}, returns='Atom', defaults={'hint': "'P'"}, type_invariants=['fin(states)'],
         ensures=['result not in states', 'implies(hint not in states, result == hint)', 'result == hint or any(i >= 1 and result == hint_index_name(hint, i) and all(implies(1 <= j and j < i, hint_index_name(hint, j) in states) for j in ints()) for i in ints())'],
         loops={1: {'invariant': ['index >= 1', 'hint in states', 'all(implies(1 <= j and j < index, hint_index_name(hint, j) in states) for j in ints())'], 'decreases': ['card(states - unnamed_from(hint, index))'],
                    'body_end': ['state == hint_index_name(hint, index - 1)', 'state in states', 'states - unnamed_from(hint, index) == (states - unnamed_from(hint, index - 1)) - {state}']}},
         theories=['word', 'naming'], props=['C17'],
         note='a state name that is not in use: the hint itself if it is free, otherwise the first free name hint1, hint2, ... (total correctness: finitely many names are taken)')
contract(MB, 'AutomatonBuilder.build', {'self': 'Builder'}, returns='Automaton', modifies=['self'],
         raises=['any(%s and not %s for x in atoms())' % (used('self.A'), _decl('x')), 'any(%s and not re_fullmatch(self.state_regex, x) for x in atoms())' % _decl('x')],
         raise_witness={'AutomatonBuilder__check_states_are_declared': 0, 'AutomatonBuilder__check_state_labels': 1},
         ensures=['result == self.A', 'all((x in result.states) == %s for x in atoms())' % _decl('x').replace('self.A', 'old(self.A)'),
                  'self.A.transitions == old(self.A.transitions)', 'self.A.initial_states == old(self.A.initial_states)', 'self.A.final_states == old(self.A.final_states)', 'self.A.items == old(self.A.items)'],
         theories=TH, props=['C17'], note='the generic description with its state set filled in; raises exactly when a used state is undeclared or a state name is malformed')


# ------------------------------------------------------------------------------------------------ TM descriptions (labels "ab,d": characters 0, 1, 3)
MT = 'gambatools.tm_algorithms'
contract(MB, 'AutomatonBuilder.get_symbol_set', {'self': 'Builder', 'key': 'Atom', 'used_symbols': 'None'}, returns='Opt[Set[Atom]]', variant='none', defaults={'used_symbols': 'None'},
         ensures=['implies(key in self.A.items, result == list_elems(self.A.items[key]))', 'implies(key not in self.A.items, result == None)'],
         types={'declared_symbols': 'Set[Atom]'}, theories=TH, props=['C17'],
         note='entry point without used symbols: the declared alphabet, or None when there is no declaration; never raises')
contract(MT, 'TMBuilder.used_tape_symbols', {'self': 'Builder'}, returns='Set[Atom]', types={'result': 'Set[Atom]'},
         raises=_SHORT(1),
         ensures=['all((x in retval) == (x in tr_chars(%s, %s, 0) or x in tr_chars(%s, %s, 1)) for x in atoms())' % (_T, _N, _T, _N)],
         loops={1: {'ghost': 'idx', 'invariant': ['A == self.A', 'all((x in result) == (x in tr_chars(%s, idx, 0) or x in tr_chars(%s, idx, 1)) for x in atoms())' % (_T, _T),
                                                  'all(implies(0 <= t and t < idx, strlen(%s[t][1]) > 1) for t in ints())' % _T]}},
         theories=TH, props=['C17'], note='the first and second characters of the labels (IndexError exactly when a label has fewer than two characters)')
_ACC = "(self.A.items['accept'][0] if 'accept' in self.A.items else self._fresh_state(self.A.states, 'accept'))"
_REJ = "(self.A.items['reject'][0] if 'reject' in self.A.items else self._fresh_state(self.A.states, 'reject'))"
_BLANK = "(self.A.items['blank'][0] if 'blank' in self.A.items else ('□' if any(str_contains(%s[t][1], '□') for t in range(%s)) else '_'))" % (_T, _N)
def _tdecl(x): return '((%s and %s in self.A.states) or (not %s and (%s or %s == ACC0 or %s == REJ0)))' % (_HAS_STATES, x, _HAS_STATES, used('self.A', x), x, x)
_TKEY, _IKEY = "'tape_symbols'", "'input_symbols'"
def _tused(x): return '(%s in tr_chars(%s, %s, 0) or %s in tr_chars(%s, %s, 1))' % (x, _T, _N, x, _T, _N)
def _tape(x): return "((%s in self.A.items and %s in list_elems(self.A.items[%s])) or (%s not in self.A.items and %s))" % (_TKEY, x, _TKEY, _TKEY, _tused(x))
_HASIN = "(%s in self.A.items and any(y in list_elems(self.A.items[%s]) for y in atoms()))" % (_IKEY, _IKEY)
def _tinput(x): return "((%s and %s in list_elems(self.A.items[%s])) or (not %s and %s and %s != BLANK0))" % (_HASIN, x, _IKEY, _HASIN, _tape(x), x)
def _gamma(x): return '(%s or %s == BLANK0)' % (_tape(x), x)
def _last(t, hi, T=_T):       # no later line (before hi) has the same (state, symbol): line t is the one that survives in the transition function
    return '(not any(%s < t2 and t2 < %s and %s[t2][0] == %s[%s][0] and char_at(%s[t2][1], 0) == char_at(%s[%s][1], 0) for t2 in ints()))' % (t, hi, T, T, t, T, T, t)
_TM_RAISES = [
    'any(%s and not %s for x in atoms())' % (used('self.A'), _tdecl('x')),                                            # 0 a used state is not declared
    'any(%s and not re_fullmatch(self.state_regex, x) for x in atoms())' % _tdecl('x'),                               # 1 a state name is malformed
    NOT_ONE_INITIAL % 'self.A',                                                                                       # 2 not exactly one initial state
    "('accept' in self.A.items and len(self.A.items['accept']) != 1)",                                                # 3
    "('reject' in self.A.items and len(self.A.items['reject']) != 1)",                                                # 4
    "('blank' in self.A.items and len(self.A.items['blank']) != 1)",                                                  # 5
    _LEN4,                                                                                                            # 6 a label does not have four characters
    "(%s in self.A.items and any(%s and x not in list_elems(self.A.items[%s]) for x in atoms()))" % (_TKEY, _tused('x'), _TKEY),   # 7 a used tape symbol is not declared
    'not %s' % _tdecl('ACC0'),                                                                                        # 8 the accepting state is not a state
    'not %s' % _tdecl('REJ0'),                                                                                        # 9 the rejecting state is not a state
    'ACC0 == REJ0',                                                                                                   # 10
    _tinput('BLANK0'),                                                                                                # 11 the blank is an input symbol
    'any(%s and not %s for x in atoms())' % (_tinput('x'), _gamma('x')),                                              # 12 an input symbol is not a tape symbol
    "any(0 <= t and t < %s and %s and char_at(%s[t][1], 3) != 'L' and char_at(%s[t][1], 3) != 'R' for t in ints())" % (_N, _last('t', _N), _T, _T),     # 13 the direction of a surviving line is neither L nor R
]
def _o(s): return s.replace('self.A', 'old(self.A)')
contract(MT, 'TMBuilder.build', {'self': 'Builder'}, returns='TM', modifies=['self'], type_invariants=FIN,
         ghost={'ACC0': _ACC, 'REJ0': _REJ, 'BLANK0': _BLANK},
         raises=_TM_RAISES,
         raise_witness={'AutomatonBuilder__check_states_are_declared': 0, 'AutomatonBuilder__check_state_labels': 1, 'AutomatonBuilder__check_one_initial_state': 2,
                        'AutomatonBuilder_parse_symbol': 5, 'TMBuilder_used_tape_symbols': 6, 'unpack': 6, 'AutomatonBuilder_get_symbol_set': 7,
                        'ctor#1': None, 'ctor#2': 8, 'ctor#3': 9, 'ctor#4': 10, 'ctor#5': 11, 'ctor#6': None, 'ctor#7': 12, 'ctor#8': 13},
         ensures=['all((x in result.Q) == %s for x in atoms())' % _o(_tdecl('x')),
                  'all((x in result.Sigma) == %s for x in atoms())' % _o(_tinput('x')),
                  'all((x in result.Gamma) == %s for x in atoms())' % _o(_gamma('x')),
                  'result.blank == BLANK0', 'result.q_accept == ACC0', 'result.q_reject == REJ0', 'result.q0 in old(self.A.initial_states)',
                  'all(implies(0 <= t and t < len(%s), (%s[t][0], char_at(%s[t][1], 0)) in result.delta) for t in ints())' % ((_OT,) * 3),
                  'all(implies((x, y) in result.delta, any(0 <= t and t < len(%s) and %s[t][0] == x and char_at(%s[t][1], 0) == y and %s and result.delta[(x, y)] == (%s[t][2], char_at(%s[t][1], 1), char_at(%s[t][1], 3)) for t in ints())) for x in atoms() for y in atoms())' % (_OT, _OT, _OT, _last('t', 'len(%s)' % _OT, _OT), _OT, _OT, _OT)]
                 + [k for k in _KEEPS if 'result.Q' not in k],
         types={'delta': 'Map[(Atom,Atom),(Atom,Atom,Atom)]'},
         loops={1: {'ghost': 'idx', 'invariant': [
                        'all(implies(0 <= t and t < idx, (%s[t][0], char_at(%s[t][1], 0)) in delta) for t in ints())' % (_T, _T),
                        'all(implies((x, y) in delta, any(0 <= t and t < idx and %s[t][0] == x and char_at(%s[t][1], 0) == y and %s and delta[(x, y)] == (%s[t][2], char_at(%s[t][1], 1), char_at(%s[t][1], 3)) for t in ints())) for x in atoms() for y in atoms())' % (_T, _T, _last('t', 'idx'), _T, _T, _T),
                        'all(implies(0 <= t and t < idx, strlen(%s[t][1]) == 4) for t in ints())' % _T]}},
         theories=TH + ['word', 'naming'], props=['C17'],
         note='a tokenised TM description (labels "ab,d") is turned into exactly the machine that was written: accepting / rejecting state = the declared one or a fresh name, blank = declared / conventional / default, tape alphabet = declared or used symbols plus the blank, '
              'input alphabet = the declared one, or the tape symbols without the blank; every (state, symbol) entry of the transition function comes from the last line of the description for that pair (two lines for one pair are NOT rejected: the later one silently wins); an exception is raised exactly in the thirteen listed cases')


# ------------------------------------------------------------------------------------------------ the line dispatch of the tokeniser
_W = 'tokens(line)'
_REST = 'all(implies(0 <= k and k < len(%s) - 1, %%s[k] == %s[k + 1]) for k in ints())' % (_W, _W)
def _is(kw): return "(len(%s) > 0 and not str_startswith(%s[0], '%%') and %s[0] == '%s')" % (_W, _W, _W, kw)
_SKIP = "(len(%s) == 0 or str_startswith(%s[0], '%%'))" % (_W, _W)
_KWD = "(len(%s) > 0 and not str_startswith(%s[0], '%%') and %s[0] != 'states' and %s[0] != 'final' and %s[0] != 'initial' and %s[0] in self.keywords)" % ((_W,) * 6)
_TRANS = "(len(%s) > 0 and not str_startswith(%s[0], '%%') and %s[0] != 'states' and %s[0] != 'final' and %s[0] != 'initial' and %s[0] not in self.keywords)" % ((_W,) * 6)
_DUPW = 'any(1 <= i and i < j and j < len(%s) and %s[i] == %s[j] for i in ints() for j in ints())' % (_W, _W, _W)
_BADW = 'any(1 <= t and t < len(%s) and not re_fullmatch(self.state_regex, %s[t]) for t in ints())' % (_W, _W)
_DECLLINE = "(%s or %s or %s)" % (_is('states'), _is('final'), _is('initial'))
contract(MB, 'AutomatonParser.parse_line', {'self': 'Parser', 'line': 'Atom'}, returns='None', modifies=['self'],
         raises=["(%s and %s[0] in self.items)" % (_DECLLINE, _W),                                     # 0 repeated declaration of a state set
                 "(%s and %s)" % (_DECLLINE, _DUPW),                                                   # 1 a name listed twice
                 "(%s and len(%s) == 1)" % (_is('states'), _W),                                        # 2 empty state list
                 "(%s and %s)" % (_DECLLINE, _BADW),                                                   # 3 malformed state name
                 "(%s and %s[0] in self.items)" % (_KWD, _W),                                          # 4 repeated keyword
                 "(%s and len(%s) <= 2)" % (_TRANS, _W),                                               # 5 incomplete transition
                 "(%s and (not re_fullmatch(self.state_regex, %s[0]) or not re_fullmatch(self.state_regex, %s[1])))" % (_TRANS, _W, _W),      # 6
                 "(%s and any(2 <= t and t < len(%s) and not re_fullmatch(self.transition_regex, %s[t]) for t in ints()))" % (_TRANS, _W, _W)],   # 7
         ensures=['implies(%s, self == old(self))' % _SKIP,
                  'implies(%s, all((x in self.states) == any(1 <= t and t < len(%s) and %s[t] == x for t in ints()) for x in atoms()) and self.initial_states == old(self.initial_states) and self.final_states == old(self.final_states) and self.transitions == old(self.transitions))' % (_is('states'), _W, _W),
                  'implies(%s, all((x in self.final_states) == any(1 <= t and t < len(%s) and %s[t] == x for t in ints()) for x in atoms()) and self.initial_states == old(self.initial_states) and self.states == old(self.states) and self.transitions == old(self.transitions))' % (_is('final'), _W, _W),
                  'implies(%s, all((x in self.initial_states) == any(1 <= t and t < len(%s) and %s[t] == x for t in ints()) for x in atoms()) and self.states == old(self.states) and self.final_states == old(self.final_states) and self.transitions == old(self.transitions))' % (_is('initial'), _W, _W),
                  'implies(%s or %s, %s[0] in self.items and len(self.items[%s[0]]) == len(%s) - 1 and %s and all(implies(y != %s[0], (y in self.items) == (y in old(self.items))) for y in atoms()))' % (_DECLLINE, _KWD, _W, _W, _W, _REST % ('self.items[%s[0]]' % _W), _W),
                  'implies(%s, self.states == old(self.states) and self.initial_states == old(self.initial_states) and self.final_states == old(self.final_states) and self.transitions == old(self.transitions))' % _KWD,
                  'implies(%s, self.items == old(self.items) and self.states == old(self.states) and self.initial_states == old(self.initial_states) and self.final_states == old(self.final_states) and len(self.transitions) == len(old(self.transitions)) + len(%s) - 2 '
                  'and all(implies(0 <= t and t < len(old(self.transitions)), self.transitions[t] == old(self.transitions)[t]) for t in ints()) '
                  'and all(implies(0 <= k and k < len(%s) - 2, self.transitions[len(old(self.transitions)) + k] == (%s[0], %s[k + 2], %s[1])) for k in ints()))' % (_TRANS, _W, _W, _W, _W, _W),
                  'self.keywords == old(self.keywords)', 'self.state_regex == old(self.state_regex)', 'self.transition_regex == old(self.transition_regex)'],
         theories=TH, props=['C17'],
         note='one line of a description, given its blank-separated tokens (tokens(line): uninterpreted): comment and blank lines change nothing; "states / initial / final ..." set exactly that state set and record the declaration; a keyword line records its values; '
              'any other line appends its transitions; raises exactly in the eight listed cases (repeated declaration, duplicate name, empty state list, malformed name, repeated keyword, incomplete transition, malformed state or label)')
contract(MB, 'AutomatonBuilder._check_transition_label', {'self': 'Builder', 'label': 'Atom'}, returns='None',
         raises='not re_fullmatch(self.transition_regex, label)', theories=[], props=['C17'])
