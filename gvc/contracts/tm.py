from ..contract import contract

M = 'gambatools.tm_algorithms'

contract(M, 'tm_do_transition', {'T': 'TM', 'p': 'State', 'tape': 'List[Symbol]', 'head': 'Int'}, returns='(State, Int)', modifies=['tape'],
         requires=['tm_wf(T)', 'not tm_halting(T, p)', '0 <= head', 'head < len(tape)'],
         ensures=['result[0] == tstep_q(T, p, old(tape), head)', 'result[1] == tstep_head(T, p, old(tape), head)',
                  'tape == tstep_tape(T, p, old(tape), head)', '0 <= result[1]', 'result[1] < len(tape)'],
         theories=['word', 'tm'], props=['C11'])

_INV = ['q == run_q(T, word, i)', 'tape == run_tape(T, word, i)', 'head == run_head(T, word, i)', 'not tm_halting(T, q)', '0 <= head', 'head < len(tape)', '0 <= i']
contract(M, 'tm_accepts_word', {'T': 'TM', 'word': 'Word', 'max_steps': 'Int'}, returns='Opt[Bool]', defaults={'max_steps': '1000'},
         requires=['tm_wf(T)', 'max_steps >= 0'],
         ensures=['result == tm_verdict(T, word, max_steps)'],
         loops={1: {'ghost': 'i', 'invariant': _INV}},
         theories=['word', 'tm'], props=['C11', 'C02'])

_TRACE = ['len(result) == i + 1',
          'all(result[j][0] == run_q(T, word, j) and result[j][1] == run_tape(T, word, j) and result[j][2] == run_head(T, word, j) for j in range(len(result)))',
          'all(not tm_halting(T, result[j][0]) for j in range(len(result) - 1))']
contract(M, 'tm_simulate_word', {'T': 'TM', 'word': 'Word', 'max_steps': 'Int'}, returns='List[(State,List[Symbol],Int)]', defaults={'max_steps': '1000'},
         requires=['tm_wf(T)', 'max_steps >= 0'],
         ensures=['len(result) >= 1', 'len(result) <= max_steps + 1',
                  'all(result[j][0] == run_q(T, word, j) and result[j][1] == run_tape(T, word, j) and result[j][2] == run_head(T, word, j) for j in range(len(result)))',
                  'all(not tm_halting(T, result[j][0]) for j in range(len(result) - 1))',
                  'tm_halting(T, result[len(result) - 1][0]) or len(result) == max_steps + 1'],
         types={'result': 'List[(State,List[Symbol],Int)]'},
         loops={1: {'ghost': 'i', 'invariant': _INV + _TRACE}},
         theories=['word', 'tm'], props=['C11', 'C15'])

_ACC = '(over(T.Sigma, w) and wlen(w) %s and tm_accepted(T, w, max_steps))'
contract(M, 'tm_words_up_to_n', {'T': 'TM', 'n': 'Int', 'max_steps': 'Int'}, returns='Set[Word]', defaults={'max_steps': '1000'},
         requires=['tm_wf(T)', 'max_steps >= 0', 'n >= 0'],
         ensures=['all((w in result) == %s for w in allwords())' % (_ACC % '<= n')],
         types={'result': 'Set[Word]'},
         loops={1: {'ghost': 'i', 'invariant': ['all((w in result) == %s for w in allwords())' % (_ACC % '< i'), '0 <= i']},
                2: {'ghost': 'doneW', 'invariant': ['all((w in result) == (%s or (w in doneW and tm_accepted(T, w, max_steps))) for w in allwords())' % (_ACC % '< i'), '0 <= i']}},
         theories=['word', 'tm'], props=['C02'])
