from ..contract import contract

M = 'gambatools.dfa_algorithms'

contract(M, 'dfa_accepts_word', {'D': 'DFA', 'word': 'Word'}, returns='Bool',
         requires=['dfa_wf(D)', 'over(D.Sigma, word)'],
         ensures=['result == (dhat(D, D.q0, word) in D.F)'],
         loops={1: {'invariant': ['q == dhat(D, D.q0, prefix)', 'q in D.Q']}},
         theories=['word', 'dfa'], props=['C01', 'C19'])

_SUCC_W = '(w1 != nil() and last(w1) in D.Sigma and any((p0, init(w1)) in doneW and q1 == D.delta[(p0, last(w1))] for p0 in atoms()))'
_SUCC_S = '(w1 != nil() and init(w1) == word and last(w1) in doneS and q1 == D.delta[(q, last(w1))])'
_ACC_I = '(over(D.Sigma, w) and wlen(w) <= i and dfa_accepts(D, w))'
_NEW_W = '(w != nil() and last(w) in D.Sigma and any((p0, init(w)) in doneW and D.delta[(p0, last(w))] in D.F for p0 in atoms()))'
_NEW_S = '(w != nil() and init(w) == word and last(w) in doneS and D.delta[(q, last(w))] in D.F)'
_I1 = 'all(((p, w) in W) == (over(D.Sigma, w) and wlen(w) == i and p == dhat(D, D.q0, w)) for p in atoms() for w in allwords())'
contract(M, 'dfa_words_up_to_n', {'D': 'DFA', 'n': 'Int'}, returns='Set[Word]',
         requires=['dfa_wf(D)', 'n >= 0'],
         ensures=['all((w in result) == (over(D.Sigma, w) and wlen(w) <= n and dfa_accepts(D, w)) for w in allwords())'],
         types={'words': 'Set[Word]', 'W': 'Set[(State,Word)]', 'W1': 'Set[(State,Word)]'},
         loops={1: {'ghost': 'i', 'invariant': [_I1, 'all((w in words) == %s for w in allwords())' % _ACC_I, '0 <= i']},
                2: {'ghost': 'doneW', 'invariant': [_I1, '0 <= i',
                                                   'all(((q1, w1) in W1) == %s for q1 in atoms() for w1 in allwords())' % _SUCC_W,
                                                   'all((w in words) == (%s or %s) for w in allwords())' % (_ACC_I, _NEW_W)]},
                3: {'ghost': 'doneS', 'invariant': [_I1, '0 <= i', '(q, word) in W', 'doneW <= W',
                                                   'all(((q1, w1) in W1) == (%s or %s) for q1 in atoms() for w1 in allwords())' % (_SUCC_W, _SUCC_S),
                                                   'all((w in words) == (%s or %s or %s) for w in allwords())' % (_ACC_I, _NEW_W, _NEW_S)]}},
         theories=['word', 'dfa'], props=['C02', 'C19'])
