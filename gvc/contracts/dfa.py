from ..contract import contract

M = 'gambatools.dfa_algorithms'

contract(M, 'dfa_accepts_word', {'D': 'DFA', 'word': 'Word'}, returns='Bool',
         requires=['dfa_wf(D)', 'over(D.Sigma, word)'],
         ensures=['result == (dhat(D, D.q0, word) in D.F)'],
         loops={1: {'invariant': ['q == dhat(D, D.q0, prefix)', 'q in D.Q']}},
         theories=['word', 'dfa'], props=['C01', 'C19'])
