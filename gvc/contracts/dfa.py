from ..contract import contract

M = 'gambatools.dfa_algorithms'

contract(M, 'dfa_accepts_word', {'D': 'DFA', 'word': 'Word'}, returns='Bool',
         requires=['dfa_wf(D)', 'over(D.Sigma, word)'],
         ensures=['result == (dhat(D, D.q0, word) in D.F)'],
         loops={1: {'invariant': ['q == dhat(D, D.q0, prefix)', 'q in D.Q']}},
         theories=['word', 'dfa'], props=['C01', 'C19'])

_SUCC_W = '(w1 != nil() and last(w1) in D.Sigma and any((p0, init(w1)) in doneW and q1 == D.delta[(p0, last(w1))] for p0 in atoms()))'
_SUCC_S = '(w1 != nil() and init(w1) == word and last(w1) in doneS and q1 == D.delta[(q, last(w1))])'
_ACC_I = '(over(D.Sigma, w) and wlen(w) <= i and dfa_accepts(D, w))'
_NEW_W = '(w != nil() and last(w) in D.Sigma and any((p0, init(w)) in doneW and D.delta[(p0, last(w))] in D.F for p0 in atoms()))'
_NEW_S = '(w != nil() and init(w) == word and last(w) in doneS and D.delta[(q, last(w))] in D.F)'
_I1 = 'all(((p, w) in W) == (over(D.Sigma, w) and wlen(w) == i and p == dhat(D, D.q0, w)) for p in atoms() for w in allwords())'
contract(M, 'dfa_words_up_to_n', {'D': 'DFA', 'n': 'Int'}, returns='Set[Word]',
         requires=['dfa_wf(D)', 'n >= 0'],
         ensures=['all((w in result) == (over(D.Sigma, w) and wlen(w) <= n and dfa_accepts(D, w)) for w in allwords())'],
         types={'words': 'Set[Word]', 'W': 'Set[(State,Word)]', 'W1': 'Set[(State,Word)]'},
         loops={1: {'ghost': 'i', 'invariant': [_I1, 'all((w in words) == %s for w in allwords())' % _ACC_I, '0 <= i']},
                2: {'ghost': 'doneW', 'invariant': [_I1, '0 <= i',
                                                   'all(((q1, w1) in W1) == %s for q1 in atoms() for w1 in allwords())' % _SUCC_W,
                                                   'all((w in words) == (%s or %s) for w in allwords())' % (_ACC_I, _NEW_W)]},
                3: {'ghost': 'doneS', 'invariant': [_I1, '0 <= i', '(q, word) in W', 'doneW <= W',
                                                   'all(((q1, w1) in W1) == (%s or %s) for q1 in atoms() for w1 in allwords())' % (_SUCC_W, _SUCC_S),
                                                   'all((w in words) == (%s or %s or %s) for w in allwords())' % (_ACC_I, _NEW_W, _NEW_S)]}},
         theories=['word', 'dfa'], props=['C02', 'C19'])

# ---------------------------------------------------------------------------------------------- C14
contract(M, 'dfa_complement', {'D': 'DFA'}, returns='DFA', requires=['dfa_wf(D)'],
         ensures=['dfa_wf(result)', 'result.Q == D.Q', 'result.Sigma == D.Sigma', 'result.q0 == D.q0', 'result.F == D.Q - D.F', 'result.delta == D.delta',
                  'all(implies(over(D.Sigma, w), dfa_accepts(result, w) == (not dfa_accepts(D, w))) for w in allwords())'],
         theories=['word', 'dfa'], props=['C14', 'C19', 'C12'])

contract(M, 'fresh_state', {'Q': 'Set[State]', 'hint': 'Atom'}, returns='State', defaults={'hint': "'P'"},
         requires=[], ensures=['result not in Q', 'any(i >= 1 and result == hint_index_name(hint, i) for i in ints())'], type_invariants=['fin(Q)'],
         loops={1: {'invariant': ['index >= 1'], 'decreases': ['card(Q - unnamed_from(hint, index))'],
                    'body_end': ['q == hint_index_name(hint, index - 1)', 'q in Q', 'Q - unnamed_from(hint, index) == (Q - unnamed_from(hint, index - 1)) - {q}']}},
         theories=['word', 'naming'], props=['C14', 'C10'],
         note='total correctness: every unsuccessful round removes the name just tried from the finitely many names hint+k (k >= index) that are taken in Q; fin(Q) is the type invariant of Python sets')

_R_COMMON = ['V <= D.Q', 'discovered <= D.Q', 'V <= Reach(D, q)',
             'implies(depth == 0, discovered <= Reach(D, q))', 'implies(depth != 0, discovered <= Reach1(D, q))',
             'implies(depth != 0, V <= Reach1(D, q) | {q})',
             'implies(depth == 0, q in discovered)',
             'implies(depth != 0, q in V or all(D.delta[(q, a)] in discovered for a in D.Sigma))']
contract(M, 'dfa_reachable_states', {'D': 'DFA', 'q': 'State', 'depth': 'Int'}, returns='Set[State]', defaults={'depth': '0'},
         requires=['dfa_wf(D)', 'q in D.Q', 'fin(D.Q)'],
         ensures=['implies(depth == 0, result == Reach(D, q))', 'implies(depth != 0, result == Reach1(D, q))', 'result <= D.Q'],
         types={'discovered': 'Set[State]', 'Vnext': 'Set[State]', 'V': 'Set[State]'},
         # termination: every round that does not break discovers at least one more of the finitely many states
         loops={1: {'invariant': _R_COMMON + ['all(D.delta[(x, a)] in discovered for x in discovered - V for a in D.Sigma)'],
                    'exit_hints': ['Reach_least(D, q, discovered)', 'Reach1_least(D, q, discovered)'],
                    'snapshot': {'c0': 'card(D.Q - discovered)'}, 'decreases': ['card(D.Q - discovered)']},
                2: {'ghost': 'donePairs', 'invariant': _R_COMMON + ['fin(Vnext)', 'card(D.Q - discovered) + card(Vnext) == c0',
                                                                   'Vnext <= discovered', 'Vnext <= D.Q', 'Vnext <= Reach(D, q)',
                                                                   'all(D.delta[(x, a)] in discovered for x in discovered - V - Vnext for a in D.Sigma)',
                                                                   'all(D.delta[(u0, a0)] in discovered for (u0, a0) in donePairs)']}},
         theories=['word', 'dfa'], props=['C14', 'C19'])

contract(M, 'dfa_remove_unreachable_states', {'D': 'DFA'}, returns='DFA', requires=['dfa_wf(D)', 'fin(D.Q)'],
         ensures=['dfa_wf(result)', 'result.Q == Reach(D, D.q0)', 'result.Sigma == D.Sigma', 'result.q0 == D.q0', 'result.F == D.F & Reach(D, D.q0)',
                  'all(result.delta[(x, a)] == D.delta[(x, a)] for x in Reach(D, D.q0) for a in D.Sigma)',
                  'all(implies(over(D.Sigma, w), dfa_accepts(result, w) == dfa_accepts(D, w)) for w in allwords())'],
         theories=['word', 'dfa'], props=['C14', 'C19'])

contract(M, 'dfa_no_extend', {'D': 'DFA'}, returns='DFA', requires=['dfa_wf(D)', 'fin(D.Q)'],
         ensures=['dfa_wf(result)', 'result.Q == D.Q', 'result.Sigma == D.Sigma', 'result.q0 == D.q0', 'result.delta == D.delta',
                  'all((x in result.F) == (x in D.F and all(y not in D.F for y in Reach1(D, x))) for x in atoms())',
                  # the property itself, over words: w is accepted iff D accepts w and no proper extension of w
                  'all(implies(over(D.Sigma, w) and dfa_accepts(result, w), dfa_accepts(D, w)) for w in allwords())',
                  'all(implies(over(D.Sigma, w) and dfa_accepts(result, w) and v != nil() and over(D.Sigma, v), not dfa_accepts(D, app(w, v))) for w in allwords() for v in allwords())',
                  'all(implies(over(D.Sigma, w) and dfa_accepts(D, w) and not dfa_accepts(result, w), any(v != nil() and over(D.Sigma, v) and dfa_accepts(D, app(w, v)) for v in allwords())) for w in allwords())'],
         asserts=['all(implies(x in result.F, x in D.F) for x in atoms())',
                  'all(implies(x in result.F and y in Reach1(D, x), y not in D.F) for x in atoms() for y in atoms())',
                  'all(implies(x in D.F and x not in result.F, any(y in Reach1(D, x) and y in D.F for y in atoms())) for x in atoms())',
                  'all(implies(x in result.F and v != nil() and over(D.Sigma, v), dhat(D, x, v) not in D.F) for x in atoms() for v in allwords())',
                  'all(implies(x in D.F and x not in result.F, any(v != nil() and over(D.Sigma, v) and dhat(D, x, v) in D.F for v in allwords())) for x in atoms())'],
         theories=['word', 'wordx', 'dfa', 'nfa', 'dfax'], props=['C14', 'C19'],
         note='F\' = accepting states from which no accepting state is reachable by a non-empty path; with the lemmas Reach1-of-word / Reach1-has-word / dhat-app this is the word-level statement L(result) = {w in L(D) | no proper extension of w in L(D)}')

contract(M, 'dfa_make_total_in_place', {'D': 'DFA'}, returns='None', modifies=['D'], requires=['dfa_pwf(D)'],
         ensures=['dfa_wf(D)', 'D.Sigma == old(D.Sigma)', 'D.q0 == old(D.q0)', 'D.F == old(D.F)', 'old(D.Q) <= D.Q',
                  'all(implies((x, a) in old(D.delta), D.delta[(x, a)] == old(D.delta)[(x, a)]) for x in atoms() for a in atoms())',
                  'all(implies(x in old(D.Q) and a in D.Sigma and (x, a) not in old(D.delta), D.delta[(x, a)] not in old(D.Q)) for x in atoms() for a in atoms())',
                  'all(implies(x in D.Q and x not in old(D.Q) and a in D.Sigma, D.delta[(x, a)] == x) for x in atoms() for a in atoms())',
                  'all(implies(x in D.Q and x not in old(D.Q), x not in D.F) for x in atoms())'],
         loops={1: {'ghost': 'doneQ', 'invariant': ['q_trap in Q', 'q_trap not in old(D.Q)', 'D.Q == old(D.Q) | {q_trap}', 'D.Sigma == old(D.Sigma)', 'D.q0 == old(D.q0)', 'D.F == old(D.F)',
                                                  'all(implies((x, a) in old(D.delta), (x, a) in D.delta and D.delta[(x, a)] == old(D.delta)[(x, a)]) for x in atoms() for a in atoms())',
                                                  'all(implies((x, a) in D.delta and (x, a) not in old(D.delta), D.delta[(x, a)] == q_trap and x in D.Q and a in D.Sigma) for x in atoms() for a in atoms())',
                                                  'all((x, a) in D.delta for x in doneQ for a in D.Sigma)']},
                2: {'ghost': 'doneS', 'invariant': ['q_trap in Q', 'q in Q', 'q_trap not in old(D.Q)', 'D.Q == old(D.Q) | {q_trap}', 'D.Sigma == old(D.Sigma)', 'D.q0 == old(D.q0)', 'D.F == old(D.F)',
                                                  'all(implies((x, a) in old(D.delta), (x, a) in D.delta and D.delta[(x, a)] == old(D.delta)[(x, a)]) for x in atoms() for a in atoms())',
                                                  'all(implies((x, a) in D.delta and (x, a) not in old(D.delta), D.delta[(x, a)] == q_trap and x in D.Q and a in D.Sigma) for x in atoms() for a in atoms())',
                                                  'all((x, a) in D.delta for x in doneQ for a in D.Sigma)', 'all((q, a) in D.delta for a in doneS)']}},
         theories=['naming'], props=['C14'])

contract(M, 'dfa_make_total', {'D': 'DFA'}, returns='DFA', requires=['dfa_pwf(D)'],
         ensures=['dfa_wf(result)', 'result.Sigma == D.Sigma', 'result.q0 == D.q0', 'result.F == D.F', 'D.Q <= result.Q',
                  'all(implies((x, a) in D.delta, result.delta[(x, a)] == D.delta[(x, a)]) for x in atoms() for a in atoms())',
                  'all(implies(x in D.Q and a in D.Sigma and (x, a) not in D.delta, result.delta[(x, a)] not in D.Q) for x in atoms() for a in atoms())',
                  'all(implies(x in result.Q and x not in D.Q and a in D.Sigma, result.delta[(x, a)] == x) for x in atoms() for a in atoms())',
                  'all(implies(x in result.Q and x not in D.Q, x not in result.F) for x in atoms())',
                  'tot_struct(D, result)',
                  # the property itself, over words: the language of the partial DFA (the run exists and ends in F) is unchanged
                  'all(implies(over(D.Sigma, w), dfa_accepts(result, w) == pdfa_accepts(D, w)) for w in allwords())'],
         asserts=['tot_struct(D, result)'],
         theories=['naming', 'word', 'wordx', 'dfa', 'nfa', 'dfax'], props=['C14', 'C19'],
         note='with lemma total-sim (word induction): as long as the run of D exists the total DFA follows it, afterwards it stays outside D.Q where nothing is accepting')

_PT = "product_type == 'union' or product_type == 'intersection' or product_type == 'symmetric_difference'"
_PF = ("implies(product_type == 'union', all((pair_name(x, y) in result.F) == (x in D1.F or y in D2.F) for x in D1.Q for y in D2.Q))",
       "implies(product_type == 'intersection', all((pair_name(x, y) in result.F) == (x in D1.F and y in D2.F) for x in D1.Q for y in D2.Q))",
       "implies(product_type == 'symmetric_difference', all((pair_name(x, y) in result.F) == ((x in D1.F) != (y in D2.F)) for x in D1.Q for y in D2.Q))")
contract(M, 'dfa_product', {'D1': 'DFA', 'D2': 'DFA', 'product_type': 'Atom'}, returns='DFA',
         requires=['dfa_wf(D1)', 'dfa_wf(D2)', 'D1.Sigma == D2.Sigma', _PT],
         ensures=['dfa_wf(result)', 'result.Sigma == D1.Sigma', 'result.q0 == pair_name(D1.q0, D2.q0)',
                  'all((z in result.Q) == any(z == pair_name(x, y) for x in D1.Q for y in D2.Q) for z in atoms())',
                  'all(result.delta[(pair_name(x, y), a)] == pair_name(D1.delta[(x, a)], D2.delta[(y, a)]) for x in D1.Q for y in D2.Q for a in D1.Sigma)',
                  'result.F <= result.Q'] + list(_PF),
         pre_return_asserts=['all(pair_name(x, y) in Q for x in D1.Q for y in D2.Q)',
                             'all(implies(z in Q, any(z == pair_name(x, y) for x in D1.Q for y in D2.Q)) for z in atoms())',
                             'all((pair_name(x, y), a) in delta and delta[(pair_name(x, y), a)] == pair_name(D1.delta[(x, a)], D2.delta[(y, a)]) for x in D1.Q for y in D2.Q for a in D1.Sigma)',
                             'all(implies((z, a) in delta, any(z == pair_name(x, y) for x in D1.Q for y in D2.Q) and a in D1.Sigma) for z in atoms() for a in atoms())',
                             'all(implies((z, a) in delta, delta[(z, a)] in Q) for z in atoms() for a in atoms())'],
         theories=['dfa', 'naming'], props=['C14', 'C19', 'C12'])

for _name, _lit, _op in (('dfa_union', 'union', 'or'), ('dfa_intersection', 'intersection', 'and'), ('dfa_symmetric_difference', 'symmetric_difference', '!=')):
    contract(M, _name, {'D1': 'DFA', 'D2': 'DFA'}, returns='DFA', requires=['dfa_wf(D1)', 'dfa_wf(D2)', 'D1.Sigma == D2.Sigma'],
             ensures=['dfa_wf(result)', 'result.Sigma == D1.Sigma', 'prod_struct(D1, D2, result)', 'result.q0 == pair_name(D1.q0, D2.q0)',
                      'all(implies(over(D1.Sigma, w), dfa_accepts(result, w) == (dfa_accepts(D1, w) %s dfa_accepts(D2, w))) for w in allwords())' % _op],
             asserts=['all(implies(over(D1.Sigma, w), dhat(D1, D1.q0, w) in D1.Q and dhat(D2, D2.q0, w) in D2.Q) for w in allwords())',
                      'all(implies(over(D1.Sigma, w), dhat(result, result.q0, w) == pair_name(dhat(D1, D1.q0, w), dhat(D2, D2.q0, w))) for w in allwords())'],
             theories=['word', 'dfa', 'naming'], props=['C14', 'C19', 'C12'])

contract(M, 'fresh_epsilon', {'Sigma': 'Set[Symbol]'}, returns='Symbol', ensures=['result not in Sigma'],
         theories=['word'], props=['C14'],
         note='first element of an unbounded character supply (itertools.chain/count) that passes the filter: whatever is returned passed the filter (proved); '
              'that the supply is not exhausted first (StopIteration / chr() range) is assumption A-char-supply')

_REV_INV = ['all((q in lookup(delta, (q1, a))) == ((q, a) in doneK and D.delta[(q, a)] == q1) for q in atoms() for q1 in atoms() for a in atoms())',
            'all(implies((q1, a) in delta, any((q, a) in doneK and D.delta[(q, a)] == q1 for q in atoms())) for q1 in atoms() for a in atoms())',
            'q0 not in D.Q', 'epsilon not in D.Sigma']
contract(M, 'dfa_reverse', {'D': 'DFA'}, returns='NFA', requires=['dfa_wf(D)'],
         ensures=['nfa_wf(result)', 'result.q0 not in D.Q', 'result.Q == D.Q | {result.q0}', 'result.Sigma == D.Sigma', 'result.F == {D.q0}', 'result.epsilon not in D.Sigma',
                  'all((q in step(result, q1, a)) == (q in D.Q and D.delta[(q, a)] == q1) for q in atoms() for q1 in D.Q for a in D.Sigma)',
                  'step(result, result.q0, result.epsilon) == D.F',
                  'all(step(result, x, result.epsilon) == set_empty() for x in D.Q)',
                  'all(step(result, result.q0, a) == set_empty() for a in D.Sigma)',
                  'rev_struct(D, result)',
                  # the property itself, over words: w is accepted iff D accepts the mirror image of w
                  'all(implies(over(D.Sigma, w), nfa_accepts(result, w) == dfa_accepts(D, rev(w))) for w in allwords())'],
         types={'delta': 'Map[(State,Symbol),Set[State],default=set]'},
         asserts=['all((q in lookup(result.delta, (q1, a))) == (q in D.Q and D.delta[(q, a)] == q1) for q in atoms() for q1 in D.Q for a in D.Sigma)',
                  'all(implies(a in D.Sigma, (q in step(result, q1, a)) == (q in D.Q and q1 in D.Q and D.delta[(q, a)] == q1)) for q in atoms() for q1 in atoms() for a in atoms())',
                  'all((q in step(result, q1, result.epsilon)) == (q1 == result.q0 and q in D.F) for q in atoms() for q1 in atoms())',
                  'rev_struct(D, result)',
                  'all(implies(over(D.Sigma, w), all((x in Nhat(result, w)) == ((x == result.q0 or x in D.F) if w == nil() else (x in D.Q and dhat(D, x, rev(w)) in D.F)) for x in atoms())) for w in allwords())'],
         loops={1: {'ghost': 'doneK', 'invariant': _REV_INV}},
         theories=['naming', 'word', 'wordx', 'dfa', 'nfa', 'dfax'], props=['C14', 'C19'],
         note='exact transition relation of the reversed automaton; with lemma reverse-sim (word induction) the word-level statement follows: result accepts w iff D accepts rev(w)')

contract(M, 'dfa_no_prefix', {'D': 'DFA'}, returns='NFA', requires=['dfa_wf(D)'],
         ensures=['nfa_wf(result)', 'result.q0 == D.q0', 'result.Q == D.Q', 'result.Sigma == D.Sigma', 'result.F == D.F', 'result.epsilon not in D.Sigma',
                  'all((q1 in step(result, q, a)) == (q in D.Q and q not in D.F and a in D.Sigma and D.delta[(q, a)] == q1) for q in atoms() for q1 in atoms() for a in atoms())',
                  'np_struct(D, result)',
                  # the property itself, over words: accepted iff D accepts w and none of its proper prefixes
                  'all(implies(over(D.Sigma, w), nfa_accepts(result, w) == (dfa_accepts(D, w) and nap(D, w))) for w in allwords())',
                  'all(implies(over(D.Sigma, w) and nfa_accepts(result, w) and isprefix(u, w) and u != w, not dfa_accepts(D, u)) for w in allwords() for u in allwords())'],
         types={'delta': 'Map[(State,Symbol),Set[State],default=set]'},
         asserts=['all((q1 in lookup(result.delta, (q, a))) == (q in D.Q and q not in D.F and a in D.Sigma and D.delta[(q, a)] == q1) for q in atoms() for q1 in atoms() for a in atoms())',
                  'np_struct(D, result)',
                  'all(implies(over(D.Sigma, w), all((x in Nhat(result, w)) == (nap(D, w) and x == dhat(D, D.q0, w)) for x in atoms())) for w in allwords())'],
         loops={1: {'ghost': 'doneK', 'invariant': ['all((q1 in lookup(delta, (q, a))) == ((q, a) in doneK and q not in D.F and D.delta[(q, a)] == q1) for q in atoms() for q1 in atoms() for a in atoms())',
                                                  'all(implies((q, a) in delta, (q, a) in doneK) for q in atoms() for a in atoms())', 'epsilon not in D.Sigma']}},
         theories=['naming', 'word', 'wordx', 'dfa', 'nfa', 'dfax'], props=['C14', 'C19'],
         note='transitions leaving accepting states are cut; with lemma noprefix-sim the word-level statement follows: w accepted iff D accepts w and no proper prefix of w (nap, lemma nap-prefixes)')

# ---------------------------------------------------------------------------------------------- C20
_ISO = 'isomorphic(D1, D2)'
_H = 'hval(D1, D2, %s)'
_ISO_INV = [
    # soundness side: the matching built so far is a partial isomorphism, closed up to the pairs still in todo
    'all(x in Reach(D1, D1.q0) and matching[x] in Reach(D2, D2.q0) and matching[x] in inverse and inverse[matching[x]] == x for x in matching)',
    'all(inverse[y] in matching and matching[inverse[y]] == y for y in inverse)',
    'all((x in D1.F) == (matching[x] in D2.F) for x in matching)',
    'all(x in Reach(D1, D1.q0) and y in Reach(D2, D2.q0) and x in D1.Q and y in D2.Q for (x, y) in todo)',
    'all((D1.delta[(x, a)] in matching and matching[D1.delta[(x, a)]] == D2.delta[(matching[x], a)]) or (D1.delta[(x, a)], D2.delta[(matching[x], a)]) in todo for x in matching for a in D1.Sigma)',
    '(D1.q0 in matching and matching[D1.q0] == D2.q0) or (D1.q0, D2.q0) in todo',
    # completeness side: under the hypothesis that an isomorphism exists, everything agrees with the chosen one
    'implies(%s, all(y == %s for (x, y) in todo))' % (_ISO, _H % 'x'),
    'implies(%s, all(matching[x] == %s for x in matching))' % (_ISO, _H % 'x')]
contract(M, 'dfa_isomorphic1', {'D1': 'DFA', 'D2': 'DFA'}, returns='Bool',
         requires=['dfa_wf(D1)', 'dfa_wf(D2)', 'D1.Sigma == D2.Sigma', 'fin(D1.Q)'],
         ensures=['result == isomorphic(D1, D2)'],
         asserts=['implies(result, all(x in matching for x in Reach(D1, D1.q0)))', 'implies(result, is_iso(matching, D1, D2))'],
         types={'matching': 'Map[State,State]', 'inverse': 'Map[State,State]', 'todo': 'Set[(State,State)]'},
         # termination: every iteration either matches a new state of D1 (finitely many) or only shrinks the work list
         loops={1: {'invariant': _ISO_INV + ['fin(todo)', 'all(x in D1.Q for x in matching)'], 'exit_hints': ['Reach_least(D1, D1.q0, keys(matching))'],
                    'decreases': ['card(D1.Q - keys(matching))', 'card(todo)']},
                2: {'ghost': 'doneS', 'invariant': ['fin(todo)', 'all(x in D1.Q for x in matching)'] + _ISO_INV[:4] + _ISO_INV[6:] + [
                    'q1 in matching and matching[q1] == q2 and q1 in Reach(D1, D1.q0) and q2 in Reach(D2, D2.q0) and q1 in D1.Q and q2 in D2.Q',
                    'all((D1.delta[(x, a)] in matching and matching[D1.delta[(x, a)]] == D2.delta[(matching[x], a)]) or (D1.delta[(x, a)], D2.delta[(matching[x], a)]) in todo for x in matching for a in D1.Sigma if x != q1)',
                    'all((D1.delta[(q1, a)] in matching and matching[D1.delta[(q1, a)]] == D2.delta[(q2, a)]) or (D1.delta[(q1, a)], D2.delta[(q2, a)]) in todo for a in doneS)',
                    '(D1.q0 in matching and matching[D1.q0] == D2.q0) or (D1.q0, D2.q0) in todo']}},
         theories=['dfa', 'iso'], props=['C20'], note='total correctness: the while loop has the lexicographic measure (unmatched states of D1, size of the work list); fin(D1.Q) is the type invariant of Python sets')

# the matrix variant transcribed from the specification: reachable pairs are marked in a Boolean matrix, then the counting loops
# check that the marked relation is one-to-one
_MK = 'all(((x, y) in matching) == (x in D1.Q and y in D2.Q) for x in atoms() for y in atoms())'
_M1 = 'all(implies(matching[(x, y)], x in Reach(D1, D1.q0) and y in Reach(D2, D2.q0) and ((x in D1.F) == (y in D2.F))) for x in D1.Q for y in D2.Q)'
_M3 = 'matching[(D1.q0, D2.q0)]'
_M5 = 'implies(%s, all(implies(matching[(x, y)], y == %s) for x in D1.Q for y in D2.Q))' % (_ISO, _H % 'x')
_MCLOSED = 'all(trig(implies(matching[(x, y)], matching[(D1.delta[(x, a)], D2.delta[(y, a)])]), matching[(x, y)], a in D1.Sigma) for x in D1.Q for y in D2.Q for a in D1.Sigma)'
_MFUN = 'all(implies(matching[(x, y)] and matching[(x, y2)], y == y2) for x in D1.Q for y in D2.Q for y2 in D2.Q)'
_MINJ = 'all(implies(matching[(x, y)] and matching[(x2, y)], x == x2) for x in D1.Q for x2 in D1.Q for y in D2.Q)'
def _count_inv(m, done):
    return ['count >= 0', 'implies(count == 0, all(not %s for z in %s))' % (m % 'z', done),
            'implies(count <= 1, all(implies(%s and %s, z == z2) for z in %s for z2 in %s))' % (m % 'z', m % 'z2', done, done),
            'implies(count >= 1, any(%s for z in %s))' % (m % 'z', done),
            'implies(count >= 2, any(%s and %s and z != z2 for z in %s for z2 in %s))' % (m % 'z', m % 'z2', done, done)]
_MEAS = '2 * card(keys(matching) - rel(matching)) + card(to_inspect)'
contract(M, 'dfa_isomorphic', {'D1': 'DFA', 'D2': 'DFA'}, returns='Bool',
         requires=['dfa_wf(D1)', 'dfa_wf(D2)', 'D1.Sigma == D2.Sigma', 'fin(D1.Q)', 'fin(D2.Q)'],
         ensures=['result == isomorphic(D1, D2)'],
         types={'matching': 'Map[(State,State),Bool]', 'to_inspect': 'Set[(State,State)]'},
         # termination: marking a pair (at most |Q1|*|Q2| times) pays for the one work-list entry it adds, and every iteration removes one
         loops={1: {'invariant': [_MK, _M1, _M3, _M5, 'all(matching[(x, y)] and x in D1.Q and y in D2.Q for (x, y) in to_inspect)',
                                  'all(implies(matching[(x, y)] and (x, y) not in to_inspect, matching[(D1.delta[(x, a)], D2.delta[(y, a)])]) for x in D1.Q for y in D2.Q for a in D1.Sigma)',
                                  'fin(to_inspect)', 'fin(keys(matching))'],
                    'exit_hints': ['Reach_least(D1, D1.q0, rel_dom(matching))'],
                    'snapshot': {'c0': _MEAS}, 'decreases': [_MEAS]},
                2: {'ghost': 'doneS', 'invariant': ['fin(to_inspect)', 'fin(keys(matching))', _MEAS + ' <= c0 - 1',
                                  _MK, _M1, _M3, _M5, 'all(matching[(x, y)] and x in D1.Q and y in D2.Q for (x, y) in to_inspect)',
                                  'q1 in D1.Q and q2 in D2.Q and matching[(q1, q2)] and (q1, q2) not in to_inspect',
                                  'all(implies(matching[(x, y)] and (x, y) not in to_inspect and (x, y) != (q1, q2), matching[(D1.delta[(x, a)], D2.delta[(y, a)])]) for x in D1.Q for y in D2.Q for a in D1.Sigma)',
                                  'all(matching[(D1.delta[(q1, a)], D2.delta[(q2, a)])] for a in doneS)']},
                3: {'ghost': 'done1', 'invariant': ['all(implies(matching[(x, y)] and matching[(x, y2)], y == y2) for x in done1 for y in D2.Q for y2 in D2.Q)']},
                4: {'ghost': 'done2', 'invariant': ['q1 in D1.Q'] + _count_inv('matching[(q1, %s)]', 'done2')},
                5: {'ghost': 'done3', 'invariant': ['all(implies(matching[(x, y)] and matching[(x2, y)], x == x2) for y in done3 for x in D1.Q for x2 in D1.Q)']},
                6: {'ghost': 'done4', 'invariant': ['q2 in D2.Q'] + _count_inv('matching[(%s, q2)]', 'done4')}},
         pre_return_asserts={'last': [_MCLOSED, _MFUN, _MINJ, 'D1.q0 in rel_dom(matching)',
                                      'all(implies(x in rel_dom(matching), x in D1.Q and any(y in D2.Q and matching[(x, y)] for y in atoms())) for x in atoms())',
                                      'all(implies(x in D1.Q and y in D2.Q and matching[(x, y)], x in rel_dom(matching)) for x in atoms() for y in atoms())',
                                      'all(implies(x in D1.Q and y in D2.Q and a in D1.Sigma, D1.delta[(x, a)] in D1.Q and D2.delta[(y, a)] in D2.Q) for x in atoms() for y in atoms() for a in atoms())',
                                      'all(implies(x in D1.Q and y in D2.Q and a in D1.Sigma and matching[(x, y)], D1.delta[(x, a)] in rel_dom(matching)) for x in atoms() for y in atoms() for a in atoms())',
                                      'all(implies(x in rel_dom(matching) and a in D1.Sigma, D1.delta[(x, a)] in rel_dom(matching)) for x in atoms() for a in atoms())',
                                      'all(x in rel_dom(matching) for x in Reach(D1, D1.q0))',
                                      'all(implies(x in rel_dom(matching), x in D1.Q and rel_fn(matching, x) in D2.Q and matching[(x, rel_fn(matching, x))]) for x in atoms())',
                                      'all(implies(x in Reach(D1, D1.q0), x in D1.Q and rel_fn(matching, x) in D2.Q and matching[(x, rel_fn(matching, x))]) for x in atoms())',
                                      'rel_fn(matching, D1.q0) == D2.q0',
                                      'all(rel_fn(matching, x) in Reach(D2, D2.q0) for x in Reach(D1, D1.q0))',
                                      'all(rel_fn(matching, D1.delta[(x, a)]) == D2.delta[(rel_fn(matching, x), a)] for x in Reach(D1, D1.q0) for a in D1.Sigma)',
                                      'all((x in D1.F) == (rel_fn(matching, x) in D2.F) for x in Reach(D1, D1.q0))',
                                      'all(implies(rel_fn(matching, x) == rel_fn(matching, y), x == y) for x in Reach(D1, D1.q0) for y in Reach(D1, D1.q0))',
                                      'is_iso_rel(matching, D1, D2)']},
         theories=['dfa', 'iso'], props=['C20'], note='total correctness for every choice order; the counting loops are for-loops over finite sets; fin(D.Q) is the type invariant of Python sets')

# ---------------------------------------------------------------------------------------------- C15 (DFA trace)
contract(M, 'dfa_simulate_word', {'D': 'DFA', 'word': 'Word'}, returns='List[(State,Word)]',
         requires=['dfa_wf(D)', 'over(D.Sigma, word)'],
         ensures=['len(result) == wlen(word) + 1',
                  'all(result[t][0] == dhat(D, D.q0, take(t, word)) and result[t][1] == drop(t, word) for t in range(len(result)))',
                  'result[0][0] == D.q0 and result[0][1] == word',
                  'result[len(result) - 1][1] == nil() and (result[len(result) - 1][0] in D.F) == dfa_accepts(D, word)'],
         loops={1: {'invariant': ['k == wlen(prefix)', 'q == dhat(D, D.q0, prefix)', 'q in D.Q', 'len(result) == k + 1',
                                  'all(result[t][0] == dhat(D, D.q0, take(t, word)) and result[t][1] == drop(t, word) for t in range(len(result)))',
                                  'prefix == take(k, word)']}},
         theories=['word', 'wordx', 'dfa'], props=['C15', 'C19'])

# ---------------------------------------------------------------------------------------------- C04: table filling
_TK = 'all(((i, j) in table) == (0 <= i and i <= j and j < n) for i in ints() for j in ints())'
_TS = 'all(implies(0 <= i and i <= j and j < n and not table[(i, j)], dist(D, q[i], q[j])) for i in ints() for j in ints())'
_TF = 'all(implies(0 <= i and i <= j and j < n and table[(i, j)], (q[i] in D.F) == (q[j] in D.F)) for i in ints() for j in ints())'
_TD = 'all(implies(0 <= i and i < n, table[(i, i)]) for i in ints())'
_QL = ['q == listof(D.Q)', 'n == len(q)', 'all(implies(0 <= i and i < n, q[i] in D.Q) for i in ints())',
       'all(implies(x in D.Q, 0 <= index_of(q, x) and index_of(q, x) < n and q[index_of(q, x)] == x) for x in atoms())',
       'all(implies(0 <= i and i < j and j < n, q[i] != q[j]) for i in ints() for j in ints())']
def _succ(i): return 'index_of(q, D.delta[(q[%s], a)])' % i
_CL = 'all(trig(table[(min(%s, %s), max(%s, %s))], a in D.Sigma, table[(i, j)]) for a in D.Sigma)' % (_succ('i'), _succ('j'), _succ('i'), _succ('j'))
_MIN_POST = ['dfa_wf(result)', 'result.Sigma == D.Sigma',
             'all(implies(over(D.Sigma, w), dfa_accepts(result, w) == dfa_accepts(D, w)) for w in allwords())',
             'all(implies(x in result.Q and y in result.Q and x != y, dist(result, x, y)) for x in atoms() for y in atoms())']
def _REP(k): return 'all(implies(0 <= m and m < %s, dist(D, q[m], q[%s])) for m in ints())' % (k, k)
_NE = lambda k: 'any(y in Q_[%s] for y in atoms())' % k                      # the k-th set is non-empty
_QK = 'all(implies(0 <= k and k < %s, (y in Q_[k]) == ((%s) and y in D.Q and not dist(D, q[k], y))) for k in ints() for y in atoms())'
_RU = 'all((y in R) == any(0 <= k and k < n and y in Q_[k] for k in ints()) for y in atoms())'
_FT_PRE = ['dfa_wf(D)',
           'all(((i, j) in table) == (0 <= i and i <= j and j < len(listof(D.Q))) for i in ints() for j in ints())',
           'all(implies(0 <= i and i <= j and j < len(listof(D.Q)), table[(i, j)] == (not dist(D, listof(D.Q)[i], listof(D.Q)[j]))) for i in ints() for j in ints())']
_CLS = ['all(implies(0 <= k and k < n and (%s), Q_[k] == cls(D, q[k]) and q[k] in Q_[k]) for k in ints())' % _REP('k'),
        'all(implies(0 <= k and k < n and not (%s), Q_[k] == set_empty()) for k in ints())' % _REP('k'),
        'all(implies(x in D.Q, any(0 <= k and k < n and (%s) and not dist(D, q[k], x) for k in ints())) for x in atoms())' % _REP('k')]
_DR_KEYS = 'all(implies((s, a) in delta_r, a in D.Sigma and any(0 <= k and k < n and (%s) and s == name_of_set(cls(D, q[k])) for k in ints())) for s in atoms() for a in atoms())' % _REP('k')
def _DR_VAL(bound, extra=''):
    return ('all(implies(0 <= k and k < %s and (%s) and a in D.Sigma%s, (name_of_set(cls(D, q[k])), a) in delta_r and '
            'delta_r[(name_of_set(cls(D, q[k])), a)] == name_of_set(cls(D, D.delta[(q[k], a)]))) for k in ints() for a in atoms())' % (bound, _REP('k'), extra))
contract(M, 'dfa_from_table', {'D': 'DFA', 'table': 'Map[(Int,Int),Bool]'}, returns='DFA',
         requires=_FT_PRE, ensures=_MIN_POST + ['quot_struct(D, result)'],
         types={'Q_': 'List[Set[State]]', 'R': 'Set[State]', 'q': 'List[State]', 'Q_r': 'Set[State]', 'F_r': 'Set[State]', 'delta_r': 'Map[(State,Symbol),State]'},
         loops={1: {'invariant': _QL + ['len(Q_) == n', _QK % ('i', _REP('k')), _RU,
                                        'all(implies(i <= k and k < n, y not in Q_[k]) for k in ints() for y in atoms())',
                                        'all((y in R) == (y in D.Q and any(0 <= k and k < i and not dist(D, q[k], y) for k in ints())) for y in atoms())']},
                2: {'invariant': _QL + ['len(Q_) == n', '0 <= i and i < n', _REP('i'), _QK % ('i', _REP('k')),
                                        'all(implies(i < k and k < n, y not in Q_[k]) for k in ints() for y in atoms())',
                                        'all((y in Q_[i]) == (y == q[i] or any(i < m and m < j and y == q[m] and not dist(D, q[i], q[m]) for m in ints())) for y in atoms())',
                                        'all((y in R) == ((y in D.Q and any(0 <= k and k < i and not dist(D, q[k], y) for k in ints())) or y in Q_[i]) for y in atoms())', _RU]},
                3: {'before': ['all(implies(x in D.Q, any(0 <= k and k < n and x in Q_[k] for k in ints())) for x in atoms())'] + _CLS + [
                                   'all(implies(0 <= k and k < n, (%s) == (%s)) for k in ints())' % (_NE('k'), _REP('k')),
                                   'all(implies(s in Q_r, any(0 <= k and k < n and (%s) and s == name_of_set(cls(D, q[k])) for k in ints())) for s in atoms())' % _REP('k'),
                                   'all(implies(0 <= k and k < n and (%s), name_of_set(cls(D, q[k])) in Q_r) for k in ints())' % _REP('k'),
                                   'all(implies(x in D.Q, name_of_set(cls(D, x)) in Q_r) for x in atoms())',
                                   'all(implies(s in F_r, any(0 <= k and k < n and (%s) and q[k] in D.F and s == name_of_set(cls(D, q[k])) for k in ints())) for s in atoms())' % _REP('k'),
                                   'all(implies(0 <= k and k < n and (%s) and q[k] in D.F, name_of_set(cls(D, q[k])) in F_r) for k in ints())' % _REP('k'),
                                   'all(implies(x in D.Q and y in D.Q and not dist(D, x, y), (x in D.F) == (y in D.F)) for x in atoms() for y in atoms())',
                                   'all(implies(x in D.F, name_of_set(cls(D, x)) in F_r) for x in atoms())'],
                    'invariant': _QL + ['len(Q_) == n'] + _CLS + [_DR_KEYS, _DR_VAL('i'),
                                        'all((s in Q_r) == any(x in D.Q and s == name_of_set(cls(D, x)) for x in atoms()) for s in atoms())',
                                        'all((s in F_r) == any(x in D.F and s == name_of_set(cls(D, x)) for x in atoms()) for s in atoms())',
                                        'q_r == name_of_set(cls(D, D.q0))']},
                4: {'ghost': 'doneA', 'invariant': _QL + ['len(Q_) == n', '0 <= i and i < n', _REP('i'), 'Q_i == name_of_set(cls(D, q[i]))'] + _CLS + [_DR_KEYS, _DR_VAL('i'),
                                        'all(implies(a in doneA, (Q_i, a) in delta_r and delta_r[(Q_i, a)] == name_of_set(cls(D, D.delta[(q[i], a)]))) for a in atoms())',
                                        'all((s in Q_r) == any(x in D.Q and s == name_of_set(cls(D, x)) for x in atoms()) for s in atoms())',
                                        'all((s in F_r) == any(x in D.F and s == name_of_set(cls(D, x)) for x in atoms()) for s in atoms())',
                                        'q_r == name_of_set(cls(D, D.q0))']}},
         pre_return_asserts=['all(implies(x in D.Q and 0 <= k and k < n and not dist(D, q[k], x), cls(D, q[k]) == cls(D, x)) for x in atoms() for k in ints())',
                             'all(implies(x in D.Q and a in D.Sigma and 0 <= k and k < n and not dist(D, q[k], x), cls(D, D.delta[(q[k], a)]) == cls(D, D.delta[(x, a)])) for x in atoms() for k in ints() for a in atoms())',
                             'all(implies(x in D.Q and a in D.Sigma, (name_of_set(cls(D, x)), a) in delta_r and delta_r[(name_of_set(cls(D, x)), a)] == name_of_set(cls(D, D.delta[(x, a)]))) for x in atoms() for a in atoms())',
                             'quot_struct(D, DFA(Q_r, Sigma, delta_r, q_r, F_r, check_validity=False))'],
         theories=['word', 'dfa', 'naming', 'nerode', 'quot'], props=['C04', 'C19'],
         note='class assembly from an exact table: every non-empty Q_[k] is the Myhill-Nerode class of q[k] for the first index k of the class; the result is the quotient automaton with printed classes as state names; '
              'language equality and pairwise distinguishability follow by lemmas quot-sim / quot-lang / quot-dist. Assumption N1: print_state_set is injective')
contract(M, 'dfa_minimize', {'D': 'DFA'}, returns='DFA', requires=['dfa_wf(D)'],
         ensures=_MIN_POST,
         types={'table': 'Map[(Int,Int),Bool]', 'q': 'List[State]'},
         pre_return_asserts=['all(implies(0 <= i and i <= j and j < n, table[(i, j)] == (not dist(D, q[i], q[j]))) for i in ints() for j in ints())'],
         # termination of the fixpoint loop: every round that sets `changed` unmarks at least one of the finitely many marked pairs
         loops={1: {'ghost': 'done1', 'invariant': _QL + ['fin(trues(table))', 'all(((i, j) in table) == ((i, j) in done1) for i in ints() for j in ints())',
                                                         'all(table[(i, j)] == ((q[i] in D.F) == (q[j] in D.F)) for (i, j) in done1)']},
                2: {'snapshot': {'c0': 'card(trues(table))'}, 'decreases': ['card(trues(table))', '1 if changed else 0'],
                    'invariant': _QL + ['fin(trues(table))', _TK, _TS, _TF, _TD,
                                        'implies(not changed, all(implies(0 <= i and i < j and j < n and table[(i, j)], %s) for i in ints() for j in ints()))' % _CL],
                    'exit_hints': ['dist_least(D, tabrel(q, table))']},
                3: {'ghost': 'done3', 'invariant': _QL + ['fin(trues(table))', 'card(trues(table)) <= c0', 'implies(changed, card(trues(table)) < c0)', _TK, _TS, _TF, _TD,
                                        'implies(not changed, all(implies(table[(i, j)], %s) for (i, j) in done3))' % _CL]},
                4: {'ghost': 'done4', 'invariant': _QL + ['fin(trues(table))', 'card(trues(table)) <= c0', 'implies(changed, card(trues(table)) < c0)', _TK, _TS, _TF, _TD, '0 <= i and i < j and j < n', 'table[(i, j)]',
                                        'implies(not changed, all(implies(table[(i2, j2)], %s) for (i2, j2) in done3))' % _CL.replace("'i'", "'i2'").replace('q[i]', 'q[i2]').replace('q[j]', 'q[j2]').replace('table[(i, j)]', 'table[(i2, j2)]'),
                                        'all(table[(min(%s, %s), max(%s, %s))] for a in done4)' % (_succ('i'), _succ('j'), _succ('i'), _succ('j'))]}},
         theories=['word', 'dfa', 'nerode'], props=['C04', 'C19'],
         note='the table-filling fixpoint is proved exact: at loop exit table[i, j] holds iff q[i] and q[j] are Myhill-Nerode equivalent (soundness of every marking by dist-step, completeness by the leastness instance for the unmarked relation); the fixpoint loop terminates (measure: number of marked pairs); the class assembly dfa_from_table is assumed at its contract')

# ---------------------------------------------------------------------------------------------- C12: structure check of the product exercises
_MD = 'gambatools.notebook_dfa'
contract(_MD, 'extract_states', {'q': 'State'}, returns='(State,State)', verify=False, ensures=['result == (prod_fst(q), prod_snd(q))'], theories=['naming'], props=['C12'],
         note='string slicing and split: the two labels are uninterpreted functions of the name; nothing about them is assumed')
_PS = '(prod_fst(%s) in D1.Q and prod_snd(%s) in D2.Q)'
_PT = 'implies((q, a) in answer.delta and (q, a) in D.delta, answer.delta[(q, a)] == D.delta[(q, a)])'
_C1 = 'all(' + (_PS % ('x', 'x')) + ' for x in %s)'
_C2 = '(D.Sigma == answer.Sigma and answer.q0 == D.q0)'
_C3 = 'all(' + _PT + ' for (q, a) in %s)'
contract(_MD, 'check_product_automaton', {'D': 'DFA', 'D1': 'DFA', 'D2': 'DFA', 'answer': 'DFA'}, returns='List[Text]',
         ensures=['(len(result) == 0) == (%s and %s and %s and answer.F == D.F)' % (_C1 % 'answer.Q', _C2, _C3 % 'keys(answer.delta)')],
         types={'feedback': 'List[Text]'},
         loops={1: {'ghost': 'done1', 'invariant': ['(len(feedback) == 0) == %s' % (_C1 % 'done1')]},
                2: {'ghost': 'done2', 'invariant': ['(len(feedback) == 0) == (%s and %s and %s)' % (_C1 % 'answer.Q', _C2, _C3 % 'done2')]},
                3: {'ghost': 'done3', 'invariant': ['(len(feedback) == 0) == (%s and %s and %s and done3 == set_empty())' % (_C1 % 'answer.Q', _C2, _C3 % 'keys(answer.delta)')]},
                4: {'ghost': 'done4', 'invariant': ['(len(feedback) == 0) == (%s and %s and %s and D.F <= answer.F and done4 == set_empty())' % (_C1 % 'answer.Q', _C2, _C3 % 'keys(answer.delta)')]}},
         theories=['naming'], props=['C12', 'C19'],
         note='no feedback exactly when every state of the answer reads as a pair of operand states, alphabet and initial state are those of the reference product, '
              'the transitions agree with the reference wherever both are defined, and the accepting states coincide')
