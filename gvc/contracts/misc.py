from ..contract import contract

M = 'gambatools.language_algorithms'
SW = 'Set[Word]'
contract(M, 'intersection', {'L1': SW, 'L2': SW}, returns=SW, ensures=['result == L1 & L2'], props=['C14'])
contract(M, 'union', {'L1': SW, 'L2': SW}, returns=SW, ensures=['result == L1 | L2'], props=['C14'])
contract(M, 'symmetric_difference', {'L1': SW, 'L2': SW}, returns=SW, ensures=['all((w in result) == ((w in L1) != (w in L2)) for w in allwords())'], props=['C14'])
contract(M, 'concatenation', {'L1': SW, 'L2': SW}, returns=SW,
         ensures=['all(app(x, y) in result for x in L1 for y in L2)', 'all(any(w == app(x, y) for x in L1 for y in L2) for w in result)'], props=['C14'])
contract(M, 'language_reverse', {'L': SW}, returns=SW,
         ensures=['all(rev(w) in result for w in L)', 'all(any(v == rev(w) for w in L) for v in result)'], props=['C14'])
contract(M, 'words_of_length_n', {'Sigma': 'Set[Symbol]', 'n': 'Int'}, returns=SW,
         ensures=['all((w in result) == (over(Sigma, w) and wlen(w) == n) for w in allwords())'], props=['C14', 'C02'])
contract(M, 'words_up_to_n', {'Sigma': 'Set[Symbol]', 'n': 'Int'}, returns=SW,
         ensures=['all((w in result) == (over(Sigma, w) and wlen(w) <= n) for w in allwords())'], props=['C14', 'C02'],
         asserts=['all(implies(over(Sigma, w) and wlen(w) <= n, w in words_of_length_n(Sigma, wlen(w))) for w in allwords())'])
contract(M, 'language_no_prefix', {'L': SW}, returns=SW,
         ensures=['all((w in result) == (w in L and not any(take(i, w) in L for i in range(wlen(w)))) for w in allwords())'], props=['C14'])
contract(M, 'language_no_extend', {'L': SW}, returns=SW,
         ensures=['all((w in result) == (w in L and not any(isprefix(w, v) and v != w for v in L)) for w in allwords())'], props=['C14'])
