from ..contract import contract

M = 'gambatools.language_generator'
_ENUM = {'DFA': '(over(L.Sigma, w) and wlen(w) <= n and dfa_accepts(L, w))',
         'TM': '(over(L.Sigma, w) and wlen(w) <= n and tm_accepted(L, w, 1000))',
         'Regexp': '(wlen(w) <= n and mem(w, L(L_)))'}
contract(M, 'generate_language', {'L': 'DFA', 'n': 'Int'}, returns='Set[Word]', variant='DFA', requires=['dfa_wf(L)', 'n >= 0'],
         ensures=['all((w in result) == %s for w in allwords())' % _ENUM['DFA']], theories=['word', 'dfa'], props=['C02', 'C12'])
contract(M, 'generate_language', {'L': 'TM', 'n': 'Int'}, returns='Set[Word]', variant='TM', requires=['tm_wf(L)', 'n >= 0'],
         ensures=['all((w in result) == %s for w in allwords())' % _ENUM['TM']], theories=['word', 'tm'], props=['C02', 'C12'])
contract(M, 'generate_language', {'L': 'Regexp', 'n': 'Int'}, returns='Set[Word]', variant='Regexp', requires=['n >= 0'],
         ensures=['all(wlen(w) <= n and mem(w, L(L)) for w in result)', 'all(implies(wlen(w) <= n and mem(w, L(L)), w in result) for w in allwords())'],
         theories=['word', 'regexp'], props=['C02', 'C12'])
contract(M, 'generate_language', {'L': 'Set[Word]', 'n': 'Int'}, returns='Set[Word]', variant='set', requires=[],
         ensures=['result == L'], theories=['word'], props=['C02', 'C12'])
