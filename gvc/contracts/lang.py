from ..contract import contract

M = 'gambatools.language_generator'
_ENUM = {'DFA': '(over(L.Sigma, w) and wlen(w) <= n and dfa_accepts(L, w))',
         'TM': '(over(L.Sigma, w) and wlen(w) <= n and tm_accepted(L, w, 1000))',
         'Regexp': '(wlen(w) <= n and mem(w, L(L_)))'}
contract(M, 'generate_language', {'L': 'DFA', 'n': 'Int'}, returns='Set[Word]', variant='DFA', requires=['dfa_wf(L)', 'n >= 0'],
         ensures=['all((w in result) == %s for w in allwords())' % _ENUM['DFA']], theories=['word', 'dfa'], props=['C02', 'C12'])
contract(M, 'generate_language', {'L': 'NFA', 'n': 'Int'}, returns='Set[Word]', variant='NFA', requires=['nfa_wf(L)', 'n >= 0'],
         ensures=['all((w in result) == (over(L.Sigma, w) and wlen(w) <= n and nfa_accepts(L, w)) for w in allwords())'], theories=['word', 'nfa'], props=['C02', 'C12'])
contract(M, 'generate_language', {'L': 'TM', 'n': 'Int'}, returns='Set[Word]', variant='TM', requires=['tm_wf(L)', 'n >= 0'],
         ensures=['all((w in result) == %s for w in allwords())' % _ENUM['TM']], theories=['word', 'tm'], props=['C02', 'C12'])
contract(M, 'generate_language', {'L': 'Regexp', 'n': 'Int'}, returns='Set[Word]', variant='Regexp', requires=['n >= 0'],
         ensures=['all(wlen(w) <= n and mem(w, L(L)) for w in result)', 'all(implies(wlen(w) <= n and mem(w, L(L)), w in result) for w in allwords())'],
         theories=['word', 'regexp'], props=['C02', 'C12'])
contract(M, 'generate_language', {'L': 'Set[Word]', 'n': 'Int'}, returns='Set[Word]', variant='set', requires=[],
         ensures=['result == L'], theories=['word'], props=['C02', 'C12'])


# ---------------------------------------------------------------------------------------------- C12: comparison of two enumerated languages
_MIN1 = 'all(implies(v in A1 and v not in A2, wlen(w) <= wlen(v)) for v in allwords())'
_MIN2 = 'all(implies(v in A2 and v not in A1, wlen(w) <= wlen(v)) for v in allwords())'
contract(M, 'compare_languages', {'A1': 'Set[Word]', 'A2': 'Set[Word]'}, returns='List[Text]', requires=[],
         ensures=['(len(result) == 0) == (A1 == A2)', 'len(result) <= 1',
                  # a word of the answer that is not in the reference is reported first, and it is one of minimal length
                  'implies(not (A1 <= A2), any(w in A1 and w not in A2 and %s and result[0] == msg_should_not(show_word(w)) for w in allwords()))' % _MIN1,
                  'implies(A1 <= A2 and not (A2 <= A1), any(w in A2 and w not in A1 and %s and result[0] == msg_should(show_word(w)) for w in allwords()))' % _MIN2],
         types={'A1minusA2': 'List[Word]', 'A2minusA1': 'List[Word]', 'feedback': 'List[Text]', 'word': 'Word'},
         pre_return_asserts=['implies(len(A1minusA2) > 0, A1minusA2[0] in A1 and A1minusA2[0] not in A2)',
                             'implies(len(A1minusA2) > 0, all(implies(v in A1 and v not in A2, any(0 <= i and i < len(A1minusA2) and A1minusA2[i] == v for i in ints())) for v in allwords()))',
                             'implies(len(A1minusA2) > 0, all(implies(v in A1 and v not in A2, wlen(A1minusA2[0]) <= wlen(v)) for v in allwords()))',
                             'implies(len(A2minusA1) > 0, A2minusA1[0] in A2 and A2minusA1[0] not in A1)',
                             'implies(len(A2minusA1) > 0, all(implies(v in A2 and v not in A1, any(0 <= i and i < len(A2minusA1) and A2minusA1[i] == v for i in ints())) for v in allwords()))',
                             'implies(len(A2minusA1) > 0, all(implies(v in A2 and v not in A1, wlen(A2minusA1[0]) <= wlen(v)) for v in allwords()))'],
         theories=['word'], props=['C12', 'C19'],
         note='trusted builtin contract B-sorted for sorted(S, key=len); the message texts are uninterpreted functions of the reported word')

# the comparison used by most checkers: enumerate both sides up to the bound, compare.  Typed entry points for the pairs of kinds that the
# enumerators under contract cover (PDA and CFG arguments go through the same code with enumerators that are only checked by the bounded stand-ins)
_IN = {'DFA': lambda L: '(over(%s.Sigma, w) and wlen(w) <= length and dfa_accepts(%s, w))' % (L, L),
       'NFA': lambda L: '(over(%s.Sigma, w) and wlen(w) <= length and nfa_accepts(%s, w))' % (L, L),
       'TM': lambda L: '(over(%s.Sigma, w) and wlen(w) <= length and tm_accepted(%s, w, 1000))' % (L, L),
       'Regexp': lambda L: '(wlen(w) <= length and mem(w, L(%s)))' % L,
       'Set[Word]': lambda L: '(w in %s)' % L}
_PRE = {'DFA': lambda L: ['dfa_wf(%s)' % L], 'NFA': lambda L: ['nfa_wf(%s)' % L], 'TM': lambda L: ['tm_wf(%s)' % L], 'Regexp': lambda L: [], 'Set[Word]': lambda L: []}
_TH = {'DFA': ['dfa'], 'NFA': ['nfa'], 'TM': ['tm'], 'Regexp': ['regexp', 'wordx'], 'Set[Word]': []}
for _k1 in ('DFA', 'NFA', 'TM', 'Regexp', 'Set[Word]'):
    for _k2 in ('DFA', 'NFA', 'TM', 'Regexp', 'Set[Word]'):
        contract(M, 'check_equal_languages', {'L1': _k1, 'L2': _k2, 'length': 'Int'}, returns='List[Text]', variant='%s-%s' % (_k1.split('[')[0], _k2.split('[')[0]),
                 defaults={'length': '4'}, requires=_PRE[_k1]('L1') + _PRE[_k2]('L2') + ['length >= 0'],
                 ensures=['(len(result) == 0) == all(%s == %s for w in allwords())' % (_IN[_k1]('L1'), _IN[_k2]('L2')),
                          'implies(len(result) > 0, any((%s != %s) and (result[0] == msg_should_not(show_word(w)) or result[0] == msg_should(show_word(w))) for w in allwords()))' % (_IN[_k1]('L1'), _IN[_k2]('L2'))],
                 theories=['word'] + _TH[_k1] + [t for t in _TH[_k2] if t not in _TH[_k1]], props=['C12', 'C19'],
                 note='OK (no feedback) exactly when the two enumerations up to the bound are equal; a reported word is a genuine difference')

for _k in ('DFA', 'NFA', 'PDA', 'TM'):
    contract('gambatools.notebook', 'check_max_states', {'A': _k, 'max_states': 'Int'}, returns='List[Text]', variant=_k, requires=[],
             ensures=['(len(result) == 0) == (not (0 < max_states and max_states < card(A.Q)))', 'len(result) <= 1'],
             theories=[], props=['C12', 'C19'], note='no feedback exactly when the state bound is switched off (0) or respected')

# the PDA branch of the dispatch: the same two statements as pda_words_up_to_n (sound for every closure limit, exact when no closure computation hits it)
from .pda import _PRS as _PDA_SOUND, _PRC as _PDA_EXACT
contract(M, 'generate_language', {'L': 'PDA', 'n': 'Int'}, returns='Set[Word]', variant='PDA', requires=['n >= 0'],
         ensures=[(_PDA_SOUND % 'n').replace('P.', 'L.').replace('(P,', '(L,'), (_PDA_EXACT % 'n').replace('P.', 'L.').replace('(P,', '(L,')],
         theories=['word', 'pda'], props=['C02', 'C12'])
