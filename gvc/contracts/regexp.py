from ..contract import contract

M = 'gambatools.regexp_algorithms'

contract(M, 'regexp_accepts_word', {'r': 'Regexp', 'w': 'Word'}, returns='Bool',
         requires=[], ensures=['result == mem(w, L(r))'], decreases=['rnodes(r)', 'wlen(w)'],
         theories=['word', 'regexp'], props=['C05', 'C19'], symbol_is_regexp=True)

contract(M, 'regexp_simplify', {'r': 'Regexp'}, returns='Regexp',
         requires=[], ensures=['L(result) == L(r)', 'rsize(result) <= rsize(r)', 'rnodes(result) <= rnodes(r)'], decreases=['rnodes(r)'],
         theories=['word', 'regexp'], props=['C05', 'C06', 'C19'], symbol_is_regexp=True)

contract(M, 'regexp_size', {'r': 'Regexp'}, returns='Int',
         requires=[], ensures=['result == rsize(r)'], decreases=['rnodes(r)'],
         theories=['word', 'regexp'], props=['C05'], symbol_is_regexp=True)

contract(M, 'concatenate', {'L1': 'Set[Word]', 'L2': 'Set[Word]'}, returns='Set[Word]',
         requires=[], ensures=['all(app(x, y) in result for x in L1 for y in L2)', 'all(any(w == app(x, y) for x in L1 for y in L2) for w in result)'],
         theories=['word'], props=['C02', 'C14'])

_C = 'all(implies(is_concat(r) and 0 <= k and k <= wlen(w) and wlen(w) <= n and mem(take(k, w), L(r.left)) and mem(drop(k, w), L(r.right)), %s) for w in allwords() for k in ints())'
_S = 'all(implies(is_iter(r) and 1 <= k and k <= wlen(w) and wlen(w) <= n and mem(take(k, w), L(r.operand)) and mem(drop(k, w), L(r)), %s) for w in allwords() for k in ints())'
contract(M, 'regexp_words_up_to_n', {'r': 'Regexp', 'n': 'Int'}, returns='Set[Word]',
         requires=['n >= 0'], ensures=['all(wlen(w) <= n and mem(w, L(r)) for w in result)', 'all(implies(wlen(w) <= n and mem(w, L(r)), w in result) for w in allwords())'],
         decreases=['rnodes(r)', 'n'], types={'result': 'Set[Word]'},
         asserts=[_C % 'take(k, w) in regexp_words_up_to_n(r.left, k)', _C % 'drop(k, w) in regexp_words_up_to_n(r.right, n - k)',
                  _C % 'w in concatenate(regexp_words_up_to_n(r.left, k), regexp_words_up_to_n(r.right, n - k))', _C % 'w in result',
                  _S % 'take(k, w) in regexp_words_up_to_n(r.operand, k)', _S % 'drop(k, w) in regexp_words_up_to_n(r, n - k)',
                  _S % 'w in concatenate(regexp_words_up_to_n(r.operand, k), regexp_words_up_to_n(r, n - k))', _S % 'w in result'],
         theories=['word', 'regexp'], props=['C02', 'C19'], symbol_is_regexp=True)

# ---------------------------------------------------------------------------------------------- C06: the generalised NFA of a DFA
_LBL = 'mem(w, L(relookup(%s, (x, y))))'
_EDGE = 'any(a in D.Sigma and %s and D.delta[(x, a)] == y and w == single(a) for a in atoms())'
_GK = ('all(((x, y) in delta1) == ((x == q_start and y == D.q0) or (x in D.F and y == q_accept and %s) or (x in D.Q and y in D.Q and any(a in D.Sigma and %s and D.delta[(x, a)] == y for a in atoms()))) '
       'for x in atoms() for y in atoms())')
_GL = 'all(implies(x in D.Q and y in D.Q, %s == %s) for x in atoms() for y in atoms() for w in allwords())'
_GFIX = ['q_start not in D.Q', 'q_accept not in D.Q', 'q_start != q_accept', 'delta1[(q_start, D.q0)] == One()']
# facts of the language algebra in the shape the loop needs (valid: proved at loop entry, kept trivially, then available as hypotheses)
_GLANG = ['all(mem(w, L(Sum(r, Symbol(a)))) == (mem(w, L(r)) or w == single(a)) for w in allwords() for r in regexps() for a in atoms())',
          'all(mem(w, L(Symbol(a))) == (w == single(a)) for w in allwords() for a in atoms())', 'all(not mem(w, L(Zero())) for w in allwords())']
contract(M, 'dfa_to_gnfa', {'D': 'DFA'}, returns='GNFA', requires=['dfa_wf(D)'],
         ensures=['result.Sigma == D.Sigma', 'result.Q == D.Q | {result.q_start, result.q_accept}', 'result.q_start not in D.Q', 'result.q_accept not in D.Q', 'result.q_start != result.q_accept',
                  # the labels: between two states of D exactly the letters of the transitions from the first to the second; One from the new start state to
                  # the old initial state and from every accepting state to the new accept state; nothing else
                  _GL % (_LBL % 'result.delta', _EDGE % 'True'),
                  'relookup(result.delta, (result.q_start, D.q0)) == One()',
                  'all(implies(x in D.F, relookup(result.delta, (x, result.q_accept)) == One()) for x in atoms())',
                  'all(implies((x, y) in result.delta, (x == result.q_start and y == D.q0) or (x in D.F and y == result.q_accept) or (x in D.Q and y in D.Q)) for x in atoms() for y in atoms())',
                  'gnfa_of_dfa(D, glabels(result), result.Q, result.q_start, result.q_accept)',
                  # hence: the words leading from the start state to the accept state are exactly the words D accepts (lemma gnfa-of-dfa-lang)
                  'all(gacc(glabels(result), result.Q, result.q_accept, result.q_start, w) == (over(D.Sigma, w) and dfa_accepts(D, w)) for w in allwords())',
                  'result.q_start in result.Q', 'result.q_accept in result.Q',
                  'all(lab(glabels(result), result.q_accept, y) == lzero() for y in atoms())', 'all(lab(glabels(result), x, result.q_start) == lzero() for x in atoms())'],
         asserts=['all(implies(not ((x == result.q_start and y == D.q0) or (x in D.F and y == result.q_accept) or (x in D.Q and y in D.Q)), lab_re(glabels(result), x, y) == Zero()) for x in atoms() for y in atoms())',
                  'lab_re(glabels(result), result.q_start, D.q0) == One()', 'all(implies(x in D.F, lab_re(glabels(result), x, result.q_accept) == One()) for x in atoms())',
                  'gnfa_of_dfa(D, glabels(result), result.Q, result.q_start, result.q_accept)'],
         types={'Q1': 'Set[State]', 'delta1': 'Map[(State,State),Regexp,default=zero]'},
         loops={1: {'ghost': 'doneF', 'invariant': _GFIX + [_GK % ('x in doneF', 'False'), 'all(implies(x in doneF, delta1[(x, q_accept)] == One()) for x in atoms())']},
                2: {'ghost': 'doneK', 'invariant': _GFIX + _GLANG + [_GK % ('True', '(x, a) in doneK'), 'all(implies(x in D.F, delta1[(x, q_accept)] == One()) for x in atoms())',
                                                          _GL % (_LBL % 'delta1', _EDGE % '(x, a) in doneK')]}},
         theories=['word', 'wordx', 'dfa', 'dfax', 'naming', 'regexp', 'gnfa', 'gnfadfa'], props=['C06', 'C19'], symbol_is_regexp=True,
         note='exact labels of the generalised NFA, and (lemma gnfa-of-dfa-lang) its language is that of D. Naming assumption N5: generated start / accept names differ')

# ---------------------------------------------------------------------------------------------- C06: state elimination on the generalised NFA
_GWF = ['G.q_start in G.Q', 'G.q_accept in G.Q', 'G.q_start != G.q_accept',
        'all(lab(glabels(G), G.q_accept, y) == lzero() for y in atoms())', 'all(lab(glabels(G), x, G.q_start) == lzero() for x in atoms())']
_GFRAME = ['G.q_start == old(G.q_start)', 'G.q_accept == old(G.q_accept)', 'G.Sigma == old(G.Sigma)', 'G.epsilon == old(G.epsilon)',
           'q_start == G.q_start', 'q_accept == G.q_accept']
_GLANGSAME = 'all(gacc(glabels(G), G.Q, G.q_accept, G.q_start, w) == gacc(old(glabels(G)), old(G.Q), G.q_accept, G.q_start, w) for w in allwords())'
def _RIPF(i, j): return 'lplus(lcat(lab(L0, %s, q_rip), lcat(lstar(lab(L0, q_rip, q_rip)), lab(L0, q_rip, %s))), lab(L0, %s, %s))' % (i, j, i, j)
def _DONE(proc):
    return ['all(implies(%s and x in G.Q and x != q_accept and y in G.Q and y != q_start, lab(glabels(G), x, y) == %s) for x in atoms() for y in atoms())' % (proc, _RIPF('x', 'y')),
            'all(implies(not (%s and x in G.Q and x != q_accept and y in G.Q and y != q_start), lab_re(glabels(G), x, y) == lab_re(L0, x, y)) for x in atoms() for y in atoms())' % proc]
_INNER = _GFRAME + ['q_rip not in G.Q', 'q_rip != q_start', 'q_rip != q_accept', 'q_start in G.Q', 'q_accept in G.Q', 'q_start != q_accept', 'R2 == lab_re(L0, q_rip, q_rip)',
                    'G.Q == Q1']
contract(M, 'gnfa_minimize', {'G': 'GNFA'}, returns='None', modifies=['G'], requires=_GWF,
         ensures=['all(mem(w, L(relookup(G.delta, (G.q_start, G.q_accept)))) == gacc(old(glabels(G)), old(G.Q), G.q_accept, G.q_start, w) for w in allwords())',
                  'G.q_start == old(G.q_start)', 'G.q_accept == old(G.q_accept)'],
         loops={1: {'ghost': 'doneR', 'invariant': _GFRAME + _GWF + ['all((x in G.Q) == (x in old(G.Q) and x not in doneR) for x in atoms())', _GLANGSAME],
                    'after': ['all((x in G.Q) == (x == q_start or x == q_accept) for x in atoms())']},
                2: {'ghost': 'doneI', 'entry_snapshot': {'L0': 'glabels(G)', 'Q1': 'G.Q'},
                    'invariant': _INNER + _DONE('x in doneI'),
                    'after': ['rip(L0, glabels(G), Q1 | {q_rip}, G.Q, q_rip, q_start, q_accept)']},
                3: {'ghost': 'doneJ', 'invariant': _INNER + ['q_i in G.Q', 'q_i != q_accept', 'R1 == lab_re(L0, q_i, q_rip)'] + _DONE('(x in doneI or (x == q_i and y in doneJ))')}},
         theories=['word', 'wordx', 'regexp', 'gnfa'], props=['C06'], symbol_is_regexp=True,
         note='state elimination in every order: after ripping a state the label between two remaining states denotes L(i,r) L(r,r)* L(r,j) + L(i,j) (regexp_simplify preserves the language), '
              'which leaves the words leading from the start state to the accept state unchanged (lemma rip-sim, two least-fixpoint inductions and an induction on the star); '
              'with two states left the language is that of the remaining label (lemma gnfa-two-state)')

contract(M, 'dfa_to_regexp', {'D': 'DFA'}, returns='Regexp', requires=['dfa_wf(D)'],
         ensures=['all(mem(w, L(result)) == (over(D.Sigma, w) and dfa_accepts(D, w)) for w in allwords())'],
         theories=['word', 'wordx', 'dfa', 'regexp', 'gnfa'], props=['C06', 'C19'], symbol_is_regexp=True,
         note='the extracted regular expression denotes exactly the language of D, whatever order the states are eliminated in (contracts of dfa_to_gnfa and gnfa_minimize)')

# ---------------------------------------------------------------------------------------------- C06: regexp -> NFA (Thompson-style generator)
# The generator object keeps ONE mutable alphabet set and hands that very object to every leaf NFA it builds (result_shares): an NFA obtained
# earlier may see its alphabet grow when a later symbol is generated.  The postcondition is therefore stated so that it is stable under such
# growth: validity (monotone in the alphabet as long as the empty string stays out of it), state names, and acceptance of words that do not
# contain the epsilon symbol -- none of which depends on the exact alphabet.
_E = 'eps0()'
_SH = {'Sigma': 'self.Sigma'}
_NAMEDQ = "all(implies(s in result.Q, any(old(self.id_generator.index) <= j and j < self.id_generator.index and s == hint_index_name('q', j) for j in ints())) for s in atoms())"
def _GENPOST(x):
    return ['nfa_wf(result)', 'result.epsilon == %s' % _E, _NAMEDQ, 'self.id_generator.index >= old(self.id_generator.index)',
            'old(self.Sigma) <= self.Sigma', 'result.Sigma <= self.Sigma', 'syms(%s) <= result.Sigma' % x, '%s not in self.Sigma' % _E,
            'lang_agrees(result, %s)' % x]        # result accepts exactly the epsilon-free words of L(x) (opaque name; definition lang_agrees-def)
_GENPRE = ['%s not in self.Sigma' % _E]
contract(M, 'RegexpToNFAGenerator.__init__', {'self': 'RxGen'}, returns='None', modifies=['self'],
         ensures=['self.Sigma == set_empty()', 'self.id_generator.index == 0'], types={}, theories=['naming'], props=['C06'])
contract(M, 'RegexpToNFAGenerator.fresh_state', {'self': 'RxGen'}, returns='State', modifies=['self'],
         ensures=["result == hint_index_name('q', old(self.id_generator.index))", 'self.id_generator.index == old(self.id_generator.index) + 1', 'self.Sigma == old(self.Sigma)'],
         theories=['naming'], props=['C06'])
contract(M, 'RegexpToNFAGenerator.generate_zero', {'self': 'RxGen'}, returns='NFA', modifies=['self'], requires=_GENPRE, ensures=_GENPOST('Zero()'),
         asserts=['all(not nfa_acc(result, w) for w in allwords())', 'all(implies(noeps(%s, w), nfa_acc(result, w) == mem(w, L(Zero()))) for w in allwords())' % _E],
         result_shares=_SH, types={'delta': 'Map[(State,Symbol),Set[State],default=set]', 'F': 'Set[State]'},
         theories=['word', 'wordx', 'naming', 'nfa', 'nfax', 'regexp', 'nfastar', 'thompson'], props=['C06'], symbol_is_regexp=True)
contract(M, 'RegexpToNFAGenerator.generate_one', {'self': 'RxGen'}, returns='NFA', modifies=['self'], requires=_GENPRE, ensures=_GENPOST('One()'),
         asserts=['all(y not in step(result, q, b) for q in atoms() for b in atoms() for y in atoms())',
                  'all(Nhat(result, w) == ({q0} if w == nil() else set_empty()) for w in allwords())',
                  'all(nfa_acc(result, w) == (w == nil()) for w in allwords())',
                  'all(implies(noeps(%s, w), nfa_acc(result, w) == mem(w, L(One()))) for w in allwords())' % _E],
         result_shares=_SH, types={'delta': 'Map[(State,Symbol),Set[State],default=set]'},
         theories=['word', 'wordx', 'naming', 'nfa', 'nfax', 'regexp', 'nfastar', 'thompson'], props=['C06'], symbol_is_regexp=True)
contract(M, 'RegexpToNFAGenerator.generate_symbol', {'self': 'RxGen', 'x': 'Regexp'}, returns='NFA', modifies=['self'],
         requires=_GENPRE + ['is_sym(x)', 'x.symbol != %s' % _E], ensures=_GENPOST('x'),
         asserts=['q0 != q1', 'all((y in step(result, q, b)) == (q == q0 and b == x.symbol and y == q1) for q in atoms() for b in atoms() for y in atoms())',
                  'all(Nhat(result, w) == ({q0} if w == nil() else ({q1} if w == single(x.symbol) else set_empty())) for w in allwords())',
                  'all(nfa_acc(result, w) == (w == single(x.symbol)) for w in allwords())',
                  'all(implies(noeps(%s, w), nfa_acc(result, w) == mem(w, L(x))) for w in allwords())' % _E],
         result_shares=_SH, types={'delta': 'Map[(State,Symbol),Set[State],default=set]'},
         theories=['word', 'wordx', 'naming', 'nfa', 'nfax', 'regexp', 'nfastar', 'thompson'], props=['C06'], symbol_is_regexp=True)
contract(M, 'RegexpToNFAGenerator.generate', {'self': 'RxGen', 'x': 'Regexp'}, returns='NFA', modifies=['self'],
         requires=_GENPRE + ['%s not in syms(x)' % _E], ensures=_GENPOST('x'), decreases=['rnodes(x)'],
         result_shares=_SH,
         theories=['word', 'wordx', 'naming', 'nfa', 'nfax', 'regexp', 'nfastar', 'thompson'], props=['C06'], symbol_is_regexp=True,
         note='structural recursion; the three constructions are used through their contracts (C18), the alphabet-free corollaries union-free / cat-free / star-free '
              'turn their language statements into statements about acceptance of epsilon-free words')
contract(M, 'regexp_to_nfa', {'x': 'Regexp'}, returns='NFA', requires=['%s not in syms(x)' % _E],
         ensures=['nfa_wf(result)', 'all(implies(over(result.Sigma, w), nfa_accepts(result, w) == mem(w, L(x))) for w in allwords())',
                  'all(implies(mem(w, L(x)), over(result.Sigma, w)) for w in allwords())'],
         asserts=['all(implies(over(result.Sigma, w), nfa_acc(result, w) == mem(w, L(x))) for w in allwords())', 'all(nfa_acc(result, w) == nfa_accepts(result, w) for w in allwords())'],
         theories=['word', 'wordx', 'naming', 'nfa', 'nfax', 'regexp', 'nfastar', 'thompson'], props=['C06', 'C19'], symbol_is_regexp=True,
         note='the constructed NFA is valid and accepts exactly the denoted language (every word of the language is over its alphabet)')
