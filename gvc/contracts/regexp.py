from ..contract import contract

M = 'gambatools.regexp_algorithms'

contract(M, 'regexp_accepts_word', {'r': 'Regexp', 'w': 'Word'}, returns='Bool',
         requires=[], ensures=['result == mem(w, L(r))'], decreases=['rnodes(r)', 'wlen(w)'],
         theories=['word', 'regexp'], props=['C05', 'C19'], symbol_is_regexp=True)

contract(M, 'regexp_simplify', {'r': 'Regexp'}, returns='Regexp',
         requires=[], ensures=['L(result) == L(r)', 'rsize(result) <= rsize(r)', 'rnodes(result) <= rnodes(r)'], decreases=['rnodes(r)'],
         theories=['word', 'regexp'], props=['C05', 'C06', 'C19'], symbol_is_regexp=True)

contract(M, 'regexp_size', {'r': 'Regexp'}, returns='Int',
         requires=[], ensures=['result == rsize(r)'], decreases=['rnodes(r)'],
         theories=['word', 'regexp'], props=['C05'], symbol_is_regexp=True)

contract(M, 'concatenate', {'L1': 'Set[Word]', 'L2': 'Set[Word]'}, returns='Set[Word]',
         requires=[], ensures=['all(app(x, y) in result for x in L1 for y in L2)', 'all(any(w == app(x, y) for x in L1 for y in L2) for w in result)'],
         theories=['word'], props=['C02', 'C14'])

_C = 'all(implies(is_concat(r) and 0 <= k and k <= wlen(w) and wlen(w) <= n and mem(take(k, w), L(r.left)) and mem(drop(k, w), L(r.right)), %s) for w in allwords() for k in ints())'
_S = 'all(implies(is_iter(r) and 1 <= k and k <= wlen(w) and wlen(w) <= n and mem(take(k, w), L(r.operand)) and mem(drop(k, w), L(r)), %s) for w in allwords() for k in ints())'
contract(M, 'regexp_words_up_to_n', {'r': 'Regexp', 'n': 'Int'}, returns='Set[Word]',
         requires=['n >= 0'], ensures=['all(wlen(w) <= n and mem(w, L(r)) for w in result)', 'all(implies(wlen(w) <= n and mem(w, L(r)), w in result) for w in allwords())'],
         decreases=['rnodes(r)', 'n'], types={'result': 'Set[Word]'},
         asserts=[_C % 'take(k, w) in regexp_words_up_to_n(r.left, k)', _C % 'drop(k, w) in regexp_words_up_to_n(r.right, n - k)',
                  _C % 'w in concatenate(regexp_words_up_to_n(r.left, k), regexp_words_up_to_n(r.right, n - k))', _C % 'w in result',
                  _S % 'take(k, w) in regexp_words_up_to_n(r.operand, k)', _S % 'drop(k, w) in regexp_words_up_to_n(r, n - k)',
                  _S % 'w in concatenate(regexp_words_up_to_n(r.operand, k), regexp_words_up_to_n(r, n - k))', _S % 'w in result'],
         theories=['word', 'regexp'], props=['C02', 'C19'], symbol_is_regexp=True)
