from ..contract import contract

M = 'gambatools.regexp_algorithms'

contract(M, 'regexp_accepts_word', {'r': 'Regexp', 'w': 'Word'}, returns='Bool',
         requires=[], ensures=['result == mem(w, L(r))'], decreases=['rnodes(r)', 'wlen(w)'],
         theories=['word', 'regexp'], props=['C05', 'C19'], symbol_is_regexp=True)

contract(M, 'regexp_simplify', {'r': 'Regexp'}, returns='Regexp',
         requires=[], ensures=['L(result) == L(r)', 'rsize(result) <= rsize(r)', 'rnodes(result) <= rnodes(r)'], decreases=['rnodes(r)'],
         theories=['word', 'regexp'], props=['C05', 'C06', 'C19'], symbol_is_regexp=True)

contract(M, 'regexp_size', {'r': 'Regexp'}, returns='Int',
         requires=[], ensures=['result == rsize(r)'], decreases=['rnodes(r)'],
         theories=['word', 'regexp'], props=['C05'], symbol_is_regexp=True)
