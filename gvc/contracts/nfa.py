from ..contract import contract

M = 'gambatools.nfa_algorithms'

_ECLO_LOOP = {1: {'invariant': ['seed0 <= result', 'todo <= result', 'result <= Eclo(N, seed0)',
                                'all(step(N, x, N.epsilon) <= result for x in result - todo)'],
                  'exit_hints': ['Eclo_least(N, seed0, result)']}}
for variant, qt, seed in (('state', 'State', '{q}'), ('set', 'Set[State]', 'q')):
    contract(M, 'epsilon_closure', {'N': 'NFA', 'q': qt}, returns='Set[State]', variant=variant,
             requires=['nfa_wf(N)'],
             ensures=['result == Eclo(N, seed0)'],
             ghost={'seed0': seed}, loops=_ECLO_LOOP,
             theories=['word', 'nfa'], props=['C01', 'C03', 'C19'])

contract(M, '_nfa_cache', {'N': 'NFA'}, returns='(Map[State,Set[State]], Map[(State,Symbol),Set[State],default=set])',
         requires=['nfa_wf(N)'],
         ensures=['all(q in result[0] for q in N.Q)',
                  'all(result[0][q] == Eclo(N, {q}) for q in N.Q)',
                  'all(lookup(result[1], (q, a)) == Eclo(N, step(N, q, a)) for q in atoms() for a in atoms())'],
         types={'Eq': 'Map[State,Set[State]]', 'Eqa': 'Map[(State,Symbol),Set[State],default=set]'},
         loops={1: {'invariant': ['all(q in Eq for q in done)', 'all(Eq[q] == Eclo(N, {q}) for q in done)']},
                2: {'invariant': ['all(((q, a) in Eqa) == ((q, a) in done) for q in atoms() for a in atoms())',
                                  'all(Eqa[(q, a)] == Eclo(N, step(N, q, a)) for (q, a) in done)']}},
         theories=['word', 'nfa'], props=['C01', 'C02', 'C19'])

contract(M, 'nfa_accepts_word', {'N': 'NFA', 'word': 'Word'}, returns='Bool',
         requires=['nfa_wf(N)', 'over(N.Sigma, word)'],
         ensures=['result == nfa_accepts(N, word)'],
         loops={1: {'invariant': ['q == Nhat(N, prefix)']}},
         theories=['word', 'nfa'], props=['C01', 'C19'])
