from ..contract import contract

M = 'gambatools.nfa_algorithms'

_ECLO_LOOP = {1: {'invariant': ['seed0 <= result', 'todo <= result', 'result <= Eclo(N, seed0)',
                                'all(step(N, x, N.epsilon) <= result for x in result - todo)'],
                  'exit_hints': ['Eclo_least(N, seed0, result)']}}
for variant, qt, seed in (('state', 'State', '{q}'), ('set', 'Set[State]', 'q')):
    contract(M, 'epsilon_closure', {'N': 'NFA', 'q': qt}, returns='Set[State]', variant=variant,
             requires=['nfa_wf(N)'],
             ensures=['result == Eclo(N, seed0)'],
             ghost={'seed0': seed}, loops=_ECLO_LOOP,
             theories=['word', 'nfa'], props=['C01', 'C03', 'C19'])

contract(M, '_nfa_cache', {'N': 'NFA'}, returns='(Map[State,Set[State]], Map[(State,Symbol),Set[State],default=set])',
         requires=['nfa_wf(N)'],
         ensures=['all(q in result[0] for q in N.Q)',
                  'all(result[0][q] == Eclo(N, {q}) for q in N.Q)',
                  'all(lookup(result[1], (q, a)) == Eclo(N, step(N, q, a)) for q in atoms() for a in atoms())'],
         types={'Eq': 'Map[State,Set[State]]', 'Eqa': 'Map[(State,Symbol),Set[State],default=set]'},
         loops={1: {'invariant': ['all(q in Eq for q in done)', 'all(Eq[q] == Eclo(N, {q}) for q in done)']},
                2: {'invariant': ['all(((q, a) in Eqa) == ((q, a) in done) for q in atoms() for a in atoms())',
                                  'all(Eqa[(q, a)] == Eclo(N, step(N, q, a)) for (q, a) in done)']}},
         theories=['word', 'nfa'], props=['C01', 'C02', 'C19'])

contract(M, 'nfa_accepts_word', {'N': 'NFA', 'word': 'Word'}, returns='Bool',
         requires=['nfa_wf(N)', 'over(N.Sigma, word)'],
         ensures=['result == nfa_accepts(N, word)'],
         loops={1: {'invariant': ['q == Nhat(N, prefix)']}},
         theories=['word', 'nfa'], props=['C01', 'C19'])

# ---------------------------------------------------------------------------------------------- C03
_DELTA_OK = 'delta[(%s, %s)] == name_of_set(Eclo(N, move(N, set_of_name(%s), %s))) and delta[(%s, %s)] in Q'
_W = ['Sigma == N.Sigma', 'stateQ0 == name_of_set(Eclo(N, {N.q0}))', 'stateQ0 in Q', 'F <= Q',
      'all(x == name_of_set(set_of_name(x)) and Sreach(N, set_of_name(x)) for x in Q)',
      'all((x in F) == (not set_of_name(x).isdisjoint(N.F)) for x in Q)',
      'all(name_of_set(todo[i]) in Q for i in range(len(todo)))',
      'all(x in Q and a in Sigma and ' + (_DELTA_OK % ('x', 'a', 'x', 'a', 'x', 'a')) + ' for (x, a) in delta)']
contract(M, 'nfa_to_dfa', {'N': 'NFA'}, returns='DFA', requires=['nfa_wf(N)'],
         ensures=['dfa_wf(result)', 'subset_struct(N, result)', 'all(Sreach(N, set_of_name(x)) for x in result.Q)',
                  'all(implies(over(N.Sigma, w), dfa_accepts(result, w) == nfa_accepts(N, w)) for w in allwords())',
                  'all(x in Reach(result, result.q0) for x in result.Q)'],
         types={'F': 'Set[State]', 'Q': 'Set[State]', 'delta': 'Map[(State,Symbol),State]', 'todo': 'List[Set[State]]', 'Q2': 'Set[State]'},
         pre_return_asserts=['all((x, a) in delta for x in Q for a in Sigma)'],
         asserts=['subset_struct(N, result)', 'all(implies(over(N.Sigma, w), dhat(result, result.q0, w) == name_of_set(Nhat(N, w)) and dhat(result, result.q0, w) in result.Q) for w in allwords())'],
         loops={1: {'invariant': _W + ['all(any(name_of_set(todo[i]) == x for i in range(len(todo))) or all((x, a) in delta for a in Sigma) for x in Q)']},
                2: {'ghost': 'doneS', 'invariant': _W + ['stateQ1 in Q', 'stateQ1 == name_of_set(Q1)', 'Q1 == set_of_name(stateQ1)',
                                                        'all(x == stateQ1 or any(name_of_set(todo[i]) == x for i in range(len(todo))) or all((x, a) in delta for a in Sigma) for x in Q)',
                                                        'all((stateQ1, a) in delta for a in doneS)']},
                3: {'ghost': 'doneQ1', 'invariant': ['Q2 == move(N, doneQ1, a)']}},
         theories=['nfa', 'subset'], props=['C03', 'C19', 'C13'])
