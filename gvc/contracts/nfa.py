from ..contract import contract

M = 'gambatools.nfa_algorithms'

_ECLO_LOOP = {1: {'invariant': ['seed0 <= result', 'todo <= result', 'result <= Eclo(N, seed0)',
                                'all(step(N, x, N.epsilon) <= result for x in result - todo)'],
                  'exit_hints': ['Eclo_least(N, seed0, result)']}}
for variant, qt, seed in (('state', 'State', '{q}'), ('set', 'Set[State]', 'q')):
    contract(M, 'epsilon_closure', {'N': 'NFA', 'q': qt}, returns='Set[State]', variant=variant,
             requires=['nfa_wf(N)'],
             ensures=['result == Eclo(N, seed0)'],
             ghost={'seed0': seed}, loops=_ECLO_LOOP,
             theories=['word', 'nfa'], props=['C01', 'C03', 'C19'])
