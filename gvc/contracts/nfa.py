from ..contract import contract

M = 'gambatools.nfa_algorithms'

# termination: a state enters the work list only when it is new (result grows inside the finite set N.Q | seed), and every round removes one;
# measure 2 * |(N.Q | seed) - result| + |todo|
_EMEAS = '2 * card((N.Q | seed0) - result) + card(todo)'
_ECLO_LOOP = {1: {'invariant': ['seed0 <= result', 'todo <= result', 'result <= Eclo(N, seed0)',
                                'all(step(N, x, N.epsilon) <= result for x in result - todo)',
                                'result <= N.Q | seed0', 'fin(result)', 'fin(todo)'],
                  'exit_hints': ['Eclo_least(N, seed0, result)'], 'decreases': [_EMEAS],
                  'snapshot': {'r0': 'result', 't0': 'todo'},
                  'body_end': ['fin(Q1)', 'all(implies(x in Q1, x in (N.Q | seed0) - r0) for x in atoms())', 'result == r0 | Q1',
                               '(N.Q | seed0) - result == ((N.Q | seed0) - r0) - Q1',
                               'card((N.Q | seed0) - result) == card((N.Q | seed0) - r0) - card(Q1)',
                               'fin(t0 - {q}) and card(t0 - {q}) == card(t0) - 1', 'todo == (t0 - {q}) | Q1',
                               'card(todo) <= card(t0) - 1 + card(Q1)']}}
for variant, qt, seed in (('state', 'State', '{q}'), ('set', 'Set[State]', 'q')):
    contract(M, 'epsilon_closure', {'N': 'NFA', 'q': qt}, returns='Set[State]', variant=variant,
             requires=['nfa_wf(N)'],
             type_invariants=['fin(N.Q)', 'fin(seed0)', 'all(fin(lookup(N.delta, (x, b))) for x in atoms() for b in atoms())'],
             ensures=['result == Eclo(N, seed0)', 'result <= N.Q | seed0', 'fin(result)'],
             ghost={'seed0': seed}, loops=_ECLO_LOOP,
             theories=['word', 'nfa'], props=['C01', 'C03', 'C19'],
             note='total correctness; the finiteness of the set objects involved is a type invariant of Python sets (assumed at entry, not a precondition)')

contract(M, '_nfa_cache', {'N': 'NFA'}, returns='(Map[State,Set[State]], Map[(State,Symbol),Set[State],default=set])',
         requires=['nfa_wf(N)'],
         ensures=['all(q in result[0] for q in N.Q)',
                  'all(result[0][q] == Eclo(N, {q}) for q in N.Q)',
                  'all(lookup(result[1], (q, a)) == Eclo(N, step(N, q, a)) for q in atoms() for a in atoms())'],
         types={'Eq': 'Map[State,Set[State]]', 'Eqa': 'Map[(State,Symbol),Set[State],default=set]'},
         loops={1: {'invariant': ['all(q in Eq for q in done)', 'all(Eq[q] == Eclo(N, {q}) for q in done)']},
                2: {'invariant': ['all(((q, a) in Eqa) == ((q, a) in done) for q in atoms() for a in atoms())',
                                  'all(Eqa[(q, a)] == Eclo(N, step(N, q, a)) for (q, a) in done)']}},
         theories=['word', 'nfa'], props=['C01', 'C02', 'C19'])

contract(M, 'nfa_accepts_word', {'N': 'NFA', 'word': 'Word'}, returns='Bool',
         requires=['nfa_wf(N)', 'over(N.Sigma, word)'],
         ensures=['result == nfa_accepts(N, word)'],
         loops={1: {'invariant': ['q == Nhat(N, prefix)']}},
         theories=['word', 'nfa'], props=['C01', 'C19'])

# ---------------------------------------------------------------------------------------------- C03
_DELTA_OK = 'delta[(%s, %s)] == name_of_set(Eclo(N, move(N, set_of_name(%s), %s))) and delta[(%s, %s)] in Q'
_W = ['Sigma == N.Sigma', 'stateQ0 == name_of_set(Eclo(N, {N.q0}))', 'stateQ0 in Q', 'F <= Q',
      'all(x == name_of_set(set_of_name(x)) and Sreach(N, set_of_name(x)) for x in Q)',
      'all((x in F) == (not set_of_name(x).isdisjoint(N.F)) for x in Q)',
      'all(name_of_set(todo[i]) in Q for i in range(len(todo)))',
      'all(x in Q and a in Sigma and ' + (_DELTA_OK % ('x', 'a', 'x', 'a', 'x', 'a')) + ' for (x, a) in delta)']
_PN = 'card(pow_names(N.Q) - Q)'
contract(M, 'nfa_to_dfa', {'N': 'NFA'}, returns='DFA', requires=['nfa_wf(N)'], type_invariants=['fin(N.Q)'],
         ensures=['dfa_wf(result)', 'subset_struct(N, result)', 'all(Sreach(N, set_of_name(x)) for x in result.Q)',
                  'all(implies(over(N.Sigma, w), dfa_accepts(result, w) == nfa_accepts(N, w)) for w in allwords())',
                  'all(x in Reach(result, result.q0) for x in result.Q)'],
         types={'F': 'Set[State]', 'Q': 'Set[State]', 'delta': 'Map[(State,Symbol),State]', 'todo': 'List[Set[State]]', 'Q2': 'Set[State]'},
         pre_return_asserts=['all((x, a) in delta for x in Q for a in Sigma)'],
         asserts=['subset_struct(N, result)', 'all(implies(over(N.Sigma, w), dhat(result, result.q0, w) == name_of_set(Nhat(N, w)) and dhat(result, result.q0, w) in result.Q) for w in allwords())'],
         # termination: every state added to Q is the name of a subset of N.Q that was not in Q (finitely many), and a round that adds none shortens the work list
         loops={1: {'invariant': _W + ['all(any(name_of_set(todo[i]) == x for i in range(len(todo))) or all((x, a) in delta for a in Sigma) for x in Q)'],
                    'snapshot': {'c0': _PN, 'l0': 'len(todo)'}, 'decreases': [_PN, 'len(todo)']},
                2: {'ghost': 'doneS', 'invariant': _W + ['stateQ1 in Q', 'stateQ1 == name_of_set(Q1)', 'Q1 == set_of_name(stateQ1)',
                                                        'all(x == stateQ1 or any(name_of_set(todo[i]) == x for i in range(len(todo))) or all((x, a) in delta for a in Sigma) for x in Q)',
                                                        'all((stateQ1, a) in delta for a in doneS)',
                                                        _PN + ' <= c0', 'implies(' + _PN + ' == c0, len(todo) == l0 - 1)']},
                3: {'ghost': 'doneQ1', 'invariant': ['Q2 == move(N, doneQ1, a)', 'Q2 <= N.Q']}},
         theories=['nfa', 'subset'], props=['C03', 'C19', 'C13'])

# ---------------------------------------------------------------------------------------------- C18
DT = 'Map[(State,Symbol),Set[State],default=set]'
_RELAB = '(y in lookup(old(delta), (q, b)) or (b == epsilon and y in step(N, q, N.epsilon)) or (b != N.epsilon and y in step(N, q, b)))'
contract(M, '_copy_nfa_delta', {'delta': DT, 'N': 'NFA', 'epsilon': 'Symbol'}, returns='None', modifies=['delta'], requires=['nfa_wf(N)'],
         ensures=['all((y in lookup(delta, (q, b))) == %s for q in atoms() for b in atoms() for y in atoms())' % _RELAB,
                  'all(implies((q, b) in delta, (q, b) in old(delta) or (q in N.Q and (b in N.Sigma or b == epsilon))) for q in atoms() for b in atoms())'],
         loops={1: {'ghost': 'doneK', 'invariant': [
             'all((y in lookup(delta, (q, b))) == (y in lookup(old(delta), (q, b)) or (b == epsilon and (q, N.epsilon) in doneK and y in step(N, q, N.epsilon)) or (b != N.epsilon and (q, b) in doneK and y in step(N, q, b))) for q in atoms() for b in atoms() for y in atoms())',
             'all(implies((q, b) in delta, (q, b) in old(delta) or (q in N.Q and (b in N.Sigma or b == epsilon))) for q in atoms() for b in atoms())']}},
         theories=[], props=['C18', 'C19', 'C06'])

_MI = 'gambatools.identifier_generator'
contract(_MI, 'IdentifierGenerator.__init__', {'self': 'IdGen', 'index': 'Int'}, returns='None', modifies=['self'], defaults={'index': '0'},
         ensures=['self.index == index'], theories=[], props=['C18'])
contract(_MI, 'IdentifierGenerator.generate', {'self': 'IdGen', 'hint': 'Atom'}, returns='Atom', modifies=['self'],
         ensures=['self.index == old(self.index) + 1', 'result == hint_index_name(hint, old(self.index))'], theories=['naming'], props=['C18', 'C06'],
         note='the name returned is hint followed by the old counter')

_NAMED = "any(%s <= j and j < %s and %s == hint_index_name('q', j) for j in ints())"
for _v, _t in (('default', 'None'), ('given', 'IdGen')):
    contract(M, '_fresh_nfa_state', {'Q': 'Set[State]', 'id_generator': _t}, returns='State', variant=_v, modifies=['id_generator'],
             ensures=['result not in Q'] + ([_NAMED % ('old(id_generator.index)', 'id_generator.index', 'result'), 'id_generator.index > old(id_generator.index)'] if _v == 'given' else []),
             type_invariants=['fin(Q)'],
             loops={1: {'invariant': ([_NAMED % ('old(id_generator.index)', 'id_generator.index', 'q'), 'id_generator.index > old(id_generator.index)'] if _v == 'given' else []) +
                                     ["q == hint_index_name('q', id_generator.index - 1)"],
                        'decreases': ["card(Q - unnamed_from('q', id_generator.index - 1))"],
                        'body_end': ["Q - unnamed_from('q', id_generator.index - 1) == (Q - unnamed_from('q', id_generator.index - 2)) - {hint_index_name('q', id_generator.index - 2)}"]}},
             theories=['naming'], props=['C18'],
             note='total correctness: the loop only exits with an unused name, and every unsuccessful round removes the name just tried from the finitely many generated names that are taken in Q (fin(Q): type invariant of Python sets)')

_OPS = ['nfa_wf(result)', 'result.epsilon == N1.epsilon']
def _step_from(Nn):
    return '(b == N1.epsilon and y in step(%s, q, %s.epsilon)) or (b != %s.epsilon and y in step(%s, q, b))' % (Nn, Nn, Nn, Nn)
for _v, _t in (('default', 'None'), ('given', 'IdGen')):
    contract(M, 'nfa_union', {'N1': 'NFA', 'N2': 'NFA', 'id_generator': _t}, returns='NFA', variant=_v, defaults={'id_generator': 'None'},
             requires=['nfa_wf(N1)', 'nfa_wf(N2)', 'N1.Q.isdisjoint(N2.Q)', 'N1.epsilon not in N2.Sigma'],
             ensures=_OPS + ([_NAMED % ('old(id_generator.index)', 'id_generator.index', 'result.q0'), 'id_generator.index > old(id_generator.index)'] if _v == 'given' else []) +
                     ['result.q0 not in N1.Q', 'result.q0 not in N2.Q', 'result.Q == N1.Q | N2.Q | {result.q0}', 'result.Sigma == N1.Sigma | N2.Sigma', 'result.F == N1.F | N2.F',
                             'step(result, result.q0, N1.epsilon) == {N1.q0, N2.q0}',
                             'all(implies(b != N1.epsilon, step(result, result.q0, b) == set_empty()) for b in atoms())',
                             'all((y in step(result, q, b)) == (%s) for q in N1.Q for b in atoms() for y in atoms())' % _step_from('N1'),
                             'all((y in step(result, q, b)) == (%s) for q in N2.Q for b in atoms() for y in atoms())' % _step_from('N2'),
                             'union_struct(N1, N2, result)',
                             # the property itself, over words: the language is the union of the operand languages
                             'all(implies(over(result.Sigma, w), nfa_accepts(result, w) == ((over(N1.Sigma, w) and nfa_accepts(N1, w)) or (over(N2.Sigma, w) and nfa_accepts(N2, w)))) for w in allwords())'],
             pre_return_asserts=['all(implies(y in lookup(delta, (q, b)), y in Q) for q in atoms() for b in atoms() for y in atoms())',
                                 'all(implies((q, b) in delta and y in delta[(q, b)], y in lookup(delta, (q, b))) for q in atoms() for b in atoms() for y in atoms())'],
             asserts=['nfa_wf(result)', 'union_struct(N1, N2, result)'],
             types={'delta': DT}, theories=['word', 'nfa', 'nfax'], props=['C18', 'C19', 'C06'], modifies=['id_generator'],
             note='exact transition relation of the textbook construction (epsilon moves of the second operand relabelled); the language statement follows by lemma union-sim (runs from a set of states, embedding of each operand, word induction)')
    contract(M, 'nfa_repetition', {'N': 'NFA', 'id_generator': _t}, returns='NFA', variant=_v, defaults={'id_generator': 'None'},
             requires=['nfa_wf(N)'],
             ensures=([_NAMED % ('old(id_generator.index)', 'id_generator.index', 'result.q0'), 'id_generator.index > old(id_generator.index)'] if _v == 'given' else []) +
                     ['nfa_wf(result)', 'result.epsilon == N.epsilon', 'result.q0 not in N.Q', 'result.Q == N.Q | {result.q0}', 'result.Sigma == N.Sigma', 'result.F == N.F | {result.q0}',
                      'step(result, result.q0, N.epsilon) == {N.q0}',
                      'all(implies(b != N.epsilon, step(result, result.q0, b) == set_empty()) for b in atoms())',
                      'all((y in step(result, q, b)) == (y in step(N, q, b) or (b == N.epsilon and q in N.F and y == N.q0)) for q in N.Q for b in atoms() for y in atoms())',
                      'star_struct(N, result)',
                      # the property itself, over words: w is accepted iff it is in the Kleene star of L(N) (NL(N): the words over N.Sigma accepted by N,
                      # as an element of the language algebra; nfa_acc is nfa_accepts under an opaque name)
                      'all(implies(over(N.Sigma, w), nfa_acc(result, w) == mem(w, lstar(NL(N)))) for w in allwords())',
                      'all(nfa_acc(result, w) == nfa_accepts(result, w) for w in allwords())'],
             asserts=['nfa_wf(result)',
                      'all((y in step(result, result.q0, N.epsilon)) == (y == N.q0) for y in atoms())',
                      'all(implies(b != N.epsilon, y not in step(result, result.q0, b)) for b in atoms() for y in atoms())',
                      'all(implies(q in N.Q, (y in step(result, q, b)) == (y in step(N, q, b) or (b == N.epsilon and q in N.F and y == N.q0))) for q in atoms() for b in atoms() for y in atoms())',
                      'all((q in result.F) == (q in N.F or q == result.q0) for q in atoms())',
                      'star_struct(N, result)'],
             modifies=['id_generator'], types={'delta': DT}, loops={1: {'ghost': 'doneF', 'invariant': [
                 'q0 not in N.Q', 'Q == N.Q | {q0}', 'F == N.F | {q0}',
                 'all((y in lookup(delta, (q, b))) == (y in step(N, q, b) or (b == N.epsilon and q in doneF and y == N.q0)) for q in atoms() for b in atoms() for y in atoms())',
                 'all(implies((q, b) in delta, q in Q and (b in N.Sigma or b == N.epsilon)) for q in atoms() for b in atoms())']}},
             theories=['word', 'wordx', 'nfa', 'nfax', 'regexp', 'nfastar'], props=['C18', 'C19', 'C06'],
             note='exact transition relation; the language statement follows by lemmas star-eclo (closure across the back edges), star-sim (states after reading w), Sstar-char (split positions, right unfolding of the star) and star-lang')
contract(M, 'nfa_concatenation', {'N1': 'NFA', 'N2': 'NFA'}, returns='NFA',
         requires=['nfa_wf(N1)', 'nfa_wf(N2)', 'N1.Q.isdisjoint(N2.Q)', 'N1.epsilon not in N2.Sigma'],
         ensures=_OPS + ['result.q0 == N1.q0', 'result.Q == N1.Q | N2.Q', 'result.Sigma == N1.Sigma | N2.Sigma', 'result.F == N2.F',
                         'all((y in step(result, q, b)) == ((%s) or (b == N1.epsilon and q in N1.F and y == N2.q0)) for q in N1.Q for b in atoms() for y in atoms())' % _step_from('N1'),
                         'all((y in step(result, q, b)) == (%s) for q in N2.Q for b in atoms() for y in atoms())' % _step_from('N2'),
                         'cat_struct(N1, N2, result)',
                         # the property itself, over words: w is accepted iff it splits into a word of L(N1) followed by a word of L(N2)
                         # (nfa_lang(N, u): u is over N.Sigma and N accepts u; nfa_acc is nfa_accepts under an opaque name)
                         'all(implies(over(result.Sigma, w), nfa_acc(result, w) == any(0 <= k and k <= wlen(w) and nfa_lang(N1, take(k, w)) and nfa_lang(N2, drop(k, w)) for k in ints())) for w in allwords())',
                         'all(nfa_acc(result, w) == nfa_accepts(result, w) for w in allwords())'],
         asserts=['nfa_wf(result)', 'cat_struct(N1, N2, result)'],
         types={'delta': DT}, loops={1: {'ghost': 'doneF', 'invariant': [
             'all((y in lookup(delta, (q, b))) == ((q in N1.Q and (%s)) or (q in N2.Q and (%s)) or (b == N1.epsilon and q in doneF and y == N2.q0)) for q in atoms() for b in atoms() for y in atoms())' % (_step_from('N1'), _step_from('N2')),
             'all(implies((q, b) in delta, q in Q and (b in Sigma or b == N1.epsilon)) for q in atoms() for b in atoms())', 'Q == N1.Q | N2.Q', 'Sigma == N1.Sigma | N2.Sigma']}},
         theories=['word', 'wordx', 'nfa', 'nfax'], props=['C18', 'C19', 'C06'],
         note='exact transition relation; the language statement follows by lemmas cat-eclo (closure across the bridge), cat-sim (states after reading w, word induction), Bcat-char (split positions) and cat-lang')

# ---------------------------------------------------------------------------------------------- C15: the steps of the NFA simulation
contract(M, 'nfa_do_transition', {'N': 'NFA', 'a': 'Symbol', 'R': 'Set[State]'}, returns='Set[State]', requires=['nfa_wf(N)'],
         ensures=['result == move(N, R, a)'], types={'result': 'Set[State]'},
         loops={1: {'ghost': 'doneR', 'invariant': ['all((y in result) == any(x in doneR and y in step(N, x, a) for x in atoms()) for y in atoms())']}},
         theories=['word', 'nfa'], props=['C15', 'C19'])
contract(M, 'nfa_find_transition', {'N': 'NFA', 'R': 'Set[State]', 'a': 'Symbol', 'target': 'State'}, returns='Opt[State]', requires=['nfa_wf(N)'],
         ensures=['implies(result is not None, the(result) in R and target in step(N, the(result), a))',
                  'implies(result is None, all(target not in step(N, x, a) for x in R))'],
         loops={1: {'ghost': 'doneR', 'invariant': ['all(target not in step(N, x, a) for x in doneR)']},
                2: {'ghost': 'doneK', 'invariant': ['src in R', 'all(target not in step(N, x, a) for x in doneR)',
                                                  'all(implies(k[0] == src and k[1] == a, target not in N.delta[k]) for k in doneK)']},
                3: {'ghost': 'doneQ', 'invariant': ['src in R', 'src == p', 'a == a1', '(p, a1) in N.delta', 'Q1 == N.delta[(p, a1)]', 'all(target not in step(N, x, a) for x in doneR)',
                                                  'all(implies(k[0] == src and k[1] == a, target not in N.delta[k]) for k in doneK)', 'all(y != target for y in doneQ)']}},
         theories=['word', 'nfa'], props=['C15', 'C19'])

# ---------------------------------------------------------------------------------------------- C02: bounded enumeration of an NFA
_WA = 'all((v in lookup(W, y)) == (wlen(v) == %s and over(N.Sigma, v) and y in Nhat(N, v)) for y in atoms() for v in allwords())'
_RB = '(wlen(v) <= %s and over(N.Sigma, v) and nfa_accepts(N, v))'
_CACHE = ['all(x in Eq for x in N.Q)', 'all(Eq[x] == Eclo(N, {x}) for x in N.Q)', 'all(lookup(Eqa, (x, b)) == Eclo(N, step(N, x, b)) for x in atoms() for b in atoms())',
          'all((x in F1) == (x in N.Q and any(f in N.F and f in Eclo(N, {x}) for f in atoms())) for x in atoms())']
# a word v = w.b was contributed to W1[y] by the triple (x, b, y): x is a key of W with w in W[x], b a letter, y in the closure of the b-successors of x
def _CONTRIB(proc): return ('any(%s and x in W and b in N.Sigma and y in Eclo(N, step(N, x, b)) and v != nil() and last(v) == b and init(v) in lookup(W, x) for x in atoms() for b in atoms())' % proc)
def _W1(proc): return 'all((v in lookup(W1, y)) == %s for y in atoms() for v in allwords())' % _CONTRIB(proc)
def _RES(proc): return 'all((v in result) == (%s or any(y in F1 and %s for y in atoms())) for v in allwords())' % (_RB % 'i', _CONTRIB(proc))
_P3 = 'x in doneK'
_P4 = '(x in doneK or (x == q and b in doneA))'
_P5 = '(x in doneK or (x == q and (b in doneA or (b == a and y in doneQ))))'
_NW_COMMON = _CACHE + ['0 <= i and i < n', _WA % 'i']
contract(M, 'nfa_words_up_to_n', {'N': 'NFA', 'n': 'Int'}, returns='Set[Word]', requires=['nfa_wf(N)', 'n >= 0'],
         ensures=['all((v in result) == %s for v in allwords())' % (_RB % 'n')],
         types={'W': 'Map[State,Set[Word],default=set]', 'W1': 'Map[State,Set[Word],default=set]', 'F1': 'List[State]', 'result': 'Set[Word]', 'words_q1': 'Set[Word]',
                'Eq': 'Map[State,Set[State]]', 'Eqa': 'Map[(State,Symbol),Set[State],default=set]'},
         loops={1: {'ghost': 'doneE', 'invariant': _CACHE + ['all((v in lookup(W, y)) == (v == nil() and y in doneE) for y in atoms() for v in allwords())',
                                                            'all((v in result) == (v == nil() and nfa_accepts(N, nil())) for v in allwords())']},
                2: {'invariant': _CACHE + ['0 <= i and i <= n', _WA % 'i', 'all((v in result) == %s for v in allwords())' % (_RB % 'i')]},
                3: {'ghost': 'doneK', 'invariant': _NW_COMMON + [_W1(_P3), _RES(_P3)],
                    'after': [
                        # every word contributed is w.b with w of length i reaching some x and y in the closure of the b-successors of x
                        'all((v in lookup(W1, y)) == (v != nil() and wlen(init(v)) == i and over(N.Sigma, init(v)) and last(v) in N.Sigma and '
                        'any(x in Nhat(N, init(v)) and y in Eclo(N, step(N, x, last(v))) for x in atoms())) for y in atoms() for v in allwords())',
                        'all(implies(v != nil(), v == snoc(init(v), last(v)) and wlen(v) == wlen(init(v)) + 1 and over(N.Sigma, v) == (over(N.Sigma, init(v)) and last(v) in N.Sigma)) for v in allwords())',
                        'all(implies(v != nil(), (y in Nhat(N, v)) == any(x in Nhat(N, init(v)) and y in Eclo(N, step(N, x, last(v))) for x in atoms())) for y in atoms() for v in allwords())',
                        _WA.replace('lookup(W, y)', 'lookup(W1, y)') % 'i + 1',
                        'all(nfa_accepts(N, v) == any(y in Nhat(N, v) and y in F1 for y in atoms()) for v in allwords())',
                        'all((v in result) == (%s or (wlen(v) == i + 1 and over(N.Sigma, v) and any(y in F1 and y in Nhat(N, v) for y in atoms()))) for v in allwords())' % (_RB % 'i'),
                        'all((v in result) == (%s or (wlen(v) == i + 1 and over(N.Sigma, v) and nfa_accepts(N, v))) for v in allwords())' % (_RB % 'i'),
                        'all((v in result) == %s for v in allwords())' % (_RB % 'i + 1')]},
                4: {'ghost': 'doneA', 'invariant': _NW_COMMON + ['q in W', 'words == lookup(W, q)', _W1(_P4), _RES(_P4)]},
                5: {'ghost': 'doneQ', 'invariant': _NW_COMMON + ['q in W', 'words == lookup(W, q)', 'a in N.Sigma', _W1(_P5), _RES(_P5)]}},
         theories=['word', 'wordx', 'nfa', 'nfax'], props=['C02', 'C12', 'C19'],
         note='W[y] holds exactly the words of length i over Sigma after which y is among the current states; a word is added to the result when it reaches a state whose closure meets F')
