from ..contract import contract

M = 'gambatools.nfa_algorithms'

_ECLO_LOOP = {1: {'invariant': ['seed0 <= result', 'todo <= result', 'result <= Eclo(N, seed0)',
                                'all(step(N, x, N.epsilon) <= result for x in result - todo)'],
                  'exit_hints': ['Eclo_least(N, seed0, result)']}}
for variant, qt, seed in (('state', 'State', '{q}'), ('set', 'Set[State]', 'q')):
    contract(M, 'epsilon_closure', {'N': 'NFA', 'q': qt}, returns='Set[State]', variant=variant,
             requires=['nfa_wf(N)'],
             ensures=['result == Eclo(N, seed0)'],
             ghost={'seed0': seed}, loops=_ECLO_LOOP,
             theories=['word', 'nfa'], props=['C01', 'C03', 'C19'])

contract(M, '_nfa_cache', {'N': 'NFA'}, returns='(Map[State,Set[State]], Map[(State,Symbol),Set[State],default=set])',
         requires=['nfa_wf(N)'],
         ensures=['all(q in result[0] for q in N.Q)',
                  'all(result[0][q] == Eclo(N, {q}) for q in N.Q)',
                  'all(lookup(result[1], (q, a)) == Eclo(N, step(N, q, a)) for q in atoms() for a in atoms())'],
         types={'Eq': 'Map[State,Set[State]]', 'Eqa': 'Map[(State,Symbol),Set[State],default=set]'},
         loops={1: {'invariant': ['all(q in Eq for q in done)', 'all(Eq[q] == Eclo(N, {q}) for q in done)']},
                2: {'invariant': ['all(((q, a) in Eqa) == ((q, a) in done) for q in atoms() for a in atoms())',
                                  'all(Eqa[(q, a)] == Eclo(N, step(N, q, a)) for (q, a) in done)']}},
         theories=['word', 'nfa'], props=['C01', 'C02', 'C19'])

contract(M, 'nfa_accepts_word', {'N': 'NFA', 'word': 'Word'}, returns='Bool',
         requires=['nfa_wf(N)', 'over(N.Sigma, word)'],
         ensures=['result == nfa_accepts(N, word)'],
         loops={1: {'invariant': ['q == Nhat(N, prefix)']}},
         theories=['word', 'nfa'], props=['C01', 'C19'])

# ---------------------------------------------------------------------------------------------- C03
_DELTA_OK = 'delta[(%s, %s)] == name_of_set(Eclo(N, move(N, set_of_name(%s), %s))) and delta[(%s, %s)] in Q'
_W = ['Sigma == N.Sigma', 'stateQ0 == name_of_set(Eclo(N, {N.q0}))', 'stateQ0 in Q', 'F <= Q',
      'all(x == name_of_set(set_of_name(x)) and Sreach(N, set_of_name(x)) for x in Q)',
      'all((x in F) == (not set_of_name(x).isdisjoint(N.F)) for x in Q)',
      'all(name_of_set(todo[i]) in Q for i in range(len(todo)))',
      'all(x in Q and a in Sigma and ' + (_DELTA_OK % ('x', 'a', 'x', 'a', 'x', 'a')) + ' for (x, a) in delta)']
contract(M, 'nfa_to_dfa', {'N': 'NFA'}, returns='DFA', requires=['nfa_wf(N)'],
         ensures=['dfa_wf(result)', 'subset_struct(N, result)', 'all(Sreach(N, set_of_name(x)) for x in result.Q)',
                  'all(implies(over(N.Sigma, w), dfa_accepts(result, w) == nfa_accepts(N, w)) for w in allwords())',
                  'all(x in Reach(result, result.q0) for x in result.Q)'],
         types={'F': 'Set[State]', 'Q': 'Set[State]', 'delta': 'Map[(State,Symbol),State]', 'todo': 'List[Set[State]]', 'Q2': 'Set[State]'},
         pre_return_asserts=['all((x, a) in delta for x in Q for a in Sigma)'],
         asserts=['subset_struct(N, result)', 'all(implies(over(N.Sigma, w), dhat(result, result.q0, w) == name_of_set(Nhat(N, w)) and dhat(result, result.q0, w) in result.Q) for w in allwords())'],
         loops={1: {'invariant': _W + ['all(any(name_of_set(todo[i]) == x for i in range(len(todo))) or all((x, a) in delta for a in Sigma) for x in Q)']},
                2: {'ghost': 'doneS', 'invariant': _W + ['stateQ1 in Q', 'stateQ1 == name_of_set(Q1)', 'Q1 == set_of_name(stateQ1)',
                                                        'all(x == stateQ1 or any(name_of_set(todo[i]) == x for i in range(len(todo))) or all((x, a) in delta for a in Sigma) for x in Q)',
                                                        'all((stateQ1, a) in delta for a in doneS)']},
                3: {'ghost': 'doneQ1', 'invariant': ['Q2 == move(N, doneQ1, a)']}},
         theories=['nfa', 'subset'], props=['C03', 'C19', 'C13'])

# ---------------------------------------------------------------------------------------------- C18
DT = 'Map[(State,Symbol),Set[State],default=set]'
_RELAB = '(y in lookup(old(delta), (q, b)) or (b == epsilon and y in step(N, q, N.epsilon)) or (b != N.epsilon and y in step(N, q, b)))'
contract(M, '_copy_nfa_delta', {'delta': DT, 'N': 'NFA', 'epsilon': 'Symbol'}, returns='None', modifies=['delta'], requires=['nfa_wf(N)'],
         ensures=['all((y in lookup(delta, (q, b))) == %s for q in atoms() for b in atoms() for y in atoms())' % _RELAB,
                  'all(implies((q, b) in delta, (q, b) in old(delta) or (q in N.Q and (b in N.Sigma or b == epsilon))) for q in atoms() for b in atoms())'],
         loops={1: {'ghost': 'doneK', 'invariant': [
             'all((y in lookup(delta, (q, b))) == (y in lookup(old(delta), (q, b)) or (b == epsilon and (q, N.epsilon) in doneK and y in step(N, q, N.epsilon)) or (b != N.epsilon and (q, b) in doneK and y in step(N, q, b))) for q in atoms() for b in atoms() for y in atoms())',
             'all(implies((q, b) in delta, (q, b) in old(delta) or (q in N.Q and (b in N.Sigma or b == epsilon))) for q in atoms() for b in atoms())']}},
         theories=[], props=['C18', 'C19', 'C06'])

_MI = 'gambatools.identifier_generator'
contract(_MI, 'IdentifierGenerator.__init__', {'self': 'IdGen', 'index': 'Int'}, returns='None', modifies=['self'], defaults={'index': '0'},
         ensures=['self.index == index'], theories=[], props=['C18'])
contract(_MI, 'IdentifierGenerator.generate', {'self': 'IdGen', 'hint': 'Atom'}, returns='Atom', modifies=['self'],
         ensures=['self.index == old(self.index) + 1'], theories=['naming'], props=['C18'],
         note='the name returned is hint followed by the old counter; the callers only need that the counter advances')

for _v, _t in (('default', 'None'), ('given', 'IdGen')):
    contract(M, '_fresh_nfa_state', {'Q': 'Set[State]', 'id_generator': _t}, returns='State', variant=_v, modifies=['id_generator'], ensures=['result not in Q'],
             loops={1: {'invariant': []}},
             theories=['naming'], props=['C18'], note='partial correctness: the loop only exits with an unused name; termination (finitely many names are taken) is exercised by the bounded stand-in with clashing names and call histories')

_OPS = ['nfa_wf(result)', 'result.epsilon == N1.epsilon']
def _step_from(Nn):
    return '(b == N1.epsilon and y in step(%s, q, %s.epsilon)) or (b != %s.epsilon and y in step(%s, q, b))' % (Nn, Nn, Nn, Nn)
for _v, _t in (('default', 'None'), ('given', 'IdGen')):
    contract(M, 'nfa_union', {'N1': 'NFA', 'N2': 'NFA', 'id_generator': _t}, returns='NFA', variant=_v, defaults={'id_generator': 'None'},
             requires=['nfa_wf(N1)', 'nfa_wf(N2)', 'N1.Q.isdisjoint(N2.Q)', 'N1.epsilon not in N2.Sigma'],
             ensures=_OPS + ['result.q0 not in N1.Q', 'result.q0 not in N2.Q', 'result.Q == N1.Q | N2.Q | {result.q0}', 'result.Sigma == N1.Sigma | N2.Sigma', 'result.F == N1.F | N2.F',
                             'step(result, result.q0, N1.epsilon) == {N1.q0, N2.q0}',
                             'all(implies(b != N1.epsilon, step(result, result.q0, b) == set_empty()) for b in atoms())',
                             'all((y in step(result, q, b)) == (%s) for q in N1.Q for b in atoms() for y in atoms())' % _step_from('N1'),
                             'all((y in step(result, q, b)) == (%s) for q in N2.Q for b in atoms() for y in atoms())' % _step_from('N2'),
                             'union_struct(N1, N2, result)',
                             # the property itself, over words: the language is the union of the operand languages
                             'all(implies(over(result.Sigma, w), nfa_accepts(result, w) == ((over(N1.Sigma, w) and nfa_accepts(N1, w)) or (over(N2.Sigma, w) and nfa_accepts(N2, w)))) for w in allwords())'],
             asserts=['nfa_wf(result)', 'union_struct(N1, N2, result)'],
             types={'delta': DT}, theories=['word', 'nfa', 'nfax'], props=['C18', 'C19', 'C06'], modifies=['id_generator'],
             note='exact transition relation of the textbook construction (epsilon moves of the second operand relabelled); the language statement follows by lemma union-sim (runs from a set of states, embedding of each operand, word induction)')
    contract(M, 'nfa_repetition', {'N': 'NFA', 'id_generator': _t}, returns='NFA', variant=_v, defaults={'id_generator': 'None'},
             requires=['nfa_wf(N)'],
             ensures=['nfa_wf(result)', 'result.epsilon == N.epsilon', 'result.q0 not in N.Q', 'result.Q == N.Q | {result.q0}', 'result.Sigma == N.Sigma', 'result.F == N.F | {result.q0}',
                      'step(result, result.q0, N.epsilon) == {N.q0}',
                      'all(implies(b != N.epsilon, step(result, result.q0, b) == set_empty()) for b in atoms())',
                      'all((y in step(result, q, b)) == (y in step(N, q, b) or (b == N.epsilon and q in N.F and y == N.q0)) for q in N.Q for b in atoms() for y in atoms())',
                      'star_struct(N, result)',
                      # the property itself, over words: w is accepted iff it is in the Kleene star of L(N) (NL(N): the words over N.Sigma accepted by N,
                      # as an element of the language algebra; nfa_acc is nfa_accepts under an opaque name)
                      'all(implies(over(N.Sigma, w), nfa_acc(result, w) == mem(w, lstar(NL(N)))) for w in allwords())',
                      'all(nfa_acc(result, w) == nfa_accepts(result, w) for w in allwords())'],
             asserts=['nfa_wf(result)',
                      'all((y in step(result, result.q0, N.epsilon)) == (y == N.q0) for y in atoms())',
                      'all(implies(b != N.epsilon, y not in step(result, result.q0, b)) for b in atoms() for y in atoms())',
                      'all(implies(q in N.Q, (y in step(result, q, b)) == (y in step(N, q, b) or (b == N.epsilon and q in N.F and y == N.q0))) for q in atoms() for b in atoms() for y in atoms())',
                      'all((q in result.F) == (q in N.F or q == result.q0) for q in atoms())',
                      'star_struct(N, result)'],
             modifies=['id_generator'], types={'delta': DT}, loops={1: {'ghost': 'doneF', 'invariant': [
                 'q0 not in N.Q', 'Q == N.Q | {q0}', 'F == N.F | {q0}',
                 'all((y in lookup(delta, (q, b))) == (y in step(N, q, b) or (b == N.epsilon and q in doneF and y == N.q0)) for q in atoms() for b in atoms() for y in atoms())',
                 'all(implies((q, b) in delta, q in Q and (b in N.Sigma or b == N.epsilon)) for q in atoms() for b in atoms())']}},
             theories=['word', 'wordx', 'nfa', 'nfax', 'regexp', 'nfastar'], props=['C18', 'C19', 'C06'],
             note='exact transition relation; the language statement follows by lemmas star-eclo (closure across the back edges), star-sim (states after reading w), Sstar-char (split positions, right unfolding of the star) and star-lang')
contract(M, 'nfa_concatenation', {'N1': 'NFA', 'N2': 'NFA'}, returns='NFA',
         requires=['nfa_wf(N1)', 'nfa_wf(N2)', 'N1.Q.isdisjoint(N2.Q)', 'N1.epsilon not in N2.Sigma'],
         ensures=_OPS + ['result.q0 == N1.q0', 'result.Q == N1.Q | N2.Q', 'result.Sigma == N1.Sigma | N2.Sigma', 'result.F == N2.F',
                         'all((y in step(result, q, b)) == ((%s) or (b == N1.epsilon and q in N1.F and y == N2.q0)) for q in N1.Q for b in atoms() for y in atoms())' % _step_from('N1'),
                         'all((y in step(result, q, b)) == (%s) for q in N2.Q for b in atoms() for y in atoms())' % _step_from('N2'),
                         'cat_struct(N1, N2, result)',
                         # the property itself, over words: w is accepted iff it splits into a word of L(N1) followed by a word of L(N2)
                         # (nfa_lang(N, u): u is over N.Sigma and N accepts u; nfa_acc is nfa_accepts under an opaque name)
                         'all(implies(over(result.Sigma, w), nfa_acc(result, w) == any(0 <= k and k <= wlen(w) and nfa_lang(N1, take(k, w)) and nfa_lang(N2, drop(k, w)) for k in ints())) for w in allwords())',
                         'all(nfa_acc(result, w) == nfa_accepts(result, w) for w in allwords())'],
         asserts=['nfa_wf(result)', 'cat_struct(N1, N2, result)'],
         types={'delta': DT}, loops={1: {'ghost': 'doneF', 'invariant': [
             'all((y in lookup(delta, (q, b))) == ((q in N1.Q and (%s)) or (q in N2.Q and (%s)) or (b == N1.epsilon and q in doneF and y == N2.q0)) for q in atoms() for b in atoms() for y in atoms())' % (_step_from('N1'), _step_from('N2')),
             'all(implies((q, b) in delta, q in Q and (b in Sigma or b == N1.epsilon)) for q in atoms() for b in atoms())', 'Q == N1.Q | N2.Q', 'Sigma == N1.Sigma | N2.Sigma']}},
         theories=['word', 'wordx', 'nfa', 'nfax'], props=['C18', 'C19', 'C06'],
         note='exact transition relation; the language statement follows by lemmas cat-eclo (closure across the bridge), cat-sim (states after reading w, word induction), Bcat-char (split positions) and cat-lang')
