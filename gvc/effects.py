"""Static effect / alias analysis of the real source: the *frame* part of the contracts (DESIGN 2.2, C19).

Flow-sensitive points-to analysis over the Python AST: abstract objects are allocation sites (with recency) and
depth-indexed parameter objects ('arg', p, d); the abstract heap maps an object to the objects stored in it
(field-insensitive).  Interprocedural through summaries (mutated parameter objects, stores, result aliasing).
It proves for a function f
  (a) frame:  no object reachable from a parameter is mutated, except for parameters that may be modified
              (`*_in_place`, `self`, explicit `modifies`);
  (b) the side condition of the value semantics used by gvc.symexec: no local container is mutated in place while
      another live name (or a live container) may refer to the same object.
The analysis over-approximates: a reported possible mutation makes the frame `undecided` (the bounded stand-ins
then decide), never by itself a violation.  Parameter depths come from the annotations (DFA: Q/Sigma/delta/F are
mutable, their elements are strings; NFA/PDA: one level more for the target sets; ...).
"""
import ast, os

SET_MUT = {'add', 'discard', 'intersection_update', 'difference_update', 'symmetric_difference_update'}
MUTATORS = SET_MUT | {'remove', 'pop', 'clear', 'update', 'append', 'insert', 'extend', 'sort', 'setdefault', 'popitem', 'reverse', 'write', 'close'}
READERS = {'copy', 'union', 'intersection', 'difference', 'symmetric_difference', 'keys', 'values', 'items', 'split', 'strip', 'join', 'format',
           'upper', 'lower', 'startswith', 'endswith', 'isdisjoint', 'issubset', 'issuperset', 'index', 'count', 'isupper', 'islower', 'get', 'getvalue',
           'group', 'replace', 'rstrip', 'lstrip', 'splitlines', 'encode', 'render', 'fullmatch', 'match'}
PURE_BUILTINS = {'len', 'any', 'all', 'min', 'max', 'sum', 'isinstance', 'print', 'str', 'int', 'range', 'bool', 'repr', 'hash', 'type', 'ord', 'chr', 'abs',
                 'log', 'display', 'Markdown', 'RuntimeError', 'ValueError', 'Exception', 'tabulate', 'print_words', 'super'}
CONTAINER_CTORS = {'set', 'list', 'dict', 'frozenset', 'tuple', 'sorted', 'reversed', 'enumerate', 'zip', 'map', 'filter', 'iter'}
ID_CASTS = {'State', 'Symbol', 'Variable', 'Terminal', 'Direction', 'nfaSymbol'}
SKIP_MODULES = {'regexpParser', 'regexpLexer', 'regexp_simpleParser', 'regexp_simpleLexer', 'CFGParser', 'CFGLexer', 'regular_expressionsLexer', 'draw_sigma'}
E = frozenset()
# fields of the record classes that hold strings / ints (immutable values): reading them yields no object
IMMUTABLE_FIELDS = {'q0', 'S', 'epsilon', 'blank', 'q_accept', 'q_reject', 'q_start', 'variable', 'symbol', 'index', 'q', 'state_regex', 'transition_regex', 'symbol_regex'}


def max_depth(ann):
    """how deep mutable objects go below a parameter with this annotation (None = not mutable at all, '*' = unknown)"""
    if ann is None: return '*'
    s = ast.unparse(ann).replace(' ', '')
    if s in ('str', 'int', 'bool', 'State', 'Symbol', 'Variable', 'Terminal', 'float', 'Direction', 'Optional[str]'): return None
    if s in ('DFA', 'TM', 'GNFA', 'Automaton'): return 1
    if s in ('NFA', 'PDA'): return 2
    if s == 'CFG': return 4
    if s in ('IdentifierGenerator', 'PDAState'): return 1
    if s.startswith(('Set[', 'List[', 'FrozenSet[', 'Iterable[')):
        inner = s[s.index('[') + 1:-1]
        if inner in ('str', 'State', 'Symbol', 'Variable', 'Terminal', 'int', 'Any') or inner.startswith('Tuple['): return 0
        if inner == 'PDAState': return 2
        if inner.startswith(('Set[', 'List[')): return 1
        if inner in ('Rule',): return 3
        if inner in ('Alternative',): return 2
        return '*'
    if s.startswith(('Mapping[', 'MutableMapping[', 'Dict[', 'DefaultDict[')):
        return 1 if ('Set[' in s or 'List[' in s) else 0
    if s == 'DerivationTerm': return 0
    return '*'


class Summary(object):
    def __init__(self):
        self.params = []; self.depths = {}
        self.mutates = {}       # (param, depth) -> lines
        self.globals = {}       # global name -> lines
        self.stores = set()     # ((p, d), (q, d2)): an object of q at depth d2 may become stored in an object of p at depth d
        self.result = set()     # (param, depth) objects the result may be or contain; 'fresh' implied
        self.result_deep = False
        self.result_fields = {}  # field -> (set of (param, path), has_fresh) when the result is a class instance
        self.unknown = []       # (line, what)
        self.aliased = []       # (line, name, other)
        self.done = False

    def mutated_params(self): return sorted({p for (p, d) in self.mutates})


class Analyzer(object):
    def __init__(self, src_root):
        self.funcs = {}; self.summaries = {}; self.stack = []; self.classes = set(); self.module_globals = {}
        pkg = os.path.join(src_root, 'gambatools')
        files = [os.path.join(pkg, f) for f in sorted(os.listdir(pkg)) if f.endswith('.py') and f[:-3] not in SKIP_MODULES]
        nb = os.path.join(os.path.dirname(src_root), 'notebooks', 'make_notebook.py')
        for path in files + ([nb] if os.path.exists(nb) else []):
            try: tree = ast.parse(open(path, encoding='utf-8').read())
            except SyntaxError: continue
            mod = os.path.basename(path)[:-3]
            for n in tree.body:
                if isinstance(n, (ast.Assign, ast.AnnAssign)) and isinstance(getattr(n, 'value', None), (ast.Dict, ast.List, ast.Set, ast.Call, ast.DictComp, ast.ListComp, ast.SetComp)):
                    for tg in (n.targets if isinstance(n, ast.Assign) else [n.target]):
                        if isinstance(tg, ast.Name): self.module_globals.setdefault(mod, set()).add(tg.id)
                if isinstance(n, ast.FunctionDef): self.funcs.setdefault(n.name, (mod, n, None))
                elif isinstance(n, ast.ClassDef):
                    self.classes.add(n.name)
                    for m in n.body:
                        if isinstance(m, ast.FunctionDef): self.funcs.setdefault('%s.%s' % (n.name, m.name), (mod, m, n.name))
        self.methods = {}
        for k in self.funcs:
            if '.' in k: self.methods.setdefault(k.split('.')[1], []).append(k)

    def summary(self, name):
        if name in self.summaries: return self.summaries[name]
        if name not in self.funcs: return None
        s = Summary(); self.summaries[name] = s
        mod, fd, cls = self.funcs[name]
        s.params = [a.arg for a in fd.args.args + fd.args.kwonlyargs]
        if name in self.stack: return s
        self.stack.append(name)
        try: FnAnalysis(self, name, fd, s).run()
        finally: self.stack.pop()
        s.done = True
        return s


class State(object):
    def __init__(self): self.env = {}; self.H = {}
    def copy(self):
        s = State(); s.env = dict(self.env); s.H = dict(self.H); return s
    def join(self, o):
        s = State()
        for k in set(self.env) | set(o.env):
            a, b = self.env.get(k), o.env.get(k)
            s.env[k] = (a | b) if isinstance(a, frozenset) and isinstance(b, frozenset) else (a if a is not None else b)
        for k in set(self.H) | set(o.H): s.H[k] = self.H.get(k, E) | o.H.get(k, E)
        return s
    def same(self, o): return self.env == o.env and self.H == o.H


class FnAnalysis(object):
    def __init__(self, an, name, fd, summ):
        self.an, self.name, self.fd, self.summ = an, name, fd, summ
        self.local_fns = {}; self.depths = {}

    # ---- abstract heap
    def elem(self, st, labels, field=None):
        out = set()
        step = field if field is not None else '[]'
        for l in labels:
            if l[0] == 'arg':
                p, path = l[1], l[2]; md = self.depths.get(p, '*')
                if path == '*' or md == '*': out.add(('arg', p, '*'))
                elif len(path) < md and step not in IMMUTABLE_FIELDS: out.add(('arg', p, path + (step,)))
                out |= st.H.get(l, E)
            elif l[0] == 'deep': out.add(l)
            elif field is not None and (l, field) in st.H: out |= st.H[(l, field)]
            else: out |= st.H.get(l, E)
        return frozenset(out)

    def alloc(self, st, node, contents=E, tag=None):
        lab = ('new', (getattr(node, 'lineno', 0), getattr(node, 'col_offset', 0), type(node).__name__, tag))
        old = ('old',) + lab[1:]
        ren = lambda ls: frozenset(old if l == lab else l for l in ls)
        for n, v in list(st.env.items()):
            if isinstance(v, frozenset) and lab in v: st.env[n] = ren(v)
        for k in list(st.H):
            if lab in st.H[k]: st.H[k] = ren(st.H[k])
        if lab in st.H: st.H[old] = st.H.get(old, E) | ren(st.H.pop(lab))
        st.H[lab] = frozenset(contents)
        return lab

    def store(self, st, targets, values, field=None):
        values = frozenset(values)
        if not values: return
        for t in targets:
            if t[0] == 'arg':
                for v in values:
                    if v[0] == 'arg': self.summ.stores.add(((t[1], t[2]), (v[1], v[2])))
            st.H[t] = st.H.get(t, E) | values
            if field is None:
                for k in list(st.H):
                    if isinstance(k, tuple) and len(k) == 2 and k[0] == t and isinstance(k[1], str): st.H[k] = st.H[k] | values
            else:
                st.H[(t, field)] = st.H.get((t, field), E) | values

    def mutation(self, st, labels, line, name, toplevel=True, base=None):
        for l in labels:
            if l[0] == 'arg': self.summ.mutates.setdefault((l[1], l[2]), []).append(line)
            elif l[0] == 'glob': self.summ.globals.setdefault(l[1], []).append(line)
        fresh = {l for l in labels if l[0] in ('new', 'old')}
        if fresh and toplevel:
            holders = 0
            for n, v in st.env.items():
                if n == name or not isinstance(v, frozenset): continue
                if v & fresh: self.summ.aliased.append((line, name, n))
            for n, v in st.env.items():
                if not isinstance(v, frozenset) or n == name or n == base: continue
                for x in v:
                    if x[0] in ('new', 'old') and st.H.get(x, E) & fresh:
                        self.summ.aliased.append((line, name, 'element of ' + n)); break

    # ---- run
    def run(self):
        st = State()
        cls = self.an.funcs[self.name][2] if self.name in self.an.funcs else None
        for a in self.fd.args.args + self.fd.args.kwonlyargs:
            md = max_depth(a.annotation)
            if a.arg == 'self': md = '*'
            self.depths[a.arg] = md
            st.env[a.arg] = E if md is None else frozenset([('arg', a.arg, ())])
        self.summ.depths = dict(self.depths)
        self.ret = E
        self.block(st, self.fd.body)
        for l in self.ret:
            if l[0] == 'arg': self.summ.result.add((l[1], l[2]))
        fin = getattr(self, 'final', None)
        if fin is not None:
            for l in self.ret:
                for k, v in fin.H.items():
                    if isinstance(k, tuple) and len(k) == 2 and k[0] == l and isinstance(k[1], str):
                        a, fr = self.summ.result_fields.get(k[1], (set(), False))
                        a |= {(x[1], x[2]) for x in v if x[0] == 'arg'}
                        self.summ.result_fields[k[1]] = (a, fr or any(x[0] != 'arg' for x in v))
        # closure of result under contents
        seen = set(self.ret); todo = list(self.ret)
        while todo:
            l = todo.pop()
            for x in self.elem(self.final, [l]) if hasattr(self, 'final') else ():
                if x not in seen:
                    seen.add(x); todo.append(x)
                    if x[0] == 'arg': self.summ.result.add((x[1], x[2]))

    def block(self, st, stmts):
        for s in stmts: self.stmt(st, s)
        self.final = st

    def loop(self, st, body):
        cur = st.copy()
        for _ in range(10):
            nxt = cur.copy(); body(nxt)
            j = cur.join(nxt)
            if j.same(cur): break
            cur = j
        st.env, st.H = cur.env, cur.H

    def stmt(self, st, s):
        t = type(s).__name__
        if t == 'Assign':
            v = self.ev(st, s.value)
            for tg in s.targets: self.assign(st, tg, v, s.value, s)
        elif t == 'AnnAssign':
            if s.value is not None: self.assign(st, s.target, self.ev(st, s.value), s.value, s)
        elif t == 'AugAssign':
            v = self.ev(st, s.value)
            setop = isinstance(s.op, (ast.BitOr, ast.BitAnd, ast.BitXor)) or (isinstance(s.op, ast.Sub) and not self.numeric(s.value))
            listop = isinstance(s.op, ast.Add) and not self.numeric(s.value)
            if isinstance(s.target, ast.Name):
                cur = st.env.get(s.target.id, E)
                if isinstance(cur, frozenset) and cur and (setop or listop):
                    self.mutation(st, cur, s.lineno, s.target.id)
                    self.store(st, cur, self.hashable_filter(self.elem(st, v)) if setop else self.elem(st, v))
            else:
                tv = self.ev(st, s.target)          # the element object (a set in `d[k] |= S`)
                bv = self.ev(st, s.target.value)
                if setop or listop:
                    self.mutation(st, tv, s.lineno, ast.unparse(s.target), base=self.root_name(s.target))
                    self.store(st, tv, self.hashable_filter(self.elem(st, v)) if setop else self.elem(st, v))
                self.mutation(st, bv, s.lineno, self.name_of(s.target.value))      # d[k] = d[k] op v rebinds the slot
                if not tv and (setop or listop):
                    pass
        elif t == 'Expr': self.ev(st, s.value)
        elif t == 'Return':
            if s.value is not None:
                self.ret = self.ret | self.ev(st, s.value); self.final = st.copy() if not hasattr(self, 'final') else self.final.join(st)
        elif t == 'If':
            self.ev(st, s.test)
            a = st.copy(); self.block(a, s.body)
            b = st.copy(); self.block(b, s.orelse)
            j = a.join(b); st.env, st.H = j.env, j.H
        elif t == 'For':
            it = self.ev(st, s.iter)
            def body(x):
                self.bind(x, s.target, self.elem(x, it)); self.block(x, s.body)
            self.loop(st, body); self.block(st, s.orelse)
        elif t == 'While':
            def body(x):
                self.ev(x, s.test); self.block(x, s.body)
            self.loop(st, body); self.block(st, s.orelse)
        elif t == 'FunctionDef': self.local_fns[s.name] = s
        elif t == 'Assert': self.ev(st, s.test)
        elif t == 'Raise':
            if s.exc is not None: self.ev(st, s.exc)
        elif t == 'Try':
            a = st.copy(); self.block(a, s.body); j = a
            for h in s.handlers:
                b = st.join(a); self.block(b, h.body); j = j.join(b)
            st.env, st.H = j.env, j.H; self.block(st, s.orelse); self.block(st, s.finalbody)
        elif t == 'With':
            for it in s.items: self.ev(st, it.context_expr)
            self.block(st, s.body)
        elif t == 'Delete':
            for tg in s.targets:
                if isinstance(tg, (ast.Subscript, ast.Attribute)):
                    self.mutation(st, self.ev(st, tg.value), s.lineno, self.name_of(tg.value))
        elif t in ('Pass', 'Break', 'Continue', 'Import', 'ImportFrom', 'Global', 'Nonlocal'): pass
        else: self.summ.unknown.append((s.lineno, 'statement ' + t))

    @staticmethod
    def root_name(e):
        while isinstance(e, (ast.Subscript, ast.Attribute)): e = e.value
        return e.id if isinstance(e, ast.Name) else None

    @staticmethod
    def numeric(e): return isinstance(e, ast.Constant) and isinstance(e.value, (int, float))
    @staticmethod
    def name_of(e): return e.id if isinstance(e, ast.Name) else ast.unparse(e)

    def hashable_filter(self, labels):
        """things put into a set are hashable: strings / tuples / frozensets are immutable; instances of the library's
        classes (PDAState, Rule, Alternative: label tag = class) and parameter objects of unknown depth are kept"""
        return frozenset(l for l in labels if (l[0] in ('new', 'old') and l[1][3] in self.an.classes) or l[0] == 'arg' or l[0] == 'deep')

    def assign(self, st, tg, v, value_expr, s):
        if isinstance(tg, ast.Name): st.env[tg.id] = v
        elif isinstance(tg, (ast.Tuple, ast.List)):
            if isinstance(value_expr, (ast.Tuple, ast.List)) and len(value_expr.elts) == len(tg.elts):
                vals = [self.ev(st, e2) for e2 in value_expr.elts]
                for t2, v2, e2 in zip(tg.elts, vals, value_expr.elts): self.assign(st, t2, v2, e2, s)
            else:
                for t2 in tg.elts: self.assign(st, t2, self.elem(st, v), None, s)
        elif isinstance(tg, (ast.Subscript, ast.Attribute)):
            bv = self.ev(st, tg.value)
            self.mutation(st, bv, s.lineno, self.name_of(tg.value))
            self.store(st, bv, v, tg.attr if isinstance(tg, ast.Attribute) else None)
        else: self.summ.unknown.append((s.lineno, 'assignment target'))

    def bind(self, st, tg, v):
        if isinstance(tg, ast.Name): st.env[tg.id] = v
        elif isinstance(tg, (ast.Tuple, ast.List)):
            for t2 in tg.elts: self.bind(st, t2, v | self.elem(st, v))

    # ---- expressions: -> frozenset of labels the value may be
    def ev(self, st, e):
        t = type(e).__name__
        if t == 'Name':
            v = st.env.get(e.id)
            if isinstance(v, frozenset): return v
            if e.id == 'GambaTools': return frozenset([('glob', 'GambaTools')])
            mod = self.an.funcs[self.name][0] if self.name in self.an.funcs else None
            if e.id in self.an.module_globals.get(mod, ()): return frozenset([('glob', e.id)])      # module-level mutable state (caches, registries)
            return E
        if t in ('Constant', 'JoinedStr', 'FormattedValue'): return E
        if t == 'Lambda': return frozenset([self.alloc(st, e, E, 'lambda')])
        if t == 'Attribute':
            if isinstance(e.value, ast.Name) and e.value.id == 'GambaTools': return E
            return self.elem(st, self.ev(st, e.value), e.attr)
        if t == 'Subscript':
            b = self.ev(st, e.value); self.ev(st, e.slice)
            if isinstance(e.slice, ast.Slice): return frozenset([self.alloc(st, e, self.elem(st, b))])
            return self.elem(st, b)
        if t == 'Slice':
            for x in (e.lower, e.upper, e.step):
                if x is not None: self.ev(st, x)
            return E
        if t in ('Tuple', 'List', 'Set'):
            c = E
            for x in e.elts: c |= self.ev(st, x)
            return frozenset([self.alloc(st, e, c)])
        if t == 'Dict':
            c = E
            for x in list(e.keys) + list(e.values):
                if x is not None: c |= self.ev(st, x)
            return frozenset([self.alloc(st, e, c)])
        if t == 'BinOp':
            a, b = self.ev(st, e.left), self.ev(st, e.right)
            if not a and not b: return E
            return frozenset([self.alloc(st, e, self.elem(st, a) | self.elem(st, b))])
        if t == 'BoolOp':
            v = E
            for x in e.values: v |= self.ev(st, x)
            return v
        if t == 'UnaryOp': self.ev(st, e.operand); return E
        if t == 'Compare':
            self.ev(st, e.left)
            for x in e.comparators: self.ev(st, x)
            return E
        if t == 'IfExp':
            self.ev(st, e.test); return self.ev(st, e.body) | self.ev(st, e.orelse)
        if t in ('ListComp', 'SetComp', 'GeneratorExp', 'DictComp'):
            saved = dict(st.env)
            for g in e.generators:
                it = self.ev(st, g.iter); self.bind(st, g.target, self.elem(st, it))
                for c in g.ifs: self.ev(st, c)
            v = (self.ev(st, e.key) | self.ev(st, e.value)) if t == 'DictComp' else self.ev(st, e.elt)
            st.env = saved
            return frozenset([self.alloc(st, e, v)])
        if t == 'Starred': return self.ev(st, e.value)
        if t == 'Call': return self.call(st, e)
        if t == 'NamedExpr':
            v = self.ev(st, e.value); st.env[e.target.id] = v; return v
        if t == 'Yield':
            if e.value is not None: self.ret = self.ret | self.ev(st, e.value)
            return E
        self.summ.unknown.append((getattr(e, 'lineno', 0), 'expression ' + t)); return E

    def call(self, st, e):
        f = e.func
        args = [self.ev(st, a) for a in e.args]
        kw = {k.arg: self.ev(st, k.value) for k in e.keywords}
        allargs = E
        for a in args + list(kw.values()): allargs |= a
        if isinstance(f, ast.Attribute):
            if isinstance(f.value, ast.Name) and f.value.id == 'copy' and f.attr == 'deepcopy':
                l = self.alloc(st, e, E); d = ('deep', l[1]); st.H[l] = frozenset([d]); return frozenset([l])
            if isinstance(f.value, ast.Name) and f.value.id in ('itertools', 're', 'string', 'io', 'random', 'os', 'graphviz', 'json', 'sys'):
                return frozenset([self.alloc(st, e, self.elem(st, allargs) | self.elem(st, self.elem(st, allargs)))])
            if isinstance(f.value, ast.Name) and f.value.id == 'regexp' and f.attr in self.an.classes:
                return frozenset([self.alloc(st, e, allargs, f.attr)])
            if isinstance(f.value, ast.Attribute) and f.attr in self.an.funcs:        # gambatools.mod.func(...)
                return self.apply_summary(st, f.attr, e, args, kw, None)
            o = self.ev(st, f.value); m = f.attr
            is_self = isinstance(f.value, ast.Name) and f.value.id == 'self'
            if is_self or (isinstance(f.value, ast.Call) and isinstance(f.value.func, ast.Name) and f.value.func.id == 'super'):
                cls = self.an.funcs[self.name][2] if self.name in self.an.funcs else None
                cands = self.an.methods.get(m, [])
                pick = [c for c in cands if cls and c.startswith(cls + '.')] or cands
                if pick:
                    r = E
                    for c in pick: r |= self.apply_summary(st, c, e, args, kw, o if is_self else st.env.get('self', E))
                    return r
            if m in MUTATORS and not (m == 'pop' and not o):
                self.mutation(st, o, e.lineno, self.name_of(f.value), base=self.root_name(f.value))
                if m in SET_MUT: self.store(st, o, self.hashable_filter(allargs))
                elif m == 'update': self.store(st, o, self.elem(st, allargs))     # dict.update / set.update: the elements of the argument
                elif m == 'extend': self.store(st, o, self.elem(st, allargs))
                else: self.store(st, o, allargs)
                return self.elem(st, o) if m in ('pop', 'popitem', 'setdefault') else E
            if m in READERS or m.startswith('is'):
                if m == 'get': return self.elem(st, o) | (args[1] if len(args) > 1 else E)
                if m in ('keys', 'values', 'items', 'copy', 'union', 'intersection', 'difference', 'symmetric_difference'):
                    return frozenset([self.alloc(st, e, self.elem(st, o) | self.elem(st, allargs))])
                return E
            cands = self.an.methods.get(m, [])
            if cands:
                r = E
                for c in cands: r |= self.apply_summary(st, c, e, args, kw, o)
                return r
            if not o: return E          # method of an immutable (string) value
            self.summ.unknown.append((e.lineno, 'method .%s' % m))
            return frozenset([self.alloc(st, e, o | allargs)])
        if isinstance(f, ast.Name):
            n = f.id
            if n in self.local_fns: return self.inline(st, self.local_fns[n], args, kw, e)
            lam = st.env.get(n)
            if isinstance(lam, frozenset) and any(l[0] in ('new', 'old') and l[1][3] == 'lambda' for l in lam):
                return frozenset([self.alloc(st, e, allargs | self.elem(st, allargs))])
            if n in ID_CASTS: return args[0] if args else E
            if n in PURE_BUILTINS or n.startswith('print_') or n.startswith('draw_'): return E
            if n == 'next': return self.elem(st, args[0]) | (args[1] if len(args) > 1 else E)
            if n == 'defaultdict':
                class _N: pass
                dn = _N(); dn.lineno, dn.col_offset = e.lineno, e.col_offset + 10000
                d = self.alloc(st, dn, E, 'dflt')
                return frozenset([self.alloc(st, e, [d])])
            if n in CONTAINER_CTORS:
                return frozenset([self.alloc(st, e, self.elem(st, allargs))])
            if n in self.an.classes:
                init = n + '.__init__'
                if init in self.an.funcs:
                    s = self.an.summary(init)
                    for (p, d), lines in s.mutates.items():
                        if p != 'self' and p in s.params:
                            idx = s.params.index(p) - 1
                            if 0 <= idx < len(args): self.mutation(st, self.descend(st, args[idx], d), e.lineno, '<arg %s of %s>' % (p, n), toplevel=False)
                l = self.alloc(st, e, allargs, n)
                for fld, v in self.field_init(st, n, args, kw, e).items(): st.H[(l, fld)] = v
                return frozenset([l])
            if n in self.an.funcs: return self.apply_summary(st, n, e, args, kw, None)
            if n in st.env and isinstance(st.env[n], frozenset) and st.env[n]:
                # calling a parameter / local that holds a function object (predicate, parser): assume it is pure on its arguments
                self.summ.unknown.append((e.lineno, 'call of function value %s (assumed pure)' % n))
                return frozenset([self.alloc(st, e, allargs)])
            self.summ.unknown.append((e.lineno, 'call %s' % n))
            return frozenset([self.alloc(st, e, allargs)])
        self.summ.unknown.append((e.lineno, 'call form'))
        return frozenset([self.alloc(st, e, allargs)])

    def field_init(self, st, cls, args, kw, e):
        """fields of a new instance of cls from the `self.f = <expr>` statements of its __init__"""
        init = self.an.funcs.get(cls + '.__init__')
        if init is None: return {}
        fd = init[1]; params = [a.arg for a in fd.args.args][1:]
        binding = dict(zip(params, args)); binding.update(kw)
        out = {}
        for s_ in fd.body:
            if isinstance(s_, ast.Assign) and len(s_.targets) == 1 and isinstance(s_.targets[0], ast.Attribute) \
                    and isinstance(s_.targets[0].value, ast.Name) and s_.targets[0].value.id == 'self':
                f_ = s_.targets[0].attr; v = s_.value
                if isinstance(v, ast.Name): out[f_] = binding.get(v.id, E)
                else:
                    c = E
                    for nm in ast.walk(v):
                        if isinstance(nm, ast.Name) and nm.id in binding: c |= self.elem(st, binding[nm.id])
                    out[f_] = frozenset([self.alloc(st, s_, c, 'field')]) if c or isinstance(v, (ast.Subscript, ast.Call, ast.List, ast.Set, ast.Dict)) else E
        return out

    def descend(self, st, labels, path):
        if path == '*':
            out = set(labels); todo = list(labels)
            while todo:
                for x in self.elem(st, [todo.pop()]):
                    if x not in out: out.add(x); todo.append(x)
            return frozenset(out)
        cur = frozenset(labels)
        for step in path: cur = self.elem(st, cur, None if step == '[]' else step)
        return cur

    def inline(self, st, fd, args, kw, e):
        if fd.name in getattr(self, 'inlining', []):        # recursive local function: result may contain anything reachable from its arguments
            c = E
            for a in args + list(kw.values()): c |= a
            return frozenset([self.alloc(st, e, c | self.elem(st, c))])
        self.inlining = getattr(self, 'inlining', []) + [fd.name]
        try: return self._inline(st, fd, args, kw, e)
        finally: self.inlining = self.inlining[:-1]

    def _inline(self, st, fd, args, kw, e):
        saved_env = dict(st.env)
        for a, v in zip(fd.args.args, args): st.env[a.arg] = v
        for k, v in kw.items(): st.env[k] = v
        saved_ret, saved_final = self.ret, getattr(self, 'final', None); self.ret = E
        self.block(st, fd.body)
        r = self.ret; self.ret = saved_ret
        if saved_final is not None: self.final = saved_final
        for a in fd.args.args: st.env.pop(a.arg, None)
        for k, v in saved_env.items():
            if k in [a.arg for a in fd.args.args]: st.env[k] = v
        return r

    def apply_summary(self, st, callee, e, args, kw, self_labels):
        s = self.an.summary(callee)
        if s is None:
            self.summ.unknown.append((e.lineno, 'call %s' % callee)); return E
        params = list(s.params); binding = {}
        if params and params[0] == 'self':
            binding['self'] = self_labels if self_labels is not None else E; params = params[1:]
        for p, a in zip(params, args): binding[p] = a
        for k, v in kw.items(): binding[k] = v
        inst = lambda p, d: self.descend(st, binding.get(p, E), d)
        for (p, d), lines in s.mutates.items():
            if p in binding: self.mutation(st, inst(p, d), e.lineno, '<arg %s of %s>' % (p, callee), toplevel=False)
        for g in s.globals: self.summ.globals.setdefault(g, []).append(e.lineno)
        for ((p, d), (q, d2)) in s.stores:
            if p in binding and q in binding: self.store(st, inst(p, d), inst(q, d2))
        for (ln, what) in s.unknown[:2]: self.summ.unknown.append((e.lineno, '%s: %s' % (callee, what)))
        c = E
        for (p, d) in s.result:
            if p in binding: c |= inst(p, d)
        l = self.alloc(st, e, c)
        for f_, (labs, fr) in s.result_fields.items():
            v = E
            for (p, d) in labs:
                if p in binding: v |= inst(p, d)
            if fr:
                class _N: pass
                dn = _N(); dn.lineno, dn.col_offset = e.lineno, e.col_offset + 20000 + (hash(f_) % 9973)
                v |= frozenset([self.alloc(st, dn, E, 'field')])
            st.H[(l, f_)] = v
        return frozenset([l]) | (c if not s.result_fields else frozenset(x for x in c if any(x in self.descend(st, binding.get(p, E), d) for (p, d) in s.result if d == ())))


def analyze(src_root, names):
    an = Analyzer(src_root)
    return {n: an.summary(n) for n in names}, an
