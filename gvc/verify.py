"""Verify functions under contract: generate obligations from the working tree, discharge, report."""
import time, traceback
import z3
from . import theory as T, sets as S, symexec as X
from .symexec import Exec, Obligation, Unsupported
from .contract import REG


def theory_axioms(c):
    ax = []
    for th in c.theories:
        ax += [f for (_tag, _n, f) in T.AXIOMS.get(th, [])]
    return ax


def generate(c):
    """-> (obligations, info)   raises Unsupported / KeyError for binding failures"""
    node, seg, h = c.load()
    ex = Exec(c, node, REG, c.path)
    X.PRODUCT_FACTS.clear()
    obls = ex.run()
    extra = list(X.PRODUCT_FACTS) + ex.distinct_literals()
    for o in obls: o.hyps = extra + o.hyps
    obls += frame_obligations(c)
    # vacuity canary: the preconditions together with the theory must not prove False
    obls.append(Obligation(c.qualname, 'canary/pre-consistent', 'canary', extra + list(ex.entry_pc), z3.BoolVal(False), expect='not-unsat'))
    return obls, {'source_hash': h, 'lines': (node.lineno, node.end_lineno), 'loops': len(ex.loops)}


_AN = [None]


def analyzer():
    from . import effects
    from .contract import repo_src
    if _AN[0] is None: _AN[0] = effects.Analyzer(repo_src())
    return _AN[0]


def frame_obligations(c):
    """frame clause of the contract, decided by the static effect analysis (gvc.effects) on the current source:
    one obligation per parameter that must not be modified, plus the value-semantics side condition"""
    s = analyzer().summary(c.qualname)
    if s is None: raise KeyError('effects: %s not found' % c.qualname)
    if s.aliased:
        raise Unsupported('in-place mutation through an alias at line %s (%s / %s): outside the value-semantics subset' % s.aliased[0])
    out = []
    allowed = set(c.modifies) | ({'self'} if c.is_method and c.qualname.endswith('__init__') else set())
    for prm in c.params:
        if prm in allowed: continue
        lines = sorted({l for (q, d), ls in s.mutates.items() if q == prm for l in ls})
        o = Obligation(c.qualname, 'frame/unchanged(%s)' % prm, 'frame', [], z3.BoolVal(not lines))
        o.status = 'unsat' if not lines else 'unknown'; o.backend = 'effects'; o.ms = 0
        o.output = 'effects:no mutation of any object reachable from %s' % prm if not lines else 'effects:possible mutation of an object reachable from %s at line(s) %s' % (prm, lines)
        out.append(o)
    g = sorted(s.globals)
    o = Obligation(c.qualname, 'frame/no-global-state-modified', 'frame', [], z3.BoolVal(not g))
    o.status = 'unsat' if not g else 'unknown'; o.backend = 'effects'; o.ms = 0; o.output = 'effects:%s' % (g or 'none')
    out.append(o)
    return out


def verify(c, timeout=10, jobs=16, keep_dir=None):
    from .smt import discharge
    t0 = time.time()
    try:
        obls, info = generate(c)
    except (Unsupported, KeyError, NotImplementedError, TypeError, AssertionError, IndexError, AttributeError, z3.Z3Exception) as e:
        return {'fn': c.qualname, 'status': 'unbound', 'reason': '%s: %s' % (type(e).__name__, e), 'trace': traceback.format_exc(), 'obligations': []}
    ax = theory_axioms(c) + [f for _n, f in S.GEN_AXIOMS]
    discharge([o for o in obls if o.backend != 'effects'], ax, timeout=timeout, jobs=jobs, keep_dir=keep_dir)
    failed = [o for o in obls if (o.kind != 'canary' and o.status != 'unsat') or (o.kind == 'canary' and o.status == 'unsat')]
    return {'fn': c.qualname, 'status': 'proved' if not failed else 'failed', 'obligations': obls, 'failed': failed, 'info': info,
            'wall_s': time.time() - t0}
