"""Verify functions under contract: generate obligations from the working tree, discharge, report."""
import time, traceback
import z3
from . import theory as T, sets as S, symexec as X
from .symexec import Exec, Obligation, Unsupported
from .contract import REG


def theory_axioms(c):
    ax = []
    for th in c.theories:
        ax += [f for (_tag, _n, f) in T.AXIOMS.get(th, [])]
    return ax


def generate(c):
    """-> (obligations, info)   raises Unsupported / KeyError for binding failures"""
    node, seg, h = c.load()
    ex = Exec(c, node, REG, c.path)
    X.PRODUCT_FACTS.clear()
    obls = ex.run()
    extra = list(X.PRODUCT_FACTS) + ex.distinct_literals()
    for o in obls: o.hyps = extra + o.hyps
    # vacuity canary: the preconditions together with the theory must not prove False
    obls.append(Obligation(c.qualname, 'canary/pre-consistent', 'canary', extra + list(ex.entry_pc), z3.BoolVal(False), expect='not-unsat'))
    return obls, {'source_hash': h, 'lines': (node.lineno, node.end_lineno), 'loops': len(ex.loops)}


def verify(c, timeout=10, jobs=16, keep_dir=None):
    from .smt import discharge
    t0 = time.time()
    try:
        obls, info = generate(c)
    except (Unsupported, KeyError, NotImplementedError, TypeError, AssertionError, IndexError, AttributeError, z3.Z3Exception) as e:
        return {'fn': c.qualname, 'status': 'unbound', 'reason': '%s: %s' % (type(e).__name__, e), 'trace': traceback.format_exc(), 'obligations': []}
    ax = theory_axioms(c) + [f for _n, f in S.GEN_AXIOMS]
    discharge(obls, ax, timeout=timeout, jobs=jobs, keep_dir=keep_dir)
    failed = [o for o in obls if (o.kind != 'canary' and o.status != 'unsat') or (o.kind == 'canary' and o.status == 'unsat')]
    return {'fn': c.qualname, 'status': 'proved' if not failed else 'failed', 'obligations': obls, 'failed': failed, 'info': info,
            'wall_s': time.time() - t0}
