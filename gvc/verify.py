"""Verify functions under contract: generate obligations from the working tree, discharge, report."""
import time, traceback
import z3
from . import theory as T, sets as S, symexec as X
from .symexec import Exec, Obligation, Unsupported
from .contract import REG


DEPENDS = {'wordx': ['word'], 'regexp': ['word', 'wordx'], 'tm': ['word', 'wordx'], 'dfa': ['word'], 'nfa': ['word'], 'pda': ['word'], 'cfg': ['word'], 'cfgx': ['cfg'], 'iso': ['dfa'], 'dfax': ['dfa', 'nfa', 'wordx'], 'nfax': ['nfa', 'word', 'wordx'], 'nfastar': ['nfax', 'regexp'], 'pdax': ['pda', 'word'], 'gnfa': ['regexp', 'word', 'wordx'], 'gnfadfa': ['gnfa', 'dfa', 'dfax'], 'thompson': ['nfastar', 'naming'], 'nerode': ['dfa', 'word', 'wordx', 'dfax'], 'quot': ['nerode', 'naming'], 'subset': ['dfa', 'nfa', 'naming']}


def theories_of(c):
    out = []
    def add(t):
        for d in DEPENDS.get(t, []): add(d)
        if t not in out: out.append(t)
    for t in c.theories: add(t)
    return out


def theory_axioms(c):
    ax = []
    for th in theories_of(c):
        ax += [f for (_tag, _n, f) in T.AXIOMS.get(th, [])]
    return ax


def uf_symbols(f, acc=None, seen=None):
    acc = set() if acc is None else acc; seen = set() if seen is None else seen
    todo = [f]
    while todo:
        t = todo.pop()
        if t.get_id() in seen: continue
        seen.add(t.get_id())
        if z3.is_quantifier(t): todo.append(t.body()); continue
        if z3.is_app(t):
            d = t.decl()
            if d.kind() == z3.Z3_OP_UNINTERPRETED and t.num_args() > 0: acc.add(d.name())
            todo.extend(t.children())
    return acc


def relevant_generated(obl, theory_ax):
    """generated definitional axioms (set algebra, views, cardinality) are included only when their symbol occurs"""
    seen = set(); syms = set()
    for f in obl.hyps + [obl.goal] + theory_ax: uf_symbols(f, syms, seen)
    out = []
    for name, f in S.GEN_AXIOMS:
        fs = uf_symbols(f)
        if fs and fs <= syms: out.append(f)        # every generated function the axiom talks about occurs (e.g. card-add needs both card and fin)
    return out


_AX_SYMS = {}


def relevant_theory(obl, theory_ax):
    """theory axioms reachable from the symbols of the obligation (transitively: an axiom that shares an uninterpreted function with what is
    already selected is selected, and brings its own symbols).  An axiom about functions that occur nowhere cannot take part in a proof;
    leaving it out keeps the queries small and the proofs stable when unrelated lemmas are added to a theory"""
    syms = set(); seen = set()
    for f in obl.hyps + [obl.goal]: uf_symbols(f, syms, seen)
    pend = []
    for f in theory_ax:
        k = f.get_id()
        if k not in _AX_SYMS: _AX_SYMS[k] = uf_symbols(f)
        pend.append((f, _AX_SYMS[k]))
    out = []; changed = True
    while changed:
        changed = False; rest = []
        for f, fs in pend:
            if not fs or (fs & syms):
                out.append(f); syms |= fs; changed = True
            else:
                rest.append((f, fs))
        pend = rest
    keep = set(f.get_id() for f in out)
    return [f for f in theory_ax if f.get_id() in keep]        # original order


def generate(c):
    """-> (obligations, info)   raises Unsupported / KeyError for binding failures"""
    node, seg, h = c.load()
    ex = Exec(c, node, REG, c.path)
    X.PRODUCT_FACTS.clear()
    obls = ex.run()
    extra = list(X.PRODUCT_FACTS) + ex.distinct_literals()
    for o in obls: o.hyps = extra + o.hyps
    obls += frame_obligations(c) + default_obligations(c, node)
    # vacuity canary: the preconditions together with the theory must not prove False
    obls.append(Obligation(c.qualname, 'canary/pre-consistent', 'canary', extra + list(ex.entry_pc), z3.BoolVal(False), expect='not-unsat'))
    return obls, {'source_hash': h, 'lines': (node.lineno, node.end_lineno), 'loops': len(ex.loops)}


_AN = [None]


def analyzer():
    from . import effects
    from .contract import repo_src
    if _AN[0] is None: _AN[0] = effects.Analyzer(repo_src())
    return _AN[0]


def frame_obligations(c):
    """frame clause of the contract, decided by the static effect analysis (gvc.effects) on the current source:
    one obligation per parameter that must not be modified, plus the value-semantics side condition"""
    s = analyzer().summary(c.qualname)
    if s is None: raise KeyError('effects: %s not found' % c.qualname)
    if s.aliased:
        raise Unsupported('in-place mutation through an alias at line %s (%s / %s): outside the value-semantics subset' % s.aliased[0])
    out = []
    allowed = set(c.modifies) | ({'self'} if c.is_method and c.qualname.endswith('__init__') else set())
    for prm in c.params:
        if prm in allowed: continue
        lines = sorted({l for (q, d), ls in s.mutates.items() if q == prm for l in ls})
        o = Obligation(c.qualname, 'frame/unchanged(%s)' % prm, 'frame', [], z3.BoolVal(not lines))
        o.status = 'unsat' if not lines else 'unknown'; o.backend = 'effects'; o.ms = 0
        o.output = 'effects:no mutation of any object reachable from %s' % prm if not lines else 'effects:possible mutation of an object reachable from %s at line(s) %s' % (prm, lines)
        out.append(o)
    g = sorted(s.globals)
    o = Obligation(c.qualname, 'frame/no-global-state-modified', 'frame', [], z3.BoolVal(not g))
    o.status = 'unsat' if not g else 'unknown'; o.backend = 'effects'; o.ms = 0; o.output = 'effects:%s' % (g or 'none')
    out.append(o)
    return out


def default_obligations(c, node):
    """default argument values are part of the behaviour callers rely on: the defaults stated in the contract must be the ones in the source"""
    import ast
    out = []
    args = node.args.args; defs = node.args.defaults
    src = {a.arg: ast.unparse(d) for a, d in zip(args[len(args) - len(defs):], defs)}
    for prm, val in c.defaults.items():
        same = prm in src and src[prm].replace(' ', '') == val.replace(' ', '')
        o = Obligation(c.qualname, 'default/%s' % prm, 'frame', [], z3.BoolVal(same))
        o.status = 'unsat' if same else 'sat'; o.backend = 'effects'; o.ms = 0
        o.output = 'syntactic:default of %s is %s in the source, %s in the contract' % (prm, src.get(prm), val)
        out.append(o)
    return out


def verify(c, timeout=10, jobs=16, keep_dir=None):
    from .smt import discharge
    t0 = time.time()
    try:
        obls, info = generate(c)
    except (Unsupported, KeyError, NotImplementedError, TypeError, AssertionError, IndexError, AttributeError, z3.Z3Exception) as e:
        return {'fn': c.qualname, 'status': 'unbound', 'reason': '%s: %s' % (type(e).__name__, e), 'trace': traceback.format_exc(), 'obligations': []}
    ax = theory_axioms(c)
    todo = [o for o in obls if o.backend != 'effects']
    for o in todo:
        rax = relevant_theory(o, ax) if o.kind != 'canary' else ax
        o.hyps = rax + relevant_generated(o, rax) + o.hyps
    discharge(todo, [], timeout=timeout, jobs=jobs, keep_dir=keep_dir)
    failed = [o for o in obls if (o.kind != 'canary' and o.status != 'unsat') or (o.kind == 'canary' and o.status == 'unsat')]
    return {'fn': c.qualname, 'status': 'proved' if not failed else 'failed', 'obligations': obls, 'failed': failed, 'info': info,
            'wall_s': time.time() - t0}


def verify_many(contracts, timeout=10, jobs=16, keep_dir=None):
    """generate the obligations of all contracts, discharge them in one pool, return {key: result}"""
    from .smt import discharge
    t0 = time.time(); res = {}; batch = []
    for c in contracts:
        try:
            obls, info = generate(c)
        except (Unsupported, KeyError, NotImplementedError, TypeError, AssertionError, IndexError, AttributeError, z3.Z3Exception) as e:
            res[c.key] = {'fn': c.qualname, 'status': 'unbound', 'reason': '%s: %s' % (type(e).__name__, e), 'trace': traceback.format_exc(), 'obligations': []}
            continue
        ax = theory_axioms(c)
        todo = [o for o in obls if o.backend != 'effects']
        for o in todo:
            rax = relevant_theory(o, ax) if o.kind != 'canary' else ax
            o.hyps = rax + relevant_generated(o, rax) + o.hyps
        batch += todo
        res[c.key] = {'fn': c.qualname, 'status': None, 'obligations': obls, 'info': info}
    discharge(batch, [], timeout=timeout, jobs=jobs, keep_dir=keep_dir)
    for k, r in res.items():
        if r['status'] == 'unbound': continue
        failed = [o for o in r['obligations'] if (o.kind != 'canary' and o.status != 'unsat') or (o.kind == 'canary' and o.status == 'unsat')]
        r['failed'] = failed; r['status'] = 'proved' if not failed else 'failed'; r['wall_s'] = time.time() - t0
    return res
