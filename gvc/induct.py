"""Recursive-lemma facility (DESIGN 2.3): every axiom tagged `lemma` in gvc.theory is proved here on every run, from the
`def` / `lfp` axioms and the lemmas proved before it, by structural induction on Word (base + step obligation) or from
explicit leastness instances.  The induction schema itself (word_ind below) is trusted."""
import z3
from z3 import ForAll, Implies, And, Or, Not, Select, Store, Const, Consts, Exists
from . import theory as T
from .ty import *
from .symexec import Obligation

PROOFS = {}      # (theory, lemma name) -> list of (tag, hyps, goal)


def proof(theory, name):
    def deco(fn):
        PROOFS[(theory, name)] = fn
        return fn
    return deco


def word_ind(P):
    """structural induction on a word: P(nil) and P(u) => P(snoc(u, a))"""
    u = fresh_z('u', Word); a = fresh_z('a', Atom)
    return [('base', [], P(Word.nil)), ('step', [P(u)], P(Word.snoc(u, a)))]


w_, u_, v_ = Consts('w_ u_ v_', Word); S_ = Const('S_', T.SetA); k_ = Const('k_', z3.IntSort())


@proof('word', 'wlen-nonneg')
def _(): return word_ind(lambda w: T.wlen(w) >= 0)
@proof('word', 'wlen-zero')
def _(): return word_ind(lambda w: (T.wlen(w) == 0) == (w == Word.nil))
@proof('word', 'isprefix-over')
def _(): return word_ind(lambda w: ForAll([u_, S_], Implies(And(T.isprefix(u_, w), T.over(S_, w)), T.over(S_, u_))))
@proof('word', 'isprefix-len')
def _(): return word_ind(lambda w: ForAll([u_], Implies(T.isprefix(u_, w), T.wlen(u_) <= T.wlen(w))))
@proof('word', 'isprefix-len-eq')
def _(): return word_ind(lambda w: ForAll([u_], Implies(And(T.isprefix(u_, w), T.wlen(u_) == T.wlen(w)), u_ == w)))
@proof('word', 'isprefix-nil')
def _(): return word_ind(lambda w: T.isprefix(Word.nil, w))
@proof('wordx', 'app-len')
def _(): return word_ind(lambda v: ForAll([u_], T.wlen(T.app(u_, v)) == T.wlen(u_) + T.wlen(v)))
@proof('wordx', 'app-nil-left')
def _(): return word_ind(lambda u: T.app(Word.nil, u) == u)
@proof('wordx', 'take-len')
def _(): return word_ind(lambda w: ForAll([k_], Implies(And(0 <= k_, k_ <= T.wlen(w)), T.wlen(T.take(k_, w)) == k_)))
@proof('wordx', 'drop-len')
def _(): return word_ind(lambda w: ForAll([k_], Implies(And(0 <= k_, k_ <= T.wlen(w)), T.wlen(T.drop(k_, w)) == T.wlen(w) - k_)))
@proof('wordx', 'take-all')
def _(): return word_ind(lambda w: ForAll([k_], Implies(k_ >= T.wlen(w), T.take(k_, w) == w)))
@proof('wordx', 'drop-zero')
def _(): return word_ind(lambda w: ForAll([k_], Implies(k_ <= 0, T.drop(k_, w) == w)))
@proof('wordx', 'take-drop-app')
def _(): return word_ind(lambda w: ForAll([k_], T.app(T.take(k_, w), T.drop(k_, w)) == w))
@proof('wordx', 'take-over')
def _(): return word_ind(lambda w: ForAll([k_, S_], Implies(T.over(S_, w), T.over(S_, T.take(k_, w)))))
@proof('wordx', 'drop-over')
def _(): return word_ind(lambda w: ForAll([k_, S_], Implies(T.over(S_, w), T.over(S_, T.drop(k_, w)))))


@proof('wordx', 'take-app')
def _(): return word_ind(lambda v: ForAll([u_], T.take(T.wlen(u_), T.app(u_, v)) == u_))
@proof('wordx', 'drop-app')
def _(): return word_ind(lambda v: ForAll([u_], T.drop(T.wlen(u_), T.app(u_, v)) == v))


@proof('wordx', 'prefix-is-take')
def _(): return word_ind(lambda w: ForAll([u_], Implies(T.isprefix(u_, w), u_ == T.take(T.wlen(u_), w))))
@proof('wordx', 'take-zero')
def _(): return word_ind(lambda w: T.take(0, w) == Word.nil)
@proof('wordx', 'drop-all')
def _(): return word_ind(lambda w: ForAll([k_], Implies(k_ >= T.wlen(w), T.drop(k_, w) == Word.nil)))


@proof('dfa', 'dhat-closed')
def _():
    D = SV(REC('DFA'), T._D); q = Const('q_', Atom)
    hyp = And(T.s_dfa_wf(None, D).z, Select(rec_get(D, 'Q').z, q))
    return [(t, [hyp] + h, g) for (t, h, g) in word_ind(lambda w: Implies(T.over(rec_get(D, 'Sigma').z, w), Select(rec_get(D, 'Q').z, T.dhat(T.dfa_delta_val(D), q, w))))]


@proof('dfa', 'Reach-in-Q')
def _():
    D = SV(REC('DFA'), T._D); q, x = Consts('q_ x_', Atom)
    Qz = rec_get(D, 'Q').z
    return [('least', [T.s_dfa_wf(None, D).z, Select(Qz, q), T.Reach_least(T.dfa_delta_val(D), rec_get(D, 'Sigma').z, q, Qz, False),
                       Select(T.Reach(T.dfa_delta_val(D), rec_get(D, 'Sigma').z, q), x)], Select(Qz, x))]


@proof('dfa', 'restrict-sim')
def _():
    d1, d2 = Const('d1_', T.DeltaD), Const('d2_', T.DeltaD); Sg = Const('Sg_', T.SetA); q = Const('q_', Atom); x, a = Consts('x_ a_', Atom)
    hyp = ForAll([x, a], Implies(And(Select(T.Reach(d1, Sg, q), x), Select(Sg, a)), Select(d2, T.mkKey2(x, a)) == Select(d1, T.mkKey2(x, a))))
    return [(t, [hyp] + h, g) for (t, h, g) in word_ind(lambda w: Implies(T.over(Sg, w), And(T.dhat(d2, q, w) == T.dhat(d1, q, w), Select(T.Reach(d1, Sg, q), T.dhat(d1, q, w)))))]


@proof('dfa', 'product-sim')
def _():
    D1, D2, R = [SV(REC('DFA'), Const(n, sort_of(REC('DFA')))) for n in ('D1_', 'D2_', 'DR_')]
    x, y = Consts('x_ y_', Atom)
    hyp = And(T.prod_struct(D1, D2, R), Select(rec_get(D1, 'Q').z, x), Select(rec_get(D2, 'Q').z, y))
    Sg = rec_get(D1, 'Sigma').z
    P = lambda w: Implies(T.over(Sg, w), T.dhat(T.dfa_delta_val(R), T.pair_name(x, y), w) == T.pair_name(T.dhat(T.dfa_delta_val(D1), x, w), T.dhat(T.dfa_delta_val(D2), y, w)))
    closed = [ForAll([w_], Implies(T.over(Sg, w_), And(Select(rec_get(D1, 'Q').z, T.dhat(T.dfa_delta_val(D1), x, w_)), Select(rec_get(D2, 'Q').z, T.dhat(T.dfa_delta_val(D2), y, w_)))))]
    return [('closed', [hyp], closed[0])] + [(t, [hyp] + closed + h, g) for (t, h, g) in word_ind(P)]


@proof('nfa', 'Eclo-empty')
def _():
    V = Const('V_', T.ViewN); e = Const('e_', Atom); y = Const('y_', Atom)
    E0 = z3.K(Atom, z3.BoolVal(False))
    return [('least', [T.Eclo_least(V, e, E0, E0)], Not(Select(T.Eclo(V, e, E0), y)))]


@proof('nfa', 'Eclo-by-singletons')
def _():
    V = Const('V_', T.ViewN); e = Const('e_', Atom); S = Const('S0_', T.SetA); x, y = Consts('x_ y_', Atom)
    sing = lambda t: Store(z3.K(Atom, z3.BoolVal(False)), t, z3.BoolVal(True))
    Tt = Const('T_', T.SetA); x2, y2 = Consts('x2_ y2_', Atom)
    defT = ForAll([y2], Select(Tt, y2) == Exists([x2], And(Select(S, x2), Select(T.Eclo(V, e, sing(x2)), y2))))
    return [('<=', [T.Eclo_least(V, e, sing(x), T.Eclo(V, e, S)), Select(S, x), Select(T.Eclo(V, e, sing(x)), y)], Select(T.Eclo(V, e, S), y)),
            ('=>', [defT, T.Eclo_least(V, e, S, Tt), Select(T.Eclo(V, e, S), y)], Select(Tt, y))]


def regexp_ind(P):
    """structural induction on regular expressions"""
    R = Regexp; a = fresh_z('a', Atom); r, s_ = fresh_z('r', R), fresh_z('s', R)
    return [('zero', [], P(R.Zero)), ('one', [], P(R.One)), ('sym', [], P(R.Sym(a))), ('iter', [P(r)], P(R.Iter(r))),
            ('sum', [P(r), P(s_)], P(R.Sum(r, s_))), ('concat', [P(r), P(s_)], P(R.Concat(r, s_)))]


@proof('regexp', 'rnodes-pos')
def _(): return regexp_ind(lambda r: T.rnodes(r) >= 1)
@proof('regexp', 'rsize-nonneg')
def _(): return regexp_ind(lambda r: T.rsize(r) >= 0)


@proof('nfa', 'Eclo-idem')
def _():
    V = Const('V_', T.ViewN); e = Const('e_', Atom); S = Const('S0_', T.SetA); x = Const('x_', Atom)
    E1 = T.Eclo(V, e, S); E2 = T.Eclo(V, e, E1)
    return [('least', [T.Eclo_least(V, e, E1, E1)], ForAll([x], Select(E2, x) == Select(E1, x)))]


@proof('subset', 'subset-sim')
def _():
    N, R = SV(REC('NFA'), Const('N_', T._NFAs)), SV(REC('DFA'), Const('R_', sort_of(REC('DFA'))))
    V, e, q0 = T.nfa_view(N), T._eps(N), rec_get(N, 'q0').z
    hyp = T.subset_struct(N, R)
    P = lambda w: Implies(T.over(rec_get(N, 'Sigma').z, w), And(T.dhat(T.dfa_delta_val(R), rec_get(R, 'q0').z, w) == T.name_of_set(T.Nhat(V, e, q0, w)),
                                                               Select(rec_get(R, 'Q').z, T.dhat(T.dfa_delta_val(R), rec_get(R, 'q0').z, w))))
    return [(t, [hyp] + h, g) for (t, h, g) in word_ind(P)]


@proof('subset', 'subset-reach')
def _():
    N, R = SV(REC('NFA'), Const('N_', T._NFAs)), SV(REC('DFA'), Const('R_', sort_of(REC('DFA'))))
    V, e, q0, Sg = T.nfa_view(N), T._eps(N), rec_get(N, 'q0').z, rec_get(N, 'Sigma').z
    hyp = T.subset_struct(N, R)
    Rch = T.Reach(T.dfa_delta_val(R), rec_get(R, 'Sigma').z, rec_get(R, 'q0').z)
    P = lambda Sx: And(Select(rec_get(R, 'Q').z, T.name_of_set(Sx)), Select(Rch, T.name_of_set(Sx)))
    S0 = Const('S0_', T.SetA)
    return [('least', [hyp, T.Sreach_least(V, e, q0, Sg, P), T.Sreach(V, e, q0, Sg, S0)], P(S0))]


@proof('pda', 'EcloP-mono')
def _():
    P = SV(REC('PDA'), Const('P_', T.PDAs)); A, B = Const('A_', T.SetC), Const('B_', T.SetC); c = Const('c_', T.Conf); c0 = Const('c0_', T.Conf)
    return [('least', [ForAll([c], Implies(Select(A, c), Select(B, c))), T.EcloP_least(P, A, T.EcloP(P.z, B)), Select(T.EcloP(P.z, A), c0)], Select(T.EcloP(P.z, B), c0))]


@proof('dfax', 'dhat-app')
def _():
    d = Const('d_', T.DeltaD); q = Const('q_', Atom)
    return word_ind(lambda v: ForAll([u_], T.dhat(d, q, T.app(u_, v)) == T.dhat(d, T.dhat(d, q, u_), v)))


@proof('dfax', 'Reach1-of-word')
def _():
    d = Const('d_', T.DeltaD); Sg = Const('Sg_', T.SetA); q = Const('q_', Atom)
    return word_ind(lambda v: Implies(And(v != Word.nil, T.over(Sg, v)), Select(T.Reach1(d, Sg, q), T.dhat(d, q, v))))


@proof('dfax', 'Reach1-has-word')
def _():
    d = Const('d_', T.DeltaD); Sg = Const('Sg_', T.SetA); q, x, a, y = Consts('q_ x_ a_ y_', Atom); v = Const('v_', Word)
    Tt = Const('T_', T.SetA)
    defT = ForAll([y], Select(Tt, y) == Exists([v], And(v != Word.nil, T.over(Sg, v), T.dhat(d, q, v) == y)))
    # the two closure conditions with explicit witnesses ([a] and snoc(v, a)), then the leastness instance
    seed = ('seed', [defT, Select(Sg, a)], Select(Tt, Select(d, T.mkKey2(q, a))))
    seedw = ('seed-witness', [Select(Sg, a)], And(Word.snoc(Word.nil, a) != Word.nil, T.over(Sg, Word.snoc(Word.nil, a)), T.dhat(d, q, Word.snoc(Word.nil, a)) == Select(d, T.mkKey2(q, a))))
    stepw = ('step-witness', [v != Word.nil, T.over(Sg, v), Select(Sg, a)], And(Word.snoc(v, a) != Word.nil, T.over(Sg, Word.snoc(v, a)), T.dhat(d, q, Word.snoc(v, a)) == Select(d, T.mkKey2(T.dhat(d, q, v), a))))
    closed = ('closed', [defT, Select(Tt, x), Select(Sg, a), ForAll([v, a], Implies(And(v != Word.nil, T.over(Sg, v), Select(Sg, a)), And(T.over(Sg, Word.snoc(v, a)), T.dhat(d, q, Word.snoc(v, a)) == Select(d, T.mkKey2(T.dhat(d, q, v), a)))))], Select(Tt, Select(d, T.mkKey2(x, a))))
    least = ('least', [defT, T.Reach_least(d, Sg, q, Tt, True), ForAll([a], Implies(Select(Sg, a), Select(Tt, Select(d, T.mkKey2(q, a))))),
                       ForAll([x, a], Implies(And(Select(Tt, x), Select(Sg, a)), Select(Tt, Select(d, T.mkKey2(x, a))))), Select(T.Reach1(d, Sg, q), y)],
             Exists([v], And(v != Word.nil, T.over(Sg, v), T.dhat(d, q, v) == y)))
    return [seedw, seed, stepw, closed, least]


@proof('dfax', 'nap-prefixes')
def _():
    d = Const('d_', T.DeltaD); Fs = Const('Fs_', T.SetA); q = Const('q_', Atom)
    return word_ind(lambda w: T.nap(d, Fs, q, w) == ForAll([u_], Implies(And(T.isprefix(u_, w), u_ != w), Not(Select(Fs, T.dhat(d, q, u_))))))


@proof('dfax', 'Eclo-no-eps')
def _():
    V = Const('V_', T.ViewN); e = Const('e_', Atom); S = Const('S0_', T.SetA); x, y = Consts('x_ y_', Atom)
    hyp = ForAll([x, y], Implies(Select(S, x), Not(Select(Select(V, T.mkKey2(x, e)), y))))
    return [('least', [hyp, T.Eclo_least(V, e, S, S)], ForAll([x], Select(T.Eclo(V, e, S), x) == Select(S, x)))]


@proof('dfax', 'dhat-cons')
def _():
    d = Const('d_', T.DeltaD); q, a = Consts('q_ a_', Atom)
    return word_ind(lambda v: T.dhat(d, q, T.cons(a, v)) == T.dhat(d, Select(d, T.mkKey2(q, a)), v))


@proof('dfax', 'rev-over')
def _():
    S = Const('S0_', T.SetA); a = Const('a_', Atom)
    aux = ForAll([a, w_], T.over(S, T.cons(a, w_)) == And(Select(S, a), T.over(S, w_)))
    return [('aux-' + t, h, g) for (t, h, g) in word_ind(lambda w: T.over(S, T.cons(a, w)) == And(Select(S, a), T.over(S, w)))] + \
           [(t, [aux] + h, g) for (t, h, g) in word_ind(lambda w: T.over(S, T.rev(w)) == T.over(S, w))]


@proof('dfax', 'rev-app')
def _():
    a = Const('a_', Atom)
    assoc = ForAll([u_, w_, a], T.app(u_, T.cons(a, w_)) == T.app(Word.snoc(u_, a), w_))
    assoc3 = ForAll([u_, v_, w_], T.app(T.app(u_, v_), w_) == T.app(u_, T.app(v_, w_)))
    p1 = [('assoc-' + t, h, g) for (t, h, g) in word_ind(lambda w: ForAll([u_, v_], T.app(T.app(u_, v_), w) == T.app(u_, T.app(v_, w))))]
    p2 = [(t, [assoc3] + h, g) for (t, h, g) in word_ind(lambda v: ForAll([u_], T.rev(T.app(u_, v)) == T.app(T.rev(v), T.rev(u_))))]
    return p1 + p2


@proof('dfax', 'rev-rev')
def _():
    return word_ind(lambda w: T.rev(T.rev(w)) == w)


@proof('dfax', 'noprefix-sim')
def _():
    D, N = SV(REC('DFA'), Const('D_', sort_of(REC('DFA')))), SV(REC('NFA'), Const('N_', T._NFAs))
    d, q0, Fz, Sg = T.dfa_delta_val(D), rec_get(D, 'q0').z, rec_get(D, 'F').z, rec_get(D, 'Sigma').z
    V, e = T.nfa_view(N), T._eps(N); x = Const('x_', Atom)
    hyp = T.np_struct(D, N)
    closed = ForAll([w_], Implies(T.over(Sg, w_), Select(rec_get(D, 'Q').z, T.dhat(d, q0, w_))))
    P = lambda w: Implies(T.over(Sg, w), ForAll([x], Select(T.Nhat(V, e, rec_get(N, 'q0').z, w), x) == And(T.nap(d, Fz, q0, w), x == T.dhat(d, q0, w))))
    return [('closed', [hyp], closed)] + [(t, [hyp, closed] + h, g) for (t, h, g) in word_ind(P)]


@proof('dfax', 'reverse-sim')
def _():
    D, N = SV(REC('DFA'), Const('D_', sort_of(REC('DFA')))), SV(REC('NFA'), Const('N_', T._NFAs))
    d, Fz, Sg, Q = T.dfa_delta_val(D), rec_get(D, 'F').z, rec_get(D, 'Sigma').z, rec_get(D, 'Q').z
    V, e, n0 = T.nfa_view(N), T._eps(N), rec_get(N, 'q0').z; x, y = Consts('x_ y_', Atom)
    hyp = T.rev_struct(D, N)
    seed = z3.Store(z3.K(Atom, False), n0, True)
    T0 = Const('T0_', T.SetA)
    defT0 = ForAll([x], Select(T0, x) == Or(x == n0, Select(Fz, x)))
    epsfact = ForAll([x, y], Select(Select(V, T.mkKey2(x, e)), y) == And(x == n0, Select(Fz, y)))
    nil_def = T.Nhat(V, e, n0, Word.nil) == T.Eclo(V, e, seed)
    base = [('base-eps', [hyp], epsfact), ('base-nil', [], nil_def),
            ('base-sub', [epsfact, defT0, T.Eclo_least(V, e, seed, T0)], ForAll([x], Implies(Select(T.Eclo(V, e, seed), x), Select(T0, x)))),
            ('base-sup', [epsfact, defT0], ForAll([x], Implies(Select(T0, x), Select(T.Eclo(V, e, seed), x)))),
            ('base', [nil_def, defT0, ForAll([x], Implies(Select(T.Eclo(V, e, seed), x), Select(T0, x))), ForAll([x], Implies(Select(T0, x), Select(T.Eclo(V, e, seed), x)))], ForAll([x], Select(T.Nhat(V, e, n0, Word.nil), x) == Select(T0, x)))]
    P = lambda w: Implies(T.over(Sg, w), ForAll([x], Select(T.Nhat(V, e, n0, w), x) == z3.If(w == Word.nil, Or(x == n0, Select(Fz, x)), And(Select(Q, x), Select(Fz, T.dhat(d, x, T.rev(w)))))))
    w = Const('w_', Word); a = Const('a_', Atom)
    M = T.move(V, T.Nhat(V, e, n0, w), a)
    # the move set is a set of D-states, which have no epsilon moves: its closure is itself
    mv = ('step-move', [hyp, P(w), T.over(Sg, Word.snoc(w, a))], ForAll([x], Select(M, x) == And(Select(Q, x), Select(Fz, T.dhat(d, x, T.rev(Word.snoc(w, a)))))))
    st = ('step', [hyp, T.over(Sg, Word.snoc(w, a)), ForAll([x], Select(M, x) == And(Select(Q, x), Select(Fz, T.dhat(d, x, T.rev(Word.snoc(w, a))))))], P(Word.snoc(w, a)))
    return base + [mv, st]


@proof('dfax', 'total-sim')
def _():
    D, R = SV(REC('DFA'), Const('D_', T._DFAs)), SV(REC('DFA'), Const('R_', T._DFAs))
    dl = rec_get(D, 'delta'); q0 = rec_get(D, 'q0').z; Sg = rec_get(D, 'Sigma').z
    d2 = T.dfa_delta_val(R); dm, dv = map_dom(dl), map_val(dl)
    hyp = T.tot_struct(D, R)
    P = lambda w: Implies(T.over(Sg, w), And(Select(rec_get(R, 'Q').z, T.dhat(d2, q0, w)),
                  z3.If(T.run_ok(dm, dv, q0, w), And(T.dhat(d2, q0, w) == T.dhat(dv, q0, w), Select(rec_get(D, 'Q').z, T.dhat(dv, q0, w))),
                        Not(Select(rec_get(D, 'Q').z, T.dhat(d2, q0, w))))))
    return [(t, [hyp] + h, g) for (t, h, g) in word_ind(P)]


@proof('iso', 'iso-witness')
def _():
    h = Const('h_', T.HMap); D1, D2 = Consts('D1_ D2_', T._DFAs)
    d1, d2 = SV(REC('DFA'), D1), SV(REC('DFA'), D2)
    choice = Implies(T.iso_pred(h, d1, d2), T.iso_pred(T.isofn(D1, D2), d1, d2))          # instance of isofn-choice
    return [('inst', [choice, T.iso_map_b(h, D1, D2) == T.iso_pred(h, d1, d2), T.iso_b(D1, D2) == T.iso_pred(T.isofn(D1, D2), d1, d2), T.iso_map_b(h, D1, D2)], T.iso_b(D1, D2))]


@proof('iso', 'rel_of-set-true')
def _():
    R, R2 = Consts('R_ R2_', T.RelA); k = Const('k_', T.Key2); j = Const('j_', T.Key2)
    lhs = T.rel_of(z3.Store(R, k, True), z3.Store(R2, k, True)); rhs = z3.Store(T.rel_of(R, R2), k, True)
    pw = ForAll([j], Select(lhs, j) == Select(rhs, j))
    return [('pointwise', [], pw), ('ext', [pw], lhs == rhs)]


@proof('iso', 'iso-rel-witness')
def _():
    R = Const('R_', T.RelA); D1, D2 = Consts('D1_ D2_', T._DFAs)
    d1, d2 = SV(REC('DFA'), D1), SV(REC('DFA'), D2)
    h = T.fn_of_rel(R)
    choice = Implies(T.iso_pred(h, d1, d2), T.iso_pred(T.isofn(D1, D2), d1, d2))          # instance of isofn-choice
    return [('inst', [choice, T.iso_rel_b(R, D1, D2) == T.iso_pred(h, d1, d2), T.iso_b(D1, D2) == T.iso_pred(T.isofn(D1, D2), d1, d2), T.iso_rel_b(R, D1, D2)], T.iso_b(D1, D2))]


def int_ind(P, lo=0):
    """induction on an integer >= lo: P(lo) and (j >= lo and P(j)) => P(j+1)"""
    j = fresh_z('j', z3.IntSort())
    return [('base', [], P(z3.IntVal(lo))), ('step', [j >= lo, P(j)], P(j + 1))]


@proof('tm', 'run-sticky')
def _():
    Tm = Const('Tm_', T.TMs); w = Const('w0_', Word); i = Const('i_', z3.IntSort())
    hyp = And(0 <= i, T.tm_halting(Tm, T.run_q(Tm, w, i)))
    return [(t, [hyp] + h, g) for (t, h, g) in int_ind(lambda k: Implies(i <= k, T.run_q(Tm, w, k) == T.run_q(Tm, w, i)))]


@proof('tm', 'run-sticky-0')
def _():
    Tm = Const('Tm_', T.TMs); w = Const('w0_', Word); k = Const('k0_', z3.IntSort())
    q0 = rec_get(SV(REC('TM'), Tm), 'q0').z
    return [('inst', [T.run_q(Tm, w, 0) == q0, 0 <= k, T.tm_halting(Tm, q0)], T.run_q(Tm, w, k) == q0)]


def prove_lemmas(theories, timeout=10):
    """-> list of (name, status, log); a lemma may use the def/lfp/assumed axioms of the selected theories and earlier lemmas"""
    from .smt import discharge
    obls = []
    order = ['word', 'wordx', 'naming', 'dfa', 'nfa', 'dfax', 'regexp', 'tm', 'pda', 'cfg', 'iso', 'subset']
    ths = [t for t in order if t in theories] + [t for t in theories if t not in order]
    from .verify import DEPENDS
    def closure(t, out=None):
        out = [] if out is None else out
        for d_ in DEPENDS.get(t, []): closure(d_, out)
        if t not in out: out.append(t)
        return out
    jobs = []
    proved_so_far = {}          # theory -> lemmas already stated (in file order)
    for th in ths:
        # a lemma of theory th sees the definitions of th and of the theories th depends on, their lemmas, and the earlier lemmas of th
        deps = closure(th)
        avail = []
        for t in deps:
            avail += [f for (tag, n, f) in T.AXIOMS.get(t, []) if tag in ('def', 'lfp', 'assumed')]
            if t != th: avail += [f for (tag, n, f) in T.AXIOMS.get(t, []) if tag == 'lemma']
        for (tag, n, f) in T.AXIOMS.get(th, []):
            if tag != 'lemma': continue
            pf = PROOFS.get((th, n))
            if pf is None:
                jobs.append((n, None, None)); continue
            for (part, hyps, goal) in pf():
                o = Obligation('theory.' + th, '%s/%s' % (n, part), 'lemma', list(avail) + hyps, goal)
                jobs.append((n, o, None))
            avail.append(f)
    # generated set identities: each must follow from the pointwise definitions of the set operations alone
    from . import sets as S_
    defs = [f for n_, f in S_.GEN_AXIOMS if n_ not in S_.GEN_LEMMAS and not n_.startswith(('fin-', 'card-'))]
    for n_, f in S_.GEN_AXIOMS:
        if n_ in S_.GEN_LEMMAS:
            hy = list(defs) if not n_.startswith('card-') else [f_ for m_, f_ in S_.GEN_AXIOMS if m_ not in S_.GEN_LEMMAS]      # card lemmas follow from the card / fin axioms
            o = Obligation('theory.sets', n_, 'lemma', hy, f); o.skip_relevance = True
            jobs.append((n_, o, None))
    os_ = [o for (_n, o, _x) in jobs if o is not None]
    from . import sets as S
    from .verify import relevant_generated
    for o in os_:
        if not getattr(o, 'skip_relevance', False): o.hyps = relevant_generated(o, []) + o.hyps
    discharge(os_, [], timeout=timeout)
    res = {}
    for (n, o, _x) in jobs:
        if o is None: res[n] = ('unproved', 'no proof script'); continue
        st, log = res.get(n, ('unsat', ''))
        if o.status != 'unsat': st = o.status or 'unknown'
        res[n] = (st, (log + ' ' + o.name + ':' + o.output).strip())
    return [(n, st, log) for n, (st, log) in res.items()]
