"""Recursive-lemma facility (DESIGN 2.3): every axiom tagged `lemma` in gvc.theory is proved here on every run, from the
`def` / `lfp` axioms and the lemmas proved before it, by structural induction on Word (base + step obligation) or from
explicit leastness instances.  The induction schema itself (word_ind below) is trusted."""
import z3
from z3 import ForAll, Implies, And, Or, Not, Select, Store, Const, Consts, Exists
from . import theory as T
from .ty import *
from .symexec import Obligation

PROOFS = {}      # (theory, lemma name) -> list of (tag, hyps, goal)


def proof(theory, name):
    def deco(fn):
        PROOFS[(theory, name)] = fn
        return fn
    return deco


def word_ind(P):
    """structural induction on a word: P(nil) and P(u) => P(snoc(u, a))"""
    u = fresh_z('u', Word); a = fresh_z('a', Atom)
    return [('base', [], P(Word.nil)), ('step', [P(u)], P(Word.snoc(u, a)))]


w_, u_, v_ = Consts('w_ u_ v_', Word); S_ = Const('S_', T.SetA); k_ = Const('k_', z3.IntSort())


@proof('word', 'wlen-nonneg')
def _(): return word_ind(lambda w: T.wlen(w) >= 0)
@proof('word', 'wlen-zero')
def _(): return word_ind(lambda w: (T.wlen(w) == 0) == (w == Word.nil))
@proof('word', 'isprefix-over')
def _(): return word_ind(lambda w: ForAll([u_, S_], Implies(And(T.isprefix(u_, w), T.over(S_, w)), T.over(S_, u_))))
@proof('word', 'isprefix-len')
def _(): return word_ind(lambda w: ForAll([u_], Implies(T.isprefix(u_, w), T.wlen(u_) <= T.wlen(w))))
@proof('word', 'isprefix-len-eq')
def _(): return word_ind(lambda w: ForAll([u_], Implies(And(T.isprefix(u_, w), T.wlen(u_) == T.wlen(w)), u_ == w)))
@proof('word', 'isprefix-nil')
def _(): return word_ind(lambda w: T.isprefix(Word.nil, w))
@proof('wordx', 'app-len')
def _(): return word_ind(lambda v: ForAll([u_], T.wlen(T.app(u_, v)) == T.wlen(u_) + T.wlen(v)))
@proof('wordx', 'app-nil-left')
def _(): return word_ind(lambda u: T.app(Word.nil, u) == u)
@proof('wordx', 'take-len')
def _(): return word_ind(lambda w: ForAll([k_], Implies(And(0 <= k_, k_ <= T.wlen(w)), T.wlen(T.take(k_, w)) == k_)))
@proof('wordx', 'drop-len')
def _(): return word_ind(lambda w: ForAll([k_], Implies(And(0 <= k_, k_ <= T.wlen(w)), T.wlen(T.drop(k_, w)) == T.wlen(w) - k_)))
@proof('wordx', 'take-all')
def _(): return word_ind(lambda w: ForAll([k_], Implies(k_ >= T.wlen(w), T.take(k_, w) == w)))
@proof('wordx', 'drop-zero')
def _(): return word_ind(lambda w: ForAll([k_], Implies(k_ <= 0, T.drop(k_, w) == w)))
@proof('wordx', 'take-drop-app')
def _(): return word_ind(lambda w: ForAll([k_], T.app(T.take(k_, w), T.drop(k_, w)) == w))
@proof('wordx', 'take-over')
def _(): return word_ind(lambda w: ForAll([k_, S_], Implies(T.over(S_, w), T.over(S_, T.take(k_, w)))))
@proof('wordx', 'drop-over')
def _(): return word_ind(lambda w: ForAll([k_, S_], Implies(T.over(S_, w), T.over(S_, T.drop(k_, w)))))


@proof('wordx', 'take-app')
def _(): return word_ind(lambda v: ForAll([u_], T.take(T.wlen(u_), T.app(u_, v)) == u_))
@proof('wordx', 'drop-app')
def _(): return word_ind(lambda v: ForAll([u_], T.drop(T.wlen(u_), T.app(u_, v)) == v))


@proof('wordx', 'prefix-is-take')
def _(): return word_ind(lambda w: ForAll([u_], Implies(T.isprefix(u_, w), u_ == T.take(T.wlen(u_), w))))
@proof('wordx', 'take-zero')
def _(): return word_ind(lambda w: T.take(0, w) == Word.nil)
@proof('wordx', 'drop-all')
def _(): return word_ind(lambda w: ForAll([k_], Implies(k_ >= T.wlen(w), T.drop(k_, w) == Word.nil)))


@proof('letters', 'upper-card')
def _():
    from . import sets as S
    ch = [SV(SET(ATOM), c) for c in T.upper()['chain']]; d = distinct_literals()
    steps = [('empty', [], And(S.fin(ch[0]), S.card(ch[0]).z == 0))]
    for k in range(1, len(ch)):
        steps.append(('letter%d' % k, d + [S.fin(ch[k - 1]), S.card(ch[k - 1]).z == k - 1], And(S.fin(ch[k]), S.card(ch[k]).z == k)))
    return steps

@proof('dfa', 'dhat-closed')
def _():
    D = SV(REC('DFA'), T._D); q = Const('q_', Atom)
    hyp = And(T.s_dfa_wf(None, D).z, Select(rec_get(D, 'Q').z, q))
    return [(t, [hyp] + h, g) for (t, h, g) in word_ind(lambda w: Implies(T.over(rec_get(D, 'Sigma').z, w), Select(rec_get(D, 'Q').z, T.dhat(T.dfa_delta_val(D), q, w))))]


@proof('dfa', 'Reach-in-Q')
def _():
    D = SV(REC('DFA'), T._D); q, x = Consts('q_ x_', Atom)
    Qz = rec_get(D, 'Q').z
    return [('least', [T.s_dfa_wf(None, D).z, Select(Qz, q), T.Reach_least(T.dfa_delta_val(D), rec_get(D, 'Sigma').z, q, Qz, False),
                       Select(T.Reach(T.dfa_delta_val(D), rec_get(D, 'Sigma').z, q), x)], Select(Qz, x))]


@proof('dfa', 'restrict-sim')
def _():
    d1, d2 = Const('d1_', T.DeltaD), Const('d2_', T.DeltaD); Sg = Const('Sg_', T.SetA); q = Const('q_', Atom); x, a = Consts('x_ a_', Atom)
    hyp = ForAll([x, a], Implies(And(Select(T.Reach(d1, Sg, q), x), Select(Sg, a)), Select(d2, T.mkKey2(x, a)) == Select(d1, T.mkKey2(x, a))))
    return [(t, [hyp] + h, g) for (t, h, g) in word_ind(lambda w: Implies(T.over(Sg, w), And(T.dhat(d2, q, w) == T.dhat(d1, q, w), Select(T.Reach(d1, Sg, q), T.dhat(d1, q, w)))))]


@proof('dfa', 'product-sim')
def _():
    D1, D2, R = [SV(REC('DFA'), Const(n, sort_of(REC('DFA')))) for n in ('D1_', 'D2_', 'DR_')]
    x, y = Consts('x_ y_', Atom)
    hyp = And(T.prod_struct(D1, D2, R), Select(rec_get(D1, 'Q').z, x), Select(rec_get(D2, 'Q').z, y))
    Sg = rec_get(D1, 'Sigma').z
    P = lambda w: Implies(T.over(Sg, w), T.dhat(T.dfa_delta_val(R), T.pair_name(x, y), w) == T.pair_name(T.dhat(T.dfa_delta_val(D1), x, w), T.dhat(T.dfa_delta_val(D2), y, w)))
    closed = [ForAll([w_], Implies(T.over(Sg, w_), And(Select(rec_get(D1, 'Q').z, T.dhat(T.dfa_delta_val(D1), x, w_)), Select(rec_get(D2, 'Q').z, T.dhat(T.dfa_delta_val(D2), y, w_)))))]
    return [('closed', [hyp], closed[0])] + [(t, [hyp] + closed + h, g) for (t, h, g) in word_ind(P)]


@proof('nfa', 'Eclo-empty')
def _():
    V = Const('V_', T.ViewN); e = Const('e_', Atom); y = Const('y_', Atom)
    E0 = z3.K(Atom, z3.BoolVal(False))
    return [('least', [T.Eclo_least(V, e, E0, E0)], Not(Select(T.Eclo(V, e, E0), y)))]


@proof('nfa', 'Eclo-by-singletons')
def _():
    V = Const('V_', T.ViewN); e = Const('e_', Atom); S = Const('S0_', T.SetA); x, y = Consts('x_ y_', Atom)
    sing = lambda t: Store(z3.K(Atom, z3.BoolVal(False)), t, z3.BoolVal(True))
    Tt = Const('T_', T.SetA); x2, y2 = Consts('x2_ y2_', Atom)
    defT = ForAll([y2], Select(Tt, y2) == Exists([x2], And(Select(S, x2), Select(T.Eclo(V, e, sing(x2)), y2))))
    return [('<=', [T.Eclo_least(V, e, sing(x), T.Eclo(V, e, S)), Select(S, x), Select(T.Eclo(V, e, sing(x)), y)], Select(T.Eclo(V, e, S), y)),
            ('=>', [defT, T.Eclo_least(V, e, S, Tt), Select(T.Eclo(V, e, S), y)], Select(Tt, y))]


def regexp_ind(P):
    """structural induction on regular expressions"""
    R = Regexp; a = fresh_z('a', Atom); r, s_ = fresh_z('r', R), fresh_z('s', R)
    return [('zero', [], P(R.Zero)), ('one', [], P(R.One)), ('sym', [], P(R.Sym(a))), ('iter', [P(r)], P(R.Iter(r))),
            ('sum', [P(r), P(s_)], P(R.Sum(r, s_))), ('concat', [P(r), P(s_)], P(R.Concat(r, s_)))]


@proof('regexp', 'rnodes-pos')
def _(): return regexp_ind(lambda r: T.rnodes(r) >= 1)
@proof('regexp', 'rsize-nonneg')
def _(): return regexp_ind(lambda r: T.rsize(r) >= 0)


@proof('nfa', 'Eclo-idem')
def _():
    V = Const('V_', T.ViewN); e = Const('e_', Atom); S = Const('S0_', T.SetA); x = Const('x_', Atom)
    E1 = T.Eclo(V, e, S); E2 = T.Eclo(V, e, E1)
    return [('least', [T.Eclo_least(V, e, E1, E1)], ForAll([x], Select(E2, x) == Select(E1, x)))]


@proof('subset', 'subset-sim')
def _():
    N, R = SV(REC('NFA'), Const('N_', T._NFAs)), SV(REC('DFA'), Const('R_', sort_of(REC('DFA'))))
    V, e, q0 = T.nfa_view(N), T._eps(N), rec_get(N, 'q0').z
    hyp = T.subset_struct(N, R)
    P = lambda w: Implies(T.over(rec_get(N, 'Sigma').z, w), And(T.dhat(T.dfa_delta_val(R), rec_get(R, 'q0').z, w) == T.name_of_set(T.Nhat(V, e, q0, w)),
                                                               Select(rec_get(R, 'Q').z, T.dhat(T.dfa_delta_val(R), rec_get(R, 'q0').z, w))))
    return [(t, [hyp] + h, g) for (t, h, g) in word_ind(P)]


@proof('subset', 'subset-reach')
def _():
    N, R = SV(REC('NFA'), Const('N_', T._NFAs)), SV(REC('DFA'), Const('R_', sort_of(REC('DFA'))))
    V, e, q0, Sg = T.nfa_view(N), T._eps(N), rec_get(N, 'q0').z, rec_get(N, 'Sigma').z
    hyp = T.subset_struct(N, R)
    Rch = T.Reach(T.dfa_delta_val(R), rec_get(R, 'Sigma').z, rec_get(R, 'q0').z)
    P = lambda Sx: And(Select(rec_get(R, 'Q').z, T.name_of_set(Sx)), Select(Rch, T.name_of_set(Sx)))
    S0 = Const('S0_', T.SetA)
    return [('least', [hyp, T.Sreach_least(V, e, q0, Sg, P), T.Sreach(V, e, q0, Sg, S0)], P(S0))]


@proof('pda', 'EcloP-mono')
def _():
    P = SV(REC('PDA'), Const('P_', T.PDAs)); A, B = Const('A_', T.SetC), Const('B_', T.SetC); c = Const('c_', T.Conf); c0 = Const('c0_', T.Conf)
    return [('least', [ForAll([c], Implies(Select(A, c), Select(B, c))), T.EcloP_least(P, A, T.EcloP(P.z, B)), Select(T.EcloP(P.z, A), c0)], Select(T.EcloP(P.z, B), c0))]


@proof('dfax', 'dhat-app')
def _():
    d = Const('d_', T.DeltaD); q = Const('q_', Atom)
    return word_ind(lambda v: ForAll([u_], T.dhat(d, q, T.app(u_, v)) == T.dhat(d, T.dhat(d, q, u_), v)))


@proof('dfax', 'Reach1-of-word')
def _():
    d = Const('d_', T.DeltaD); Sg = Const('Sg_', T.SetA); q = Const('q_', Atom)
    return word_ind(lambda v: Implies(And(v != Word.nil, T.over(Sg, v)), Select(T.Reach1(d, Sg, q), T.dhat(d, q, v))))


@proof('dfax', 'Reach1-has-word')
def _():
    d = Const('d_', T.DeltaD); Sg = Const('Sg_', T.SetA); q, x, a, y = Consts('q_ x_ a_ y_', Atom); v = Const('v_', Word)
    Tt = Const('T_', T.SetA)
    defT = ForAll([y], Select(Tt, y) == Exists([v], And(v != Word.nil, T.over(Sg, v), T.dhat(d, q, v) == y)))
    # the two closure conditions with explicit witnesses ([a] and snoc(v, a)), then the leastness instance
    seed = ('seed', [defT, Select(Sg, a)], Select(Tt, Select(d, T.mkKey2(q, a))))
    seedw = ('seed-witness', [Select(Sg, a)], And(Word.snoc(Word.nil, a) != Word.nil, T.over(Sg, Word.snoc(Word.nil, a)), T.dhat(d, q, Word.snoc(Word.nil, a)) == Select(d, T.mkKey2(q, a))))
    stepw = ('step-witness', [v != Word.nil, T.over(Sg, v), Select(Sg, a)], And(Word.snoc(v, a) != Word.nil, T.over(Sg, Word.snoc(v, a)), T.dhat(d, q, Word.snoc(v, a)) == Select(d, T.mkKey2(T.dhat(d, q, v), a))))
    closed = ('closed', [defT, Select(Tt, x), Select(Sg, a), ForAll([v, a], Implies(And(v != Word.nil, T.over(Sg, v), Select(Sg, a)), And(T.over(Sg, Word.snoc(v, a)), T.dhat(d, q, Word.snoc(v, a)) == Select(d, T.mkKey2(T.dhat(d, q, v), a)))))], Select(Tt, Select(d, T.mkKey2(x, a))))
    least = ('least', [defT, T.Reach_least(d, Sg, q, Tt, True), ForAll([a], Implies(Select(Sg, a), Select(Tt, Select(d, T.mkKey2(q, a))))),
                       ForAll([x, a], Implies(And(Select(Tt, x), Select(Sg, a)), Select(Tt, Select(d, T.mkKey2(x, a))))), Select(T.Reach1(d, Sg, q), y)],
             Exists([v], And(v != Word.nil, T.over(Sg, v), T.dhat(d, q, v) == y)))
    return [seedw, seed, stepw, closed, least]


@proof('dfax', 'nap-prefixes')
def _():
    d = Const('d_', T.DeltaD); Fs = Const('Fs_', T.SetA); q = Const('q_', Atom)
    return word_ind(lambda w: T.nap(d, Fs, q, w) == ForAll([u_], Implies(And(T.isprefix(u_, w), u_ != w), Not(Select(Fs, T.dhat(d, q, u_))))))


@proof('dfax', 'Eclo-no-eps')
def _():
    V = Const('V_', T.ViewN); e = Const('e_', Atom); S = Const('S0_', T.SetA); x, y = Consts('x_ y_', Atom)
    hyp = ForAll([x, y], Implies(Select(S, x), Not(Select(Select(V, T.mkKey2(x, e)), y))))
    return [('least', [hyp, T.Eclo_least(V, e, S, S)], ForAll([x], Select(T.Eclo(V, e, S), x) == Select(S, x)))]


@proof('dfax', 'dhat-cons')
def _():
    d = Const('d_', T.DeltaD); q, a = Consts('q_ a_', Atom)
    return word_ind(lambda v: T.dhat(d, q, T.cons(a, v)) == T.dhat(d, Select(d, T.mkKey2(q, a)), v))


@proof('dfax', 'rev-over')
def _():
    S = Const('S0_', T.SetA); a = Const('a_', Atom)
    aux = ForAll([a, w_], T.over(S, T.cons(a, w_)) == And(Select(S, a), T.over(S, w_)))
    return [('aux-' + t, h, g) for (t, h, g) in word_ind(lambda w: T.over(S, T.cons(a, w)) == And(Select(S, a), T.over(S, w)))] + \
           [(t, [aux] + h, g) for (t, h, g) in word_ind(lambda w: T.over(S, T.rev(w)) == T.over(S, w))]


@proof('dfax', 'rev-app')
def _():
    a = Const('a_', Atom)
    assoc = ForAll([u_, w_, a], T.app(u_, T.cons(a, w_)) == T.app(Word.snoc(u_, a), w_))
    assoc3 = ForAll([u_, v_, w_], T.app(T.app(u_, v_), w_) == T.app(u_, T.app(v_, w_)))
    p1 = [('assoc-' + t, h, g) for (t, h, g) in word_ind(lambda w: ForAll([u_, v_], T.app(T.app(u_, v_), w) == T.app(u_, T.app(v_, w))))]
    p2 = [(t, [assoc3] + h, g) for (t, h, g) in word_ind(lambda v: ForAll([u_], T.rev(T.app(u_, v)) == T.app(T.rev(v), T.rev(u_))))]
    return p1 + p2


@proof('dfax', 'rev-rev')
def _():
    return word_ind(lambda w: T.rev(T.rev(w)) == w)


@proof('dfax', 'noprefix-sim')
def _():
    D, N = SV(REC('DFA'), Const('D_', sort_of(REC('DFA')))), SV(REC('NFA'), Const('N_', T._NFAs))
    d, q0, Fz, Sg = T.dfa_delta_val(D), rec_get(D, 'q0').z, rec_get(D, 'F').z, rec_get(D, 'Sigma').z
    V, e = T.nfa_view(N), T._eps(N); x = Const('x_', Atom)
    hyp = T.np_struct(D, N)
    closed = ForAll([w_], Implies(T.over(Sg, w_), Select(rec_get(D, 'Q').z, T.dhat(d, q0, w_))))
    P = lambda w: Implies(T.over(Sg, w), ForAll([x], Select(T.Nhat(V, e, rec_get(N, 'q0').z, w), x) == And(T.nap(d, Fz, q0, w), x == T.dhat(d, q0, w))))
    return [('closed', [hyp], closed)] + [(t, [hyp, closed] + h, g) for (t, h, g) in word_ind(P)]


@proof('dfax', 'reverse-sim')
def _():
    D, N = SV(REC('DFA'), Const('D_', sort_of(REC('DFA')))), SV(REC('NFA'), Const('N_', T._NFAs))
    d, Fz, Sg, Q = T.dfa_delta_val(D), rec_get(D, 'F').z, rec_get(D, 'Sigma').z, rec_get(D, 'Q').z
    V, e, n0 = T.nfa_view(N), T._eps(N), rec_get(N, 'q0').z; x, y = Consts('x_ y_', Atom)
    hyp = T.rev_struct(D, N)
    seed = z3.Store(z3.K(Atom, False), n0, True)
    T0 = Const('T0_', T.SetA)
    defT0 = ForAll([x], Select(T0, x) == Or(x == n0, Select(Fz, x)))
    epsfact = ForAll([x, y], Select(Select(V, T.mkKey2(x, e)), y) == And(x == n0, Select(Fz, y)))
    nil_def = T.Nhat(V, e, n0, Word.nil) == T.Eclo(V, e, seed)
    base = [('base-eps', [hyp], epsfact), ('base-nil', [], nil_def),
            ('base-sub', [epsfact, defT0, T.Eclo_least(V, e, seed, T0)], ForAll([x], Implies(Select(T.Eclo(V, e, seed), x), Select(T0, x)))),
            ('base-sup', [epsfact, defT0], ForAll([x], Implies(Select(T0, x), Select(T.Eclo(V, e, seed), x)))),
            ('base', [nil_def, defT0, ForAll([x], Implies(Select(T.Eclo(V, e, seed), x), Select(T0, x))), ForAll([x], Implies(Select(T0, x), Select(T.Eclo(V, e, seed), x)))], ForAll([x], Select(T.Nhat(V, e, n0, Word.nil), x) == Select(T0, x)))]
    P = lambda w: Implies(T.over(Sg, w), ForAll([x], Select(T.Nhat(V, e, n0, w), x) == z3.If(w == Word.nil, Or(x == n0, Select(Fz, x)), And(Select(Q, x), Select(Fz, T.dhat(d, x, T.rev(w)))))))
    w = Const('w_', Word); a = Const('a_', Atom)
    M = T.move(V, T.Nhat(V, e, n0, w), a)
    # the move set is a set of D-states, which have no epsilon moves: its closure is itself
    mv = ('step-move', [hyp, P(w), T.over(Sg, Word.snoc(w, a))], ForAll([x], Select(M, x) == And(Select(Q, x), Select(Fz, T.dhat(d, x, T.rev(Word.snoc(w, a)))))))
    st = ('step', [hyp, T.over(Sg, Word.snoc(w, a)), ForAll([x], Select(M, x) == And(Select(Q, x), Select(Fz, T.dhat(d, x, T.rev(Word.snoc(w, a))))))], P(Word.snoc(w, a)))
    return base + [mv, st]


@proof('dfax', 'total-sim')
def _():
    D, R = SV(REC('DFA'), Const('D_', T._DFAs)), SV(REC('DFA'), Const('R_', T._DFAs))
    dl = rec_get(D, 'delta'); q0 = rec_get(D, 'q0').z; Sg = rec_get(D, 'Sigma').z
    d2 = T.dfa_delta_val(R); dm, dv = map_dom(dl), map_val(dl)
    hyp = T.tot_struct(D, R)
    P = lambda w: Implies(T.over(Sg, w), And(Select(rec_get(R, 'Q').z, T.dhat(d2, q0, w)),
                  z3.If(T.run_ok(dm, dv, q0, w), And(T.dhat(d2, q0, w) == T.dhat(dv, q0, w), Select(rec_get(D, 'Q').z, T.dhat(dv, q0, w))),
                        Not(Select(rec_get(D, 'Q').z, T.dhat(d2, q0, w))))))
    return [(t, [hyp] + h, g) for (t, h, g) in word_ind(P)]


@proof('iso', 'iso-witness')
def _():
    h = Const('h_', T.HMap); D1, D2 = Consts('D1_ D2_', T._DFAs)
    d1, d2 = SV(REC('DFA'), D1), SV(REC('DFA'), D2)
    choice = Implies(T.iso_pred(h, d1, d2), T.iso_pred(T.isofn(D1, D2), d1, d2))          # instance of isofn-choice
    return [('inst', [choice, T.iso_map_b(h, D1, D2) == T.iso_pred(h, d1, d2), T.iso_b(D1, D2) == T.iso_pred(T.isofn(D1, D2), d1, d2), T.iso_map_b(h, D1, D2)], T.iso_b(D1, D2))]


@proof('iso', 'rel_of-set-true')
def _():
    R, R2 = Consts('R_ R2_', T.RelA); k = Const('k_', T.Key2); j = Const('j_', T.Key2)
    lhs = T.rel_of(z3.Store(R, k, True), z3.Store(R2, k, True)); rhs = z3.Store(T.rel_of(R, R2), k, True)
    pw = ForAll([j], Select(lhs, j) == Select(rhs, j))
    return [('pointwise', [], pw), ('ext', [pw], lhs == rhs)]


@proof('iso', 'iso-rel-witness')
def _():
    R = Const('R_', T.RelA); D1, D2 = Consts('D1_ D2_', T._DFAs)
    d1, d2 = SV(REC('DFA'), D1), SV(REC('DFA'), D2)
    h = T.fn_of_rel(R)
    choice = Implies(T.iso_pred(h, d1, d2), T.iso_pred(T.isofn(D1, D2), d1, d2))          # instance of isofn-choice
    return [('inst', [choice, T.iso_rel_b(R, D1, D2) == T.iso_pred(h, d1, d2), T.iso_b(D1, D2) == T.iso_pred(T.isofn(D1, D2), d1, d2), T.iso_rel_b(R, D1, D2)], T.iso_b(D1, D2))]


def ext_eq(lhs, rhs, hyps=(), tag=''):
    """an equality of sets proved pointwise, then by extensionality"""
    x = fresh_z('x', Atom)
    pw = ForAll([x], Select(lhs, x) == Select(rhs, x))
    return [(tag + 'pointwise', list(hyps), pw), (tag + 'ext', [pw], lhs == rhs)]


_V_ = Const('V_', T.ViewN); _e_ = Const('e_', Atom); _S1 = Const('S1_', T.SetA); _S2 = Const('S2_', T.SetA); _a_ = Const('a_', Atom)


@proof('nfax', 'Nhat-is-NS')
def _():
    q = Const('q_', Atom)
    return word_ind(lambda w: T.Nhat(_V_, _e_, q, w) == T.NS(_V_, _e_, T.single(q), w))


@proof('nfax', 'Eclo-union')
def _():
    x = Const('x_', Atom)
    U12 = T.U(_S1, _S2); E = lambda S: T.Eclo(_V_, _e_, S)
    Tt = T.U(E(_S1), E(_S2))
    sub = ('sub', [T.Eclo_least(_V_, _e_, U12, Tt)], ForAll([x], Implies(Select(E(U12), x), Select(Tt, x))))
    sup1 = ('sup1', [T.Eclo_least(_V_, _e_, _S1, E(U12))], ForAll([x], Implies(Select(E(_S1), x), Select(E(U12), x))))
    sup2 = ('sup2', [T.Eclo_least(_V_, _e_, _S2, E(U12))], ForAll([x], Implies(Select(E(_S2), x), Select(E(U12), x))))
    fin = ext_eq(E(U12), Tt, [sub[2], sup1[2], sup2[2]])
    return [sub, sup1, sup2] + fin


@proof('nfax', 'move-union')
def _(): return ext_eq(T.move(_V_, T.U(_S1, _S2), _a_), T.U(T.move(_V_, _S1, _a_), T.move(_V_, _S2, _a_)))
@proof('nfax', 'move-empty')
def _(): return ext_eq(T.move(_V_, T.EMPTYA, _a_), T.EMPTYA)
@proof('nfax', 'Eclo-empty-eq')
def _(): return ext_eq(T.Eclo(_V_, _e_, T.EMPTYA), T.EMPTYA)
@proof('nfax', 'NS-union')
def _(): return word_ind(lambda w: T.NS(_V_, _e_, T.U(_S1, _S2), w) == T.U(T.NS(_V_, _e_, _S1, w), T.NS(_V_, _e_, _S2, w)))
@proof('nfax', 'NS-empty')
def _(): return word_ind(lambda w: T.NS(_V_, _e_, T.EMPTYA, w) == T.EMPTYA)
@proof('nfax', 'eclo-move-pw')
def _():
    x, y, q = Consts('x_ y_ q_', Atom)
    M = T.move(_V_, _S1, _a_)
    bs = ForAll([x], Select(T.Eclo(_V_, _e_, M), x) == z3.Exists([y], And(Select(M, y), Select(T.Eclo(_V_, _e_, T.single(y)), x))))      # instance of Eclo-by-singletons
    mv = ForAll([y], Select(M, y) == z3.Exists([q], And(Select(_S1, q), Select(Select(_V_, T.mkKey2(q, _a_)), y))))
    return [('by-singletons', [], bs), ('move', [], mv),
            ('combine', [bs, mv], ForAll([x], Select(T.Eclo(_V_, _e_, M), x) == z3.Exists([y, q], And(Select(_S1, q), Select(Select(_V_, T.mkKey2(q, _a_)), y), Select(T.Eclo(_V_, _e_, T.single(y)), x)))))]


@proof('nfax', 'Nhat-step-pw')
def _():
    q, x, y, y0 = Consts('q_ x_ y_ y0_', Atom); w = Const('w_', Word)
    Nh = T.Nhat(_V_, _e_, q, w); lhs = Select(T.Nhat(_V_, _e_, q, Word.snoc(w, _a_)), y)
    pw = ForAll([y], Select(T.Eclo(_V_, _e_, T.move(_V_, Nh, _a_)), y) == z3.Exists([y0, x], And(Select(Nh, x), Select(Select(_V_, T.mkKey2(x, _a_)), y0), Select(T.Eclo(_V_, _e_, T.single(y0)), y))))     # eclo-move-pw
    bs = ForAll([x, y], Select(T.Eclo(_V_, _e_, Select(_V_, T.mkKey2(x, _a_))), y) == z3.Exists([y0], And(Select(Select(_V_, T.mkKey2(x, _a_)), y0), Select(T.Eclo(_V_, _e_, T.single(y0)), y))))            # Eclo-by-singletons
    rhs = z3.Exists([x], And(Select(Nh, x), Select(T.Eclo(_V_, _e_, Select(_V_, T.mkKey2(x, _a_))), y)))
    return [('move-closure', [], pw), ('by-singletons', [], bs), ('fwd', [pw, bs, lhs], rhs), ('bwd', [pw, bs, rhs], lhs),
            ('both', [Implies(lhs, rhs), Implies(rhs, lhs)], lhs == rhs)]


@proof('nfax', 'Nhat-closed')
def _():
    q, x, y = Consts('q_ x_ y_', Atom); w = Const('w_', Word)
    Nh = T.Nhat(_V_, _e_, q, w)
    closed = ('closed', [], T.Eclo(_V_, _e_, Nh) == Nh)          # Nhat is NS of a singleton (Nhat-is-NS), which is closed (NS-closed)
    mono = ('mono', [Select(Nh, x), T.Eclo_least(_V_, _e_, T.single(x), T.Eclo(_V_, _e_, Nh))], T._sub(T.Eclo(_V_, _e_, T.single(x)), T.Eclo(_V_, _e_, Nh)))
    return [closed, mono, ('final', [closed[2], Implies(Select(Nh, x), mono[2]), Select(Nh, x), Select(T.Eclo(_V_, _e_, T.single(x)), y)], Select(Nh, y))]


@proof('nfax', 'NS-closed')
def _(): return word_ind(lambda w: T.Eclo(_V_, _e_, T.NS(_V_, _e_, _S1, w)) == T.NS(_V_, _e_, _S1, w))


def _embed_consts():
    VR, VN = Consts('VR_ VN_', T.ViewN); eR, eN = Consts('eR_ eN_', Atom); Q, Sg = Consts('Q_ Sg_', T.SetA)
    return VR, eR, VN, eN, Q, Sg


@proof('nfax', 'embed-eclo')
def _():
    VR, eR, VN, eN, Q, Sg = _embed_consts(); x = Const('x_', Atom)
    hyp = T.embed_pred(VR, eR, VN, eN, Q, Sg); sub = T._sub(_S1, Q)
    ER, EN = T.Eclo(VR, eR, _S1), T.Eclo(VN, eN, _S1)
    inQ = ('inQ', [hyp, sub, T.Eclo_least(VN, eN, _S1, Q)], T._sub(EN, Q))
    le = ('R-le-N', [hyp, sub, inQ[2], T.Eclo_least(VR, eR, _S1, EN)], T._sub(ER, EN))
    ge = ('N-le-R', [hyp, sub, inQ[2], le[2], T.Eclo_least(VN, eN, _S1, ER)], T._sub(EN, ER))
    return [inQ, le, ge] + ext_eq(ER, EN, [le[2], ge[2]])


@proof('nfax', 'embed-move')
def _():
    VR, eR, VN, eN, Q, Sg = _embed_consts()
    hyp = T.embed_pred(VR, eR, VN, eN, Q, Sg); sub = T._sub(_S1, Q)
    return ext_eq(T.move(VR, _S1, _a_), z3.If(Select(Sg, _a_), T.move(VN, _S1, _a_), T.EMPTYA), [hyp, sub, _a_ != eR]) + [('inQ', [hyp, sub], T._sub(T.move(VN, _S1, _a_), Q))]


@proof('nfax', 'embed-sim')
def _():
    VR, eR, VN, eN, Q, Sg = _embed_consts(); SgR = Const('SgR_', T.SetA)
    hyp = T.embed_b(VR, eR, VN, eN, Q, Sg); sub = T._sub(_S1, Q); ne = Not(Select(SgR, eR))
    w = Const('w_', Word); a = _a_
    P = lambda w: Implies(T.over(SgR, w), And(T.NS(VR, eR, _S1, w) == z3.If(T.over(Sg, w), T.NS(VN, eN, _S1, w), T.EMPTYA), T._sub(T.NS(VR, eR, _S1, w), Q)))
    base = ('base', [hyp, sub, ne], P(Word.nil))
    X = T.NS(VR, eR, _S1, w); XN = T.NS(VN, eN, _S1, w); M = T.move(VR, X, a); MN = T.move(VN, X, a)
    ctx = [hyp, sub, ne, P(w), T.over(SgR, Word.snoc(w, a))]
    s1 = ('step-1', ctx, And(T._sub(X, Q), a != eR, X == z3.If(T.over(Sg, w), XN, T.EMPTYA)))
    s2 = ('step-2', [hyp, s1[2]], And(M == z3.If(Select(Sg, a), MN, T.EMPTYA), T._sub(MN, Q)))
    s3 = ('step-3', [s2[2]], T._sub(M, Q))
    s4 = ('step-4', [hyp, s3[2]], And(T.Eclo(VR, eR, M) == T.Eclo(VN, eN, M), T._sub(T.Eclo(VN, eN, M), Q)))
    s5 = ('step-5', [s1[2], s2[2], s4[2], T.over(SgR, Word.snoc(w, a))], And(T.NS(VR, eR, _S1, Word.snoc(w, a)) == z3.If(T.over(Sg, Word.snoc(w, a)), T.NS(VN, eN, _S1, Word.snoc(w, a)), T.EMPTYA),
                                                                               T._sub(T.NS(VR, eR, _S1, Word.snoc(w, a)), Q)))
    return [base, s1, s2, s3, s4, s5]


def _nfa_consts(*names):
    return [SV(REC('NFA'), Const(n, T._NFAs)) for n in names]


@proof('nfax', 'union-sim')
def _():
    N1, N2, R = _nfa_consts('N1_', 'N2_', 'R_')
    V1, V2, VR = T.nfa_view(N1), T.nfa_view(N2), T.nfa_view(R); e1, e2 = T._eps(N1), T._eps(N2)
    Q1, Q2, S1, S2, SR = rec_get(N1, 'Q').z, rec_get(N2, 'Q').z, rec_get(N1, 'Sigma').z, rec_get(N2, 'Sigma').z, rec_get(R, 'Sigma').z
    r0, q1, q2 = rec_get(R, 'q0').z, rec_get(N1, 'q0').z, rec_get(N2, 'q0').z
    x = Const('x_', Atom); w = Const('w_', Word); a = _a_
    st = T.union_struct(N1, N2, R)
    wf = ('view-wf', [st], And(T.view_wf(N1), T.view_wf(N2)))
    facts = [st, wf[2]]
    em1 = ('embed-1', facts, T.embed_b(VR, e1, V1, e1, Q1, S1))
    em2 = ('embed-2', facts, T.embed_b(VR, e1, V2, e2, Q2, S2))
    I = T.U(T.single(q1), T.single(q2))
    top = lambda w: z3.If(w == Word.nil, T.single(r0), T.EMPTYA)
    NSR = lambda S, w: T.NS(VR, e1, S, w)
    # (1) from the new initial state: itself (empty word only) and whatever is reachable from the two old initial states
    ER = lambda S: T.Eclo(VR, e1, S)
    Tt = T.U(T.single(r0), ER(I))
    b_sub = ('top-base-sub', facts + [T.Eclo_least(VR, e1, T.single(r0), Tt)], T._sub(ER(T.single(r0)), Tt))
    b_sup0 = ('top-base-sup0', facts, T._sub(I, ER(T.single(r0))))
    b_sup1 = ('top-base-sup1', [b_sup0[2], T.Eclo_least(VR, e1, I, ER(T.single(r0)))], T._sub(ER(I), ER(T.single(r0))))
    b_sup = ('top-base-sup', [b_sup1[2]], T._sub(Tt, ER(T.single(r0))))
    b_eq = ext_eq(NSR(T.single(r0), Word.nil), T.U(top(Word.nil), NSR(I, Word.nil)), [b_sub[2], b_sup[2]], 'top-base-')
    Ptop = lambda w: Implies(T.over(SR, w), NSR(T.single(r0), w) == T.U(top(w), NSR(I, w)))
    mv0 = ('top-step-move', facts + [Select(SR, a)], T.move(VR, T.single(r0), a) == T.EMPTYA)
    mv1 = ('top-step-move-nil', facts + [Select(SR, a)], T.move(VR, top(w), a) == T.EMPTYA)
    stp = ('top-step', [Ptop(w), mv1[2], T.over(SR, Word.snoc(w, a))], NSR(T.single(r0), Word.snoc(w, a)) == T.U(top(Word.snoc(w, a)), NSR(I, Word.snoc(w, a))))
    allw = ForAll([w], Ptop(w))
    # (2) from the two old initial states: the two operands run side by side
    split = ForAll([w], Implies(T.over(SR, w), And(NSR(I, w) == T.U(z3.If(T.over(S1, w), T.NS(V1, e1, T.single(q1), w), T.EMPTYA), z3.If(T.over(S2, w), T.NS(V2, e2, T.single(q2), w), T.EMPTYA)),
                                                  T._sub(NSR(T.single(q1), w), Q1), T._sub(NSR(T.single(q2), w), Q2))))
    pre = ('split-pre', facts, And(Not(Select(SR, e1)), T._sub(T.single(q1), Q1), T._sub(T.single(q2), Q2)))
    inst1 = Implies(T.over(SR, w), And(NSR(T.single(q1), w) == z3.If(T.over(S1, w), T.NS(V1, e1, T.single(q1), w), T.EMPTYA), T._sub(NSR(T.single(q1), w), Q1)))
    inst2 = Implies(T.over(SR, w), And(NSR(T.single(q2), w) == z3.If(T.over(S2, w), T.NS(V2, e2, T.single(q2), w), T.EMPTYA), T._sub(NSR(T.single(q2), w), Q2)))
    sp1 = ('split-1', [em1[2], pre[2]], inst1)
    sp2 = ('split-2', [em2[2], pre[2]], inst2)
    sp = ('split', [ForAll([w], inst1), ForAll([w], inst2)], split)
    # (3) acceptance
    goal = Implies(T.over(SR, w), T.accepts_z(R, w) == Or(And(T.over(S1, w), T.accepts_z(N1, w)), And(T.over(S2, w), T.accepts_z(N2, w))))
    NhR, Nh1, Nh2 = T.Nhat(VR, e1, r0, w), T.Nhat(V1, e1, q1, w), T.Nhat(V2, e2, q2, w)
    a1 = ('accept-1', [allw, split, T.over(SR, w)], ForAll([x], Select(NhR, x) == Or(And(w == Word.nil, x == r0), And(T.over(S1, w), Select(Nh1, x)), And(T.over(S2, w), Select(Nh2, x)))))
    a2 = ('accept-2', [inst1, inst2, T.over(SR, w)], And(ForAll([x], Implies(And(T.over(S1, w), Select(Nh1, x)), Select(Q1, x))), ForAll([x], Implies(And(T.over(S2, w), Select(Nh2, x)), Select(Q2, x)))))
    fin = ('accept', facts + [a1[2], a2[2]], goal)
    return [wf, em1, em2, b_sub, b_sup0, b_sup1, b_sup] + b_eq + [mv0, mv1, stp, pre, sp1, sp2, sp, a1, a2, fin]


def _cat_setup():
    N1, N2, R = _nfa_consts('N1_', 'N2_', 'R_')
    d = dict(N1=N1, N2=N2, R=R, V1=T.nfa_view(N1), V2=T.nfa_view(N2), VR=T.nfa_view(R), e1=T._eps(N1), e2=T._eps(N2),
             Q1=rec_get(N1, 'Q').z, Q2=rec_get(N2, 'Q').z, S1=rec_get(N1, 'Sigma').z, S2=rec_get(N2, 'Sigma').z, SR=rec_get(R, 'Sigma').z,
             q1=rec_get(N1, 'q0').z, q2=rec_get(N2, 'q0').z, F1=rec_get(N1, 'F').z, F2=rec_get(N2, 'F').z)
    d['st'] = T.cat_struct(N1, N2, R)
    d['wf'] = ('view-wf', [d['st']], And(T.view_wf(N1), T.view_wf(N2)))
    d['facts'] = [d['st'], d['wf'][2]]
    d['em2'] = ('embed-2', d['facts'], T.embed_b(d['VR'], d['e1'], d['V2'], d['e2'], d['Q2'], d['S2']))
    return d


@proof('nfax', 'cat-eclo')
def _():
    c = _cat_setup(); x = Const('x_', Atom); Y = _S1
    VR, V1, V2, e1, e2, Q1, Q2 = c['VR'], c['V1'], c['V2'], c['e1'], c['e2'], c['Q1'], c['Q2']
    sub = T._sub(Y, Q1)
    E1 = T.Eclo(V1, e1, Y); E2s = T.Eclo(V2, e2, T.single(c['q2'])); ER = T.Eclo(VR, e1, Y)
    hit = T.hitF(c['N1'].z, E1)
    Tt = T.U(E1, z3.If(hit, E2s, T.EMPTYA))
    in1 = ('E1-in-Q1', c['facts'] + [sub, T.Eclo_least(V1, e1, Y, Q1)], T._sub(E1, Q1))
    in2 = ('E2-in-Q2', c['facts'] + [T.Eclo_least(V2, e2, T.single(c['q2']), Q2)], T._sub(E2s, Q2))
    y = Const('y_', Atom)
    closed = ForAll([x, y], Implies(And(Select(Tt, x), Select(Select(VR, T.mkKey2(x, e1)), y)), Select(Tt, y)))
    cl1 = ('closed-hit', c['facts'] + [in1[2], in2[2], hit], closed)
    cl2 = ('closed-nohit', c['facts'] + [in1[2], in2[2], Not(hit)], closed)
    seed = ('seed', [], T._sub(Y, Tt))
    le = ('R-le', [seed[2], closed, T.Eclo_least(VR, e1, Y, Tt)], T._sub(ER, Tt))
    ge1 = ('ge-1', c['facts'] + [sub, T.Eclo_least(V1, e1, Y, ER)], T._sub(E1, ER))
    ge2a = ('ge-2a', c['facts'] + [ge1[2], in1[2], hit], Select(ER, c['q2']))
    ge2 = ('ge-2', c['facts'] + [T.Eclo_least(V2, e2, T.single(c['q2']), ER), Implies(hit, Select(ER, c['q2']))], Implies(hit, T._sub(E2s, ER)))
    return [c['wf'], in1, in2, cl1, cl2, seed, le, ge1, ge2a, ge2] + ext_eq(ER, Tt, [le[2], ge1[2], ge2[2]])


@proof('nfax', 'Bcat-char')
def _():
    c = _cat_setup(); N1z, N2z = c['N1'].z, c['N2'].z
    x, y, z = Consts('x_ y_ z_', Atom); k = Const('k_', z3.IntSort()); w = Const('w_', Word); a = _a_
    V2, e2, S2 = c['V2'], c['e2'], c['S2']; s2 = T.single(c['q2'])
    K = lambda k, w, x: And(0 <= k, k <= T.wlen(w), T.lang_b(N1z, T.take(k, w)), T.over(S2, T.drop(k, w)), Select(T.NS(V2, e2, s2, T.drop(k, w)), x))
    P = lambda w: ForAll([x], Select(T.Bcat(N1z, N2z, w), x) == z3.Exists([k], K(k, w, x)))
    base1 = ('base-fwd', [Select(T.Bcat(N1z, N2z, Word.nil), x)], K(0, Word.nil, x))
    base2 = ('base-bwd', [K(k, Word.nil, x)], Select(T.Bcat(N1z, N2z, Word.nil), x))
    base = ('base', [ForAll([x], Implies(Select(T.Bcat(N1z, N2z, Word.nil), x), K(0, Word.nil, x))), ForAll([x, k], Implies(K(k, Word.nil, x), Select(T.Bcat(N1z, N2z, Word.nil), x)))], P(Word.nil))
    wa = Word.snoc(w, a)
    start = And(T.lang_b(N1z, wa), Select(T.Eclo(V2, e2, s2), x))
    mv = And(Select(S2, a), Select(T.Eclo(V2, e2, T.move(V2, T.Bcat(N1z, N2z, w), a)), x))
    unfold = ('step-unfold', [], Select(T.Bcat(N1z, N2z, wa), x) == Or(mv, start))
    f1 = ('step-fwd-start', [start], K(T.wlen(w) + 1, wa, x))
    # a move: some state z of Bcat(w) has an a-move to y whose closure contains x; z comes with a split position k of w
    f2 = ('step-fwd-move', [Select(S2, a), K(k, w, z), Select(Select(V2, T.mkKey2(z, a)), y), Select(T.Eclo(V2, e2, T.single(y)), x)], K(k, wa, x))
    f2b = ('step-fwd-move-all', [P(w), mv, ForAll([k, z, y], Implies(And(Select(S2, a), K(k, w, z), Select(Select(V2, T.mkKey2(z, a)), y), Select(T.Eclo(V2, e2, T.single(y)), x)), K(k, wa, x)))], z3.Exists([k], K(k, wa, x)))
    b1 = ('step-bwd-last', [K(k, wa, x), k == T.wlen(w) + 1], start)
    b2 = ('step-bwd-inner', [P(w), K(k, wa, x), k <= T.wlen(w)], mv)
    fin = ('step', [ForAll([x], Select(T.Bcat(N1z, N2z, wa), x) == Or(mv, start)), ForAll([x], Implies(start, K(T.wlen(w) + 1, wa, x))), ForAll([x], Implies(mv, z3.Exists([k], K(k, wa, x)))),
                    ForAll([x, k], Implies(And(K(k, wa, x), k == T.wlen(w) + 1), start)), ForAll([x, k], Implies(And(K(k, wa, x), k <= T.wlen(w)), mv))], P(wa))
    return [base1, base2, base, unfold, f1, f2, f2b, b1, b2, fin]


@proof('nfax', 'cat-sim')
def _():
    c = _cat_setup(); N1z, N2z = c['N1'].z, c['N2'].z
    VR, V1, V2, e1, e2, Q1, Q2, S1, S2, SR = c['VR'], c['V1'], c['V2'], c['e1'], c['e2'], c['Q1'], c['Q2'], c['S1'], c['S2'], c['SR']
    x = Const('x_', Atom); w = Const('w_', Word); a = _a_; wa = Word.snoc(w, a)
    s1 = T.single(c['q1']); s2 = T.single(c['q2'])
    stb = T.cat_b(N1z, N2z, c['R'].z)            # opaque form, for the lemma cat-eclo
    C = lambda w: T.NS(VR, e1, s1, w)
    A = lambda w: z3.If(T.over(S1, w), T.NS(V1, e1, s1, w), T.EMPTYA)
    B = lambda w: T.Bcat(N1z, N2z, w)
    E2s = T.Eclo(V2, e2, s2)
    hitw = lambda w: T.hitF(N1z, T.Eclo(V1, e1, s1) if w is None else T.Eclo(V1, e1, T.move(V1, A(w), a)))
    P = lambda w: Implies(T.over(SR, w), And(C(w) == T.U(A(w), B(w)), T._sub(A(w), Q1), T._sub(B(w), Q2)))
    facts = c['facts'] + [stb]
    # ---- base
    b0 = ('base-eclo', facts, T.Eclo(VR, e1, s1) == T.U(T.Eclo(V1, e1, s1), z3.If(hitw(None), E2s, T.EMPTYA)))
    b1 = ('base-hit', facts, hitw(None) == T.lang_b(N1z, Word.nil))
    b2 = ('base-sub', facts + [T.Eclo_least(V1, e1, s1, Q1), T.Eclo_least(V2, e2, s2, Q2)], And(T._sub(T.Eclo(V1, e1, s1), Q1), T._sub(E2s, Q2)))
    base = ('base', [b0[2], b1[2], b2[2]], P(Word.nil))
    # ---- step
    ctx = facts + [P(w), T.over(SR, wa), c['em2'][2]]
    M1 = T.move(V1, A(w), a); M2 = z3.If(Select(S2, a), T.move(V2, B(w), a), T.EMPTYA)
    pre = ('step-pre', ctx, And(T._sub(A(w), Q1), T._sub(B(w), Q2), Select(SR, a), a != e1, C(w) == T.U(A(w), B(w))))
    m1a = ext_eq(T.move(VR, A(w), a), M1, c['facts'] + [pre[2]], 'step-move-1-')
    m1 = ('step-move-1', c['facts'] + [pre[2], m1a[1][2]], And(T.move(VR, A(w), a) == M1, T._sub(M1, Q1), a != e1))
    m2 = ('step-move-2', ctx, And(T.move(VR, B(w), a) == M2, T._sub(M2, Q2)))
    mv = ('step-move', [pre[2], m1[2], m2[2]], T.move(VR, C(w), a) == T.U(M1, M2))
    e1_ = ('step-eclo-1', [stb, m1[2]], T.Eclo(VR, e1, M1) == T.U(T.Eclo(V1, e1, M1), z3.If(hitw(w), E2s, T.EMPTYA)))
    e2_ = ('step-eclo-2', facts + [c['em2'][2], m2[2]], And(T.Eclo(VR, e1, M2) == T.Eclo(V2, e2, M2), T._sub(T.Eclo(V2, e2, M2), Q2)))
    ec = ('step-eclo', [mv[2], e1_[2], e2_[2]], C(wa) == T.U(T.U(T.Eclo(V1, e1, M1), z3.If(hitw(w), E2s, T.EMPTYA)), T.Eclo(V2, e2, M2)))
    a1 = ('step-A', facts + [T.over(SR, wa)], A(wa) == T.Eclo(V1, e1, M1))
    h1 = ('step-hit', facts + [a1[2], T.over(SR, wa)], hitw(w) == T.lang_b(N1z, wa))
    bb = ('step-B', [h1[2]], B(wa) == T.U(T.Eclo(V2, e2, M2), z3.If(hitw(w), E2s, T.EMPTYA)))
    sb1 = ('step-sub-1', c['facts'] + [m1[2], T.Eclo_least(V1, e1, M1, Q1)], T._sub(T.Eclo(V1, e1, M1), Q1))
    sb2 = ('step-sub-2', c['facts'] + [T.Eclo_least(V2, e2, s2, Q2)], T._sub(E2s, Q2))
    sb = ('step-sub', [sb1[2], sb2[2], e2_[2], a1[2], bb[2]], And(T._sub(A(wa), Q1), T._sub(B(wa), Q2)))
    fin = ext_eq(C(wa), T.U(A(wa), B(wa)), [ec[2], a1[2], bb[2]], 'step-')
    stp = ('step', [fin[1][2], sb[2]], P(wa))
    return [c['wf'], c['em2'], b0, b1, b2, base, pre] + m1a + [m1, m2, mv, e1_, e2_, ec, a1, h1, bb, sb1, sb2, sb] + fin + [stp]


@proof('nfax', 'cat-lang')
def _():
    c = _cat_setup(); N1z, N2z, Rz = c['N1'].z, c['N2'].z, c['R'].z
    VR, V1, V2, e1, e2, Q1, Q2, S1, S2, SR = c['VR'], c['V1'], c['V2'], c['e1'], c['e2'], c['Q1'], c['Q2'], c['S1'], c['S2'], c['SR']
    x = Const('x_', Atom); w = Const('w_', Word); k = Const('k_', z3.IntSort())
    s1 = T.single(c['q1']); s2 = T.single(c['q2']); stb = T.cat_b(N1z, N2z, Rz)
    A = z3.If(T.over(S1, w), T.NS(V1, e1, s1, w), T.EMPTYA); B = T.Bcat(N1z, N2z, w)
    facts = c['facts'] + [stb, T.over(SR, w)]
    inA = ('A-in-Q1', facts + [T.embed_b(V1, e1, V1, e1, Q1, S1)], T._sub(A, Q1))
    selfem = ('self-embed', c['facts'], T.embed_b(V1, e1, V1, e1, Q1, S1))
    accR = ('acc-R', facts + [inA[2]], T.acc_b(Rz, w) == z3.Exists([x], And(Select(c['F2'], x), Select(B, x))))
    char = ForAll([x], Select(B, x) == z3.Exists([k], And(0 <= k, k <= T.wlen(w), T.lang_b(N1z, T.take(k, w)), T.over(S2, T.drop(k, w)), Select(T.NS(V2, e2, s2, T.drop(k, w)), x))))
    ch = ('char', [], char)
    acc2 = ('acc-2', [], ForAll([k], T.acc_b(N2z, T.drop(k, w)) == z3.Exists([x], And(Select(c['F2'], x), Select(T.NS(V2, e2, s2, T.drop(k, w)), x)))))
    goal = T.acc_b(Rz, w) == z3.Exists([k], And(0 <= k, k <= T.wlen(w), T.lang_b(N1z, T.take(k, w)), T.lang_b(N2z, T.drop(k, w))))
    fwd = ('fwd', [accR[2], char, acc2[2], T.acc_b(Rz, w)], z3.Exists([k], And(0 <= k, k <= T.wlen(w), T.lang_b(N1z, T.take(k, w)), T.lang_b(N2z, T.drop(k, w)))))
    bwd = ('bwd', [accR[2], char, acc2[2], And(0 <= k, k <= T.wlen(w), T.lang_b(N1z, T.take(k, w)), T.lang_b(N2z, T.drop(k, w)))], T.acc_b(Rz, w))
    fin = ('final', [Implies(T.acc_b(Rz, w), fwd[2]), ForAll([k], Implies(And(0 <= k, k <= T.wlen(w), T.lang_b(N1z, T.take(k, w)), T.lang_b(N2z, T.drop(k, w))), T.acc_b(Rz, w)))], goal)
    return [c['wf'], selfem, inA, accR, ch, acc2, fwd, bwd, fin]


def _star_setup():
    N, R = _nfa_consts('N_', 'R_')
    d = dict(N=N, R=R, VN=T.nfa_view(N), VR=T.nfa_view(R), e=T._eps(N), Q=rec_get(N, 'Q').z, Sg=rec_get(N, 'Sigma').z, q0=rec_get(N, 'q0').z, r0=rec_get(R, 'q0').z, F=rec_get(N, 'F').z)
    d['st'] = T.star_struct(N, R)
    d['wf'] = ('view-wf', [d['st']], T.view_wf(N))
    d['facts'] = [d['st'], d['wf'][2]]
    return d


@proof('nfastar', 'star-eclo')
def _():
    c = _star_setup(); Nz = c['N'].z; Y = _S1; x = Const('x_', Atom)
    VN, VR, e, Q = c['VN'], c['VR'], c['e'], c['Q']
    sub = T._sub(Y, Q); s0 = T._s0(Nz)
    EN = T.Eclo(VN, e, Y); E0 = T.Eclo(VN, e, s0); ER = T.Eclo(VR, e, Y)
    hit = T._hit(Nz, EN)
    Tt = T.U(EN, z3.If(hit, E0, T.EMPTYA))
    in1 = ('EN-in-Q', c['facts'] + [sub, T.Eclo_least(VN, e, Y, Q)], T._sub(EN, Q))
    in2 = ('E0-in-Q', c['facts'] + [T.Eclo_least(VN, e, s0, Q)], And(T._sub(E0, Q), Select(E0, c['q0'])))
    y = Const('y_', Atom)
    closed = ForAll([x, y], Implies(And(Select(Tt, x), Select(Select(VR, T.mkKey2(x, e)), y)), Select(Tt, y)))
    cl1 = ('closed-hit', c['facts'] + [in1[2], in2[2], hit], closed)
    cl2 = ('closed-nohit', c['facts'] + [in1[2], in2[2], Not(hit)], closed)
    seed = ('seed', [], T._sub(Y, Tt))
    le = ('R-le', [seed[2], closed, T.Eclo_least(VR, e, Y, Tt)], T._sub(ER, Tt))
    ge1 = ('ge-1', c['facts'] + [sub, T.Eclo_least(VN, e, Y, ER)], T._sub(EN, ER))
    ge2a = ('ge-2a', c['facts'] + [ge1[2], in1[2], hit], Select(ER, c['q0']))
    ge2 = ('ge-2', c['facts'] + [T.Eclo_least(VN, e, s0, ER), Implies(hit, Select(ER, c['q0']))], Implies(hit, T._sub(E0, ER)))
    return [c['wf'], in1, in2, cl1, cl2, seed, le, ge1, ge2a, ge2] + ext_eq(ER, Tt, [le[2], ge1[2], ge2[2]])


@proof('nfastar', 'Sstar-char')
def _():
    N, = _nfa_consts('N_'); Nz = N.z
    VN, e, Sg, F = T.nfa_view(N), T._eps(N), rec_get(N, 'Sigma').z, rec_get(N, 'F').z
    wfh = T.s_nfa_wf(None, N).z
    x, y, z, f = Consts('x_ y_ z_ f_', Atom); k, j = Consts('k_ j_', z3.IntSort()); w = Const('w_', Word); a = _a_; wa = Word.snoc(w, a)
    s0 = T._s0(Nz); E0 = T.Eclo(VN, e, s0)
    SL = lambda u: T.starL(Nz, u)
    K = lambda k, w, x: And(0 <= k, k <= T.wlen(w), SL(T.take(k, w)), T.over(Sg, T.drop(k, w)), Select(T.NS(VN, e, s0, T.drop(k, w)), x))
    S = lambda w: T.Sstar(Nz, w)
    P = lambda w: ForAll([x], Select(S(w), x) == z3.Exists([k], K(k, w, x)))
    base1 = ('base-fwd', [Select(S(Word.nil), x)], K(0, Word.nil, x))
    base2 = ('base-bwd', [K(k, Word.nil, x)], Select(S(Word.nil), x))
    base = ('base', [ForAll([x], Implies(Select(S(Word.nil), x), K(0, Word.nil, x))), ForAll([x, k], Implies(K(k, Word.nil, x), Select(S(Word.nil), x)))], P(Word.nil))
    M = T.move(VN, S(w), a); EM = T.Eclo(VN, e, M); hit = T._hit(Nz, EM)
    inner = lambda x: And(Select(Sg, a), Select(EM, x))                     # x is reached by continuing the current round
    again = lambda x: And(Select(Sg, a), hit, Select(E0, x))                # a round has just been completed and a new one starts
    unfold = ('step-unfold', [], Select(S(wa), x) == Or(inner(x), again(x)))
    # continuing: some z in S(w) moves by a to y whose closure contains x; z comes with a split position k of w, which also splits wa
    f2 = ('step-fwd-inner-1', [Select(Sg, a), K(k, w, z), Select(Select(VN, T.mkKey2(z, a)), y), Select(T.Eclo(VN, e, T.single(y)), x)], K(k, wa, x))
    allf2 = ForAll([k, z, y, x], Implies(And(Select(Sg, a), K(k, w, z), Select(Select(VN, T.mkKey2(z, a)), y), Select(T.Eclo(VN, e, T.single(y)), x)), K(k, wa, x)))
    f2b = ('step-fwd-inner', [P(w), inner(x), allf2], z3.Exists([k], And(K(k, wa, x), k <= T.wlen(w))))
    innerK = ForAll([x], Implies(inner(x), z3.Exists([k], And(K(k, wa, x), k <= T.wlen(w)))))
    # a completed round: some accepting f is reached by continuing, so wa is in the star language
    lw = ('step-lang', [wfh, K(k, wa, f), k <= T.wlen(w), Select(F, f)], And(T.lang_b(Nz, T.drop(k, wa)), SL(T.take(k, wa)), k < T.wlen(wa)))
    sw = ('step-star', [K(k, wa, f), k <= T.wlen(w), And(T.lang_b(Nz, T.drop(k, wa)), SL(T.take(k, wa)), k < T.wlen(wa))], SL(wa))
    f3 = ('step-fwd-again', [innerK, again(x), ForAll([k, f], Implies(And(K(k, wa, f), k <= T.wlen(w), Select(F, f)), SL(wa)))], K(T.wlen(w) + 1, wa, x))
    # backwards
    b2 = ('step-bwd-inner', [P(w), K(k, wa, x), k <= T.wlen(w)], inner(x))
    innerB = ForAll([x, k], Implies(And(K(k, wa, x), k <= T.wlen(w)), inner(x)))
    b1a = ('step-bwd-last-1', [wfh, SL(wa)], z3.Exists([j, f], And(K(j, wa, f), j <= T.wlen(w), Select(F, f))))
    b1 = ('step-bwd-last', [innerB, K(k, wa, x), k == T.wlen(w) + 1, Implies(SL(wa), z3.Exists([j, f], And(K(j, wa, f), j <= T.wlen(w), Select(F, f))))], again(x))
    fin = ('step', [ForAll([x], Select(S(wa), x) == Or(inner(x), again(x))), innerK, ForAll([x], Implies(again(x), K(T.wlen(w) + 1, wa, x))),
                    innerB, ForAll([x, k], Implies(And(K(k, wa, x), k == T.wlen(w) + 1), again(x)))], P(wa))
    return [base1, base2, base, unfold, f2, f2b, lw, sw, f3, b2, b1a, b1, fin]


@proof('nfastar', 'star-sim')
def _():
    c = _star_setup(); Nz, Rz = c['N'].z, c['R'].z
    VN, VR, e, Q, Sg, r0 = c['VN'], c['VR'], c['e'], c['Q'], c['Sg'], c['r0']
    x = Const('x_', Atom); w = Const('w_', Word); a = _a_; wa = Word.snoc(w, a)
    stb = T.star_b(Nz, Rz); facts = c['facts'] + [stb]
    s0 = T._s0(Nz); sr = T.single(r0); E0 = T.Eclo(VN, e, s0)
    C = lambda w: T.NS(VR, e, sr, w); S = lambda w: T.Sstar(Nz, w)
    top = lambda w: z3.If(w == Word.nil, sr, T.EMPTYA)
    P = lambda w: Implies(T.over(Sg, w), And(C(w) == T.U(top(w), S(w)), T._sub(S(w), Q)))
    # base: closure of the new initial state = itself + closure (in R) of N's initial state = itself + closure in N
    ER0 = T.Eclo(VR, e, s0); Tt = T.U(sr, ER0)
    b1 = ('base-sub', facts + [T.Eclo_least(VR, e, sr, Tt)], T._sub(T.Eclo(VR, e, sr), Tt))
    b2a = ('base-sup0', facts, T._sub(s0, T.Eclo(VR, e, sr)))
    b2b = ('base-sup1', [b2a[2], T.Eclo_least(VR, e, s0, T.Eclo(VR, e, sr))], T._sub(ER0, T.Eclo(VR, e, sr)))
    b3 = ('base-R0', facts + [T.Eclo_least(VN, e, s0, Q)], And(ER0 == E0, T._sub(E0, Q)))
    beq = ext_eq(C(Word.nil), T.U(top(Word.nil), S(Word.nil)), [b1[2], b2b[2], b3[2]], 'base-')
    base = ('base', [beq[1][2], b3[2]], P(Word.nil))
    # step
    ctx = facts + [P(w), T.over(Sg, wa)]
    M = T.move(VN, S(w), a)
    m0 = ('step-move-top', facts + [Select(Sg, a)], T.move(VR, top(w), a) == T.EMPTYA)
    pre = ('step-pre', ctx, And(T._sub(S(w), Q), Select(Sg, a), a != e, T.over(Sg, w), C(w) == T.U(top(w), S(w))))
    m1a = ext_eq(T.move(VR, S(w), a), M, c['facts'] + [pre[2]], 'step-move-S-')
    m1 = ('step-move-S', c['facts'] + [pre[2], m1a[1][2]], And(T.move(VR, S(w), a) == M, T._sub(M, Q)))
    mv = ('step-move', [pre[2], m0[2], m1[2]], T.move(VR, C(w), a) == M)
    AG = T._again(Nz, T._EN(Nz, M))
    e1_ = ('step-eclo-1', [stb, m1[2]], T.Eclo(VR, e, M) == AG)
    e2_ = ('step-eclo-2', [mv[2]], C(wa) == T.Eclo(VR, e, M))
    e3_ = ('step-eclo-3', [pre[2]], S(wa) == AG)
    ec = ('step-eclo', [e1_[2], e2_[2], e3_[2]], C(wa) == S(wa))
    sb = ('step-sub', facts + [m1[2], T.over(Sg, wa), T.Eclo_least(VN, e, M, Q), T.Eclo_least(VN, e, s0, Q)], T._sub(S(wa), Q))
    feq = ext_eq(C(wa), T.U(top(wa), S(wa)), [ec[2]], 'step-')
    stp = ('step', [feq[1][2], sb[2]], P(wa))
    return [c['wf'], b1, b2a, b2b, b3] + beq + [base, m0, pre] + m1a + [m1, mv, e1_, e2_, e3_, ec, sb] + feq + [stp]


@proof('nfastar', 'star-lang')
def _():
    c = _star_setup(); Nz, Rz = c['N'].z, c['R'].z
    VN, VR, e, Q, Sg, r0, F = c['VN'], c['VR'], c['e'], c['Q'], c['Sg'], c['r0'], c['F']
    x, f = Consts('x_ f_', Atom); w = Const('w_', Word); k = Const('k_', z3.IntSort())
    stb = T.star_b(Nz, Rz); facts = c['facts'] + [stb, T.over(Sg, w)]
    s0 = T._s0(Nz); S = T.Sstar(Nz, w)
    K = lambda k, x: And(0 <= k, k <= T.wlen(w), T.starL(Nz, T.take(k, w)), T.over(Sg, T.drop(k, w)), Select(T.NS(VN, e, s0, T.drop(k, w)), x))
    inQ = ('S-in-Q', facts + [T.embed_b(VN, e, VN, e, Q, Sg)], T._sub(S, Q))
    selfem = ('self-embed', c['facts'], T.embed_b(VN, e, VN, e, Q, Sg))
    nh = ('nhat-R', facts, T.Nhat(VR, e, r0, w) == T.U(z3.If(w == Word.nil, T.single(r0), T.EMPTYA), S))
    accR = ('acc-R', c['facts'] + [inQ[2], nh[2]], T.acc_b(Rz, w) == Or(w == Word.nil, z3.Exists([f], And(Select(F, f), Select(S, f)))))
    char = ('char', facts, ForAll([x], Select(S, x) == z3.Exists([k], K(k, x))))
    accN = ('acc-N', [], ForAll([k], T.acc_b(Nz, T.drop(k, w)) == z3.Exists([f], And(Select(F, f), Select(T.NS(VN, e, s0, T.drop(k, w)), f)))))
    fwd1 = ('fwd-1', [K(k, f), Select(F, f), accN[2], T.over(Sg, w)], T.starL(Nz, w))
    fwd = ('fwd', [accR[2], char[2], T.acc_b(Rz, w), ForAll([k, f], Implies(And(K(k, f), Select(F, f)), T.starL(Nz, w)))], T.starL(Nz, w))
    bwd1 = ('bwd-1', [T.starL(Nz, w), w != Word.nil, accN[2], T.over(Sg, w)], z3.Exists([k, f], And(K(k, f), Select(F, f))))
    bwd = ('bwd', [accR[2], char[2], T.starL(Nz, w), Implies(And(T.starL(Nz, w), w != Word.nil), z3.Exists([k, f], And(K(k, f), Select(F, f))))], T.acc_b(Rz, w))
    fin = ('final', [Implies(T.acc_b(Rz, w), T.starL(Nz, w)), Implies(T.starL(Nz, w), T.acc_b(Rz, w))], T.acc_b(Rz, w) == T.starL(Nz, w))
    return [c['wf'], selfem, inQ, nh, accR, char, accN, fwd1, fwd, bwd1, bwd, fin]


def ext_eq_c(lhs, rhs, hyps=(), tag=''):
    c = fresh_z('c', T.Conf)
    pw = ForAll([c], Select(lhs, c) == Select(rhs, c))
    return [(tag + 'pointwise', list(hyps), pw), (tag + 'ext', [pw], lhs == rhs)]


def _oa_setup():
    P, P2 = SV(REC('PDA'), Const('P_', T.PDAs)), SV(REC('PDA'), Const('P2_', T.PDAs)); qa = Const('qa_', Atom)
    eps = rec_get(P, 'epsilon').z
    st = T.one_acc_struct(P, P2, qa)
    c1, c2 = Consts('c1_ c2_', T.Conf); a = _a_
    # the step relation of P2: a step of P, or (on epsilon) from an accepting state of P to qa with the stack untouched
    new = And(a == eps, Select(rec_get(P, 'F').z, T._pc[2](c1)), c2 == T._pc[1](qa, T._pc[3](c1)))
    stepchar = ForAll([c1, a, c2], T.pstep(P2, c1, a, c2) == Or(T.pstep(P, c1, a, c2), new))
    stepQ = ForAll([c1, a, c2], Implies(T.pstep(P, c1, a, c2), And(Select(rec_get(P, 'Q').z, T._pc[2](c1)), Select(rec_get(P, 'Q').z, T._pc[2](c2)))))
    u, q, v = Consts('u_ q_ v_', Atom)
    sc1 = ('step-char-fwd', [st, T.pstep_body(P2, c1, a, c2, u, q, v)], Or(T.pstep_body(P, c1, a, c2, u, q, v), new))
    sc2 = ('step-char-old', [st, T.pstep_body(P, c1, a, c2, u, q, v)], T.pstep_body(P2, c1, a, c2, u, q, v))
    sc3 = ('step-char-new', [st, new], T.pstep_body(P2, c1, a, c2, eps, qa, eps))
    sc = ('step-char', [ForAll([c1, a, c2, u, q, v], Implies(T.pstep_body(P2, c1, a, c2, u, q, v), Or(T.pstep_body(P, c1, a, c2, u, q, v), new))),
                        ForAll([c1, a, c2, u, q, v], Implies(T.pstep_body(P, c1, a, c2, u, q, v), T.pstep_body(P2, c1, a, c2, u, q, v))),
                        ForAll([c1, a, c2], Implies(new, T.pstep_body(P2, c1, a, c2, eps, qa, eps)))], stepchar)
    return dict(P=P, P2=P2, qa=qa, eps=eps, st=st, stepchar=sc, pre=[sc1, sc2, sc3], stepQ=('step-in-Q', [st], stepQ), c1=c1, c2=c2)


@proof('pdax', 'one-acc-eclo')
def _():
    d = _oa_setup(); P, P2, qa = d['P'], d['P2'], d['qa']; C = Const('C_', T.SetC)
    facts = [d['st'], d['stepchar'][2], d['stepQ'][2], T._inQ(P, C)]
    E1 = T.EcloP(P.z, C); E2 = T.EcloP(P2.z, C); X = T.ExtF(P.z, qa, E1)
    Qc = Const('Qc_', T.SetC); cc = Const('cc_', T.Conf)
    defQc = ForAll([cc], Select(Qc, cc) == Select(rec_get(P, 'Q').z, T._pc[2](cc)))
    in1 = ('E1-in-Q', facts + [defQc, T.EcloP_least(P, C, Qc)], T._inQ(P, E1))
    le = ('le', facts + [in1[2], T.EcloP_least(P2, C, X)], ForAll([cc], Implies(Select(E2, cc), Select(X, cc))))
    ge1 = ('ge-1', facts + [T.EcloP_least(P, C, E2)], ForAll([cc], Implies(Select(E1, cc), Select(E2, cc))))
    q = Const('q_', Atom); sw = Const('s_', Word)
    ge2a = ('ge-2a', facts + [ge1[2], Select(rec_get(P, 'F').z, q), Select(E1, T._pc[1](q, sw)), T.pstep(P2, T._pc[1](q, sw), d['eps'], T._pc[1](qa, sw))], Select(E2, T._pc[1](qa, sw)))
    ge2b0 = ('ge-2b0', [d['st'], Select(rec_get(P, 'F').z, q)], T.pstep_body(P2, T._pc[1](q, sw), d['eps'], T._pc[1](qa, sw), d['eps'], qa, d['eps']))
    ge2b = ('ge-2b', [ge2b0[2]], T.pstep(P2, T._pc[1](q, sw), d['eps'], T._pc[1](qa, sw)))
    ge2 = ('ge-2', [ge1[2], ForAll([q, sw], Implies(And(Select(rec_get(P, 'F').z, q), Select(E1, T._pc[1](q, sw))), Select(E2, T._pc[1](qa, sw))))], ForAll([cc], Implies(Select(X, cc), Select(E2, cc))))
    return d['pre'] + [d['stepchar'], d['stepQ'], in1, le, ge1, ge2b0, ge2b, ge2a, ge2] + ext_eq_c(E2, X, [le[2], ge2[2]])


@proof('pdax', 'one-acc-sim')
def _():
    d = _oa_setup(); P, P2, qa, eps = d['P'], d['P2'], d['qa'], d['eps']; Sg = Const('Sg_', T.SetA)
    stb = T.one_acc_b(P.z, P2.z, qa); w = Const('w_', Word); a = _a_; wa = Word.snoc(w, a); cc = Const('cc_', T.Conf)
    facts = [d['st'], stb, d['stepchar'][2], d['stepQ'][2], Not(Select(Sg, eps))]
    R1 = lambda w: T.reachP(P.z, w); R2 = lambda w: T.reachP(P2.z, w)
    Pw = lambda w: Implies(T.over(Sg, w), And(R2(w) == T.ExtF(P.z, qa, R1(w)), T._inQ(P, R1(w))))
    init = z3.Store(z3.K(T.Conf, False), T._pc[1](rec_get(P, 'q0').z, Word.nil), True)
    b0 = ('base-init', facts, T._inQ(P, init))
    base = ('base', facts + [b0[2]], Pw(Word.nil))
    S1 = T.stepsetP(P.z, R1(w), a); S2 = T.stepsetP(P2.z, R2(w), a)
    ctx = facts + [Pw(w), T.over(Sg, wa)]
    pre = ('step-pre', ctx, And(R2(w) == T.ExtF(P.z, qa, R1(w)), T._inQ(P, R1(w)), a != eps, Select(Sg, a)))
    ss = ext_eq_c(S2, S1, facts + [pre[2]], 'step-stepset-')
    sq = ('step-stepset-in-Q', facts + [pre[2]], T._inQ(P, S1))
    stp = ('step', [stb, ss[1][2], sq[2], T.over(Sg, wa)], Pw(wa))
    return d['pre'] + [d['stepchar'], d['stepQ'], b0, base, pre] + ss + [sq, stp]


@proof('pdax', 'one-acc-lang')
def _():
    d = _oa_setup(); P, P2, qa, eps = d['P'], d['P2'], d['qa'], d['eps']; Sg = Const('Sg_', T.SetA); w = Const('w_', Word)
    stb = T.one_acc_b(P.z, P2.z, qa)
    sim = And(T.reachP(P2.z, w) == T.ExtF(P.z, qa, T.reachP(P.z, w)), T._inQ(P, T.reachP(P.z, w)))
    s0 = ('sim', [stb, T.over(Sg, w), Not(Select(Sg, eps))], sim)
    fwd = ('fwd', [d['st'], sim, T.pda_acc_z(P2, w)], T.pda_acc_z(P, w))
    bwd = ('bwd', [d['st'], sim, T.pda_acc_z(P, w)], T.pda_acc_z(P2, w))
    return [s0, fwd, bwd, ('final', [Implies(T.pda_acc_z(P2, w), T.pda_acc_z(P, w)), Implies(T.pda_acc_z(P, w), T.pda_acc_z(P2, w))], T.pda_acc_z(P2, w) == T.pda_acc_z(P, w))]


def _ner_consts():
    return Const('d_', T.DeltaD), Const('Sg_', T.SetA), Const('F_', T.SetA)


@proof('nerode', 'dist-back')
def _():
    d, Sg, Fz = _ner_consts(); x, y = Consts('x_ y_', Atom)
    return word_ind(lambda v: ForAll([x, y], Implies(And(T.over(Sg, v), T.distF(d, Sg, Fz, T.dhat(d, x, v), T.dhat(d, y, v))), T.distF(d, Sg, Fz, x, y))))


@proof('nerode', 'dist-of-word')
def _():
    d, Sg, Fz = _ner_consts(); x, y = Consts('x_ y_', Atom); v = Const('v_', Word)
    mid = T.distF(d, Sg, Fz, T.dhat(d, x, v), T.dhat(d, y, v))
    return [('ends-differ', [Select(Fz, T.dhat(d, x, v)) != Select(Fz, T.dhat(d, y, v))], mid), ('back', [T.over(Sg, v), mid], T.distF(d, Sg, Fz, x, y))]


@proof('nerode', 'dist-has-word')
def _():
    d, Sg, Fz = _ner_consts(); x, y, a = Consts('x_ y_ a_', Atom); v = Const('v_', Word)
    Tt = Const('T_', T.RelA)
    W = lambda x, y, v: And(T.over(Sg, v), Select(Fz, T.dhat(d, x, v)) != Select(Fz, T.dhat(d, y, v)))
    defT = ForAll([x, y], Select(Tt, T.mkKey2(x, y)) == z3.Exists([v], W(x, y, v)))
    b = ('base-witness', [Select(Fz, x) != Select(Fz, y)], W(x, y, Word.nil))
    s_ = ('step-witness', [Select(Sg, a), W(Select(d, T.mkKey2(x, a)), Select(d, T.mkKey2(y, a)), v)], W(x, y, T.cons(a, v)))
    cl1 = ('closed-base', [defT, ForAll([x, y], Implies(Select(Fz, x) != Select(Fz, y), W(x, y, Word.nil)))], ForAll([x, y], Implies(Select(Fz, x) != Select(Fz, y), Select(Tt, T.mkKey2(x, y)))))
    cl2 = ('closed-step', [defT, ForAll([x, y, a, v], Implies(And(Select(Sg, a), W(Select(d, T.mkKey2(x, a)), Select(d, T.mkKey2(y, a)), v)), W(x, y, T.cons(a, v))))],
           ForAll([x, y, a], Implies(And(Select(Sg, a), Select(Tt, T.mkKey2(Select(d, T.mkKey2(x, a)), Select(d, T.mkKey2(y, a))))), Select(Tt, T.mkKey2(x, y)))))
    fin = ('least', [defT, cl1[2], cl2[2], T.dist_least(d, Sg, Fz, Tt), T.distF(d, Sg, Fz, x, y)], z3.Exists([v], W(x, y, v)))
    return [b, s_, cl1, cl2, fin]


@proof('nerode', 'dist-irrefl')
def _():
    d, Sg, Fz = _ner_consts(); x = Const('x_', Atom)
    return [('by-word', [], Not(T.distF(d, Sg, Fz, x, x)))]
@proof('nerode', 'dist-sym')
def _():
    d, Sg, Fz = _ner_consts(); x, y = Consts('x_ y_', Atom)
    return [('fwd', [T.distF(d, Sg, Fz, x, y)], T.distF(d, Sg, Fz, y, x)), ('both', [ForAll([x, y], Implies(T.distF(d, Sg, Fz, x, y), T.distF(d, Sg, Fz, y, x)))], T.distF(d, Sg, Fz, x, y) == T.distF(d, Sg, Fz, y, x))]
@proof('nerode', 'dist-trans')
def _():
    d, Sg, Fz = _ner_consts(); x, y, q = Consts('x_ y_ q_', Atom)
    return [('by-word', [T.distF(d, Sg, Fz, x, q)], Or(T.distF(d, Sg, Fz, x, y), T.distF(d, Sg, Fz, y, q)))]


def ext_eq_s(lhs, rhs, srt, hyps=(), tag=''):
    c = fresh_z('k', srt)
    pw = ForAll([c], Select(lhs, c) == Select(rhs, c))
    return [(tag + 'pointwise', list(hyps), pw), (tag + 'ext', [pw], lhs == rhs)]


@proof('nerode', 'trues-store')
def _():
    td, tv = Consts('td_ tv_', T.TabSet); k = Const('tk_', T.TabK); b = Const('b_', z3.BoolSort())
    return ext_eq_s(T.trues(z3.Store(td, k, True), z3.Store(tv, k, b)), z3.Store(T.trues(td, tv), k, b), T.TabK)
@proof('nerode', 'trues-empty')
def _():
    tv = Const('tv_', T.TabSet)
    return ext_eq_s(T.trues(z3.K(T.TabK, False), tv), z3.K(T.TabK, False), T.TabK)


def _quot_setup():
    D, R = SV(REC('DFA'), Const('D_', T._DFAs)), SV(REC('DFA'), Const('R_', T._DFAs))
    return dict(D=D, R=R, Q=rec_get(D, 'Q').z, Sg=rec_get(D, 'Sigma').z, F=rec_get(D, 'F').z, d=T.dfa_delta_val(D), d2=T.dfa_delta_val(R), st=T.quot_struct(D, R))


@proof('quot', 'cls-eq')
def _():
    D = SV(REC('DFA'), Const('D_', T._DFAs)); x, y = Consts('x_ y_', Atom)
    return ext_eq(T.clsF(D.z, x), T.clsF(D.z, y), [Not(T._dist(D, x, y))])
@proof('quot', 'cls-congruence')
def _():
    D = SV(REC('DFA'), Const('D_', T._DFAs)); x, y, a = Consts('x_ y_ a_', Atom); d = T.dfa_delta_val(D)
    return [('contrapositive', [Select(rec_get(D, 'Sigma').z, a), T._dist(D, Select(d, T.mkKey2(x, a)), Select(d, T.mkKey2(y, a)))], T._dist(D, x, y))]


@proof('quot', 'quot-sim')
def _():
    c = _quot_setup(); D, R = c['D'], c['R']; x = Const('x_', Atom)
    closed = ForAll([x, w_], Implies(And(Select(c['Q'], x), T.over(c['Sg'], w_)), Select(c['Q'], T.dhat(c['d'], x, w_))))
    P = lambda w: ForAll([x], Implies(And(Select(c['Q'], x), T.over(c['Sg'], w)), T.dhat(c['d2'], T.cname(D.z, x), w) == T.cname(D.z, T.dhat(c['d'], x, w))))
    return [('closed', [c['st']], closed)] + [(t, [c['st'], closed] + h, g) for (t, h, g) in word_ind(P)]


@proof('quot', 'quot-lang')
def _():
    c = _quot_setup(); D, R = c['D'], c['R']; x = Const('x_', Atom); w = Const('w_', Word)
    stb = T.quot_b(D.z, R.z); q0 = rec_get(D, 'q0').z
    e = T.dhat(c['d'], q0, w)
    s1 = ('run', [c['st'], stb, T.over(c['Sg'], w)], And(T.dhat(c['d2'], rec_get(R, 'q0').z, w) == T.cname(D.z, e), Select(c['Q'], e)))
    # a class name is accepting iff its members are: equivalent states agree on acceptance, and names determine classes
    s2 = ('acc-class', [c['st'], Select(c['Q'], e)], Select(rec_get(R, 'F').z, T.cname(D.z, e)) == Select(c['F'], e))
    return [s1, s2, ('final', [s1[2], s2[2]], T._acc(R, w) == T._acc(D, w))]


@proof('quot', 'quot-dist')
def _():
    c = _quot_setup(); D, R = c['D'], c['R']; x, y = Consts('x_ y_', Atom); v = Const('v_', Word)
    stb = T.quot_b(D.z, R.z)
    sx, sy = T.cname(D.z, x), T.cname(D.z, y)
    # two different class names come from distinguishable states; a distinguishing word for them distinguishes the names in the quotient
    s1 = ('states-dist', [c['st'], Select(c['Q'], x), Select(c['Q'], y), sx != sy], T._dist(D, x, y))
    ex = T.dhat(c['d'], x, v); ey = T.dhat(c['d'], y, v)
    s2 = ('word', [c['st'], stb, Select(c['Q'], x), Select(c['Q'], y), T.over(c['Sg'], v), Select(c['F'], ex) != Select(c['F'], ey)],
          And(T.dhat(c['d2'], sx, v) == T.cname(D.z, ex), T.dhat(c['d2'], sy, v) == T.cname(D.z, ey), Select(c['Q'], ex), Select(c['Q'], ey)))
    s3a = ('acc-x', [c['st'], Select(c['Q'], ex)], Select(rec_get(R, 'F').z, T.cname(D.z, ex)) == Select(c['F'], ex))
    s3b = ('acc-y', [c['st'], Select(c['Q'], ey)], Select(rec_get(R, 'F').z, T.cname(D.z, ey)) == Select(c['F'], ey))
    s3 = ('acc', [s3a[2], s3b[2]], And(s3a[2], s3b[2]))
    s4 = ('dist-R', [c['st'], s2[2], s3[2], T.over(c['Sg'], v), Select(c['F'], ex) != Select(c['F'], ey)], T._dist(R, sx, sy))
    s5 = ('names', [c['st'], Select(c['Q'], x), Select(c['Q'], y), sx != sy,
                    ForAll([v], Implies(And(T.over(c['Sg'], v), Select(c['F'], T.dhat(c['d'], x, v)) != Select(c['F'], T.dhat(c['d'], y, v))), T._dist(R, sx, sy))), T._dist(D, x, y)], T._dist(R, sx, sy))
    s1_, s2_ = Consts('s1_ s2_', Atom)
    fin = ('final', [c['st'], ForAll([x, y], Implies(And(Select(c['Q'], x), Select(c['Q'], y), T.cname(D.z, x) != T.cname(D.z, y)), T._dist(R, T.cname(D.z, x), T.cname(D.z, y)))),
                     Select(rec_get(R, 'Q').z, s1_), Select(rec_get(R, 'Q').z, s2_), s1_ != s2_], T._dist(R, s1_, s2_))
    return [s1, s2, s3a, s3b, s3, s4, s5, fin]


@proof('pdax', 'EcloP-by-singletons')
def _():
    P = SV(REC('PDA'), Const('P_', T.PDAs)); R = Const('R_', T.SetC); c, c0, c2, c3 = Consts('c_ c0_ c2_ c3_', T.Conf)
    Tt = Const('T_', T.SetC)
    defT = ForAll([c2], Select(Tt, c2) == Exists([c3], And(Select(R, c3), Select(T.EcloP(P.z, T.csingle(c3)), c2))))
    return [('<=', [T.EcloP_least(P, T.csingle(c0), T.EcloP(P.z, R)), Select(R, c0), Select(T.EcloP(P.z, T.csingle(c0)), c)], Select(T.EcloP(P.z, R), c)),
            ('=>', [defT, T.EcloP_least(P, R, Tt), Select(T.EcloP(P.z, R), c)], Select(Tt, c))]


@proof('pdax', 'reachP-step-pw')
def _():
    P = SV(REC('PDA'), Const('P_', T.PDAs)); w = Const('w_', Word); a = _a_; c, r, c2 = Consts('c_ r_ c2_', T.Conf)
    Rw = T.reachP(P.z, w); lhs = Select(T.reachP(P.z, Word.snoc(w, a)), c)
    S = T.stepsetP(P.z, Rw, a)
    bs = ForAll([c], Select(T.EcloP(P.z, S), c) == Exists([c2], And(Select(S, c2), Select(T.EcloP(P.z, T.csingle(c2)), c))))
    bs2 = ForAll([r, c], Select(T.EcloP(P.z, T.stepsetP(P.z, T.csingle(r), a)), c) == Exists([c2], And(Select(T.stepsetP(P.z, T.csingle(r), a), c2), Select(T.EcloP(P.z, T.csingle(c2)), c))))
    st = ForAll([c2], Select(S, c2) == Exists([r], And(Select(Rw, r), Select(T.stepsetP(P.z, T.csingle(r), a), c2))))
    rhs = Exists([r], And(Select(Rw, r), Select(T.EcloP(P.z, T.stepsetP(P.z, T.csingle(r), a)), c)))
    return [('by-singletons', [], bs), ('by-singletons-2', [], bs2), ('stepset', [], st), ('fwd', [bs, bs2, st, lhs], rhs), ('bwd', [bs, bs2, st, rhs], lhs),
            ('both', [Implies(lhs, rhs), Implies(rhs, lhs)], lhs == rhs)]


@proof('regexp', 'relabel-store')
def _():
    R = Const('R_', T.RelA); lv = Const('lv_', T.LabA); k = Const('k_', T.Key2); r = Const('r_', Regexp)
    return ext_eq_s(T.relabel(z3.Store(R, k, True), z3.Store(lv, k, r)), z3.Store(T.relabel(R, lv), k, r), T.Key2)


@proof('wordx', 'app-assoc')
def _(): return word_ind(lambda w: ForAll([u_, v_], T.app(T.app(u_, v_), w) == T.app(u_, T.app(v_, w))))


_X_ = Const('X_', T.Lang); _Y_ = Const('Y_', T.Lang)


@proof('gnfa', 'mem-cat-app')
def _():
    u, v = Consts('u_ v_', Word)
    k = T.wlen(u)
    return [('witness', [T.lmem(u, _X_), T.lmem(v, _Y_)], And(0 <= k, k <= T.wlen(T.app(u, v)), T.lmem(T.take(k, T.app(u, v)), _X_), T.lmem(T.drop(k, T.app(u, v)), _Y_))),
            ('intro', [And(0 <= k, k <= T.wlen(T.app(u, v)), T.lmem(T.take(k, T.app(u, v)), _X_), T.lmem(T.drop(k, T.app(u, v)), _Y_))], T.lmem(T.app(u, v), T.lcat(_X_, _Y_)))]
@proof('gnfa', 'mem-cat-split')
def _():
    w, u, v = Consts('w_ u_ v_', Word); k = Const('k_', z3.IntSort())
    return [('witness', [0 <= k, k <= T.wlen(w), T.lmem(T.take(k, w), _X_), T.lmem(T.drop(k, w), _Y_)], And(w == T.app(T.take(k, w), T.drop(k, w)), T.lmem(T.take(k, w), _X_), T.lmem(T.drop(k, w), _Y_))),
            ('elim', [T.lmem(w, T.lcat(_X_, _Y_)), ForAll([k], Implies(And(0 <= k, k <= T.wlen(w), T.lmem(T.take(k, w), _X_), T.lmem(T.drop(k, w), _Y_)),
                                                                 Exists([u, v], And(w == T.app(u, v), T.lmem(u, _X_), T.lmem(v, _Y_)))))], Exists([u, v], And(w == T.app(u, v), T.lmem(u, _X_), T.lmem(v, _Y_)))),
            ('gen', [0 <= k, k <= T.wlen(w), T.lmem(T.take(k, w), _X_), T.lmem(T.drop(k, w), _Y_)], Exists([u, v], And(w == T.app(u, v), T.lmem(u, _X_), T.lmem(v, _Y_))))]
@proof('gnfa', 'star-nil')
def _(): return [('unfold', [], T.lmem(Word.nil, T.lstar(_X_)))]
@proof('gnfa', 'star-cons')
def _():
    u, v = Consts('u_ v_', Word); k = T.wlen(u); w = T.app(u, v)
    return [('nil-case', [u == Word.nil, T.lmem(v, T.lstar(_X_))], T.lmem(w, T.lstar(_X_))),
            ('witness', [u != Word.nil, T.lmem(u, _X_), T.lmem(v, T.lstar(_X_))], And(1 <= k, k <= T.wlen(w), T.lmem(T.take(k, w), _X_), T.lmem(T.drop(k, w), T.lstar(_X_)))),
            ('cons-case', [And(1 <= k, k <= T.wlen(w), T.lmem(T.take(k, w), _X_), T.lmem(T.drop(k, w), T.lstar(_X_)))], T.lmem(w, T.lstar(_X_))),
            ('both', [Implies(u == Word.nil, T.lmem(w, T.lstar(_X_))), Implies(u != Word.nil, T.lmem(w, T.lstar(_X_)))], T.lmem(w, T.lstar(_X_)))]


def _g_consts():
    return Const('Lb_', T.LabA), Const('Q_', T.SetA), Const('qa_', Atom)


@proof('gnfa', 'GAcc-star')
def _():
    Lb, Q, qa = _g_consts(); r = Const('r_', Atom); u, v, p, s = Consts('u_ v_ p_ s_', Word); k = Const('k_', z3.IntSort()); n = Const('n_', z3.IntSort())
    B = T.Lof(Select(Lb, T.mkKey2(r, r))); G = lambda w: T.GAcc(Lb, Q, qa, r, w)
    hyp = [Select(Q, r), G(v)]
    # induction on the length of u: the first block of u (non-empty, in B) is one step from r to r, the rest is shorter
    P = lambda n: ForAll([u], Implies(And(T.wlen(u) <= n, T.lmem(u, T.lstar(B))), G(T.app(u, v))))
    base = ('base', hyp, P(z3.IntVal(0)))
    split = ('step-split', [T.lmem(u, T.lstar(B)), u != Word.nil], Exists([k], And(1 <= k, k <= T.wlen(u), T.lmem(T.take(k, u), B), T.lmem(T.drop(k, u), T.lstar(B)))))
    one = ('step-one', hyp + [P(n), 0 <= n, T.wlen(u) <= n + 1, 1 <= k, k <= T.wlen(u), T.lmem(T.take(k, u), B), T.lmem(T.drop(k, u), T.lstar(B))], G(T.app(u, v)))
    stp = ('step', hyp + [P(n), 0 <= n, ForAll([u], Implies(And(T.lmem(u, T.lstar(B)), u != Word.nil), Exists([k], And(1 <= k, k <= T.wlen(u), T.lmem(T.take(k, u), B), T.lmem(T.drop(k, u), T.lstar(B)))))),
                 ForAll([u, k], Implies(And(T.wlen(u) <= n + 1, 1 <= k, k <= T.wlen(u), T.lmem(T.take(k, u), B), T.lmem(T.drop(k, u), T.lstar(B))), G(T.app(u, v))))], P(n + 1))
    fin = ('final', [ForAll([n], Implies(n >= 0, P(n))), T.lmem(u, T.lstar(B))], G(T.app(u, v)))
    return [base, split, one, stp, fin]


@proof('gnfa', 'rip-sim')
def _():
    Lb, Q, qa = _g_consts(); Lb2 = Const('Lb2_', T.LabA); Q2 = Const('Q2_', T.SetA); r, qs = Consts('r_ qs_', Atom)
    x, y, y2 = Consts('x_ y_ y2_', Atom); u, v, w, u1, u2, u3, v2 = Consts('u_ v_ w_ u1_ u2_ u3_ v2_', Word)
    st = T.rip_pred(Lb, Lb2, Q, Q2, r, qs, qa)
    lab = lambda L_, a, b: T.Lof(Select(L_, T.mkKey2(a, b)))
    G1 = lambda a, w_: T.GAcc(Lb, Q, qa, a, w_); G2 = lambda a, w_: T.GAcc(Lb2, Q2, qa, a, w_)
    Bs = T.lstar(lab(Lb, r, r))
    out = []
    # ---------------- G2 within G1: every edge of the ripped automaton is an edge or a detour through r of the original one
    viaR = lambda a, b, u_: Exists([u1, u2, u3], And(u_ == T.app(u1, T.app(u2, u3)), T.lmem(u1, lab(Lb, a, r)), T.lmem(u2, Bs), T.lmem(u3, lab(Lb, r, b))))
    e1 = ('edge-fwd', [st, Select(Q2, y), T.lmem(u, lab(Lb2, x, y))], Or(T.lmem(u, lab(Lb, x, y)), viaR(x, y, u)))
    dA = ('detour-1', [st, Select(Q2, y), G1(y, v), T.lmem(u3, lab(Lb, r, y))], And(Select(Q, r), G1(r, T.app(u3, v))))
    dB = ('detour-2', [Select(Q, r), G1(r, T.app(u3, v)), T.lmem(u2, Bs)], G1(r, T.app(u2, T.app(u3, v))))
    dC = ('detour-3', [Select(Q, r), G1(r, T.app(u2, T.app(u3, v))), T.lmem(u1, lab(Lb, x, r))], G1(x, T.app(u1, T.app(u2, T.app(u3, v)))))
    dD = ('detour-4', [u == T.app(u1, T.app(u2, u3))], T.app(u, v) == T.app(u1, T.app(u2, T.app(u3, v))))
    d1 = ('detour', [dA[2], Implies(And(Select(Q, r), G1(r, T.app(u3, v)), T.lmem(u2, Bs)), dB[2]), Implies(And(Select(Q, r), G1(r, T.app(u2, T.app(u3, v))), T.lmem(u1, lab(Lb, x, r))), dC[2]), dD[2],
                     T.lmem(u1, lab(Lb, x, r)), T.lmem(u2, Bs)], G1(x, T.app(u, v)))
    c1 = ('closed-fwd', [st, Select(Q2, y), T.lmem(u, lab(Lb2, x, y)), G1(y, v), Or(T.lmem(u, lab(Lb, x, y)), viaR(x, y, u)),
                         ForAll([u1, u2, u3], Implies(And(u == T.app(u1, T.app(u2, u3)), T.lmem(u1, lab(Lb, x, r)), T.lmem(u2, Bs), T.lmem(u3, lab(Lb, r, y))), G1(x, T.app(u, v))))], G1(x, T.app(u, v)))
    T1 = Const('T1_', T.GRel)
    defT1 = ForAll([x, w], Select(T1, T.mkXW(x, w)) == G1(x, w))
    l1 = ('least-fwd', [defT1, T.GAcc_least(Lb2, Q2, qa, T1),
                        ForAll([x, y, u, v], Implies(And(Select(Q2, y), T.lmem(u, lab(Lb2, x, y)), G1(y, v)), G1(x, T.app(u, v))))], ForAll([x, w], Implies(G2(x, w), G1(x, w))))
    out += [e1, dA, dB, dC, dD, d1, c1, l1]
    # ---------------- G1 within G2 (for states other than r); from r: some rounds through r, one edge out, then on in the ripped automaton
    fromR = lambda w_: Exists([u2, u3, v2, y2], And(w_ == T.app(u2, T.app(u3, v2)), T.lmem(u2, Bs), Select(Q2, y2), T.lmem(u3, lab(Lb, r, y2)), G2(y2, v2)))
    Tp = lambda a, w_: z3.If(a == r, fromR(w_), Implies(Select(Q2, a), G2(a, w_)))
    hy = [st, Select(Q, y), T.lmem(u, lab(Lb, x, y)), Tp(y, v)]
    k1a = ('edge-bwd', [st, Select(Q2, x), Select(Q2, y), T.lmem(u, lab(Lb, x, y))], T.lmem(u, lab(Lb2, x, y)))
    k1b = ('case-other-other-1', hy + [x != r, y != r, Select(Q2, x)], And(Select(Q2, y), G2(y, v)))
    k1 = ('case-other-other', [k1b[2], T.lmem(u, lab(Lb2, x, y))], G2(x, T.app(u, v)))
    k2a = ('case-other-r-1', [st, x != r, Select(Q2, x), T.lmem(u, lab(Lb, x, r)), T.lmem(u2, Bs), Select(Q2, y2), T.lmem(u3, lab(Lb, r, y2))], T.lmem(T.app(u, T.app(u2, u3)), lab(Lb2, x, y2)))
    k2 = ('case-other-r', [st, x != r, Select(Q2, x), T.lmem(u, lab(Lb, x, r)), v == T.app(u2, T.app(u3, v2)), T.lmem(u2, Bs), Select(Q2, y2), T.lmem(u3, lab(Lb, r, y2)), G2(y2, v2),
                           T.lmem(T.app(u, T.app(u2, u3)), lab(Lb2, x, y2))], G2(x, T.app(u, v)))
    k3 = ('case-r-other', hy + [x == r, y != r], fromR(T.app(u, v)))
    k4 = ('case-r-r', [st, T.lmem(u, lab(Lb, r, r)), v == T.app(u2, T.app(u3, v2)), T.lmem(u2, Bs), Select(Q2, y2), T.lmem(u3, lab(Lb, r, y2)), G2(y2, v2)],
          And(T.app(u, v) == T.app(T.app(u, u2), T.app(u3, v2)), T.lmem(T.app(u, u2), Bs)))
    T2 = Const('T2_', T.GRel)
    defT2 = ForAll([x, w], Select(T2, T.mkXW(x, w)) == Tp(x, w))
    cb = ('closed-bwd', [st, Select(Q, y), T.lmem(u, lab(Lb, x, y)), Tp(y, v),
                         Implies(And(x != r, y != r, Select(Q2, x)), And(Select(Q2, y), G2(y, v))), Implies(And(Select(Q2, x), Select(Q2, y)), T.lmem(u, lab(Lb2, x, y))),
                         Implies(And(Select(Q2, y), G2(y, v), T.lmem(u, lab(Lb2, x, y))), G2(x, T.app(u, v))),
                         ForAll([u2, u3, v2, y2], Implies(And(x != r, Select(Q2, x), y == r, v == T.app(u2, T.app(u3, v2)), T.lmem(u2, Bs), Select(Q2, y2), T.lmem(u3, lab(Lb, r, y2)), G2(y2, v2)), G2(x, T.app(u, v)))),
                         Implies(And(x == r, y != r), fromR(T.app(u, v))),
                         ForAll([u2, u3, v2, y2], Implies(And(x == r, y == r, v == T.app(u2, T.app(u3, v2)), T.lmem(u2, Bs), Select(Q2, y2), T.lmem(u3, lab(Lb, r, y2)), G2(y2, v2)),
                                                          And(T.app(u, v) == T.app(T.app(u, u2), T.app(u3, v2)), T.lmem(T.app(u, u2), Bs))))], Tp(x, T.app(u, v)))
    l2 = ('least-bwd', [st, defT2, T.GAcc_least(Lb, Q, qa, T2), ForAll([x, y, u, v], Implies(And(Select(Q, y), T.lmem(u, lab(Lb, x, y)), Tp(y, v)), Tp(x, T.app(u, v))))],
          ForAll([x, w], Implies(And(G1(x, w), Select(Q2, x)), G2(x, w))))
    fin = ('final', [ForAll([x, w], Implies(G2(x, w), G1(x, w))), ForAll([x, w], Implies(And(G1(x, w), Select(Q2, x)), G2(x, w))), Select(Q2, x)], G2(x, w) == G1(x, w))
    out += [k1a, k1b, k1, k2a, k2, k3, k4, cb, l2, fin]
    return out


@proof('gnfa', 'gnfa-two-state')
def _():
    Lb, Q, qa = _g_consts(); qs = Const('qs_', Atom); x, y = Consts('x_ y_', Atom); u, v, w = Consts('u_ v_ w_', Word)
    lab = lambda a, b: T.Lof(Select(Lb, T.mkKey2(a, b)))
    hyp = [qs != qa, ForAll([x], Select(Q, x) == Or(x == qs, x == qa)), ForAll([y], lab(qa, y) == T.lzero), ForAll([x], lab(x, qs) == T.lzero)]
    G = lambda a, w_: T.GAcc(Lb, Q, qa, a, w_)
    bs = ('base', [], G(qa, Word.nil))
    bwd = ('bwd', hyp + [G(qa, Word.nil), T.lmem(w, lab(qs, qa))], G(qs, T.app(w, Word.nil)))
    Tp = lambda a, w_: And(Implies(a == qa, w_ == Word.nil), Implies(a == qs, T.lmem(w_, lab(qs, qa))))
    Tt = Const('T_', T.GRel)
    defT = ForAll([x, w], Select(Tt, T.mkXW(x, w)) == Tp(x, w))
    cl = ('closed', hyp + [Select(Q, y), T.lmem(u, lab(x, y)), Tp(y, v)], Tp(x, T.app(u, v)))
    fwd = ('fwd', hyp + [defT, T.GAcc_least(Lb, Q, qa, Tt), ForAll([x, y, u, v], Implies(And(Select(Q, y), T.lmem(u, lab(x, y)), Tp(y, v)), Tp(x, T.app(u, v)))), G(qs, w)], T.lmem(w, lab(qs, qa)))
    return [bs, bwd, cl, fwd, ('final', [Implies(T.lmem(w, lab(qs, qa)), G(qs, T.app(w, Word.nil))), Implies(G(qs, w), T.lmem(w, lab(qs, qa)))], G(qs, w) == T.lmem(w, lab(qs, qa)))]


@proof('wordx', 'over-app')
def _():
    S = Const('S0_', T.SetA)
    return word_ind(lambda v: ForAll([u_], T.over(S, T.app(u_, v)) == And(T.over(S, u_), T.over(S, v))))
@proof('wordx', 'word-uncons')
def _():
    a, b = Consts('a_ b_', Atom); v = Const('v_', Word)
    P = lambda w: Implies(w != Word.nil, Exists([a, v], And(w == T.cons(a, v), T.wlen(v) == T.wlen(w) - 1)))
    u = Const('u_', Word)
    c1 = ('step-nil', [u == Word.nil], And(Word.snoc(u, b) == T.cons(b, Word.nil), T.wlen(Word.nil) == T.wlen(Word.snoc(u, b)) - 1))
    c2 = ('step-cons', [u == T.cons(a, v), T.wlen(v) == T.wlen(u) - 1], And(Word.snoc(u, b) == T.cons(a, Word.snoc(v, b)), T.wlen(Word.snoc(v, b)) == T.wlen(Word.snoc(u, b)) - 1))
    stp = ('step', [P(u), Implies(u == Word.nil, c1[2]), ForAll([a, v], Implies(And(u == T.cons(a, v), T.wlen(v) == T.wlen(u) - 1), c2[2]))], P(Word.snoc(u, b)))
    return [('base', [], P(Word.nil)), c1, c2, stp]


@proof('gnfadfa', 'gnfa-of-dfa-lang')
def _():
    D = SV(REC('DFA'), Const('D_', T._DFAs)); Lb, Q, qa = _g_consts(); qs = Const('qs_', Atom)
    QD, Sg, Fz, d, q0 = rec_get(D, 'Q').z, rec_get(D, 'Sigma').z, rec_get(D, 'F').z, T.dfa_delta_val(D), rec_get(D, 'q0').z
    x, y, a = Consts('x_ y_ a_', Atom); u, v, w = Consts('u_ v_ w_', Word); n = Const('n_', z3.IntSort())
    st = T.gdfa_pred(D, Lb, Q, qs, qa)
    G = lambda p_, w_: T.GAcc(Lb, Q, qa, p_, w_)
    lab = lambda p_, q_: T.Lof(Select(Lb, T.mkKey2(p_, q_)))
    ok = lambda p_, w_: And(T.over(Sg, w_), Select(Fz, T.dhat(d, p_, w_)))
    # ---- every accepted word is accepted by the GNFA: induction on the length, peeling off the first letter
    Pn = lambda n_: ForAll([x, w], Implies(And(T.wlen(w) <= n_, Select(QD, x), ok(x, w)), G(x, w)))
    b0 = ('base-accept', [], G(qa, Word.nil))
    b1 = ('base-edge', [st, G(qa, Word.nil), Select(QD, x), Select(Fz, x)], G(x, T.app(Word.nil, Word.nil)))
    base = ('base', [st, ForAll([x], Implies(And(Select(QD, x), Select(Fz, x)), G(x, T.app(Word.nil, Word.nil))))], Pn(z3.IntVal(0)))
    s1 = ('step-letter', [st, Pn(n), 0 <= n, Select(QD, x), w == T.cons(a, v), T.wlen(v) == T.wlen(w) - 1, T.wlen(w) <= n + 1, ok(x, w)],
          And(Select(Sg, a), Select(QD, Select(d, T.mkKey2(x, a))), G(Select(d, T.mkKey2(x, a)), v), T.lmem(Word.snoc(Word.nil, a), lab(x, Select(d, T.mkKey2(x, a)))), Select(Q, Select(d, T.mkKey2(x, a)))))
    s2 = ('step-edge', [w == T.cons(a, v), Select(Q, y), G(y, v), T.lmem(Word.snoc(Word.nil, a), lab(x, y))], G(x, w))
    stp = ('step', [st, Pn(n), 0 <= n, ForAll([x], Implies(And(Select(QD, x), Select(Fz, x)), G(x, T.app(Word.nil, Word.nil)))),
                    ForAll([x, w, a, v], Implies(And(Select(QD, x), w == T.cons(a, v), T.wlen(v) == T.wlen(w) - 1, T.wlen(w) <= n + 1, ok(x, w)), G(x, w)))], Pn(n + 1))
    allx = ForAll([x, w], Implies(And(Select(QD, x), ok(x, w)), G(x, w)))
    gen = ('all-lengths', [ForAll([n], Implies(n >= 0, Pn(n)))], allx)
    fromstart = ('bwd-start', [st, allx, ok(q0, w)], G(qs, T.app(Word.nil, w)))
    # ---- conversely: leastness
    Tp = lambda p_, w_: And(Implies(Select(QD, p_), ok(p_, w_)), Implies(p_ == qa, w_ == Word.nil), Implies(p_ == qs, ok(q0, w_)))
    Tt = Const('T_', T.GRel)
    defT = ForAll([x, w], Select(Tt, T.mkXW(x, w)) == Tp(x, w))
    hy = [st, Select(Q, y), T.lmem(u, lab(x, y)), Tp(y, v)]
    c1 = ('closed-inner', hy + [Select(QD, x), Select(QD, y)], Tp(x, T.app(u, v)))
    c2 = ('closed-accept', hy + [Select(QD, x), y == qa], Tp(x, T.app(u, v)))
    c3 = ('closed-start', hy + [x == qs], Tp(x, T.app(u, v)))
    c4 = ('closed-rest-impossible', hy + [Not(And(Select(QD, x), Select(QD, y))), Not(And(Select(QD, x), y == qa)), x != qs], z3.BoolVal(False))     # no such edge
    cl = ('closed', [Implies(And(Select(QD, x), Select(QD, y)), Tp(x, T.app(u, v))), Implies(And(Select(QD, x), y == qa), Tp(x, T.app(u, v))), Implies(x == qs, Tp(x, T.app(u, v))),
                     Not(And(Not(And(Select(QD, x), Select(QD, y))), Not(And(Select(QD, x), y == qa)), x != qs))], Tp(x, T.app(u, v)))
    fwd = ('fwd', [st, defT, T.GAcc_least(Lb, Q, qa, Tt), ForAll([x, y, u, v], Implies(And(Select(Q, y), T.lmem(u, lab(x, y)), Tp(y, v)), Tp(x, T.app(u, v)))), G(qs, w)], ok(q0, w))
    fin = ('final', [Implies(ok(q0, w), G(qs, T.app(Word.nil, w))), Implies(G(qs, w), ok(q0, w))], G(qs, w) == ok(q0, w))
    return [b0, b1, base, s1, s2, stp, gen, fromstart, c1, c2, c3, c4, cl, fwd, fin]


@proof('thompson', 'over-mono')
def _():
    S, Tt = Consts('S0_ T0_', T.SetA)
    return word_ind(lambda w: Implies(And(T.over(S, w), T._sub(S, Tt)), T.over(Tt, w)))


@proof('thompson', 'star-over')
def _():
    S = Const('S0_', T.SetA); u, w = Consts('u_ w_', Word); k, n = Consts('k_ n_', z3.IntSort())
    hyp = ForAll([u], Implies(T.lmem(u, _X_), T.over(S, u)))
    P = lambda n_: ForAll([w], Implies(And(T.wlen(w) <= n_, T.lmem(w, T.lstar(_X_))), T.over(S, w)))
    base = ('base', [hyp], P(z3.IntVal(0)))
    one = ('step-one', [hyp, P(n), 0 <= n, T.wlen(w) <= n + 1, 1 <= k, k <= T.wlen(w), T.lmem(T.take(k, w), _X_), T.lmem(T.drop(k, w), T.lstar(_X_))], T.over(S, w))
    stp = ('step', [hyp, P(n), 0 <= n, ForAll([w, k], Implies(And(T.wlen(w) <= n + 1, 1 <= k, k <= T.wlen(w), T.lmem(T.take(k, w), _X_), T.lmem(T.drop(k, w), T.lstar(_X_))), T.over(S, w)))], P(n + 1))
    return [base, one, stp, ('final', [ForAll([n], Implies(n >= 0, P(n))), T.lmem(w, T.lstar(_X_))], T.over(S, w))]


@proof('thompson', 'L-over-syms')
def _():
    w = Const('w_', Word); k = Const('k_', z3.IntSort())
    P = lambda r: ForAll([w], Implies(T.lmem(w, T.Lof(r)), T.over(T.syms(r), w)))
    return regexp_ind(P)


@proof('thompson', 'acc-over')
def _():
    N, = _nfa_consts('N_'); V, e, q0, Sg = T.nfa_view(N), T._eps(N), rec_get(N, 'q0').z, rec_get(N, 'Sigma').z
    wf = T.s_nfa_wf(None, N).z; x = Const('x_', Atom)
    vw = ('view-wf', [wf], T.view_wf(N))
    # after a letter outside Sigma (and different from epsilon) no state is left
    P = lambda w: Implies(And(T.noeps(e, w), Not(T.over(Sg, w))), T.Nhat(V, e, q0, w) == T.EMPTYA)
    w = Const('w_', Word); a = _a_; wa = Word.snoc(w, a)
    mv = ('step-move', [vw[2], Not(Select(Sg, a)), a != e], T.move(V, T.Nhat(V, e, q0, w), a) == T.EMPTYA)
    stp = ('step', [vw[2], P(w), Implies(And(Not(Select(Sg, a)), a != e), mv[2])], P(wa))
    fin = ('final', [wf, ForAll([w], P(w)), T.noeps(e, w), T.acc_b(N.z, w)], T.over(Sg, w))
    return [vw, ('base', [], P(Word.nil)), mv, stp, fin]


def _free_corollary(name, setup):
    pass


@proof('thompson', 'union-free')
def _():
    N1, N2, R = _nfa_consts('N1_', 'N2_', 'R_'); w = Const('w_', Word)
    stb = T.union_b(N1.z, N2.z, R.z); st = T.union_struct(N1, N2, R); wfR = T.s_nfa_wf(None, R).z
    S1, S2, SR = rec_get(N1, 'Sigma').z, rec_get(N2, 'Sigma').z, rec_get(R, 'Sigma').z
    f1, f2 = T.noeps(T._eps(N1), w), T.noeps(T._eps(N2), w)
    a1, a2, aR = T.acc_b(N1.z, w), T.acc_b(N2.z, w), T.acc_b(R.z, w)
    facts = [stb, st, wfR, f1, f2]
    ov = ('overs', facts, And(Implies(a1, T.over(S1, w)), Implies(a2, T.over(S2, w)), Implies(aR, T.over(SR, w)), Implies(T.over(S1, w), T.over(SR, w)), Implies(T.over(S2, w), T.over(SR, w))))
    inn = ('inside', facts + [T.over(SR, w)], aR == Or(And(T.over(S1, w), a1), And(T.over(S2, w), a2)))
    return [ov, inn, ('final', [ov[2], Implies(T.over(SR, w), inn[2])], aR == Or(a1, a2))]


@proof('thompson', 'cat-free')
def _():
    N1, N2, R = _nfa_consts('N1_', 'N2_', 'R_'); w = Const('w_', Word); k = Const('k_', z3.IntSort())
    stb = T.cat_b(N1.z, N2.z, R.z); st = T.cat_struct(N1, N2, R); wfR = T.s_nfa_wf(None, R).z
    S1, S2, SR = rec_get(N1, 'Sigma').z, rec_get(N2, 'Sigma').z, rec_get(R, 'Sigma').z
    f1, f2 = T.noeps(T._eps(N1), w), T.noeps(T._eps(N2), w)
    aR = T.acc_b(R.z, w)
    facts = [stb, st, wfR, f1, f2]
    split = lambda k_: And(0 <= k_, k_ <= T.wlen(w), T.acc_b(N1.z, T.take(k_, w)), T.acc_b(N2.z, T.drop(k_, w)))
    lsplit = lambda k_: And(0 <= k_, k_ <= T.wlen(w), T.lang_b(N1.z, T.take(k_, w)), T.lang_b(N2.z, T.drop(k_, w)))
    pieces = ('pieces', facts, ForAll([k], And(T.noeps(T._eps(N1), T.take(k, w)), T.noeps(T._eps(N2), T.drop(k, w)))))
    up = ('split-over', facts + [pieces[2], split(k)], And(lsplit(k), T.over(SR, w)))
    inn = ('inside', facts + [T.over(SR, w)], aR == Exists([k], lsplit(k)))
    out = ('outside', facts + [Not(T.over(SR, w))], Not(aR))
    fin = ('final', [Implies(T.over(SR, w), inn[2]), Implies(Not(T.over(SR, w)), Not(aR)), ForAll([k], Implies(split(k), And(lsplit(k), T.over(SR, w)))), ForAll([k], Implies(lsplit(k), split(k)))], aR == Exists([k], split(k)))
    return [pieces, up, inn, out, ('weaken', [lsplit(k)], split(k)), fin]


@proof('thompson', 'star-free')
def _():
    N, R = _nfa_consts('N_', 'R_'); w = Const('w_', Word); u = Const('u_', Word)
    stb = T.star_b(N.z, R.z); st = T.star_struct(N, R); wfR = T.s_nfa_wf(None, R).z; Sg = rec_get(N, 'Sigma').z
    f = T.noeps(T._eps(N), w); aR = T.acc_b(R.z, w); rhs = T.lmem(w, T.lstar(T.NL(N.z)))
    facts = [stb, st, wfR, f]
    inn = ('inside', facts + [T.over(Sg, w)], aR == rhs)
    o1 = ('outside-acc', facts + [Not(T.over(Sg, w))], Not(aR))
    o2 = ('outside-star', [Not(T.over(Sg, w)), ForAll([u], Implies(T.lmem(u, T.NL(N.z)), T.over(Sg, u)))], Not(rhs))
    nl = ('NL-over', [], ForAll([u], Implies(T.lmem(u, T.NL(N.z)), T.over(Sg, u))))
    return [inn, o1, nl, o2, ('final', [Implies(T.over(Sg, w), inn[2]), Implies(Not(T.over(Sg, w)), And(Not(aR), Not(rhs)))], aR == rhs)]


@proof('thompson', 'acc-sigma-irrelevant')
def _():
    Q, S1, S2, F = Consts('Q_ S1x_ S2x_ F_', T.SetA); dl = Const('dl_', sort_of(RECORDS['NFA']['delta'])); q0, e = Consts('q0_ e_', Atom); w = Const('w_', Word)
    mk = parts(REC('NFA'))[1]
    return [('unfold', [], T.acc_b(mk(Q, S1, dl, q0, F, e), w) == T.acc_b(mk(Q, S2, dl, q0, F, e), w))]


@proof('thompson', 'leaf-one')
def _():
    q, x, b, y = Consts('q_ x_ b_ y_', Atom)
    hyp = ForAll([x, b, y], Not(Select(Select(_V_, T.mkKey2(x, b)), y)))
    e0 = ('closure', [hyp, T.Eclo_least(_V_, _e_, T.single(q), T.single(q))], T.Eclo(_V_, _e_, T.single(q)) == T.single(q))
    mv = ('no-move', [hyp], ForAll([_S1, b], T.move(_V_, _S1, b) == T.EMPTYA))
    P = lambda w: T.Nhat(_V_, _e_, q, w) == z3.If(w == Word.nil, T.single(q), T.EMPTYA)
    return [e0, mv] + [(t, [e0[2], mv[2]] + h, g) for (t, h, g) in word_ind(P)]


@proof('thompson', 'leaf-sym')
def _():
    q, q1, a, x, b, y = Consts('q_ q1_ a_ x_ b_ y_', Atom); w = Const('w_', Word)
    hyp = [ForAll([x, b, y], Select(Select(_V_, T.mkKey2(x, b)), y) == And(x == q, b == a, y == q1)), a != _e_, q != q1]
    c0 = ('closure-q', hyp + [T.Eclo_least(_V_, _e_, T.single(q), T.single(q))], T.Eclo(_V_, _e_, T.single(q)) == T.single(q))
    c1 = ('closure-q1', hyp + [T.Eclo_least(_V_, _e_, T.single(q1), T.single(q1))], T.Eclo(_V_, _e_, T.single(q1)) == T.single(q1))
    m0 = ('move-q', hyp, ForAll([b], T.move(_V_, T.single(q), b) == z3.If(b == a, T.single(q1), T.EMPTYA)))
    m1 = ('move-q1', hyp, ForAll([b], T.move(_V_, T.single(q1), b) == T.EMPTYA))
    val = lambda w_: z3.If(w_ == Word.nil, T.single(q), z3.If(w_ == Word.snoc(Word.nil, a), T.single(q1), T.EMPTYA))
    P = lambda w_: T.Nhat(_V_, _e_, q, w_) == val(w_)
    facts = [c0[2], c1[2], m0[2], m1[2]]
    return [c0, c1, m0, m1] + [(t, facts + h, g) for (t, h, g) in word_ind(P)]


def _nl_is_l_steps(N, r):
    """NL(N) == L(r) from: N valid, syms(r) within its alphabet, N accepts exactly the epsilon-free words of L(r)"""
    u = Const('u_', Word)
    e = T._eps(N); Sg = rec_get(N, 'Sigma').z
    hyp = [T.s_nfa_wf(None, N).z, T._sub(T.syms(r), Sg), T.agrees_pred(N, r)]
    s1 = ('nl-sigma-epsfree', hyp, T._sub(Sg, T.allbut(e)))
    s2 = ('nl-fwd', hyp + [s1[2], T.lmem(u, T.NL(N.z))], T.lmem(u, T.Lof(r)))
    s3 = ('nl-bwd', hyp + [s1[2], T.lmem(u, T.Lof(r))], T.lmem(u, T.NL(N.z)))
    same = ForAll([u], T.lmem(u, T.NL(N.z)) == T.lmem(u, T.Lof(r)))
    s4 = ('nl-same', [ForAll([u], Implies(T.lmem(u, T.NL(N.z)), T.lmem(u, T.Lof(r)))), ForAll([u], Implies(T.lmem(u, T.Lof(r)), T.lmem(u, T.NL(N.z))))], same)
    s5 = ('nl-ext', [same, Implies(same, T.NL(N.z) == T.Lof(r))], T.NL(N.z) == T.Lof(r))        # the second hypothesis is the instance of Language.ext
    return [s1, s2, s3, s4, s5]


@proof('thompson', 'agrees-sigma-irrelevant')
def _():
    Q, S1, S2, F = Consts('Q_ S1x_ S2x_ F_', T.SetA); dl = Const('dl_', sort_of(RECORDS['NFA']['delta'])); q0, e = Consts('q0_ e_', Atom); r = Const('r_', Regexp); u = Const('u_', Word)
    mk = parts(REC('NFA'))[1]; A, B = mk(Q, S1, dl, q0, F, e), mk(Q, S2, dl, q0, F, e)
    same = ForAll([u], T.acc_b(A, u) == T.acc_b(B, u))
    return [('acc', [], same), ('unfold', [same], T.agrees_b(A, r) == T.agrees_b(B, r))]


@proof('thompson', 'agrees-union')
def _():
    N1, N2, R = _nfa_consts('N1_', 'N2_', 'R_'); r1, r2 = Consts('r1_ r2_', Regexp); w = Const('w_', Word)
    hyp = [T.union_b(N1.z, N2.z, R.z), T.union_struct(N1, N2, R), T._wfz(R.z), T._eps(N1) == T._eps(N2), T.agrees_pred(N1, r1), T.agrees_pred(N2, r2)]
    s1 = ('word', hyp + [T.noeps(T._eps(R), w)], T.acc_b(R.z, w) == T.lmem(w, T.Lof(Regexp.Sum(r1, r2))))
    return [s1, ('fold', [ForAll([w], Implies(T.noeps(T._eps(R), w), T.acc_b(R.z, w) == T.lmem(w, T.Lof(Regexp.Sum(r1, r2)))))], T.agrees_b(R.z, Regexp.Sum(r1, r2)))]


@proof('thompson', 'agrees-cat')
def _():
    N1, N2, R = _nfa_consts('N1_', 'N2_', 'R_'); r1, r2 = Consts('r1_ r2_', Regexp); w = Const('w_', Word); k = Const('k_', z3.IntSort())
    e = T._eps(N1)
    hyp = [T.cat_b(N1.z, N2.z, R.z), T.cat_struct(N1, N2, R), T._wfz(R.z), T._eps(N1) == T._eps(N2), T.agrees_pred(N1, r1), T.agrees_pred(N2, r2)]
    pieces = ('pieces', [T.noeps(e, w)], ForAll([k], And(T.noeps(e, T.take(k, w)), T.noeps(e, T.drop(k, w)))))
    free = ('free', hyp + [T.noeps(e, w)], T.acc_b(R.z, w) == Exists([k], And(0 <= k, k <= T.wlen(w), T.acc_b(N1.z, T.take(k, w)), T.acc_b(N2.z, T.drop(k, w)))))
    tr = ('translate', hyp + [pieces[2]], ForAll([k], And(T.acc_b(N1.z, T.take(k, w)) == T.lmem(T.take(k, w), T.Lof(r1)), T.acc_b(N2.z, T.drop(k, w)) == T.lmem(T.drop(k, w), T.Lof(r2)))))
    s1 = ('word', [free[2], tr[2]], T.acc_b(R.z, w) == T.lmem(w, T.Lof(Regexp.Concat(r1, r2))))
    return [pieces, free, tr, s1, ('fold', hyp[:2] + [ForAll([w], Implies(T.noeps(T._eps(R), w), T.acc_b(R.z, w) == T.lmem(w, T.Lof(Regexp.Concat(r1, r2)))))], T.agrees_b(R.z, Regexp.Concat(r1, r2)))]


@proof('thompson', 'agrees-star')
def _():
    N, R = _nfa_consts('N_', 'R_'); r = Const('r_', Regexp); w = Const('w_', Word)
    hyp = [T.star_b(N.z, R.z), T.star_struct(N, R), T._wfz(R.z), T._wfz(N.z), T._sub(T.syms(r), rec_get(N, 'Sigma').z), T.agrees_pred(N, r)]
    nl = _nl_is_l_steps(N, r)
    s1 = ('word', hyp[:4] + [T.NL(N.z) == T.Lof(r), T.noeps(T._eps(N), w)], T.acc_b(R.z, w) == T.lmem(w, T.Lof(Regexp.Iter(r))))
    return nl + [s1, ('fold', hyp[:2] + [ForAll([w], Implies(T.noeps(T._eps(R), w), T.acc_b(R.z, w) == T.lmem(w, T.Lof(Regexp.Iter(r)))))], T.agrees_b(R.z, Regexp.Iter(r)))]


@proof('thompson', 'agrees-accepts')
def _():
    N, = _nfa_consts('N_'); r = Const('r_', Regexp); w = Const('w_', Word); Sg = rec_get(N, 'Sigma').z
    return [('epsfree', [T._wfz(N.z), T.over(Sg, w)], T.noeps(T._eps(N), w)), ('use', [T.agrees_pred(N, r), T.noeps(T._eps(N), w)], T.acc_b(N.z, w) == T.lmem(w, T.Lof(r)))]


def int_ind(P, lo=0):
    """induction on an integer >= lo: P(lo) and (j >= lo and P(j)) => P(j+1)"""
    j = fresh_z('j', z3.IntSort())
    return [('base', [], P(z3.IntVal(lo))), ('step', [j >= lo, P(j)], P(j + 1))]


@proof('tm', 'run-sticky')
def _():
    Tm = Const('Tm_', T.TMs); w = Const('w0_', Word); i = Const('i_', z3.IntSort())
    hyp = And(0 <= i, T.tm_halting(Tm, T.run_q(Tm, w, i)))
    return [(t, [hyp] + h, g) for (t, h, g) in int_ind(lambda k: Implies(i <= k, T.run_q(Tm, w, k) == T.run_q(Tm, w, i)))]


@proof('tm', 'run-sticky-0')
def _():
    Tm = Const('Tm_', T.TMs); w = Const('w0_', Word); k = Const('k0_', z3.IntSort())
    q0 = rec_get(SV(REC('TM'), Tm), 'q0').z
    return [('inst', [T.run_q(Tm, w, 0) == q0, 0 <= k, T.tm_halting(Tm, q0)], T.run_q(Tm, w, k) == q0)]


def prove_lemmas(theories, timeout=10):
    """-> list of (name, status, log); a lemma may use the def/lfp/assumed axioms of the selected theories and earlier lemmas"""
    from .smt import discharge
    obls = []
    for t in theories: T.LAZY.get(t, lambda: None)()        # theories whose constants are built on first use
    order = ['word', 'wordx', 'naming', 'dfa', 'nfa', 'dfax', 'nerode', 'quot', 'nfax', 'regexp', 'nfastar', 'thompson', 'gnfa', 'gnfadfa', 'tm', 'pda', 'pdax', 'cfg', 'iso', 'subset']
    ths = [t for t in order if t in theories] + [t for t in theories if t not in order]
    from .verify import DEPENDS
    def closure(t, out=None):
        out = [] if out is None else out
        for d_ in DEPENDS.get(t, []): closure(d_, out)
        if t not in out: out.append(t)
        return out
    jobs = []
    proved_so_far = {}          # theory -> lemmas already stated (in file order)
    for th in ths:
        # a lemma of theory th sees the definitions of th and of the theories th depends on, their lemmas, and the earlier lemmas of th
        deps = closure(th)
        avail = []
        for t in deps:
            avail += [f for (tag, n, f) in T.AXIOMS.get(t, []) if tag in ('def', 'lfp', 'assumed')]
            if t != th: avail += [f for (tag, n, f) in T.AXIOMS.get(t, []) if tag == 'lemma']
        for (tag, n, f) in T.AXIOMS.get(th, []):
            if tag != 'lemma': continue
            pf = PROOFS.get((th, n))
            if pf is None:
                jobs.append((n, None, None)); continue
            for (part, hyps, goal) in pf():
                o = Obligation('theory.' + th, '%s/%s' % (n, part), 'lemma', list(avail) + hyps, goal)
                jobs.append((n, o, None))
            avail.append(f)
    # generated set identities: each must follow from the pointwise definitions of the set operations alone
    from . import sets as S_
    defs = [f for n_, f in S_.GEN_AXIOMS if n_ not in S_.GEN_LEMMAS and not n_.startswith(('fin-', 'card-'))]
    for n_, f in S_.GEN_AXIOMS:
        if n_ in S_.GEN_LEMMAS:
            hy = list(defs) if not n_.startswith('card-') else [f_ for m_, f_ in S_.GEN_AXIOMS if m_ not in S_.GEN_LEMMAS]      # card lemmas follow from the card / fin axioms
            o = Obligation('theory.sets', n_, 'lemma', hy, f); o.skip_relevance = True
            jobs.append((n_, o, None))
    os_ = [o for (_n, o, _x) in jobs if o is not None]
    from . import sets as S
    from .verify import relevant_generated
    for o in os_:
        if not getattr(o, 'skip_relevance', False): o.hyps = relevant_generated(o, []) + o.hyps
    discharge(os_, [], timeout=timeout)
    res = {}
    for (n, o, _x) in jobs:
        if o is None: res[n] = ('unproved', 'no proof script'); continue
        st, log = res.get(n, ('unsat', ''))
        if o.status != 'unsat': st = o.status or 'unknown'
        res[n] = (st, (log + ' ' + o.name + ':' + o.output).strip())
    return [(n, st, log) for n, (st, log) in res.items()]


def lemma_canaries(theories, timeout=5):
    """vacuity guard for the proof scripts (thorough tier): the hypotheses of every proof step together with all axioms and lemmas of the
    selected theories must not prove False.  -> names of the steps whose hypotheses are inconsistent"""
    from .smt import discharge
    from .verify import relevant_generated
    avail = []
    for th in theories: avail += [f for (_tag, _n, f) in T.AXIOMS.get(th, [])]
    obls = []
    for (th, n), pf in PROOFS.items():
        if th not in theories: continue
        for (part, hyps, _goal) in pf():
            if z3.is_false(_goal): continue          # a step that shows a case to be impossible: its hypotheses are meant to be inconsistent
            o = Obligation('canary', '%s/%s' % (n, part), 'lemma', list(avail) + hyps, z3.BoolVal(False))
            o.hyps = relevant_generated(o, []) + o.hyps; obls.append(o)
    discharge(obls, [], timeout=timeout, backends=('z3e', 'z3'))
    return len(obls), [o.name for o in obls if o.status == 'unsat']
