"""Recursive-lemma facility (DESIGN 2.3): every axiom tagged `lemma` in gvc.theory is proved here on every run, from the
`def` / `lfp` axioms and the lemmas proved before it, by structural induction on Word (base + step obligation) or from
explicit leastness instances.  The induction schema itself (word_ind below) is trusted."""
import z3
from z3 import ForAll, Implies, And, Or, Not, Select, Store, Const, Consts, Exists
from . import theory as T
from .ty import *
from .symexec import Obligation

PROOFS = {}      # (theory, lemma name) -> list of (tag, hyps, goal)


def proof(theory, name):
    def deco(fn):
        PROOFS[(theory, name)] = fn
        return fn
    return deco


def word_ind(P):
    """structural induction on a word: P(nil) and P(u) => P(snoc(u, a))"""
    u = fresh_z('u', Word); a = fresh_z('a', Atom)
    return [('base', [], P(Word.nil)), ('step', [P(u)], P(Word.snoc(u, a)))]


w_, u_, v_ = Consts('w_ u_ v_', Word); S_ = Const('S_', T.SetA); k_ = Const('k_', z3.IntSort())


@proof('word', 'wlen-nonneg')
def _(): return word_ind(lambda w: T.wlen(w) >= 0)
@proof('word', 'wlen-zero')
def _(): return word_ind(lambda w: (T.wlen(w) == 0) == (w == Word.nil))
@proof('word', 'isprefix-over')
def _(): return word_ind(lambda w: ForAll([u_, S_], Implies(And(T.isprefix(u_, w), T.over(S_, w)), T.over(S_, u_))))
@proof('word', 'isprefix-len')
def _(): return word_ind(lambda w: ForAll([u_], Implies(T.isprefix(u_, w), T.wlen(u_) <= T.wlen(w))))
@proof('word', 'isprefix-len-eq')
def _(): return word_ind(lambda w: ForAll([u_], Implies(And(T.isprefix(u_, w), T.wlen(u_) == T.wlen(w)), u_ == w)))
@proof('word', 'isprefix-nil')
def _(): return word_ind(lambda w: T.isprefix(Word.nil, w))
@proof('wordx', 'app-len')
def _(): return word_ind(lambda v: ForAll([u_], T.wlen(T.app(u_, v)) == T.wlen(u_) + T.wlen(v)))
@proof('wordx', 'app-nil-left')
def _(): return word_ind(lambda u: T.app(Word.nil, u) == u)
@proof('wordx', 'take-len')
def _(): return word_ind(lambda w: ForAll([k_], Implies(And(0 <= k_, k_ <= T.wlen(w)), T.wlen(T.take(k_, w)) == k_)))
@proof('wordx', 'drop-len')
def _(): return word_ind(lambda w: ForAll([k_], Implies(And(0 <= k_, k_ <= T.wlen(w)), T.wlen(T.drop(k_, w)) == T.wlen(w) - k_)))
@proof('wordx', 'take-all')
def _(): return word_ind(lambda w: ForAll([k_], Implies(k_ >= T.wlen(w), T.take(k_, w) == w)))
@proof('wordx', 'drop-zero')
def _(): return word_ind(lambda w: ForAll([k_], Implies(k_ <= 0, T.drop(k_, w) == w)))
@proof('wordx', 'take-drop-app')
def _(): return word_ind(lambda w: ForAll([k_], T.app(T.take(k_, w), T.drop(k_, w)) == w))
@proof('wordx', 'take-over')
def _(): return word_ind(lambda w: ForAll([k_, S_], Implies(T.over(S_, w), T.over(S_, T.take(k_, w)))))
@proof('wordx', 'drop-over')
def _(): return word_ind(lambda w: ForAll([k_, S_], Implies(T.over(S_, w), T.over(S_, T.drop(k_, w)))))


@proof('wordx', 'take-app')
def _(): return word_ind(lambda v: ForAll([u_], T.take(T.wlen(u_), T.app(u_, v)) == u_))
@proof('wordx', 'drop-app')
def _(): return word_ind(lambda v: ForAll([u_], T.drop(T.wlen(u_), T.app(u_, v)) == v))


@proof('wordx', 'prefix-is-take')
def _(): return word_ind(lambda w: ForAll([u_], Implies(T.isprefix(u_, w), u_ == T.take(T.wlen(u_), w))))
@proof('wordx', 'take-zero')
def _(): return word_ind(lambda w: T.take(0, w) == Word.nil)
@proof('wordx', 'drop-all')
def _(): return word_ind(lambda w: ForAll([k_], Implies(k_ >= T.wlen(w), T.drop(k_, w) == Word.nil)))


@proof('dfa', 'dhat-closed')
def _():
    D = SV(REC('DFA'), T._D); q = Const('q_', Atom)
    hyp = And(T.s_dfa_wf(None, D).z, Select(rec_get(D, 'Q').z, q))
    return [(t, [hyp] + h, g) for (t, h, g) in word_ind(lambda w: Implies(T.over(rec_get(D, 'Sigma').z, w), Select(rec_get(D, 'Q').z, T.dhat(T.dfa_delta_val(D), q, w))))]


@proof('dfa', 'Reach-in-Q')
def _():
    D = SV(REC('DFA'), T._D); q, x = Consts('q_ x_', Atom)
    Qz = rec_get(D, 'Q').z
    return [('least', [T.s_dfa_wf(None, D).z, Select(Qz, q), T.Reach_least(T.dfa_delta_val(D), rec_get(D, 'Sigma').z, q, Qz, False),
                       Select(T.Reach(T.dfa_delta_val(D), rec_get(D, 'Sigma').z, q), x)], Select(Qz, x))]


@proof('dfa', 'restrict-sim')
def _():
    d1, d2 = Const('d1_', T.DeltaD), Const('d2_', T.DeltaD); Sg = Const('Sg_', T.SetA); q = Const('q_', Atom); x, a = Consts('x_ a_', Atom)
    hyp = ForAll([x, a], Implies(And(Select(T.Reach(d1, Sg, q), x), Select(Sg, a)), Select(d2, T.mkKey2(x, a)) == Select(d1, T.mkKey2(x, a))))
    return [(t, [hyp] + h, g) for (t, h, g) in word_ind(lambda w: Implies(T.over(Sg, w), And(T.dhat(d2, q, w) == T.dhat(d1, q, w), Select(T.Reach(d1, Sg, q), T.dhat(d1, q, w)))))]


@proof('dfa', 'product-sim')
def _():
    D1, D2, R = [SV(REC('DFA'), Const(n, sort_of(REC('DFA')))) for n in ('D1_', 'D2_', 'DR_')]
    x, y = Consts('x_ y_', Atom)
    hyp = And(T.prod_struct(D1, D2, R), Select(rec_get(D1, 'Q').z, x), Select(rec_get(D2, 'Q').z, y))
    Sg = rec_get(D1, 'Sigma').z
    P = lambda w: Implies(T.over(Sg, w), T.dhat(T.dfa_delta_val(R), T.pair_name(x, y), w) == T.pair_name(T.dhat(T.dfa_delta_val(D1), x, w), T.dhat(T.dfa_delta_val(D2), y, w)))
    closed = [ForAll([w_], Implies(T.over(Sg, w_), And(Select(rec_get(D1, 'Q').z, T.dhat(T.dfa_delta_val(D1), x, w_)), Select(rec_get(D2, 'Q').z, T.dhat(T.dfa_delta_val(D2), y, w_)))))]
    return [('closed', [hyp], closed[0])] + [(t, [hyp] + closed + h, g) for (t, h, g) in word_ind(P)]


@proof('nfa', 'Eclo-empty')
def _():
    V = Const('V_', T.ViewN); e = Const('e_', Atom); y = Const('y_', Atom)
    E0 = z3.K(Atom, z3.BoolVal(False))
    return [('least', [T.Eclo_least(V, e, E0, E0)], Not(Select(T.Eclo(V, e, E0), y)))]


@proof('nfa', 'Eclo-by-singletons')
def _():
    V = Const('V_', T.ViewN); e = Const('e_', Atom); S = Const('S0_', T.SetA); x, y = Consts('x_ y_', Atom)
    sing = lambda t: Store(z3.K(Atom, z3.BoolVal(False)), t, z3.BoolVal(True))
    Tt = Const('T_', T.SetA); x2, y2 = Consts('x2_ y2_', Atom)
    defT = ForAll([y2], Select(Tt, y2) == Exists([x2], And(Select(S, x2), Select(T.Eclo(V, e, sing(x2)), y2))))
    return [('<=', [T.Eclo_least(V, e, sing(x), T.Eclo(V, e, S)), Select(S, x), Select(T.Eclo(V, e, sing(x)), y)], Select(T.Eclo(V, e, S), y)),
            ('=>', [defT, T.Eclo_least(V, e, S, Tt), Select(T.Eclo(V, e, S), y)], Select(Tt, y))]


def regexp_ind(P):
    """structural induction on regular expressions"""
    R = Regexp; a = fresh_z('a', Atom); r, s_ = fresh_z('r', R), fresh_z('s', R)
    return [('zero', [], P(R.Zero)), ('one', [], P(R.One)), ('sym', [], P(R.Sym(a))), ('iter', [P(r)], P(R.Iter(r))),
            ('sum', [P(r), P(s_)], P(R.Sum(r, s_))), ('concat', [P(r), P(s_)], P(R.Concat(r, s_)))]


@proof('regexp', 'rnodes-pos')
def _(): return regexp_ind(lambda r: T.rnodes(r) >= 1)
@proof('regexp', 'rsize-nonneg')
def _(): return regexp_ind(lambda r: T.rsize(r) >= 0)


@proof('nfa', 'Eclo-idem')
def _():
    V = Const('V_', T.ViewN); e = Const('e_', Atom); S = Const('S0_', T.SetA); x = Const('x_', Atom)
    E1 = T.Eclo(V, e, S); E2 = T.Eclo(V, e, E1)
    return [('least', [T.Eclo_least(V, e, E1, E1)], ForAll([x], Select(E2, x) == Select(E1, x)))]


@proof('subset', 'subset-sim')
def _():
    N, R = SV(REC('NFA'), Const('N_', T._NFAs)), SV(REC('DFA'), Const('R_', sort_of(REC('DFA'))))
    V, e, q0 = T.nfa_view(N), T._eps(N), rec_get(N, 'q0').z
    hyp = T.subset_struct(N, R)
    P = lambda w: Implies(T.over(rec_get(N, 'Sigma').z, w), And(T.dhat(T.dfa_delta_val(R), rec_get(R, 'q0').z, w) == T.name_of_set(T.Nhat(V, e, q0, w)),
                                                               Select(rec_get(R, 'Q').z, T.dhat(T.dfa_delta_val(R), rec_get(R, 'q0').z, w))))
    return [(t, [hyp] + h, g) for (t, h, g) in word_ind(P)]


@proof('subset', 'subset-reach')
def _():
    N, R = SV(REC('NFA'), Const('N_', T._NFAs)), SV(REC('DFA'), Const('R_', sort_of(REC('DFA'))))
    V, e, q0, Sg = T.nfa_view(N), T._eps(N), rec_get(N, 'q0').z, rec_get(N, 'Sigma').z
    hyp = T.subset_struct(N, R)
    Rch = T.Reach(T.dfa_delta_val(R), rec_get(R, 'Sigma').z, rec_get(R, 'q0').z)
    P = lambda Sx: And(Select(rec_get(R, 'Q').z, T.name_of_set(Sx)), Select(Rch, T.name_of_set(Sx)))
    S0 = Const('S0_', T.SetA)
    return [('least', [hyp, T.Sreach_least(V, e, q0, Sg, P), T.Sreach(V, e, q0, Sg, S0)], P(S0))]


@proof('pda', 'EcloP-mono')
def _():
    P = SV(REC('PDA'), Const('P_', T.PDAs)); A, B = Const('A_', T.SetC), Const('B_', T.SetC); c = Const('c_', T.Conf); c0 = Const('c0_', T.Conf)
    return [('least', [ForAll([c], Implies(Select(A, c), Select(B, c))), T.EcloP_least(P, A, T.EcloP(P.z, B)), Select(T.EcloP(P.z, A), c0)], Select(T.EcloP(P.z, B), c0))]


def int_ind(P, lo=0):
    """induction on an integer >= lo: P(lo) and (j >= lo and P(j)) => P(j+1)"""
    j = fresh_z('j', z3.IntSort())
    return [('base', [], P(z3.IntVal(lo))), ('step', [j >= lo, P(j)], P(j + 1))]


@proof('tm', 'run-sticky')
def _():
    Tm = Const('Tm_', T.TMs); w = Const('w0_', Word); i = Const('i_', z3.IntSort())
    hyp = And(0 <= i, T.tm_halting(Tm, T.run_q(Tm, w, i)))
    return [(t, [hyp] + h, g) for (t, h, g) in int_ind(lambda k: Implies(i <= k, T.run_q(Tm, w, k) == T.run_q(Tm, w, i)))]


@proof('tm', 'run-sticky-0')
def _():
    Tm = Const('Tm_', T.TMs); w = Const('w0_', Word); k = Const('k0_', z3.IntSort())
    q0 = rec_get(SV(REC('TM'), Tm), 'q0').z
    return [('inst', [T.run_q(Tm, w, 0) == q0, 0 <= k, T.tm_halting(Tm, q0)], T.run_q(Tm, w, k) == q0)]


def prove_lemmas(theories, timeout=10):
    """-> list of (name, status, log); a lemma may use the def/lfp/assumed axioms of the selected theories and earlier lemmas"""
    from .smt import discharge
    obls = []
    order = ['word', 'wordx', 'naming', 'dfa', 'nfa', 'regexp', 'tm', 'pda', 'cfg', 'iso', 'subset']
    ths = [t for t in order if t in theories] + [t for t in theories if t not in order]
    avail = []
    for th in ths:
        avail += [f for (tag, n, f) in T.AXIOMS.get(th, []) if tag in ('def', 'lfp', 'assumed')]
    jobs = []
    for th in ths:
        for (tag, n, f) in T.AXIOMS.get(th, []):
            if tag != 'lemma': continue
            pf = PROOFS.get((th, n))
            if pf is None:
                jobs.append((n, None, None)); continue
            for (part, hyps, goal) in pf():
                o = Obligation('theory.' + th, '%s/%s' % (n, part), 'lemma', list(avail) + hyps, goal)
                jobs.append((n, o, None))
            avail.append(f)
    # generated set identities: each must follow from the pointwise definitions of the set operations alone
    from . import sets as S_
    defs = [f for n_, f in S_.GEN_AXIOMS if n_ not in S_.GEN_LEMMAS and not n_.startswith(('fin-', 'card-'))]
    for n_, f in S_.GEN_AXIOMS:
        if n_ in S_.GEN_LEMMAS:
            o = Obligation('theory.sets', n_, 'lemma', list(defs), f); o.skip_relevance = True
            jobs.append((n_, o, None))
    os_ = [o for (_n, o, _x) in jobs if o is not None]
    from . import sets as S
    from .verify import relevant_generated
    for o in os_:
        if not getattr(o, 'skip_relevance', False): o.hyps = relevant_generated(o, []) + o.hyps
    discharge(os_, [], timeout=timeout)
    res = {}
    for (n, o, _x) in jobs:
        if o is None: res[n] = ('unproved', 'no proof script'); continue
        st, log = res.get(n, ('unsat', ''))
        if o.status != 'unsat': st = o.status or 'unknown'
        res[n] = (st, (log + ' ' + o.name + ':' + o.output).strip())
    return [(n, st, log) for n, (st, log) in res.items()]
