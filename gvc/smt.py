"""Back ends: one obligation = one SMT-LIB file = one fresh solver process (DESIGN 2.5, 2.10 rule 6)."""
import os, subprocess, tempfile, time, shutil
from concurrent.futures import ThreadPoolExecutor
import z3

Z3_NEW = shutil.which('z3-new') or '/usr/local/bin/z3-new'
CVC5 = '/usr/bin/cvc5'
Z3_OLD = '/usr/bin/z3'


def to_smt2(hyps, goal):
    s = z3.Solver()
    # z3's printer declares datatypes in order of first occurrence and does not look inside array sorts of datatype fields:
    # mention every registered sort once, in creation order (inner sorts are created first), so that declarations are ordered
    from . import ty
    for key, parts in list(ty._sorts.items()):
        srt = parts[0]
        if srt.kind() == z3.Z3_DATATYPE_SORT:
            c = z3.Const('sortorder_' + str(abs(hash(key)) % 10 ** 8), srt); s.add(c == c)
    for h in hyps: s.add(h)
    s.add(z3.Not(goal))
    return '(set-logic ALL)\n' + s.to_smt2()


def _run(cmd, timeout):
    t = time.time()
    try:
        r = subprocess.run(cmd, capture_output=True, text=True, timeout=timeout + 5)
        out = (r.stdout.strip().split('\n') or [''])[0].strip()
        err = r.stderr.strip()[:300]
    except subprocess.TimeoutExpired:
        out, err = 'timeout', ''
    return out, err, int((time.time() - t) * 1000)


def _cmd(b, path, timeout):
    if b == 'z3': return [Z3_NEW, '-T:%d' % timeout, 'smt.random_seed=1', path]
    if b == 'z3e': return [Z3_NEW, '-T:%d' % timeout, 'smt.auto_config=false', 'smt.mbqi=false', 'smt.random_seed=1', path]   # E-matching only
    if b == 'cvc5': return [CVC5, '--tlimit=%d' % (timeout * 1000), '--full-saturate-quant', path]
    if b == 'cvc5-enum': return [CVC5, '--tlimit=%d' % (timeout * 1000), '--enum-inst', path]
    return [Z3_OLD, '-T:%d' % timeout, path]


def solve_file(path, timeout, backends=('z3e', 'z3', 'cvc5', 'z3old')):
    """portfolio: all back ends start at once on the same file, the first `unsat` wins and the others are killed.
    returns (verdict, backend, ms, log)  verdict in unsat | sat | unknown"""
    t0 = time.time()
    procs = {b: subprocess.Popen(_cmd(b, path, timeout), stdout=subprocess.PIPE, stderr=subprocess.PIPE, text=True) for b in backends}
    done = {}; verdict, used = 'unknown', None
    deadline = t0 + timeout + 5
    try:
        while procs and time.time() < deadline:
            for b, pr in list(procs.items()):
                if pr.poll() is not None:
                    out = (pr.stdout.read().strip().split('\n') or [''])[0].strip()
                    if not out: out = 'timeout' if 'timeout' in (pr.stderr.read() or '') else 'error'
                    done[b] = (out, int((time.time() - t0) * 1000))
                    del procs[b]
                    if out == 'unsat':
                        verdict, used = 'unsat', b; raise StopIteration
                    if out == 'sat' and verdict != 'sat': verdict, used = 'sat', b
            time.sleep(0.01)
    except StopIteration:
        pass
    finally:
        for b, pr in procs.items():
            try: pr.kill(); pr.wait(timeout=2)
            except Exception: pass
            done.setdefault(b, ('killed' if verdict == 'unsat' else 'timeout', int((time.time() - t0) * 1000)))
    ms = int((time.time() - t0) * 1000)
    log = ' '.join('%s:%s(%dms)' % (b, done[b][0], done[b][1]) for b in backends if b in done)
    return verdict, used, ms, log


def discharge(obls, theory_axioms, timeout=10, jobs=16, keep_dir=None, backends=('z3e', 'z3', 'cvc5', 'z3old')):
    d = tempfile.mkdtemp(prefix='gvc-smt-')
    try:
        files = []
        for i, o in enumerate(obls):
            f = os.path.join(d, 'o%04d.smt2' % i)
            with open(f, 'w') as fh: fh.write(to_smt2(list(theory_axioms) + o.hyps, o.goal))
            files.append(f)

        def work(i):
            o = obls[i]
            t = timeout if o.kind != 'canary' else min(timeout, 3)
            v, b, ms, log = solve_file(files[i], t, backends if o.kind != 'canary' else ('z3',))
            o.status, o.backend, o.ms, o.output = v, b, ms, log
            if keep_dir and ((o.kind != 'canary' and v != 'unsat') or (o.kind == 'canary' and v == 'unsat')):
                os.makedirs(keep_dir, exist_ok=True)
                shutil.copy(files[i], os.path.join(keep_dir, o.id.replace('/', '__').replace(':', '_') + '.smt2'))
        with ThreadPoolExecutor(max_workers=max(2, jobs // 2)) as ex:
            list(ex.map(work, range(len(obls))))
    finally:
        shutil.rmtree(d, ignore_errors=True)
    return obls
