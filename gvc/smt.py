"""Back ends: one obligation = one SMT-LIB file = one fresh solver process (DESIGN 2.5, 2.10 rule 6)."""
import os, subprocess, tempfile, time, shutil
from concurrent.futures import ThreadPoolExecutor
import z3

Z3_NEW = shutil.which('z3-new') or '/usr/local/bin/z3-new'
CVC5 = '/usr/bin/cvc5'
Z3_OLD = '/usr/bin/z3'


def to_smt2(hyps, goal):
    s = z3.Solver()
    for h in hyps: s.add(h)
    s.add(z3.Not(goal))
    return '(set-logic ALL)\n' + s.to_smt2()


def _run(cmd, timeout):
    t = time.time()
    try:
        r = subprocess.run(cmd, capture_output=True, text=True, timeout=timeout + 5)
        out = (r.stdout.strip().split('\n') or [''])[0].strip()
        err = r.stderr.strip()[:300]
    except subprocess.TimeoutExpired:
        out, err = 'timeout', ''
    return out, err, int((time.time() - t) * 1000)


def solve_file(path, timeout, backends=('z3', 'cvc5')):
    """returns (verdict, backend, ms, log)  verdict in unsat | sat | unknown"""
    log = []
    total = 0
    verdict = 'unknown'; used = None
    for b in backends:
        if b == 'z3': cmd = [Z3_NEW, '-T:%d' % timeout, 'smt.random_seed=1', path]
        elif b == 'cvc5': cmd = [CVC5, '--tlimit=%d' % (timeout * 1000), '--full-saturate-quant', path]
        elif b == 'cvc5-enum': cmd = [CVC5, '--tlimit=%d' % (timeout * 1000), '--enum-inst', path]
        else: cmd = [Z3_OLD, '-T:%d' % timeout, path]
        out, err, ms = _run(cmd, timeout)
        total += ms
        log.append('%s:%s(%dms)%s' % (b, out or 'error', ms, (' ' + err) if err and out not in ('unsat', 'sat') else ''))
        if out == 'unsat': return 'unsat', b, total, ' '.join(log)
        if out == 'sat' and verdict != 'sat': verdict, used = 'sat', b
    return verdict, used, total, ' '.join(log)


def discharge(obls, theory_axioms, timeout=10, jobs=16, keep_dir=None, backends=('z3', 'cvc5')):
    d = tempfile.mkdtemp(prefix='gvc-smt-')
    try:
        files = []
        for i, o in enumerate(obls):
            f = os.path.join(d, 'o%04d.smt2' % i)
            with open(f, 'w') as fh: fh.write(to_smt2(list(theory_axioms) + o.hyps, o.goal))
            files.append(f)

        def work(i):
            o = obls[i]
            t = timeout if o.kind != 'canary' else min(timeout, 3)
            v, b, ms, log = solve_file(files[i], t, backends if o.kind != 'canary' else ('z3',))
            o.status, o.backend, o.ms, o.output = v, b, ms, log
            if keep_dir and ((o.kind != 'canary' and v != 'unsat') or (o.kind == 'canary' and v == 'unsat')):
                os.makedirs(keep_dir, exist_ok=True)
                shutil.copy(files[i], os.path.join(keep_dir, o.id.replace('/', '__').replace(':', '_') + '.smt2'))
        with ThreadPoolExecutor(max_workers=jobs) as ex:
            list(ex.map(work, range(len(obls))))
    finally:
        shutil.rmtree(d, ignore_errors=True)
    return obls
