#!/bin/sh
# re-run the quick check of its property against every seeded change (applies the patch to /repo, runs, reverts); prints one line per change
cd "$(dirname "$0")/.." || exit 3
for d in seeded/C*-[A-D]; do
  id=$(basename "$d"); prop=${id%%-*}
  if git -C /repo apply --check "$PWD/$d/patch.diff" 2>/dev/null; then
    r=$(python3-vt tools/try_mutant.py "$PWD/$d" "$id" "$prop" --skip-confirm 2>&1 | tail -1)
    echo "$id $r"
  else
    echo "$id patch-does-not-apply-to-the-current-tree"
  fi
done
git -C /repo status --short
