#!/bin/sh
# re-generate obligations.lock for every claimed property (run on the pinned, unchanged tree only)
cd "$(dirname "$0")/.." || exit 3
for p in $(python3 -c "import json;print(' '.join(c['property_id'] for c in json.load(open('MANIFEST.json'))['checks']))") "$@"; do
  ./check $p --update-lock 2>&1 | tail -1
done
