"""Generator self-test (DESIGN 2.8): AST mutants of each function under contract, on a scratch copy of /repo/src outside
/repo and /verif (removed afterwards).  Every non-equivalent mutant must lose an obligation (or become unbound, in which
case the bounded stand-in decides).  Survivors are listed for review.
usage: python3-vt tools/selftest.py [contract key ...] [--max N]"""
import sys, os, ast, copy, shutil, tempfile, json, time
ROOT = os.path.dirname(os.path.dirname(os.path.abspath(__file__)))
sys.path.insert(0, ROOT)
maxm = 12
keys = []
for a in sys.argv[1:]:
    if a.startswith('--max='): maxm = int(a.split('=')[1])
    else: keys.append(a)
scratch = tempfile.mkdtemp(prefix='gvc-selftest-')
shutil.copytree('/repo/src', os.path.join(scratch, 'src'))
os.environ['GVC_REPO_SRC'] = os.path.join(scratch, 'src')
from gvc import verify as V, contract as C
from gvc.driver import load_contracts
REG = load_contracts()


class Mut(ast.NodeTransformer):
    """apply the k-th applicable mutation"""
    def __init__(self, k): self.k = k; self.n = 0; self.desc = None
    def hit(self):
        self.n += 1; return self.n - 1 == self.k
    def visit_Compare(self, node):
        self.generic_visit(node)
        if len(node.ops) == 1:
            swaps = {ast.Lt: ast.LtE, ast.LtE: ast.Lt, ast.Gt: ast.GtE, ast.GtE: ast.Gt, ast.Eq: ast.NotEq, ast.NotEq: ast.Eq, ast.In: ast.NotIn, ast.NotIn: ast.In}
            t = type(node.ops[0])
            if t in swaps and self.hit():
                self.desc = 'line %d: %s -> %s' % (node.lineno, t.__name__, swaps[t].__name__); node.ops = [swaps[t]()]
        return node
    def visit_BinOp(self, node):
        self.generic_visit(node)
        swaps = {ast.Add: ast.Sub, ast.Sub: ast.Add, ast.BitOr: ast.BitAnd, ast.BitAnd: ast.BitOr}
        t = type(node.op)
        if t in swaps and self.hit():
            self.desc = 'line %d: %s -> %s' % (node.lineno, t.__name__, swaps[t].__name__); node.op = swaps[t]()
        return node
    def visit_BoolOp(self, node):
        self.generic_visit(node)
        if self.hit():
            self.desc = 'line %d: and<->or' % node.lineno; node.op = ast.Or() if isinstance(node.op, ast.And) else ast.And()
        return node
    def visit_Constant(self, node):
        if isinstance(node.value, int) and not isinstance(node.value, bool) and self.hit():
            self.desc = 'line %d: %d -> %d' % (node.lineno, node.value, node.value + 1); return ast.copy_location(ast.Constant(value=node.value + 1), node)
        if isinstance(node.value, bool) and self.hit():
            self.desc = 'line %d: %s -> %s' % (node.lineno, node.value, not node.value); return ast.copy_location(ast.Constant(value=not node.value), node)
        return node
    def visit_If(self, node):
        self.generic_visit(node)
        if self.hit():
            self.desc = 'line %d: negate if condition' % node.lineno; node.test = ast.UnaryOp(op=ast.Not(), operand=node.test)
        return node
    def visit_UnaryOp(self, node):
        self.generic_visit(node)
        if isinstance(node.op, ast.Not) and self.hit():
            self.desc = 'line %d: drop not' % node.lineno; return node.operand
        return node


report = {}
try:
    for k in (keys or [c.key for c in REG.by_name.values()]):
        c = REG.by_name[k]
        path = c.path
        src = open(path, encoding='utf-8').read()
        tree = ast.parse(src)
        # locate function
        def find(tree):
            scope = tree.body; node = None
            for pn in c.qualname.split('.'):
                node = next(n for n in scope if isinstance(n, (ast.FunctionDef, ast.ClassDef)) and n.name == pn); scope = node.body
            return node
        fn = find(tree)
        # count mutation points
        probe = Mut(-1); probe.visit(copy.deepcopy(fn)); total = probe.n
        idxs = list(range(total))
        if total > maxm:
            step = total / float(maxm); idxs = sorted({int(i * step) for i in range(maxm)})
        res = []
        for i in idxs:
            t2 = ast.parse(src); f2 = find(t2)
            m = Mut(i); m.visit(f2); ast.fix_missing_locations(t2)
            open(path, 'w', encoding='utf-8').write(ast.unparse(t2))
            V._AN[0] = None
            r = V.verify(c, timeout=5)
            killed = r['status'] != 'proved'
            why = r.get('reason', '')[:80] if r['status'] == 'unbound' else ', '.join(o.name for o in r.get('failed', [])[:3])
            res.append({'mutation': m.desc, 'killed': killed, 'status': r['status'], 'by': why})
            print('%-28s %-40s %s %s' % (k, m.desc, 'KILLED ' if killed else 'SURVIVED', why[:70]), flush=True)
        open(path, 'w', encoding='utf-8').write(src)
        report[k] = res
finally:
    shutil.rmtree(scratch, ignore_errors=True)
out = os.path.join(ROOT, 'selftest-report.json')
old = json.load(open(out)) if os.path.exists(out) else {}
old.update(report); json.dump(old, open(out, 'w'), indent=1)
surv = [(k, r['mutation']) for k, rs in report.items() for r in rs if not r['killed']]
print('mutants: %d, survived: %d' % (sum(len(v) for v in report.values()), len(surv)))
for s_ in surv: print('  SURVIVED', s_)
