"""Every `fix:` commit of /repo, reverted on its own, is a regression mutant: the check of the property it was filed under
must report a violation again ("a fixed entry suppresses nothing").  Writes seeded/regress-<commit>/ (patch.diff, meta.json)."""
import json, os, subprocess, sys, time
ROOT = os.path.dirname(os.path.dirname(os.path.abspath(__file__)))
def sh(cmd, **k): return subprocess.run(cmd, shell=True, capture_output=True, text=True, **k)
kf = json.load(open(os.path.join(ROOT, 'known-findings.json')))
only = sys.argv[1:]
for e in kf['fixed']:
    c, prop = e['commit'], e['property']
    if only and c not in only: continue
    d = os.path.join(ROOT, 'seeded', 'regress-' + c); os.makedirs(d, exist_ok=True)
    patch = os.path.join(d, 'patch.diff')
    open(patch, 'w').write(sh('git -C /repo show -R --format= %s' % c).stdout)
    assert sh('git -C /repo status --porcelain').stdout.strip() == ''
    r = sh('git -C /repo apply %s' % patch)
    meta = {'id': 'regress-' + c, 'property': prop, 'what': e['record'], 'kind': 'reverted fix commit', 'demo': e.get('demo')}
    if r.returncode != 0:
        meta['applies'] = False; meta['note'] = 'reverse patch no longer applies (later fix touched the same lines): ' + r.stderr[:200]
        json.dump(meta, open(os.path.join(d, 'meta.json'), 'w'), indent=1); print(c, prop, 'DOES NOT APPLY'); continue
    ev = os.path.join(ROOT, 'evidence', prop + '.json'); saved = open(ev).read() if os.path.exists(ev) else None
    try:
        props = [prop] + {'C19': ['C18'], 'C18': ['C19'], 'C01': ['C03']}.get(prop, [])
        det = []
        for p in props:
            t = time.time(); rr = sh('./check %s --tier quick' % p, cwd=ROOT)
            det.append({'cmd': './check %s --tier quick' % p, 'exit': rr.returncode, 'wall_s': round(time.time() - t), 'lines': [l for l in rr.stdout.split('\n') if l.startswith(('VIOLATION', 'UNDECIDED')) or 'FAIL' in l][:6]})
            if rr.returncode == 1: break
        meta['ran'] = det; meta['detected'] = any(x['exit'] == 1 for x in det)
    finally:
        sh('git -C /repo checkout -- .')
        if saved is not None: open(ev, 'w').write(saved)
        sh('rm -f %s/replays/*.json' % ROOT)
    json.dump(meta, open(os.path.join(d, 'meta.json'), 'w'), indent=1)
    print(c, prop, 'detected' if meta['detected'] else 'MISSED', [x['exit'] for x in det])
