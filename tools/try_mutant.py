"""Confirm a seeded change in a scratch worktree and run the checks against it.
usage: tools/try_mutant.py <src dir with patch.diff, demo.py, notes.md> <seeded id> <property> [--props C01,C19] [--skip-confirm]
Confirms: patch applies; test suite passes with it; demo exits 1 with it and 0 without. Then applies it to /repo, runs
./check for the listed properties, reverts /repo, and writes seeded/<id>/{patch.diff,demo.py,meta.json}."""
import sys, os, subprocess, json, shutil, tempfile, time
ROOT = os.path.dirname(os.path.dirname(os.path.abspath(__file__)))
src, sid, prop = sys.argv[1], sys.argv[2], sys.argv[3]
props = [prop]
for a in sys.argv[4:]:
    if a.startswith('--props='): props = a.split('=')[1].split(',')
skip = '--skip-confirm' in sys.argv
def sh(cmd, **k): return subprocess.run(cmd, shell=True, capture_output=True, text=True, **k)
meta = {'id': sid, 'property': prop, 'ran': []}
_old = os.path.join(ROOT, 'seeded', sid, 'meta.json')
if os.path.exists(_old):
    o = json.load(open(_old))
    for k in ('demo_without_change_exit', 'tests_with_change', 'demo_with_change_exit', 'demo_output', 'confirmed'):
        if k in o: meta[k] = o[k]
    meta['history'] = o.get('history', []) + [{'detected': o.get('detected'), 'ran': o.get('ran')}]
patch = os.path.join(src, 'patch.diff'); demo = os.path.join(src, 'demo.py')
if not skip:
    wt = tempfile.mkdtemp(prefix='gvc-wt-'); os.rmdir(wt)
    r = sh('git -C /repo worktree add -q --detach %s HEAD' % wt); assert r.returncode == 0, r.stderr
    try:
        env = 'cd %s && PYTHONPATH=%s/src /venv/bin/python' % (wt, wt)
        r0 = sh('%s %s' % (env, demo)); meta['demo_without_change_exit'] = r0.returncode
        r = sh('git -C %s apply %s' % (wt, patch)); assert r.returncode == 0, 'patch does not apply: ' + r.stderr
        rt = sh('%s -m pytest -q -p no:cacheprovider --timeout=900 2>&1 | tail -1' % env); meta['tests_with_change'] = rt.stdout.strip()
        r1 = sh('%s %s' % (env, demo)); meta['demo_with_change_exit'] = r1.returncode; meta['demo_output'] = (r1.stdout + r1.stderr)[-600:]
    finally:
        sh('git -C /repo worktree remove --force %s' % wt); shutil.rmtree(wt, ignore_errors=True)
    ok = meta['demo_without_change_exit'] == 0 and meta['demo_with_change_exit'] == 1 and '50 passed' in meta['tests_with_change']
    meta['confirmed'] = ok
    print('confirm:', ok, meta['tests_with_change'], meta['demo_without_change_exit'], meta['demo_with_change_exit'])
    if not ok: print(json.dumps(meta, indent=1)); sys.exit(2)
assert sh('git -C /repo status --porcelain').stdout.strip() == '', '/repo not clean'
r = sh('git -C /repo apply %s' % patch); assert r.returncode == 0, r.stderr
_ev = {p: open(os.path.join(ROOT, 'evidence', p + '.json')).read() for p in props if os.path.exists(os.path.join(ROOT, 'evidence', p + '.json'))}
try:
    for p in props:
        t = time.time()
        r = sh('./check %s --tier quick' % p, cwd=ROOT)
        lines = [l for l in r.stdout.split('\n') if l.startswith(('VIOLATION', 'UNDECIDED', 'KNOWN')) or 'failed' in l or 'unbound' in l or 'FAIL' in l]
        meta['ran'].append({'cmd': './check %s --tier quick' % p, 'exit': r.returncode, 'wall_s': round(time.time() - t), 'lines': lines[:12]})
        print(p, 'exit', r.returncode); print('\n'.join('   ' + l[:200] for l in lines[:12]))
finally:
    sh('git -C /repo checkout -- .')
    for p, txt in _ev.items(): open(os.path.join(ROOT, 'evidence', p + '.json'), 'w').write(txt)      # evidence files are only ever committed from runs on the unchanged tree
    sh('rm -rf %s/replays/*.json %s/replays/smt' % (ROOT, ROOT))
d = os.path.join(ROOT, 'seeded', sid); os.makedirs(d, exist_ok=True)
for f_, n_ in ((patch, 'patch.diff'), (demo, 'demo.py')):
    if os.path.abspath(f_) != os.path.abspath(os.path.join(d, n_)): shutil.copy(f_, os.path.join(d, n_))
if os.path.exists(os.path.join(src, 'notes.md')): meta['needs_to_manifest'] = open(os.path.join(src, 'notes.md')).read()[:1500]
meta['detected'] = any(x['exit'] == 1 for x in meta['ran'])
json.dump(meta, open(os.path.join(d, 'meta.json'), 'w'), indent=1)
print('detected:', meta['detected'])
