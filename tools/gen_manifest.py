"""(Re)generate /verif/MANIFEST.json from gvc/props.py: a property is claimed when it has a check (contracts and/or a bounded stand-in)."""
import json, os, sys
ROOT = os.path.dirname(os.path.dirname(os.path.abspath(__file__)))
sys.path.insert(0, ROOT)
from gvc import props
from gvc.driver import load_contracts
REG = load_contracts()
ids = [json.loads(l)['id'] for l in open(os.path.join(ROOT, 'properties.jsonl'))]
checks, na = [], []
for pid in ids:
    sp = props.PROPS[pid]
    has_contracts = any(pid in c.props for c in REG.by_name.values())
    has_bounded = os.path.exists(os.path.join(ROOT, 'gvc', 'bounded', pid + '.py'))
    if not (has_contracts or has_bounded) or sp.get('not_applicable') or not sp.get('ready'):
        na.append({'property_id': pid, 'reason': sp.get('not_applicable') or 'no check built yet for this property (see DESIGN.md)'})
        continue
    checks.append({'property_id': pid,
                   'quick_cmd': './check %s --tier quick' % pid, 'thorough_cmd': './check %s --tier thorough' % pid,
                   'evidence_file': 'evidence/%s.json' % pid, 'replay_cmd_template': './check %s --replay {path}' % pid, 'engine': 'gvc',
                   'level_claimed': {'category': sp['level'], 'text': sp['claim'], 'design_ref': sp.get('design_ref', 'DESIGN.md section 0.3 (what was built and proved); section 4, ' + pid + ' (original plan)')},
                   'level_note': sp['note'], 'technique': sp['technique']})
m = {'version': 1,
     'setup_cmd': 'true',
     'hooks': {'guard': 'GAMBATOOLS_VERIF', 'enable': 'no hooks: contracts are sidecar files under /verif/gvc/contracts bound to functions by qualified name; /repo is never instrumented',
               'baseline_off_cmd': 'cd /repo && /venv/bin/python -m pytest -q -p no:cacheprovider --timeout=900', 'source_commits': [], 'add_only': True},
     'engines': [{'name': 'gvc', 'path': 'gvc/', 'serves_properties': [c['property_id'] for c in checks],
                  'kind_free_text': 'contract-based deductive verifier for a Python subset built here: sidecar contracts (requires/ensures/loop invariants/frames), VC generation by forward symbolic execution of the real source re-read from /repo on every run, discharged by z3 5.1 and cvc5 1.0.3 (one process per obligation), recursive lemmas proved by induction, static effect analysis for frame conditions; executable contracts + reference semantics as bounded stand-ins and counterexample search'}],
     'checks': checks,
     'notes': 'exit codes of ./check: 0 held, 1 violation (VIOLATION line, replay file), 2 undecided (obligation of unchanged code not discharged: solver budget problem), 3 checker crash. Genuine defects found and repaired are listed in known-findings.json (fixed:) with their fix: commits in /repo; open findings print KNOWN-FINDING.',
     'not_applicable': na}
json.dump(m, open(os.path.join(ROOT, 'MANIFEST.json'), 'w'), indent=1, ensure_ascii=False)
print('claimed', [c['property_id'] for c in checks], 'n/a', [x['property_id'] for x in na])
