/-
GvcTheory/Regexp.lean

Justification, against Mathlib's `Language α` and `RegularExpression α`, of the
regular-language axioms assumed by the SMT-based verifier (gvc).

The SMT sort "Lang" is `Language α`; the SMT function `L : Regexp → Lang` is
`RegularExpression.matches'`; SMT words are `List α`.

Labels (KA1..KA4, M0..M5, L0..L5) are those used in README.md.
No `sorry`, no `admit`, no new `axiom`.
-/
import Mathlib

open Language Computability

namespace GvcTheory

universe u
variable {α : Type u}

/-! ### Kleene-algebra identities (KA1 – KA4) -/

/-- (KA1) `0` is the unit of `+`. -/
theorem KA1 (X : Language α) : 0 + X = X ∧ X + 0 = X :=
  ⟨zero_add X, add_zero X⟩

/-- (KA2) `0` annihilates `*`. -/
theorem KA2 (X : Language α) : 0 * X = 0 ∧ X * 0 = 0 :=
  ⟨zero_mul X, mul_zero X⟩

/-- (KA3) `1` is the unit of `*`. -/
theorem KA3 (X : Language α) : 1 * X = X ∧ X * 1 = X :=
  ⟨one_mul X, mul_one X⟩

/-- (KA4) star of `0`, of `1`, and idempotence of star. -/
theorem KA4 (X : Language α) :
    (0 : Language α)∗ = 1 ∧ (1 : Language α)∗ = 1 ∧ X∗∗ = X∗ :=
  ⟨kstar_zero, kstar_one, kstar_idem X⟩

/-! ### Membership characterisations (M0 – M5) -/

/-- (M0) nothing is in the empty language. -/
theorem M0 (w : List α) : w ∉ (0 : Language α) :=
  Language.notMem_zero w

/-- (M1) `1` contains exactly the empty word. -/
theorem M1 (w : List α) : w ∈ (1 : Language α) ↔ w = [] :=
  Language.mem_one w

/-- (M2) the singleton language `{[a]}` contains exactly the one-letter word `[a]`. -/
theorem M2 (a : α) (w : List α) : w ∈ ({[a]} : Language α) ↔ w = [a] :=
  Iff.rfl

/-- (M3) membership in a sum is disjunction. -/
theorem M3 (X Y : Language α) (w : List α) : w ∈ X + Y ↔ w ∈ X ∨ w ∈ Y :=
  Language.mem_add X Y w

/-- (M4) membership in a product: there is a split point `k`. -/
theorem M4 (X Y : Language α) (w : List α) :
    w ∈ X * Y ↔ ∃ k, k ≤ w.length ∧ w.take k ∈ X ∧ w.drop k ∈ Y := by
  rw [Language.mem_mul]
  constructor
  · rintro ⟨a, ha, b, hb, rfl⟩
    refine ⟨a.length, ?_, ?_, ?_⟩
    · simp
    · simpa using ha
    · simpa using hb
  · rintro ⟨k, _, hX, hY⟩
    exact ⟨w.take k, hX, w.drop k, hY, List.take_append_drop k w⟩

/-- Helper: `X * X∗ ≤ X∗`. -/
theorem mul_kstar_le (X : Language α) : X * X∗ ≤ X∗ := by
  calc X * X∗ ≤ 1 + X * X∗ := le_add_of_nonneg_left zero_le
    _ = X∗ := Language.one_add_self_mul_kstar_eq_kstar X

/-- (M5) unfolding of star with a *non-empty* first factor. -/
theorem M5 (X : Language α) (w : List α) :
    w ∈ X∗ ↔ w = [] ∨ ∃ k, 1 ≤ k ∧ k ≤ w.length ∧ w.take k ∈ X ∧ w.drop k ∈ X∗ := by
  constructor
  · intro h
    rw [Language.mem_kstar_iff_exists_nonempty] at h
    obtain ⟨S, rfl, hS⟩ := h
    cases S with
    | nil => left; rfl
    | cons y S' =>
      right
      have hy := hS y (by simp)
      refine ⟨y.length, ?_, ?_, ?_, ?_⟩
      · exact List.length_pos_iff.mpr hy.2
      · simp
      · simpa using hy.1
      · have : (y :: S').flatten.drop y.length = S'.flatten := by simp
        rw [this]
        exact Language.join_mem_kstar fun z hz => (hS z (by simp [hz])).1
  · rintro (rfl | ⟨k, _, hk, hX, hS⟩)
    · exact Language.nil_mem_kstar X
    · exact mul_kstar_le X ((M4 X X∗ w).mpr ⟨k, hk, hX, hS⟩)

/-! ### The SMT function `L` is `RegularExpression.matches'` (L0 – L5) -/

section Matches
open RegularExpression

/-- (L0) `L(0) = 0`. -/
theorem L0 : (0 : RegularExpression α).matches' = 0 :=
  matches'_zero

/-- (L1) `L(1) = 1`. -/
theorem L1 : (1 : RegularExpression α).matches' = 1 :=
  matches'_epsilon

/-- (L2) `L(char a) = {[a]}`. -/
theorem L2 (a : α) : (char a).matches' = {[a]} :=
  matches'_char a

/-- (L3) `L(P + Q) = L(P) + L(Q)`. -/
theorem L3 (P Q : RegularExpression α) : (P + Q).matches' = P.matches' + Q.matches' :=
  matches'_add P Q

/-- (L4) `L(P * Q) = L(P) * L(Q)`. -/
theorem L4 (P Q : RegularExpression α) : (P * Q).matches' = P.matches' * Q.matches' :=
  matches'_mul P Q

/-- (L5) `L(star P) = L(P)∗`. -/
theorem L5 (P : RegularExpression α) : (star P).matches' = (P.matches')∗ :=
  matches'_star P

end Matches

end GvcTheory
