/-
GvcTheory/Words.lean

List facts used as SMT lemmas by the gvc verifier.  SMT words are `List α`,
the SMT constructor `snoc w a` is `w ++ [a]`.

Labels W1..W7 are those used in README.md.
No `sorry`, no `admit`, no new `axiom`.
-/
import Mathlib

namespace GvcTheory

universe u
variable {α : Type u}

/-- (W1) length of snoc. -/
theorem W1_length_snoc (w : List α) (a : α) : (w ++ [a]).length = w.length + 1 := by
  simp

/-- (W2) `take` of snoc. -/
theorem W2_take_snoc (w : List α) (a : α) (k : ℕ) :
    (w ++ [a]).take k = if k > w.length then w ++ [a] else w.take k := by
  split_ifs with h
  · exact List.take_of_length_le (by simp; omega)
  · exact List.take_append_of_le_length (by omega)

/-- (W3) `drop` of snoc. -/
theorem W3_drop_snoc (w : List α) (a : α) (k : ℕ) :
    (w ++ [a]).drop k = if k > w.length then [] else w.drop k ++ [a] := by
  split_ifs with h
  · exact List.drop_of_length_le (by simp; omega)
  · exact List.drop_append_of_le_length (by omega)

/-- (W4) `take k ++ drop k` reassembles the word. -/
theorem W4_take_append_drop (w : List α) (k : ℕ) : w.take k ++ w.drop k = w :=
  List.take_append_drop k w

/-- (W5) length of `take` within bounds. -/
theorem W5_length_take (w : List α) (k : ℕ) (h : k ≤ w.length) : (w.take k).length = k := by
  simp [h]

/-- (W6) length of `drop` (the hypothesis is not needed but kept to mirror the SMT lemma). -/
theorem W6_length_drop (w : List α) (k : ℕ) (_h : k ≤ w.length) :
    (w.drop k).length = w.length - k := by
  simp

/-- (W7) recursive characterisation of the prefix relation via `dropLast`. -/
theorem W7_prefix_iff (u w : List α) :
    u <+: w ↔ u = w ∨ (w ≠ [] ∧ u <+: w.dropLast) := by
  constructor
  · intro h
    by_cases huw : u = w
    · exact Or.inl huw
    · right
      obtain ⟨t, rfl⟩ := h
      have ht : t ≠ [] := by
        rintro rfl
        exact huw (by simp)
      refine ⟨by simp [ht], ?_⟩
      rw [List.dropLast_append_of_ne_nil ht]
      exact List.prefix_append u _
  · rintro (rfl | ⟨_, h⟩)
    · exact List.prefix_refl _
    · exact h.trans (List.dropLast_prefix w)

end GvcTheory
