/-
GvcTheory/Star.lean

Justification, against Mathlib's `Language α`, `Set.Finite`, `Set.ncard` and
`List α`, of three further groups of facts assumed by the SMT-based verifier (gvc):

* (S1)      the right unfolding of Kleene star with a non-empty last block
            (axiom "Language.mem_kstar, unfolding on the right with a non-empty
            last block" of theory `nfastar` in gvc/theory.py);
* (F1..F6)  the finite-set / cardinality facts behind the generated axioms
            `fin-*`, `card-*`, `B-product-finite`, `card_strict_subset`
            (gvc/sets.py, gvc/symexec.py), which are used for termination measures.
            F2a, F3a, F4c, F5a..F5c restate them in exactly the shape generated
            on the SMT side;
* (R1, R2)  reverse of lists (SMT lemmas);
* (X1, F7..F10) language extensionality, set-at-a-time cardinality facts, and finiteness of the set of subset names
            (axiom `pow-fin` of theory `subset`: termination measure of `nfa_to_dfa`).

SMT side                          Mathlib side
--------                          ------------
fin(A)                            `A.Finite`            (`A : Set β`)
card(A)                           `A.ncard`             (ℕ, so `card-nonneg` is automatic)
Store(A, x, true)                 `insert x A`
Store(A, x, false)                `A \ {x}`
K(false)                          `(∅ : Set β)`
diff(A, B)                        `A \ B`
Select(A, x)                      `x ∈ A`

Labels (S1, F1..F6, R1, R2) are those used in README.md.
No `sorry`, no `admit`, no new `axiom`.
-/
import Mathlib

open Language Computability

namespace GvcTheory

universe u v
variable {α : Type u} {β : Type v} {γ : Type*}

/-! ### (S1) Kleene star, unfolding on the right -/

/-- Helper: `X∗ * X ≤ X∗`. -/
theorem kstar_mul_le (X : Language α) : X∗ * X ≤ X∗ := by
  calc X∗ * X ≤ 1 + X∗ * X := le_add_of_nonneg_left zero_le
    _ = X∗ := Language.one_add_kstar_mul_self_eq_kstar X

/-- (S1) unfolding of star on the right with a *non-empty* last block:
`k < w.length` says that the last block `w.drop k` is not empty. -/
theorem S1 (X : Language α) (w : List α) :
    w ∈ X∗ ↔ w = [] ∨ ∃ k, k < w.length ∧ w.take k ∈ X∗ ∧ w.drop k ∈ X := by
  constructor
  · intro h
    rw [Language.mem_kstar_iff_exists_nonempty] at h
    obtain ⟨S, rfl, hS⟩ := h
    rcases List.eq_nil_or_concat S with rfl | ⟨S', y, rfl⟩
    · left; rfl
    · right
      rw [List.concat_eq_append] at hS ⊢
      have hy := hS y (by simp)
      have hlen : 0 < y.length := List.length_pos_iff.mpr hy.2
      refine ⟨S'.flatten.length, ?_, ?_, ?_⟩
      · simp; omega
      · have : (S' ++ [y]).flatten.take S'.flatten.length = S'.flatten := by simp
        rw [this]
        exact Language.join_mem_kstar fun z hz => (hS z (by simp [hz])).1
      · have : (S' ++ [y]).flatten.drop S'.flatten.length = y := by simp
        rw [this]
        exact hy.1
  · rintro (rfl | ⟨k, _, hS, hX⟩)
    · exact Language.nil_mem_kstar X
    · have hmul : w ∈ X∗ * X := by
        rw [Language.mem_mul]
        exact ⟨w.take k, hS, w.drop k, hX, List.take_append_drop k w⟩
      exact kstar_mul_le X hmul

/-! ### (F1 – F6) finite sets and cardinalities (termination measures) -/

/-- (F1) `B-product-finite`: a product of two finite sets is finite
(products of more factors follow by iterating). -/
theorem F1_finite_prod {A : Set β} {B : Set γ} (hA : A.Finite) (hB : B.Finite) :
    (A ×ˢ B).Finite :=
  hA.prod hB

/-- (F2) a subset of a finite set is finite. -/
theorem F2_finite_subset {A B : Set β} (hB : B.Finite) (h : A ⊆ B) : A.Finite :=
  hB.subset h

/-- (F2a) `fin-empty`: the empty set is finite. -/
theorem F2a_finite_empty : (∅ : Set β).Finite :=
  Set.finite_empty

/-- (F3) `fin-diff`: `A \ B` is finite if `A` is. -/
theorem F3_finite_diff {A : Set β} (hA : A.Finite) (B : Set β) : (A \ B).Finite :=
  hA.sdiff

/-- (F3a) `fin-add`, `fin-remove`: adding or removing one element does not change finiteness. -/
theorem F3a_finite_insert_remove (A : Set β) (x : β) :
    ((insert x A).Finite ↔ A.Finite) ∧ ((A \ {x}).Finite ↔ A.Finite) := by
  refine ⟨Set.finite_insert, ⟨fun h => ?_, fun h => h.sdiff⟩⟩
  exact (h.insert x).subset (by intro y hy; by_cases hyx : y = x <;> simp [hyx, hy])

/-- (F4a) `card-remove`, case `x ∈ A`: removing an element lowers the cardinality by one. -/
theorem F4a_ncard_diff_singleton {A : Set β} (_hA : A.Finite) {x : β} (hx : x ∈ A) :
    (A \ {x}).ncard = A.ncard - 1 :=
  Set.ncard_sdiff_singleton_of_mem hx

/-- (F4b) `card-pos`: a finite set with an element has cardinality at least one. -/
theorem F4b_ncard_pos {A : Set β} (hA : A.Finite) {x : β} (hx : x ∈ A) : A.ncard ≥ 1 :=
  (Set.ncard_pos hA).mpr ⟨x, hx⟩

/-- (F4c) `card-remove` in the shape generated on the SMT side (over ℤ, as there). -/
theorem F4c_card_remove {A : Set β} [DecidablePred (· ∈ A)] (hA : A.Finite) (x : β) :
    ((A \ {x}).ncard : ℤ) = if x ∈ A then (A.ncard : ℤ) - 1 else A.ncard := by
  split_ifs with hx
  · have h1 := F4a_ncard_diff_singleton hA hx
    have h2 := F4b_ncard_pos hA hx
    omega
  · rw [Set.sdiff_singleton_eq_self hx]

/-- (F5) `card-add`, case `x ∉ A`: adding a new element raises the cardinality by one. -/
theorem F5_ncard_insert {A : Set β} (hA : A.Finite) {x : β} (hx : x ∉ A) :
    (insert x A).ncard = A.ncard + 1 :=
  Set.ncard_insert_of_notMem hx hA

/-- (F5a) `card-add` in the shape generated on the SMT side. -/
theorem F5a_card_add {A : Set β} [DecidablePred (· ∈ A)] (hA : A.Finite) (x : β) :
    (insert x A).ncard = if x ∈ A then A.ncard else A.ncard + 1 := by
  split_ifs with hx
  · rw [Set.insert_eq_of_mem hx]
  · exact F5_ncard_insert hA hx

/-- (F5b) `card-empty`. -/
theorem F5b_ncard_empty : (∅ : Set β).ncard = 0 :=
  Set.ncard_empty β

/-- (F5c) `card-nonneg` (trivial: `ncard` is a natural number). -/
theorem F5c_ncard_nonneg (A : Set β) : (0 : ℤ) ≤ (A.ncard : ℤ) :=
  Int.natCast_nonneg _

/-- (F6) `card_strict_subset`: a subset of a finite set that misses an element of it is
finite and strictly smaller. -/
theorem F6_ncard_lt {A B : Set β} (hB : B.Finite) (h : A ⊆ B) {x : β} (hxB : x ∈ B)
    (hxA : x ∉ A) : A.Finite ∧ A.ncard < B.ncard :=
  ⟨hB.subset h, Set.ncard_lt_ncard ((Set.ssubset_iff_of_subset h).mpr ⟨x, hxB, hxA⟩) hB⟩

/-! ### (R1, R2) reverse of lists -/

/-- (R1) reverse of a concatenation. -/
theorem R1_reverse_append (u v : List α) : (u ++ v).reverse = v.reverse ++ u.reverse :=
  List.reverse_append

/-- (R2) reverse is an involution. -/
theorem R2_reverse_reverse (w : List α) : w.reverse.reverse = w :=
  List.reverse_reverse w

/-- (X1) languages with the same words are equal: the SMT axiom "Language.ext" of theory `thompson`. -/
theorem X1_language_ext {α : Type u} (X Y : Language α) (h : ∀ w, w ∈ X ↔ w ∈ Y) : X = Y :=
  Set.ext h

/-- (F7) cardinality of a difference with a subset (SMT axiom `card-diff-subset`). -/
theorem F7_ncard_diff_subset {β : Type u} (A B : Set β) (hA : A.Finite) (h : B ⊆ A) :
    (A \ B).ncard = A.ncard - B.ncard :=
  Set.ncard_sdiff h (hA.subset h)

/-- (F8) cardinality of a union is at most the sum (SMT axiom `card-union-le`). -/
theorem F8_ncard_union_le {β : Type u} (A B : Set β) : (A ∪ B).ncard ≤ A.ncard + B.ncard :=
  Set.ncard_union_le A B

/-- (F9) a union is finite iff both parts are (SMT axiom `fin-union`). -/
theorem F9_finite_union {β : Type u} (A B : Set β) : (A ∪ B).Finite ↔ A.Finite ∧ B.Finite :=
  Set.finite_union

/-- (F10) a finite set has finitely many subsets, hence finitely many subset names: the SMT axiom `pow-fin` of theory `subset`
    (`pow_names A = {x | setOf x ⊆ A ∧ name (setOf x) = x}` is contained in the image of the powerset under `name`). -/
theorem F10_finite_pow_names {β γ : Type u} (name : Set β → γ) (setOf : γ → Set β) (A : Set β) (hA : A.Finite) :
    {x : γ | setOf x ⊆ A ∧ name (setOf x) = x}.Finite := by
  apply Set.Finite.subset (hA.powerset.image name)
  intro x hx
  exact ⟨setOf x, hx.1, hx.2⟩

end GvcTheory
