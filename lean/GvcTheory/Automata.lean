/-
GvcTheory/Automata.lean

Justification, against Mathlib's `DFA α σ` and `εNFA α σ`, of the automata
axioms assumed by the SMT-based verifier (gvc).

SMT side                      Mathlib side
--------                      ------------
delta*(s, w)                  `DFA.evalFrom M s w`
Eclo(S)                       `εNFA.εClosure M S`
move(S, a)                    `⋃ s ∈ S, M.step s (some a)`
Delta*(S, w)                  `εNFA.evalFrom M S w`

Labels (D1.., E1.., E2.., E3..) are those used in README.md.
No `sorry`, no `admit`, no new `axiom`.
-/
import Mathlib

open Set Computability

namespace GvcTheory

universe u v
variable {α : Type u} {σ : Type v}

/-! ### (D1) DFA evaluation -/

/-- (D1a) evaluating the empty word stays put. -/
theorem D1_evalFrom_nil (M : DFA α σ) (s : σ) : M.evalFrom s [] = s :=
  DFA.evalFrom_nil M s

/-- (D1b) evaluating a snoc takes one more step. -/
theorem D1_evalFrom_snoc (M : DFA α σ) (s : σ) (x : List α) (a : α) :
    M.evalFrom s (x ++ [a]) = M.step (M.evalFrom s x) a :=
  DFA.evalFrom_append_singleton M s x a

/-- (D1c) acceptance. -/
theorem D1_mem_accepts (M : DFA α σ) (x : List α) :
    x ∈ M.accepts ↔ M.evalFrom M.start x ∈ M.accept :=
  DFA.mem_accepts M

/-! ### (E1) ε-closure: extensive, closed under ε-steps, least such -/

/-- (E1a) `S ⊆ Eclo(S)`. -/
theorem E1_subset_εClosure (M : εNFA α σ) (S : Set σ) : S ⊆ M.εClosure S :=
  εNFA.subset_εClosure M S

/-- (E1b) `Eclo(S)` is closed under ε-steps. -/
theorem E1_εClosure_step (M : εNFA α σ) (S : Set σ) (s t : σ) :
    s ∈ M.εClosure S → t ∈ M.step s none → t ∈ M.εClosure S :=
  fun hs ht => εNFA.εClosure.step s t ht hs

/-- (E1c) `Eclo(S)` is the least ε-closed superset of `S`. -/
theorem E1_εClosure_least (M : εNFA α σ) (S T : Set σ) :
    S ⊆ T → (∀ s ∈ T, ∀ t ∈ M.step s none, t ∈ T) → M.εClosure S ⊆ T := by
  intro hST hT x hx
  induction hx with
  | base s hs => exact hST hs
  | step s t ht _ ih => exact hT s ih t ht

/-- Helper: ε-closure is monotone. -/
theorem εClosure_mono (M : εNFA α σ) {S T : Set σ} (h : S ⊆ T) :
    M.εClosure S ⊆ M.εClosure T :=
  E1_εClosure_least M S (M.εClosure T) (h.trans (M.subset_εClosure T))
    (fun s hs t ht => E1_εClosure_step M T s t hs ht)

/-! ### (E2) εNFA evaluation and `stepSet` -/

/-- (E2a) evaluating the empty word is the ε-closure. -/
theorem E2_evalFrom_nil (M : εNFA α σ) (S : Set σ) : M.evalFrom S [] = M.εClosure S :=
  εNFA.evalFrom_nil M S

/-- (E2b) evaluating a snoc is one `stepSet`. -/
theorem E2_evalFrom_snoc (M : εNFA α σ) (S : Set σ) (x : List α) (a : α) :
    M.evalFrom S (x ++ [a]) = M.stepSet (M.evalFrom S x) a :=
  εNFA.evalFrom_append_singleton M S x a

/-- (E2c) unfolding of `stepSet`. -/
theorem E2_mem_stepSet (M : εNFA α σ) (S : Set σ) (a : α) (t : σ) :
    t ∈ M.stepSet S a ↔ ∃ s ∈ S, t ∈ M.εClosure (M.step s (some a)) :=
  εNFA.mem_stepSet_iff

/-- (E2d) `stepSet S a = Eclo(move(S, a))`: the union of the closures is the closure
of the union of the `a`-successors. -/
theorem E2_stepSet_eq_εClosure_move (M : εNFA α σ) (S : Set σ) (a : α) :
    M.stepSet S a = M.εClosure (⋃ s ∈ S, M.step s (some a)) := by
  apply Set.Subset.antisymm
  · intro t ht
    obtain ⟨s, hs, hts⟩ := (E2_mem_stepSet M S a t).mp ht
    exact εClosure_mono M (Set.subset_biUnion_of_mem (u := fun s => M.step s (some a)) hs) hts
  · apply E1_εClosure_least
    · intro t ht
      simp only [Set.mem_iUnion, exists_prop] at ht
      obtain ⟨s, hs, hts⟩ := ht
      exact (E2_mem_stepSet M S a t).mpr ⟨s, hs, M.subset_εClosure _ hts⟩
    · intro s hs t ht
      obtain ⟨r, hr, hsr⟩ := (E2_mem_stepSet M S a s).mp hs
      exact (E2_mem_stepSet M S a t).mpr ⟨r, hr, E1_εClosure_step M _ s t hsr ht⟩

/-! ### (E3) εNFA acceptance -/

/-- (E3a) `eval` is `evalFrom start`. -/
theorem E3_eval_eq (M : εNFA α σ) : M.eval = M.evalFrom M.start :=
  rfl

/-- (E3b) acceptance: some accepting state is reached. -/
theorem E3_mem_accepts (M : εNFA α σ) (x : List α) :
    x ∈ M.accepts ↔ ∃ s ∈ M.accept, s ∈ M.evalFrom M.start x :=
  Iff.rfl

/-- (E3c) run characterisation (restating `εNFA.mem_accepts_iff_exists_path`): `x` is accepted
iff there is a path from a start state to an accepting state whose label sequence, with the
ε-labels (`none`) erased, is `x`. -/
theorem E3_mem_accepts_iff_exists_path (M : εNFA α σ) (x : List α) :
    x ∈ M.accepts ↔
      ∃ s₁ s₂ x', s₁ ∈ M.start ∧ s₂ ∈ M.accept ∧ x'.reduceOption = x ∧ M.IsPath s₁ s₂ x' :=
  εNFA.mem_accepts_iff_exists_path M

/-- (E3d) run characterisation of `evalFrom` from a single state (restating
`εNFA.mem_evalFrom_iff_exists_path`). -/
theorem E3_mem_evalFrom_iff_exists_path (M : εNFA α σ) (s₁ s₂ : σ) (x : List α) :
    s₂ ∈ M.evalFrom {s₁} x ↔ ∃ x', x'.reduceOption = x ∧ M.IsPath s₁ s₂ x' :=
  εNFA.mem_evalFrom_iff_exists_path M

/-- (E3e) `evalFrom` distributes over the start set (restating
`εNFA.mem_evalFrom_iff_exists`). -/
theorem E3_mem_evalFrom_iff_exists (M : εNFA α σ) (S : Set σ) (s : σ) (x : List α) :
    s ∈ M.evalFrom S x ↔ ∃ t ∈ S, s ∈ M.evalFrom {t} x :=
  εNFA.mem_evalFrom_iff_exists M

end GvcTheory
