(set-logic ALL)
; benchmark generated from python API
(set-info :status unknown)
(declare-sort Atom 0)
(declare-datatypes ((Tup_atom__atom 0)) (((mk_Tup_atom__atom (Tup_atom__atom_f0 Atom) (Tup_atom__atom_f1 Atom)))))
(declare-datatypes ((Tup_atom__atom__atom 0)) (((mk_Tup_atom__atom__atom (Tup_atom__atom__atom_f0 Atom) (Tup_atom__atom__atom_f1 Atom) (Tup_atom__atom__atom_f2 Atom)))))
(declare-datatypes ((Map_tup_atom_atom___atom 0)) (((mk_Map_tup_atom_atom___atom (dom_Map_tup_atom_atom___atom (Array Tup_atom__atom Bool)) (val_Map_tup_atom_atom___atom (Array Tup_atom__atom Atom))))))
(declare-datatypes ((Rec_DFA 0)) (((mk_Rec_DFA (Rec_DFA_Q (Array Atom Bool)) (Rec_DFA_Sigma (Array Atom Bool)) (Rec_DFA_delta Map_tup_atom_atom___atom) (Rec_DFA_q0 Atom) (Rec_DFA_F (Array Atom Bool))))))
(declare-datatypes ((Map_tup_atom_atom___tup_atom_atom_atom_ 0)) (((mk_Map_tup_atom_atom___tup_atom_atom_atom_ (dom_Map_tup_atom_atom___tup_atom_atom_atom_ (Array Tup_atom__atom Bool)) (val_Map_tup_atom_atom___tup_atom_atom_atom_ (Array Tup_atom__atom Tup_atom__atom__atom))))))
(declare-datatypes ((Rec_TM 0)) (((mk_Rec_TM (Rec_TM_Q (Array Atom Bool)) (Rec_TM_Sigma (Array Atom Bool)) (Rec_TM_Gamma (Array Atom Bool)) (Rec_TM_delta Map_tup_atom_atom___tup_atom_atom_atom_) (Rec_TM_q0 Atom) (Rec_TM_q_accept Atom) (Rec_TM_q_reject Atom) (Rec_TM_blank Atom)))))
(declare-datatypes ((List_atom 0)) (((mk_List_atom (len_List_atom Int) (arr_List_atom (Array Int Atom))))))
(declare-datatypes ((Map_tup_atom_atom___set_atom_ 0)) (((mk_Map_tup_atom_atom___set_atom_ (dom_Map_tup_atom_atom___set_atom_ (Array Tup_atom__atom Bool)) (val_Map_tup_atom_atom___set_atom_ (Array Tup_atom__atom (Array Atom Bool)))))))
(declare-datatypes ((Rec_NFA 0)) (((mk_Rec_NFA (Rec_NFA_Q (Array Atom Bool)) (Rec_NFA_Sigma (Array Atom Bool)) (Rec_NFA_delta Map_tup_atom_atom___set_atom_) (Rec_NFA_q0 Atom) (Rec_NFA_F (Array Atom Bool)) (Rec_NFA_epsilon Atom)))))
(declare-datatypes ((Map_tup_atom_atom_atom___set_tup_atom_atom__ 0)) (((mk_Map_tup_atom_atom_atom___set_tup_atom_atom__ (dom_Map_tup_atom_atom_atom___set_tup_atom_atom__ (Array Tup_atom__atom__atom Bool)) (val_Map_tup_atom_atom_atom___set_tup_atom_atom__ (Array Tup_atom__atom__atom (Array Tup_atom__atom Bool)))))))
(declare-datatypes ((Rec_PDA 0)) (((mk_Rec_PDA (Rec_PDA_Q (Array Atom Bool)) (Rec_PDA_Sigma (Array Atom Bool)) (Rec_PDA_Gamma (Array Atom Bool)) (Rec_PDA_delta Map_tup_atom_atom_atom___set_tup_atom_atom__) (Rec_PDA_q0 Atom) (Rec_PDA_F (Array Atom Bool)) (Rec_PDA_epsilon Atom)))))
(declare-datatypes ((Word 0)) (((nil) (snoc (init Word) (last Atom)))))
(declare-datatypes ((Rec_PDAState 0)) (((mk_Rec_PDAState (Rec_PDAState_q Atom) (Rec_PDAState_stack Word)))))
(declare-datatypes ((Rec_Alternative 0)) (((mk_Rec_Alternative (Rec_Alternative_symbols List_atom)))))
(declare-datatypes ((Rec_Rule 0)) (((mk_Rec_Rule (Rec_Rule_variable Atom) (Rec_Rule_alternative Rec_Alternative)))))
(declare-datatypes ((List_rec_Rule_ 0)) (((mk_List_rec_Rule_ (len_List_rec_Rule_ Int) (arr_List_rec_Rule_ (Array Int Rec_Rule))))))
(declare-datatypes ((Rec_CFG 0)) (((mk_Rec_CFG (Rec_CFG_V (Array Atom Bool)) (Rec_CFG_Sigma (Array Atom Bool)) (Rec_CFG_R List_rec_Rule_) (Rec_CFG_S Atom) (Rec_CFG_epsilon Atom)))))
(declare-datatypes ((Tup_atom__word 0)) (((mk_Tup_atom__word (Tup_atom__word_f0 Atom) (Tup_atom__word_f1 Word)))))
(declare-datatypes ((List_tup_atom_word_ 0)) (((mk_List_tup_atom_word_ (len_List_tup_atom_word_ Int) (arr_List_tup_atom_word_ (Array Int Tup_atom__word))))))
(declare-datatypes ((NoneT 0)) (((none_value))))
(declare-datatypes ((Tup_atom__list_atom___int 0)) (((mk_Tup_atom__list_atom___int (Tup_atom__list_atom___int_f0 Atom) (Tup_atom__list_atom___int_f1 List_atom) (Tup_atom__list_atom___int_f2 Int)))))
(declare-datatypes ((List_tup_atom_list_atom__int_ 0)) (((mk_List_tup_atom_list_atom__int_ (len_List_tup_atom_list_atom__int_ Int) (arr_List_tup_atom_list_atom__int_ (Array Int Tup_atom__list_atom___int))))))
(declare-datatypes ((Tup_atom__int 0)) (((mk_Tup_atom__int (Tup_atom__int_f0 Atom) (Tup_atom__int_f1 Int)))))
(declare-datatypes ((Tup_tup_atom_atom_atom___set_tup_atom_atom__ 0)) (((mk_Tup_tup_atom_atom_atom___set_tup_atom_atom__ (Tup_tup_atom_atom_atom___set_tup_atom_atom___f0 Tup_atom__atom__atom) (Tup_tup_atom_atom_atom___set_tup_atom_atom___f1 (Array Tup_atom__atom Bool))))))
(declare-datatypes ((List_list_atom_ 0)) (((mk_List_list_atom_ (len_List_list_atom_ Int) (arr_List_list_atom_ (Array Int List_atom))))))
(declare-datatypes ((Map_atom__list_list_atom__ 0)) (((mk_Map_atom__list_list_atom__ (dom_Map_atom__list_list_atom__ (Array Atom Bool)) (val_Map_atom__list_list_atom__ (Array Atom List_list_atom_))))))
(declare-datatypes ((Tup_int__int 0)) (((mk_Tup_int__int (Tup_int__int_f0 Int) (Tup_int__int_f1 Int)))))
(declare-datatypes ((Map_tup_int_int___set_atom_ 0)) (((mk_Map_tup_int_int___set_atom_ (dom_Map_tup_int_int___set_atom_ (Array Tup_int__int Bool)) (val_Map_tup_int_int___set_atom_ (Array Tup_int__int (Array Atom Bool)))))))
(declare-fun sortorder_12662086 () Tup_atom__atom)
(declare-fun sortorder_65004219 () Tup_atom__atom__atom)
(declare-fun sortorder_64604701 () Map_tup_atom_atom___atom)
(declare-fun sortorder_35107853 () Rec_DFA)
(declare-fun sortorder_86247465 () Map_tup_atom_atom___tup_atom_atom_atom_)
(declare-fun sortorder_66076613 () Rec_TM)
(declare-fun sortorder_28747606 () List_atom)
(declare-fun sortorder_56337898 () Map_tup_atom_atom___set_atom_)
(declare-fun sortorder_32115514 () Rec_NFA)
(declare-fun sortorder_16733881 () Map_tup_atom_atom_atom___set_tup_atom_atom__)
(declare-fun sortorder_97369364 () Rec_PDA)
(declare-fun sortorder_72946182 () Word)
(declare-fun sortorder_19623335 () Rec_PDAState)
(declare-fun sortorder_49628209 () Rec_Alternative)
(declare-fun sortorder_48841421 () Rec_Rule)
(declare-fun sortorder_66246293 () List_rec_Rule_)
(declare-fun sortorder_70004090 () Rec_CFG)
(declare-fun sortorder_61996294 () Tup_atom__word)
(declare-fun sortorder_11298030 () List_tup_atom_word_)
(declare-fun sortorder_42520684 () NoneT)
(declare-fun sortorder_5177120 () Tup_atom__list_atom___int)
(declare-fun sortorder_29129873 () List_tup_atom_list_atom__int_)
(declare-fun sortorder_90192613 () Tup_atom__int)
(declare-fun sortorder_42613770 () Tup_tup_atom_atom_atom___set_tup_atom_atom__)
(declare-fun sortorder_6277049 () List_list_atom_)
(declare-fun sortorder_9288481 () Map_atom__list_list_atom__)
(declare-fun sortorder_7503940 () Tup_int__int)
(declare-fun sortorder_68055319 () Map_tup_int_int___set_atom_)
(declare-fun wlen (Word) Int)
(declare-fun over ((Array Atom Bool) Word) Bool)
(declare-fun isprefix (Word Word) Bool)
(declare-fun app (Word Word) Word)
(declare-fun cons (Atom Word) Word)
(declare-fun at (Word Int) Atom)
(declare-fun take (Int Word) Word)
(declare-fun drop (Int Word) Word)
(declare-fun rev (Word) Word)
(declare-fun der (Rec_CFG Atom Word Int Int) Bool)
(declare-fun view_tup_int_int_set_atom_ ((Array Tup_int__int Bool) (Array Tup_int__int (Array Atom Bool))) (Array Tup_int__int (Array Atom Bool)))
(declare-fun m!616 () Int)
(declare-fun i!651 () Int)
(declare-fun k!690 () Int)
(declare-fun X!689 () Map_tup_int_int___set_atom_)
(declare-fun prod!712 () (Array Tup_atom__atom Bool))
(declare-fun lit_L () Atom)
(declare-fun lit_R () Atom)
(declare-fun lit_ () Atom)
(declare-fun v_G () Rec_CFG)
(declare-fun v_verbose () Bool)
(declare-fun res_CFG_is_chomsky_0 (Rec_CFG) Bool)
(assert
 (= sortorder_12662086 sortorder_12662086))
(assert
 (= sortorder_65004219 sortorder_65004219))
(assert
 (= sortorder_64604701 sortorder_64604701))
(assert
 (= sortorder_35107853 sortorder_35107853))
(assert
 (= sortorder_86247465 sortorder_86247465))
(assert
 (= sortorder_66076613 sortorder_66076613))
(assert
 (= sortorder_28747606 sortorder_28747606))
(assert
 (= sortorder_56337898 sortorder_56337898))
(assert
 (= sortorder_32115514 sortorder_32115514))
(assert
 (= sortorder_16733881 sortorder_16733881))
(assert
 (= sortorder_97369364 sortorder_97369364))
(assert
 (= sortorder_72946182 sortorder_72946182))
(assert
 (= sortorder_19623335 sortorder_19623335))
(assert
 (= sortorder_49628209 sortorder_49628209))
(assert
 (= sortorder_48841421 sortorder_48841421))
(assert
 (= sortorder_66246293 sortorder_66246293))
(assert
 (= sortorder_70004090 sortorder_70004090))
(assert
 (= sortorder_61996294 sortorder_61996294))
(assert
 (= sortorder_11298030 sortorder_11298030))
(assert
 (= sortorder_42520684 sortorder_42520684))
(assert
 (= sortorder_5177120 sortorder_5177120))
(assert
 (= sortorder_29129873 sortorder_29129873))
(assert
 (= sortorder_90192613 sortorder_90192613))
(assert
 (= sortorder_42613770 sortorder_42613770))
(assert
 (= sortorder_6277049 sortorder_6277049))
(assert
 (= sortorder_9288481 sortorder_9288481))
(assert
 (= sortorder_7503940 sortorder_7503940))
(assert
 (= sortorder_68055319 sortorder_68055319))
(assert
 (let ((?x16 (wlen nil)))
 (= ?x16 0)))
(assert
 (forall ((w Word) (a Atom) )(let ((?x29 (snoc w a)))
 (let ((?x30 (wlen ?x29)))
 (= ?x30 (+ (wlen w) 1)))))
 )
(assert
 (forall ((w Word) )(let ((?x23 (wlen w)))
 (>= ?x23 0)))
 )
(assert
 (forall ((w Word) )(let (($x36 (= w nil)))
 (let ((?x23 (wlen w)))
 (let (($x37 (= ?x23 0)))
 (= $x37 $x36)))))
 )
(assert
 (forall ((S (Array Atom Bool)) )(over S nil))
 )
(assert
 (forall ((S (Array Atom Bool)) (w Word) (a Atom) )(= (over S (snoc w a)) (and (over S w) (select S a))))
 )
(assert
 (forall ((u Word) (w Word) )(let (($x62 (isprefix u w)))
 (= $x62 (or (= u w) (and (not ((_ is nil ) w)) (isprefix u (init w)))))))
 )
(assert
 (forall ((u Word) (w Word) (S (Array Atom Bool)) )(let (($x52 (over S u)))
 (let (($x53 (over S w)))
 (let (($x65 (and (isprefix u w) $x53)))
 (=> $x65 $x52)))))
 )
(assert
 (forall ((u Word) (w Word) )(let (($x62 (isprefix u w)))
 (=> $x62 (<= (wlen u) (wlen w)))))
 )
(assert
 (forall ((u Word) (w Word) )(let (($x60 (= u w)))
 (let (($x62 (isprefix u w)))
 (let (($x74 (and $x62 (= (wlen u) (wlen w)))))
 (=> $x74 $x60)))))
 )
(assert
 (forall ((w Word) )(isprefix nil w))
 )
(assert
 (forall ((u Word) )(= (app u nil) u))
 )
(assert
 (forall ((u Word) (v Word) (a Atom) )(= (app u (snoc v a)) (snoc (app u v) a)))
 )
(assert
 (forall ((a Atom) (w Word) )(= (cons a w) (app (snoc nil a) w)))
 )
(assert
 (forall ((u Word) (v Word) )(let ((?x93 (app u v)))
 (let ((?x94 (wlen ?x93)))
 (= ?x94 (+ (wlen u) (wlen v))))))
 )
(assert
 (forall ((u Word) )(= (app nil u) u))
 )
(assert
 (forall ((w Word) (a Atom) (i Int) )(= (at (snoc w a) i) (ite (= i (wlen w)) a (at w i))))
 )
(assert
 (forall ((k Int) )(= (take k nil) nil))
 )
(assert
 (forall ((k Int) (w Word) (a Atom) )(let ((?x29 (snoc w a)))
 (let ((?x117 (take k ?x29)))
 (= ?x117 (ite (> k (wlen w)) ?x29 (take k w))))))
 )
(assert
 (forall ((k Int) )(= (drop k nil) nil))
 )
(assert
 (forall ((k Int) (w Word) (a Atom) )(let ((?x29 (snoc w a)))
 (let ((?x127 (drop k ?x29)))
 (= ?x127 (ite (> k (wlen w)) nil (snoc (drop k w) a))))))
 )
(assert
 (forall ((k Int) (w Word) )(let (($x133 (= (wlen (take k w)) k)))
 (let (($x135 (>= k 0)))
 (let (($x136 (and $x135 (<= k (wlen w)))))
 (=> $x136 $x133)))))
 )
(assert
 (forall ((k Int) (w Word) )(let (($x135 (>= k 0)))
 (let (($x136 (and $x135 (<= k (wlen w)))))
 (=> $x136 (= (wlen (drop k w)) (- (wlen w) k))))))
 )
(assert
 (forall ((k Int) (w Word) )(let ((?x131 (take k w)))
 (let (($x121 (= ?x131 w)))
 (let ((?x23 (wlen w)))
 (let (($x122 (>= k ?x23)))
 (=> $x122 $x121))))))
 )
(assert
 (forall ((k Int) (w Word) )(let ((?x141 (drop k w)))
 (let (($x120 (= ?x141 w)))
 (let (($x146 (<= k 0)))
 (=> $x146 $x120)))))
 )
(assert
 (forall ((k Int) (w Word) )(= (app (take k w) (drop k w)) w))
 )
(assert
 (forall ((k Int) (w Word) (S (Array Atom Bool)) )(let ((?x114 (take k w)))
 (let (($x152 (over S ?x114)))
 (let (($x53 (over S w)))
 (=> $x53 $x152)))))
 )
(assert
 (forall ((k Int) (w Word) (S (Array Atom Bool)) )(let ((?x124 (drop k w)))
 (let (($x155 (over S ?x124)))
 (let (($x53 (over S w)))
 (=> $x53 $x155)))))
 )
(assert
 (forall ((u Word) (v Word) )(= (take (wlen u) (app u v)) u))
 )
(assert
 (forall ((u Word) (v Word) )(= (drop (wlen u) (app u v)) v))
 )
(assert
 (forall ((u Word) (w Word) )(let (($x166 (= u (take (wlen u) w))))
 (let (($x62 (isprefix u w)))
 (=> $x62 $x166))))
 )
(assert
 (forall ((w Word) )(= (take 0 w) nil))
 )
(assert
 (forall ((k Int) (w Word) )(let ((?x141 (drop k w)))
 (let (($x172 (= ?x141 nil)))
 (let ((?x23 (wlen w)))
 (let (($x122 (>= k ?x23)))
 (=> $x122 $x172))))))
 )
(assert
 (= (rev nil) nil))
(assert
 (forall ((w Word) (a Atom) )(= (rev (snoc w a)) (cons a (rev w))))
 )
(assert
 (forall ((Gg Rec_CFG) (A_ Atom) (w Word) (i_ Int) )(let (($x1079 (der Gg A_ w i_ i_)))
 (let (($x1111 (exists ((t_ Int) )(let ((?x1100 (Rec_Alternative_symbols (Rec_Rule_alternative (select (arr_List_rec_Rule_ (Rec_CFG_R Gg)) t_)))))
 (let (($x1103 (= (select (arr_List_atom ?x1100) 0) (at w i_))))
 (let (($x1105 (= (len_List_atom ?x1100) 1)))
 (let (($x1107 (= (Rec_Rule_variable (select (arr_List_rec_Rule_ (Rec_CFG_R Gg)) t_)) A_)))
 (let (($x347 (>= t_ 0)))
 (and $x347 (< t_ (len_List_rec_Rule_ (Rec_CFG_R Gg))) $x1107 $x1105 $x1103)))))))
 ))
 (= $x1111 $x1079))))
 )
(assert
 (forall ((Gg Rec_CFG) (A_ Atom) (w Word) (i_ Int) (j_ Int) )(let (($x1086 (der Gg A_ w i_ j_)))
 (let (($x1142 (exists ((t_ Int) (k_ Int) )(let ((?x411 (+ k_ 1)))
 (let ((?x1096 (Rec_Alternative_symbols (Rec_Rule_alternative (select (arr_List_rec_Rule_ (Rec_CFG_R Gg)) t_)))))
 (let ((?x1097 (arr_List_atom ?x1096)))
 (let ((?x1129 (select ?x1097 1)))
 (let (($x1132 (der Gg (select ?x1097 0) w i_ k_)))
 (let (($x1136 (= (len_List_atom ?x1096) 2)))
 (let (($x1138 (= (Rec_Rule_variable (select (arr_List_rec_Rule_ (Rec_CFG_R Gg)) t_)) A_)))
 (let (($x135 (>= t_ 0)))
 (and $x135 (< t_ (len_List_rec_Rule_ (Rec_CFG_R Gg))) $x1138 $x1136 (<= i_ k_) (< k_ j_) $x1132 (der Gg ?x1129 w ?x411 j_)))))))))))
 ))
 (=> (< i_ j_) (= $x1142 $x1086)))))
 )
(assert
 (forall ((d (Array Tup_int__int Bool)) (v (Array Tup_int__int (Array Atom Bool))) (k Tup_int__int) )(= (select (view_tup_int_int_set_atom_ d v) k) (ite (select d k) (select v k) ((as const (Array Atom Bool)) false))))
 )
(assert
 (forall ((x!713 Atom) (x!714 Atom) )(let ((?x3436 (view_tup_int_int_set_atom_ (dom_Map_tup_int_int___set_atom_ X!689) (val_Map_tup_int_int___set_atom_ X!689))))
 (let (($x3375 (select (select ?x3436 (mk_Tup_int__int (+ k!690 1) (+ i!651 m!616))) x!714)))
 (let (($x3412 (select (select ?x3436 (mk_Tup_int__int i!651 k!690)) x!713)))
 (let ((?x215 (mk_Tup_atom__atom x!713 x!714)))
 (let (($x3458 (select prod!712 ?x215)))
 (= $x3458 (and $x3412 $x3375))))))))
 )
(assert
 (and (distinct lit_ lit_R lit_L) true))
(assert
 (let ((?x2776 (Rec_CFG_R v_G)))
 (let ((?x2777 (len_List_rec_Rule_ ?x2776)))
 (>= ?x2777 0))))
(assert
 (not v_verbose))
(assert
 (let (($x2782 (res_CFG_is_chomsky_0 v_G)))
(not $x2782)))
(check-sat)
