(set-logic ALL)
; benchmark generated from python API
(set-info :status unknown)
(declare-sort Atom 0)
(declare-datatypes ((Tup_atom__atom 0)) (((mk_Tup_atom__atom (Tup_atom__atom_f0 Atom) (Tup_atom__atom_f1 Atom)))))
(declare-datatypes ((Tup_atom__atom__atom 0)) (((mk_Tup_atom__atom__atom (Tup_atom__atom__atom_f0 Atom) (Tup_atom__atom__atom_f1 Atom) (Tup_atom__atom__atom_f2 Atom)))))
(declare-datatypes ((Map_tup_atom_atom___atom 0)) (((mk_Map_tup_atom_atom___atom (dom_Map_tup_atom_atom___atom (Array Tup_atom__atom Bool)) (val_Map_tup_atom_atom___atom (Array Tup_atom__atom Atom))))))
(declare-datatypes ((Rec_DFA 0)) (((mk_Rec_DFA (Rec_DFA_Q (Array Atom Bool)) (Rec_DFA_Sigma (Array Atom Bool)) (Rec_DFA_delta Map_tup_atom_atom___atom) (Rec_DFA_q0 Atom) (Rec_DFA_F (Array Atom Bool))))))
(declare-datatypes ((Map_tup_atom_atom___tup_atom_atom_atom_ 0)) (((mk_Map_tup_atom_atom___tup_atom_atom_atom_ (dom_Map_tup_atom_atom___tup_atom_atom_atom_ (Array Tup_atom__atom Bool)) (val_Map_tup_atom_atom___tup_atom_atom_atom_ (Array Tup_atom__atom Tup_atom__atom__atom))))))
(declare-datatypes ((Rec_TM 0)) (((mk_Rec_TM (Rec_TM_Q (Array Atom Bool)) (Rec_TM_Sigma (Array Atom Bool)) (Rec_TM_Gamma (Array Atom Bool)) (Rec_TM_delta Map_tup_atom_atom___tup_atom_atom_atom_) (Rec_TM_q0 Atom) (Rec_TM_q_accept Atom) (Rec_TM_q_reject Atom) (Rec_TM_blank Atom)))))
(declare-datatypes ((List_atom 0)) (((mk_List_atom (len_List_atom Int) (arr_List_atom (Array Int Atom))))))
(declare-datatypes ((Map_tup_atom_atom___set_atom_ 0)) (((mk_Map_tup_atom_atom___set_atom_ (dom_Map_tup_atom_atom___set_atom_ (Array Tup_atom__atom Bool)) (val_Map_tup_atom_atom___set_atom_ (Array Tup_atom__atom (Array Atom Bool)))))))
(declare-datatypes ((Rec_NFA 0)) (((mk_Rec_NFA (Rec_NFA_Q (Array Atom Bool)) (Rec_NFA_Sigma (Array Atom Bool)) (Rec_NFA_delta Map_tup_atom_atom___set_atom_) (Rec_NFA_q0 Atom) (Rec_NFA_F (Array Atom Bool)) (Rec_NFA_epsilon Atom)))))
(declare-datatypes ((Map_tup_atom_atom_atom___set_tup_atom_atom__ 0)) (((mk_Map_tup_atom_atom_atom___set_tup_atom_atom__ (dom_Map_tup_atom_atom_atom___set_tup_atom_atom__ (Array Tup_atom__atom__atom Bool)) (val_Map_tup_atom_atom_atom___set_tup_atom_atom__ (Array Tup_atom__atom__atom (Array Tup_atom__atom Bool)))))))
(declare-datatypes ((Rec_PDA 0)) (((mk_Rec_PDA (Rec_PDA_Q (Array Atom Bool)) (Rec_PDA_Sigma (Array Atom Bool)) (Rec_PDA_Gamma (Array Atom Bool)) (Rec_PDA_delta Map_tup_atom_atom_atom___set_tup_atom_atom__) (Rec_PDA_q0 Atom) (Rec_PDA_F (Array Atom Bool)) (Rec_PDA_epsilon Atom)))))
(declare-datatypes ((Word 0)) (((nil) (snoc (init Word) (last Atom)))))
(declare-datatypes ((Rec_PDAState 0)) (((mk_Rec_PDAState (Rec_PDAState_q Atom) (Rec_PDAState_stack Word)))))
(declare-datatypes ((NoneT 0)) (((none_value))))
(declare-datatypes ((List_tup_atom_atom_ 0)) (((mk_List_tup_atom_atom_ (len_List_tup_atom_atom_ Int) (arr_List_tup_atom_atom_ (Array Int Tup_atom__atom))))))
(declare-datatypes ((Tup_tup_atom_atom___atom 0)) (((mk_Tup_tup_atom_atom___atom (Tup_tup_atom_atom___atom_f0 Tup_atom__atom) (Tup_tup_atom_atom___atom_f1 Atom)))))
(declare-datatypes ((Tup_word__word 0)) (((mk_Tup_word__word (Tup_word__word_f0 Word) (Tup_word__word_f1 Word)))))
(declare-fun sortorder_46701030 () Tup_atom__atom)
(declare-fun sortorder_14911482 () Tup_atom__atom__atom)
(declare-fun sortorder_79750676 () Map_tup_atom_atom___atom)
(declare-fun sortorder_36708527 () Rec_DFA)
(declare-fun sortorder_40174028 () Map_tup_atom_atom___tup_atom_atom_atom_)
(declare-fun sortorder_61728149 () Rec_TM)
(declare-fun sortorder_95690660 () List_atom)
(declare-fun sortorder_82155066 () Map_tup_atom_atom___set_atom_)
(declare-fun sortorder_41018108 () Rec_NFA)
(declare-fun sortorder_59721254 () Map_tup_atom_atom_atom___set_tup_atom_atom__)
(declare-fun sortorder_89277729 () Rec_PDA)
(declare-fun sortorder_83175600 () Word)
(declare-fun sortorder_36471712 () Rec_PDAState)
(declare-fun sortorder_88050527 () NoneT)
(declare-fun sortorder_35235554 () List_tup_atom_atom_)
(declare-fun sortorder_60852785 () Tup_tup_atom_atom___atom)
(declare-fun sortorder_74944743 () Map_tup_atom_atom___set_atom_)
(declare-fun sortorder_69807415 () Tup_word__word)
(declare-fun wlen (Word) Int)
(declare-fun over ((Array Atom Bool) Word) Bool)
(declare-fun isprefix (Word Word) Bool)
(declare-fun lit_q () Atom)
(declare-fun lit_symmetric_5f_difference () Atom)
(declare-fun lit_intersection () Atom)
(declare-fun lit_union () Atom)
(declare-fun lit_trap () Atom)
(declare-fun lit_L () Atom)
(declare-fun lit_R () Atom)
(declare-fun lit_ () Atom)
(declare-fun setcomp!677 () (Array Word Bool))
(declare-fun drop (Int Word) Word)
(declare-fun v_L () (Array Word Bool))
(declare-fun take (Int Word) Word)
(assert
 (= sortorder_46701030 sortorder_46701030))
(assert
 (= sortorder_14911482 sortorder_14911482))
(assert
 (= sortorder_79750676 sortorder_79750676))
(assert
 (= sortorder_36708527 sortorder_36708527))
(assert
 (= sortorder_40174028 sortorder_40174028))
(assert
 (= sortorder_61728149 sortorder_61728149))
(assert
 (= sortorder_95690660 sortorder_95690660))
(assert
 (= sortorder_82155066 sortorder_82155066))
(assert
 (= sortorder_41018108 sortorder_41018108))
(assert
 (= sortorder_59721254 sortorder_59721254))
(assert
 (= sortorder_89277729 sortorder_89277729))
(assert
 (= sortorder_83175600 sortorder_83175600))
(assert
 (= sortorder_36471712 sortorder_36471712))
(assert
 (= sortorder_88050527 sortorder_88050527))
(assert
 (= sortorder_35235554 sortorder_35235554))
(assert
 (= sortorder_60852785 sortorder_60852785))
(assert
 (= sortorder_74944743 sortorder_74944743))
(assert
 (= sortorder_69807415 sortorder_69807415))
(assert
 (= (wlen nil) 0))
(assert
 (forall ((w Word) (a Atom) )(let ((?x29 (snoc w a)))
 (let ((?x30 (wlen ?x29)))
 (= ?x30 (+ (wlen w) 1)))))
 )
(assert
 (forall ((w Word) )(let ((?x23 (wlen w)))
 (>= ?x23 0)))
 )
(assert
 (forall ((w Word) )(let (($x36 (= w nil)))
 (let ((?x23 (wlen w)))
 (let (($x37 (= ?x23 0)))
 (= $x37 $x36)))))
 )
(assert
 (forall ((S (Array Atom Bool)) )(over S nil))
 )
(assert
 (forall ((S (Array Atom Bool)) (w Word) (a Atom) )(= (over S (snoc w a)) (and (over S w) (select S a))))
 )
(assert
 (forall ((u Word) (w Word) )(let (($x62 (isprefix u w)))
 (= $x62 (or (= u w) (and (not ((_ is nil ) w)) (isprefix u (init w)))))))
 )
(assert
 (forall ((u Word) (w Word) (S (Array Atom Bool)) )(let (($x52 (over S u)))
 (let (($x53 (over S w)))
 (let (($x65 (and (isprefix u w) $x53)))
 (=> $x65 $x52)))))
 )
(assert
 (forall ((u Word) (w Word) )(let (($x62 (isprefix u w)))
 (=> $x62 (<= (wlen u) (wlen w)))))
 )
(assert
 (forall ((u Word) (w Word) )(let (($x60 (= u w)))
 (let (($x62 (isprefix u w)))
 (let (($x74 (and $x62 (= (wlen u) (wlen w)))))
 (=> $x74 $x60)))))
 )
(assert
 (forall ((w Word) )(isprefix nil w))
 )
(assert
 (and (distinct lit_ lit_R lit_L lit_trap lit_union lit_intersection lit_symmetric_5f_difference lit_q) true))
(assert
 (forall ((y!678 Word) )(let (($x3335 (select setcomp!677 y!678)))
 (let (($x3358 (exists ((x!675 Word) )(let (($x60 (= y!678 x!675)))
 (let (($x3352 (exists ((k!676 Int) )(let (($x3349 (select v_L (drop k!676 x!675))))
 (and (and (and (<= 1 k!676) (< k!676 (wlen x!675)))) $x3349)))
 ))
 (let (($x3267 (select v_L x!675)))
 (and (and $x3267 (not $x3352)) $x60)))))
 ))
 (= $x3358 $x3335))))
 )
(assert
 (let (($x3368 (forall ((x!679 Word) )(let (($x3363 (exists ((k!680 Int) )(let (($x3332 (select v_L (take k!680 x!679))))
(and (and (and (<= 0 k!680) (< k!680 (wlen x!679)))) $x3332)))
))
(let (($x3267 (select v_L x!679)))
(let (($x3335 (select setcomp!677 x!679)))
(let (($x1146 (and true)))
(=> $x1146 (= $x3335 (and $x3267 (not $x3363)))))))))
))
(not $x3368)))
(check-sat)
