(set-logic ALL)
; benchmark generated from python API
(set-info :status unknown)
(declare-sort Atom 0)
(declare-datatypes ((Word 0)) (((nil) (snoc (init Word) (last Atom)))))
(declare-datatypes ((Tup_atom__atom 0)) (((mk (f0 Atom) (f1 Atom)))))
(declare-fun wlen (Word) Int)
(declare-fun over ((Array Atom Bool) Word) Bool)
(declare-fun isprefix (Word Word) Bool)
(declare-fun app (Word Word) Word)
(declare-fun cons (Atom Word) Word)
(declare-fun at (Word Int) Atom)
(declare-fun take (Int Word) Word)
(declare-fun drop (Int Word) Word)
(declare-fun rev (Word) Word)
(declare-fun Eclo ((Array Tup_atom__atom (Array Atom Bool)) Atom (Array Atom Bool)) (Array Atom Bool))
(declare-fun move ((Array Tup_atom__atom (Array Atom Bool)) (Array Atom Bool) Atom) (Array Atom Bool))
(declare-fun Nhat ((Array Tup_atom__atom (Array Atom Bool)) Atom Atom Word) (Array Atom Bool))
(declare-fun view_tup_atom_atom_set_atom_ ((Array Tup_atom__atom Bool) (Array Tup_atom__atom (Array Atom Bool))) (Array Tup_atom__atom (Array Atom Bool)))
(declare-fun diff_atom ((Array Atom Bool) (Array Atom Bool)) (Array Atom Bool))
(declare-fun union_atom ((Array Atom Bool) (Array Atom Bool)) (Array Atom Bool))
(assert
 (= (wlen nil) 0))
(assert
 (forall ((w Word) (a Atom) )(let ((?x29 (snoc w a)))
 (let ((?x30 (wlen ?x29)))
 (= ?x30 (+ (wlen w) 1)))))
 )
(assert
 (forall ((w Word) )(let ((?x23 (wlen w)))
 (>= ?x23 0)))
 )
(assert
 (forall ((w Word) )(= (= (wlen w) 0) (= w nil)))
 )
(assert
 (forall ((S (Array Atom Bool)) )(over S nil))
 )
(assert
 (forall ((S (Array Atom Bool)) (w Word) (a Atom) )(= (over S (snoc w a)) (and (over S w) (select S a))))
 )
(assert
 (forall ((u Word) (w Word) )(let (($x62 (isprefix u w)))
 (= $x62 (or (= u w) (and (not ((_ is nil ) w)) (isprefix u (init w)))))))
 )
(assert
 (forall ((u Word) (w Word) (S (Array Atom Bool)) )(let (($x52 (over S u)))
 (let (($x53 (over S w)))
 (let (($x65 (and (isprefix u w) $x53)))
 (=> $x65 $x52)))))
 )
(assert
 (forall ((u Word) (w Word) )(let (($x62 (isprefix u w)))
 (=> $x62 (<= (wlen u) (wlen w)))))
 )
(assert
 (forall ((u Word) (w Word) )(let (($x60 (= u w)))
 (let (($x62 (isprefix u w)))
 (let (($x74 (and $x62 (= (wlen u) (wlen w)))))
 (=> $x74 $x60)))))
 )
(assert
 (forall ((w Word) )(isprefix nil w))
 )
(assert
 (forall ((u Word) )(= (app u nil) u))
 )
(assert
 (forall ((u Word) (v Word) (a Atom) )(= (app u (snoc v a)) (snoc (app u v) a)))
 )
(assert
 (forall ((a Atom) (w Word) )(= (cons a w) (app (snoc nil a) w)))
 )
(assert
 (forall ((u Word) (v Word) )(let ((?x94 (wlen (app u v))))
 (= ?x94 (+ (wlen u) (wlen v)))))
 )
(assert
 (forall ((u Word) )(= (app nil u) u))
 )
(assert
 (forall ((w Word) (a Atom) (i Int) )(= (at (snoc w a) i) (ite (= i (wlen w)) a (at w i))))
 )
(assert
 (forall ((k Int) )(= (take k nil) nil))
 )
(assert
 (forall ((k Int) (w Word) (a Atom) )(let ((?x29 (snoc w a)))
 (let ((?x117 (take k ?x29)))
 (= ?x117 (ite (> k (wlen w)) ?x29 (take k w))))))
 )
(assert
 (forall ((k Int) )(= (drop k nil) nil))
 )
(assert
 (forall ((k Int) (w Word) (a Atom) )(let ((?x29 (snoc w a)))
 (let ((?x127 (drop k ?x29)))
 (= ?x127 (ite (> k (wlen w)) nil (snoc (drop k w) a))))))
 )
(assert
 (forall ((k Int) (w Word) )(let (($x133 (= (wlen (take k w)) k)))
 (let (($x135 (>= k 0)))
 (let (($x136 (and $x135 (<= k (wlen w)))))
 (=> $x136 $x133)))))
 )
(assert
 (forall ((k Int) (w Word) )(let (($x135 (>= k 0)))
 (let (($x136 (and $x135 (<= k (wlen w)))))
 (=> $x136 (= (wlen (drop k w)) (- (wlen w) k))))))
 )
(assert
 (forall ((k Int) (w Word) )(let ((?x131 (take k w)))
 (let (($x121 (= ?x131 w)))
 (=> (>= k (wlen w)) $x121))))
 )
(assert
 (forall ((k Int) (w Word) )(let ((?x141 (drop k w)))
 (let (($x120 (= ?x141 w)))
 (let (($x146 (<= k 0)))
 (=> $x146 $x120)))))
 )
(assert
 (forall ((k Int) (w Word) )(= (app (take k w) (drop k w)) w))
 )
(assert
 (forall ((k Int) (w Word) (S (Array Atom Bool)) )(let ((?x114 (take k w)))
 (let (($x152 (over S ?x114)))
 (let (($x53 (over S w)))
 (=> $x53 $x152)))))
 )
(assert
 (forall ((k Int) (w Word) (S (Array Atom Bool)) )(let ((?x124 (drop k w)))
 (let (($x155 (over S ?x124)))
 (let (($x53 (over S w)))
 (=> $x53 $x155)))))
 )
(assert
 (= (rev nil) nil))
(assert
 (forall ((w Word) (a Atom) )(= (rev (snoc w a)) (cons a (rev w))))
 )
(assert
 (forall ((V (Array Tup_atom__atom (Array Atom Bool))) (e Atom) (S (Array Atom Bool)) (x Atom) )(let (($x170 (select (Eclo V e S) x)))
 (let (($x202 (select S x)))
 (=> $x202 $x170))))
 )
(assert
 (forall ((V (Array Tup_atom__atom (Array Atom Bool))) (e Atom) (S (Array Atom Bool)) (x Atom) (y Atom) )(let ((?x208 (Eclo V e S)))
 (let (($x188 (select ?x208 y)))
 (let (($x190 (and (select ?x208 x) (select (select V (mk x e)) y))))
 (=> $x190 $x188)))))
 )
(assert
 (forall ((V (Array Tup_atom__atom (Array Atom Bool))) (S (Array Atom Bool)) (a Atom) (y Atom) )(let (($x257 (exists ((x Atom) )(and (select S x) (select (select V (mk x a)) y)))
 ))
 (= $x257 (select (move V S a) y))))
 )
(assert
 (forall ((V (Array Tup_atom__atom (Array Atom Bool))) (e Atom) (q Atom) )(= (Nhat V e q nil) (Eclo V e (store ((as const (Array Atom Bool)) false) q true))))
 )
(assert
 (forall ((V (Array Tup_atom__atom (Array Atom Bool))) (e Atom) (q Atom) (w Word) (a Atom) )(= (Nhat V e q (snoc w a)) (Eclo V e (move V (Nhat V e q w) a))))
 )
(assert
 (forall ((V (Array Tup_atom__atom (Array Atom Bool))) (e Atom) (S (Array Atom Bool)) (y Atom) )(let (($x170 (select (Eclo V e S) y)))
 (let (($x270 (exists ((x Atom) )(let (($x46 (select S x)))
 (and $x46 (select (Eclo V e (store ((as const (Array Atom Bool)) false) x true)) y))))
 ))
 (= $x270 $x170))))
 )
(assert
 (forall ((V (Array Tup_atom__atom (Array Atom Bool))) (e Atom) (y Atom) )(not (select (Eclo V e ((as const (Array Atom Bool)) false)) y)))
 )
(assert
 (forall ((d (Array Tup_atom__atom Bool)) (v (Array Tup_atom__atom (Array Atom Bool))) (k Tup_atom__atom) )(= (select (view_tup_atom_atom_set_atom_ d v) k) (ite (select d k) (select v k) ((as const (Array Atom Bool)) false))))
 )
(assert
 (forall ((A (Array Atom Bool)) (B (Array Atom Bool)) (x Atom) )(= (select (diff_atom A B) x) (and (select A x) (not (select B x)))))
 )
(assert
 (forall ((A (Array Atom Bool)) (B (Array Atom Bool)) (x Atom) )(= (select (union_atom A B) x) (or (select A x) (select B x))))
 )
(assert
 (not false))
(check-sat)
