"""Demonstrations of the genuine defects found in wiegerw/gambatools at 03a82b5.

Each demo_* function runs the *real* code on one concrete input and returns
(holds: bool, detail: str).  `holds` is True when the property holds on that input,
i.e. False on the pinned tree before the corresponding `fix:` commit and True after it.
Run:  /venv/bin/python /verif/findings/demos.py [name ...]
"""
import io, sys, contextlib


def demo_F1_dfa_minimize_spurious_state():
    from gambatools.dfa import DFA
    from gambatools.dfa_algorithms import dfa_minimize
    D = DFA({'p', 'q'}, {'a'}, {('p', 'a'): 'q', ('q', 'a'): 'p'}, 'p', {'p', 'q'})
    M = dfa_minimize(D)
    return (len(M.Q) == 1 and '{}' not in M.Q, 'Q=%s' % sorted(M.Q))


def demo_F2_dfa_make_total_recursion():
    from gambatools.dfa import DFA
    from gambatools.dfa_algorithms import dfa_make_total, dfa_words_up_to_n
    D = DFA({'p'}, {'a', 'b'}, {('p', 'a'): 'p'}, 'p', {'p'}, check_validity=False)
    try:
        T = dfa_make_total(D)
    except RecursionError:
        return (False, 'RecursionError')
    T._check_validity()
    return (dfa_words_up_to_n(T, 3) == {'', 'a', 'aa', 'aaa'} and ('p', 'b') not in D.delta, 'ok')


def demo_F3_language_no_prefix():
    from gambatools.language_algorithms import language_no_prefix
    r = language_no_prefix({'a', 'ab'})
    r2 = language_no_prefix({'', 'a'})
    return (r == {'a'} and r2 == {''}, '%s %s' % (sorted(r), sorted(r2)))


def demo_F4_cfg_words_up_to_0():
    from gambatools.cfg_algorithms import parse_simple_cfg, cfg_words_up_to_n
    G = parse_simple_cfg('S -> a')
    r = cfg_words_up_to_n(G, 0)
    return (r == set(), str(sorted(r)))


def demo_F5_cfg_derive_word_unary_first():
    from gambatools.cfg_algorithms import parse_simple_cfg, cfg_derive_word
    G = parse_simple_cfg('S -> a | AA\nA -> a | AA')
    try:
        d = cfg_derive_word(G, 'aa', 'leftmost')
    except ValueError as e:
        return (False, 'ValueError: %s' % e)
    return (d[0] == ['S'] and d[-1] == ['a', 'a'], str(d))


def demo_F6_dfa_simulate_word_remaining_input():
    from gambatools.dfa import DFA
    from gambatools.dfa_algorithms import dfa_simulate_word
    D = DFA({'p'}, {'a', 'b'}, {('p', 'a'): 'p', ('p', 'b'): 'p'}, 'p', {'p'})
    r = dfa_simulate_word(D, 'ab')
    return ([w for _, w in r] == ['ab', 'b', ''], str(r))


def demo_F7a_dfa_isomorphic1_not_injective():
    from gambatools.dfa import DFA
    from gambatools.dfa_algorithms import dfa_isomorphic1
    D1 = DFA({'p', 'q', 'r'}, {'a'}, {('p', 'a'): 'q', ('q', 'a'): 'r', ('r', 'a'): 'q'}, 'p', {'p', 'q', 'r'})
    D2 = DFA({'x', 'y'}, {'a'}, {('x', 'a'): 'y', ('y', 'a'): 'y'}, 'x', {'x', 'y'})
    r12, r21 = dfa_isomorphic1(D1, D2), dfa_isomorphic1(D2, D1)
    return (r12 is False and r21 is False, '%s %s' % (r12, r21))


def demo_F7b_dfa_isomorphic_always_false():
    from gambatools.dfa import DFA
    from gambatools.dfa_algorithms import dfa_isomorphic
    D1 = DFA({'p', 'q'}, {'a'}, {('p', 'a'): 'q', ('q', 'a'): 'p'}, 'p', {'p'})
    D2 = DFA({'x', 'y'}, {'a'}, {('x', 'a'): 'y', ('y', 'a'): 'x'}, 'x', {'x'})
    r = dfa_isomorphic(D1, D2)
    return (r is True, str(r))


def demo_F7c_dfa_isomorphic_self_loop_terminates():
    import signal
    from gambatools.dfa import DFA
    from gambatools.dfa_algorithms import dfa_isomorphic
    D1 = DFA({'p'}, {'a'}, {('p', 'a'): 'p'}, 'p', {'p'})
    D2 = DFA({'x'}, {'a'}, {('x', 'a'): 'x'}, 'x', {'x'})
    def on_alarm(*_): raise TimeoutError()
    signal.signal(signal.SIGALRM, on_alarm); signal.alarm(3)
    try:
        r = dfa_isomorphic(D1, D2)
    except TimeoutError:
        return (False, 'does not terminate (3 s)')
    finally:
        signal.alarm(0)
    return (r is True, str(r))


def _nfa_words(N, n):
    from gambatools.nfa_algorithms import nfa_words_up_to_n
    return nfa_words_up_to_n(N, n)


def demo_F8_nfa_union_name_clash():
    from gambatools.nfa_algorithms import parse_nfa, nfa_union
    from gambatools.nfa import NFA
    from collections import defaultdict
    d1 = defaultdict(set); d1['q0', 'a'].add('q1')
    d2 = defaultdict(set); d2['p0', 'b'].add('p1')
    N1 = NFA({'q0', 'q1'}, {'a'}, d1, 'q0', {'q1'}, '')
    N2 = NFA({'p0', 'p1'}, {'b'}, d2, 'p0', {'p1'}, '')
    U = nfa_union(N1, N2)
    fresh = U.q0 not in N1.Q | N2.Q
    return (fresh and _nfa_words(U, 2) == {'a', 'b'}, 'q0=%s words=%s' % (U.q0, sorted(_nfa_words(U, 2))))


def demo_F9_nfa_union_epsilon_symbol():
    from gambatools.nfa_algorithms import parse_nfa, nfa_union, nfa_concatenation, nfa_repetition
    N1 = parse_nfa('states s0 s1\ninitial s0\nfinal s1\ns0 s1 a')
    N2 = parse_nfa('states t0 t1\ninitial t0\nfinal t1\nt0 t1 b')
    try:
        U = nfa_union(N1, N2); C = nfa_concatenation(N1, N2); R = nfa_repetition(N1)
    except AssertionError:
        return (False, 'AssertionError from NFA constructor (epsilon of result is not the operands\' epsilon)')
    ok = _nfa_words(U, 2) == {'a', 'b'} and _nfa_words(C, 2) == {'ab'} and _nfa_words(R, 2) == {'', 'a', 'aa'}
    return (ok, 'ok' if ok else 'wrong language')


def demo_F10_nfa_concatenation_mutates_operand():
    from gambatools.nfa import NFA
    from gambatools.nfa_algorithms import nfa_concatenation, nfa_repetition
    N1 = NFA({'s0', 's1'}, {'a'}, {('s0', 'a'): {'s1'}, ('s1', ''): set(), ('s0', ''): set(), ('s1', 'a'): set()}, 's0', {'s1'}, '')
    N2 = NFA({'t0'}, {'a'}, {('t0', 'a'): set(), ('t0', ''): set()}, 't0', {'t0'}, '')
    before = {k: set(v) for k, v in N1.delta.items()}
    nfa_concatenation(N1, N2)
    after1 = {k: set(v) for k, v in N1.delta.items()}
    try:
        nfa_repetition(N1)
    except AssertionError:
        return (False, 'operand corrupted by nfa_concatenation: before=%s after=%s' % (before, after1))
    after2 = {k: set(v) for k, v in N1.delta.items()}
    return (before == after1 == after2, 'before=%s after=%s' % (before, after2))


def demo_F11_tm_initial_halting_state():
    from gambatools.tm import TM
    from gambatools.tm_algorithms import tm_accepts_word, tm_simulate_word
    T = TM({'acc', 'rej'}, {'a'}, {'a', '_'}, {}, 'acc', 'acc', 'rej', '_')
    try:
        r = tm_accepts_word(T, 'a'); s = tm_simulate_word(T, 'a')
    except RuntimeError as e:
        return (False, 'RuntimeError: %s' % e)
    return (r is True and len(s) == 1, '%s %s' % (r, s))


def demo_F12_pda_to_cfg_nonempty_stack():
    from gambatools.pda_algorithms import parse_pda, pda_to_cfg, pda_accepts_word, pda_to_accept_on_empty_stack, pda_words_up_to_n
    from gambatools.cfg_algorithms import cfg_words_up_to_n
    P = parse_pda('states q0 q1\ninitial q0\nfinal q1\ninput_symbols a\nstack_symbols x\nq0 q1 a,_x')
    assert pda_accepts_word(P, 'a')
    E = pda_to_accept_on_empty_stack(P)
    G = pda_to_cfg(P)
    w1 = pda_words_up_to_n(E, 2); w2 = cfg_words_up_to_n(G, 2)
    return (w1 == {'a'} and w2 == {'a'}, 'empty-stack PDA: %s, grammar: %s' % (sorted(w1), sorted(w2)))


def _stdout(f, *a, **k):
    buf = io.StringIO()
    with contextlib.redirect_stdout(buf):
        f(*a, **k)
    return buf.getvalue().strip()


def demo_F13_check_dfa_complement_always_ok():
    from gambatools.notebook_dfa import check_dfa_complement
    dfa1 = 'states p q\ninitial p\nfinal p\np q a\nq p a'
    wrong = dfa1   # the original itself is not its complement
    out = _stdout(check_dfa_complement, wrong, dfa1)
    return (out != 'OK', out)


def demo_F14_check_cyk_matrix_missing_rows():
    import gambatools.notebook_cfg as nc
    nc.display = lambda *_: None
    out = _stdout(nc.check_cyk_matrix, 'S -> AB\nA -> a\nB -> b', 'ab', '{A}')
    return (not out.startswith('OK'), out)


def demo_F15_epsilon_closure_partial_plain_dict():
    from gambatools.nfa import NFA
    from gambatools.nfa_algorithms import epsilon_closure, nfa_accepts_word, nfa_to_dfa, nfa_words_up_to_n
    N = NFA({'p', 'q'}, {'a'}, {('p', 'a'): {'q'}}, 'p', {'q'}, 'e')
    try:
        c = epsilon_closure(N, 'p'); r = nfa_accepts_word(N, 'a'); D = nfa_to_dfa(N); w = nfa_words_up_to_n(N, 2)
    except KeyError as e:
        return (False, 'KeyError %s' % e)
    return (c == {'p'} and r is True and w == {'a'} and set(N.delta) == {('p', 'a')}, 'ok')


def demo_F16_dfa_to_regexp_state_named_start():
    from gambatools.dfa import DFA
    from gambatools.regexp_algorithms import dfa_to_regexp, regexp_words_up_to_n
    D = DFA({'start', 'accept'}, {'a'}, {('start', 'a'): 'accept', ('accept', 'a'): 'accept'}, 'start', {'accept'})
    try:
        r = dfa_to_regexp(D)
    except AssertionError:
        return (False, 'AssertionError')
    return (regexp_words_up_to_n(r, 3) == {'a', 'aa', 'aaa'}, str(r))


def demo_F18_dfa_reverse_epsilon_in_alphabet():
    from gambatools.dfa import DFA
    from gambatools.dfa_algorithms import dfa_reverse, dfa_no_prefix
    from gambatools.nfa_algorithms import nfa_words_up_to_n
    D = DFA({'p', 'q'}, {'ε'}, {('p', 'ε'): 'q', ('q', 'ε'): 'q'}, 'p', {'q'})
    try:
        R = dfa_reverse(D); P = dfa_no_prefix(D)
    except AssertionError:
        return (False, 'AssertionError')
    return (nfa_words_up_to_n(R, 2) == {'ε', 'εε'} and nfa_words_up_to_n(P, 2) == {'ε'}, 'ok')


def demo_F19_pda_push_pop_dummy_collision():
    from gambatools.pda import PDA
    from gambatools.pda_algorithms import pda_to_push_pop, pda_words_up_to_n, pda_is_push_pop
    P = PDA({'p', 'q'}, {'a'}, {'∅'}, {('p', 'a', ''): {('q', '')}}, 'p', {'q'}, '')
    try:
        Q = pda_to_push_pop(P)
    except AssertionError:
        return (False, 'AssertionError: dummy symbol already in Gamma')
    return (pda_is_push_pop(Q) and pda_words_up_to_n(Q, 2) == {'a'}, 'ok')


def demo_F20_pda_normal_forms_plain_dict():
    from gambatools.pda import PDA
    from gambatools.pda_algorithms import pda_to_accept_on_empty_stack, pda_to_cfg, pda_words_up_to_n
    import copy
    from gambatools.pda_algorithms import pda_to_one_accepting_state_in_place
    P = PDA({'p', 'q'}, {'a'}, {'x'}, {('p', 'a', ''): {('q', 'x')}}, 'p', {'p', 'q'}, '')
    try:
        E = pda_to_accept_on_empty_stack(P); Q = copy.deepcopy(P); pda_to_one_accepting_state_in_place(Q); G = pda_to_cfg(P)
    except KeyError as e:
        return (False, 'KeyError %s' % e)
    return (pda_words_up_to_n(E, 2) == {'', 'a'} and pda_words_up_to_n(Q, 2) == {'', 'a'}, 'ok')


def demo_F21_nfa_simulate_word_epsilon_cycle():
    import signal
    from gambatools.nfa import NFA
    from gambatools.nfa_algorithms import nfa_simulate_word
    from gambatools.pda_algorithms import parse_pda, pda_simulate_word
    N = NFA({'q0', 'q1', 'q2', 'q3', 'q4'}, {'a', 'b'},
            {('q0', '_'): {'q3'}, ('q0', 'a'): {'q4'}, ('q0', 'b'): {'q3'}, ('q1', '_'): {'q1', 'q2'}, ('q1', 'a'): {'q4'}, ('q2', '_'): {'q1', 'q2'}, ('q3', '_'): {'q3'},
             ('q3', 'a'): {'q0'}, ('q4', '_'): {'q1', 'q3'}, ('q4', 'a'): {'q0', 'q2'}, ('q4', 'b'): {'q2'}}, 'q0', {'q2'}, '_')
    def on_alarm(*_): raise TimeoutError()
    signal.signal(signal.SIGALRM, on_alarm); signal.alarm(5)
    try:
        run = nfa_simulate_word(N, 'a')
    except TimeoutError:
        return (False, 'nfa_simulate_word does not terminate (5 s): cyclic back-pointers in nfa_find_epsilon_path')
    finally:
        signal.alarm(0)
    return (run is not None and run[0] == ('q0', 'a') and run[-1] == ('q2', ''), str(run))


def demo_F23_cfg_print_simple_start_variable():
    from gambatools.cfg import CFG, Rule, Alternative, Variable, Terminal
    from gambatools.cfg_algorithms import cfg_print_simple, parse_simple_cfg
    V = {Variable('S'), Variable('A')}; Sg = {Terminal('a'), Terminal('b')}
    R = [Rule(Variable('A'), Alternative([Terminal('a')])), Rule(Variable('S'), Alternative([Variable('A'), Terminal('b')]))]
    G = CFG(V, Sg, R, Variable('S'), Terminal('ε'))
    G2 = parse_simple_cfg(cfg_print_simple(G))
    return (G2.S == G.S, 'start variable after print/parse: %s (was %s); text: %r' % (G2.S, G.S, cfg_print_simple(G)))


def demo_F22_dfa2regexp_digit_symbols():
    from gambatools.dfa import DFA
    from gambatools.dfa_algorithms import print_dfa
    from gambatools.regexp_algorithms import dfa_to_regexp
    from gambatools.regexp import print_regexp_simple
    from gambatools.notebook import check_dfa2regexp
    D = DFA({'p', 'q'}, {'0', '1'}, {('p', '0'): 'p', ('p', '1'): 'q', ('q', '0'): 'q', ('q', '1'): 'q'}, 'p', {'q'})
    out = _stdout(check_dfa2regexp, print_dfa(D), print_regexp_simple(dfa_to_regexp(D)))
    return (out == 'OK', out)


def demo_F17_state_named_like_keyword():
    from gambatools.dfa import DFA
    from gambatools.dfa_algorithms import print_dfa, parse_dfa
    D = DFA({'final', 'q'}, {'a'}, {('final', 'a'): 'q', ('q', 'a'): 'final'}, 'q', {'q'})
    try:
        E = parse_dfa(print_dfa(D))
    except Exception as e:
        return (False, '%s: %s' % (type(e).__name__, e))
    return ((E.Q, E.Sigma, E.delta, E.q0, E.F) == (D.Q, D.Sigma, D.delta, D.q0, D.F), 'ok')


DEMOS = {k[5:]: v for k, v in list(globals().items()) if k.startswith('demo_')}

if __name__ == '__main__':
    names = sys.argv[1:] or sorted(DEMOS)
    bad = 0
    for n in names:
        try:
            ok, detail = DEMOS[n]()
        except Exception as e:
            ok, detail = False, 'EXC %s: %s' % (type(e).__name__, e)
        print('%-50s %s  %s' % (n, 'holds' if ok else 'FAILS', detail[:150]))
        bad += not ok
    sys.exit(1 if bad else 0)
